"""C18 - signals: delivered at once when unblocked, deferred exactly once while blocked.

Case:  nops op...  nans ans...  decision...      (see harness/h_c18.cpp, coq/C18/Model.v)
  op 1 = blockSignals, 2 = unblockSignals(false), 3 = unblockSignals(true), 4 = shutdown(false)
  ans: callback answers in invocation order (1 continue, 0 stop; continue when exhausted)
  decision: one per scheduling point (before every atomic step of the running activation):
            0 = the step executes, s != 0 = signal s arrives (processSignal(s) called synchronously there).
Observation: "k blocked_ pending_" at every scheduling point (k = step that follows), "30 s" arrival,
  "20 s" callback entry, "21 a" callback exit; k = 0 is the idle main flow (last record = final state).

OS-level cases:  -m mask  nops op...  nans ans...  [n1]  decision...     (negative first number)
  the schedule runs inside a real Application::main(); an arrival is raise(SIGINT/SIGTERM/SIGUSR1 for s = 1/2/3) through the
  handlers main() installed (signal mask cleared first: the disposition alone decides).  m = 1 first main(), m = 2 second
  main() after an empty first run, m = 3 first main() with the first n1 decisions then a second main() (same flow) with the
  rest; mask bit s-1 = signal s was SIG_IGN before the first main().  Extra records: "40 d1 d2 d3" (dispositions: 0 default,
  1 Application::sigHandler, 2 ignored, 3 other) after every "k blocked_ pending_"; after "30 s": "31 s" discarded by the OS,
  "32 s" not a registered signal, "33 s" no handler installed (not raised); "41 d1 d2 d3" after main() returned.
  Further ops (OS-level only): 5 = construct another application object, 6 = destroy the most recent other object, 7 = copy the
  running object and drop the copy (scheduling-point codes 11 / 12 / 13).  The "40"/"41" records carry a 4th value
  r = Application::getInstance() (0 null, 1 the running object, 2 another object); "34 s" after "30 s" = handler installed but the
  running object is not registered (not raised); "42 r" after the application object was destroyed.
  SIGALRM is signal 4 (not in getSignals()): op 8 = setAlarm(n > 0) (code 14), op 9 = setAlarm(0) (code 15); mask bit 3 = SIGALRM
  ignored by the environment, mask bit 4 (16) = main() is run with --time-limit (it calls setAlarm itself); an expiring alarm is
  raise(SIGALRM) at a scheduling point; "40"/"41" records: d1 d2 d3 d4 r.  Answer codes in OS-level cases: 0 stop, 2 = the callback
  first calls setAlarm(n > 0) and continues, 3 = calls setAlarm and stops, 4 = the callback first calls blockSignals() and leaves that
  block to the main flow to release (NOT in the Coq model: oracle only, see obs_equal), 5 = the callback calls blockSignals();
  unblockSignals(true) (balanced), anything else continue.
  op 10 (OS-level only, ends the flow) = run() throws after the scheduling point "7 ..": main() catches and calls shutdown(true) =
  fetch_and_inc(blocked_); killAlarm(); onUnhandledException() [an override that returns: scheduling-point code 16 = the error report is
  running, arrivals can be scheduled there; its step = it returns]; shutdown() [prints the final record "0 .."].

The oracle re-does the ghost accounting of the property on the implementation's trace alone (python, independent of
the Coq model): every arrival is a token; where it is (own activation / slot / deferred activation / fate) is
followed through the observed values of blocked_ and pending_ and the observed callback invocations.  For OS-level cases
it additionally follows which sigHandler activations are in progress and judges the observed dispositions and the
arrivals the OS discarded against that.
"""
import random

PID = 'C18'
HARNESS = 'h_c18'
MODEL_MODULE = 'V.C18.Disp'
READY = True
ALLOWED_AXIOMS = []
RULE = ('cases = (main flow over block/unblock(false)/unblock(true)/shutdown with never more unblocks than blocks in a prefix, '
        'callback answers, schedule = one decision per atomic step: step or arrival of signal s); two families: DIRECT (an arrival is a '
        'synchronous processSignal(s) call at the yield point; covers re-entry of the same number) and OS-LEVEL (negative first number: the '
        'schedule runs inside a real Application::main() and an arrival is raise(SIGINT/SIGTERM/SIGUSR1) through the handlers main() '
        'installed, mask cleared; dispositions printed at every scheduling point; first main() / second main() / two runs on one object; '
        'optionally some numbers ignored by the environment before main(); OS-LEVEL flows may also construct / destroy another Application '
        'object and copy-and-drop the running one, and Application::getInstance() is printed at every scheduling point and after the '
        'destruction of the application object; SIGALRM (not a getSignals() number) through setAlarm(n>0) / setAlarm(0) operations of the '
        'flow, main() with --time-limit, callbacks that call setAlarm first, SIGALRM ignored by the environment or not, the alarm expiring = '
        'raise(SIGALRM) at a scheduling point; the run ending with an exception: flow op "run() throws" - main() catches and calls shutdown(true), whose '
        'onUnhandledException() is overridden by a version that returns and yields to the scheduler (code 16): arrivals are scheduled before the increment, '
        'INSIDE the error report and after it). quick = enumeration (depth-first over a python step simulator) '
        'of all DIRECT schedules with <= 3 operations and <= 3 arrivals, and <= 4 operations and <= 2 arrivals, of signal numbers {1,2} with '
        'both callback answers; all OS-LEVEL schedules (first main()) with <= 3 operations and <= 3 arrivals and <= 4 / <= 2 of {1,2}, <= 2/2 inside a second '
        'main() and with number 1 environment-ignored, and two-run cases (every <= 2 ops / <= 2 arrivals first run x every single arrival '
        'in the second), all OS-LEVEL flows with <= 3 operations over {block, unblock(true), construct-other, destroy-other, copy-and-drop} '
        'containing an object operation with <= 2 arrivals (<= 2/2 inside a second main()), all OS-LEVEL flows with <= 3 operations over '
        '{block, unblock(true), setAlarm} with <= 2 arrivals of {SIGALRM, 1} and callbacks that continue or re-arm, with SIGALRM '
        'environment-ignored or not (<= 2 ops with --time-limit, <= 2 ops inside a second main()), all OS-LEVEL flows of <= 2 operations over {block, unblock(true)} followed by '
        'the throwing op with <= 3 arrivals (<= 3 operations / <= 2 arrivals; <= 1/2 inside a second main(); <= 1/2 of {SIGALRM, 1} with --time-limit, SIGALRM environment-ignored or not); plus fixed regression shapes, a targeted OS-level stream (arrival while the application holds a block or a '
        'callback runs, release, later arrival of the same and of another number, stop answers, second main(); half of it with other-object '
        'construct / destroy / copy operations before and between the arrivals, a third of it about the alarm: SIGALRM environment-ignored x '
        'setAlarm in the flow / time limit x first / second run x raise(SIGALRM) later, re-arming answers) and random long schedules '
        '(thorough: DIRECT <= 5 ops / 3 arrivals, <= 3 ops / 4 arrivals, 3 numbers; OS-LEVEL <= 4 ops / 3 arrivals, <= 3 ops / 4 arrivals, '
        '3 numbers); OS-LEVEL callbacks that call blockSignals() themselves and leave the release to the main flow (answer 4: part of the Coq model - Model.cb_block / Disp.cstep - and compared with it like every other case) - all flows of <= 3 operations well nested from depth 1 with <= 2 further arrivals, plus random; non-trivial = at least one arrival; distinct = distinct case tuples')
TRUSTED_BASE = ['__sync_fetch_and_add/sub/and are atomic with respect to signal handlers (one atomic step each)',
                'signal handlers nest LIFO on the delivering thread; a synchronous call of processSignal at a yield point is what an '
                'interrupting handler does there (verif hook d9db889: POTASSCO_VERIF_YIELD between the atomic steps)',
                'OS-level cases: raise() delivers synchronously on the calling thread; the harness clears the signal mask before every '
                'raise, so the OS calls the handler iff the disposition is the handler and discards the signal iff it is SIG_IGN '
                '(the no-mask semantics of Windows / System V signal() that sigHandler is written for; under the BSD semantics of '
                'glibc signal() the kernel would additionally hold a same-number arrival pending until its handler returns); '
                'sigaction(sig, 0, &old) reports the disposition; the two signal() calls of sigHandler have no yield point, so the '
                'correspondence never interrupts sigHandler between its entry and signal(sig,SIG_IGN) or between the return of '
                'processSignal and signal(sig,sigHandler) (the theorems do quantify over such interruptions); the harness does not raise a '
                'signal whose handler is installed while Application::getInstance() is not the running object (record 34: sigHandler would '
                'call processSignal through that pointer and crash the harness) - the oracle reports it from the printed flag instead',
                'the alarm: an expiring timer is realised as raise(SIGALRM) at a scheduling point (setAlarm arms a real alarm(3600) that is '
                'cancelled at the end of every case and never fires); whether an alarm is armed at all is not modelled (a SIGALRM may reach '
                'the process at any time); the seed scenario "second thread takes the alarm while the first is in its handler" is the '
                'one-thread, no-mask reading here: the second alarm re-enters sigHandler on the same thread',
                'props/C18.py oracle (ghost accounting and handler-in-progress tracking re-done on the implementation trace) and its '
                'schedule enumerator',
                'callback-taken blocks: the harness callback of answer 4 calls blockSignals() right after it has been entered (before the yield '
                'point inside the callback); the model executes cb_block in the same step that enters the callback (Disp.cstep), so both print '
                'blocked_ = 2 at the scheduling point inside the callback; a callback that blocks later, or several times, is covered by the '
                'theorems (reach_cbb) but not exercised by the harness']
ASSUMPTIONS = ['main flow well nested relative to the blocks the application HOLDS (its own and those a callback took and left to it): never an '
               'unblockSignals without a block held.  In the theorems: the initial plan of the main flow is well nested from 0 (bal 0 o) and the flow '
               'may re-plan at any operation boundary with a continuation that is well nested from the blocks held then (Proofs.reach_ops / '
               'ProofsDisp.oreach_flow) - this is how a main flow that releases a callback-taken block is covered',
               'MODEL: the callback onSignal may call blockSignals() itself, any number of times, in any callback, and leave the release to the main '
               'flow (Model.cb_block, a transition of Proofs.reach; OS-level answer 4 = one such call right after the callback is entered, executed '
               'by Disp.cstep and compared with the implementation like every other case - obs_equal is plain equality); its answer is data; it may '
               're-arm the alarm; a balanced block/unblock pair inside the callback - answer 5 - is invisible to the model; a callback that calls '
               'unblockSignals() without a matching block of its own is outside the model',
               'answer-4 traces (fixed flow not well nested from 0: it releases callback-taken blocks): machine-checked '
               '(c18_os_case_reachable_cb / c18_os_run_reachable_cb / c18_run_reachable_cb, ProofsRunCb.v) that every state a decoded OS-level case '
               'passes through is, with the ghost plan emptied (ops of the core, oflow of the registry - nothing else), a state of an oreach / reach '
               'history that re-plans to each main-flow operation when it is executed - PROVIDED wn_case: every operation the main flow executes is '
               'legal at the depth held then (an unblockSignals finds a block of the main flow or a callback-taken one); "bal k at the first '
               'main-flow operation after k callback-taken blocks" implies it (c18_os_bal_k_is_well_nested). Cases that violate wn_case (a release '
               'without a block) are outside every theorem, as before',
               'the Windows alarm thread (a second thread calling processSignal) is outside the model',
               'when arrivals interrupt one another between the test and the write of pending_, the later write wins '
               '(the property text allows "the first" only for non-interrupting arrivals); after a callback answered stop '
               'signals stay blocked for good and a deferred delivery may be re-queued or discarded',
               'OS level: the disposition alone decides what the OS does with an arrival (no signal mask, no SA_RESETHAND); an arrival of a '
               'registered number whose disposition is still the default action is outside the model (it cannot happen once main() has '
               'installed: c18_os_dispositions); signals that arrive between two runs of main() are outside the property (no running '
               'application object); after a stop answer the oracle does not judge dispositions / discarded arrivals for the rest of that run '
               '(the model does, through the correspondence)',
               'instance registration: the other Application objects of a flow never call main() themselves (a nested main() of another '
               'object would take over the singleton instance_s by design: "running instance (only valid during run())"); after the '
               'the callback answer is opaque except for one effect: it may call setAlarm(n > 0) as its first action (answer codes 2 / 3); '
               'killAlarm / setAlarm(0) only cancel the timer (no effect on dispositions or the application object); after the '
               'shutdown(true): the onUnhandledException() override returns and does not itself call block/unblockSignals (the default one exits the process: '
               'nothing to observe); the throwing operation ends the flow; killAlarm inside shutdown(bool) has no scheduling point of its own; after the '
               'application object is destroyed its handlers are still installed and an arrival would call through a null pointer '
               '(ex_os_arrival_after_destruction) - outside the property (no running application object), the harness resets the dispositions first']

# codes: 1 inc 2 cb-enter 3 cb-exit 4 test 5 write 6 dec | 7 block 8 unblock-dec 9 take 10 clear | 0 idle


# ------------------------------------------------------------------------------------------------
# case encoding
# ------------------------------------------------------------------------------------------------
def enc(ops, answers, decisions):
    d = list(decisions)
    while d and d[-1] == 0:
        d.pop()
    return [len(ops)] + list(ops) + [len(answers)] + list(answers) + d


def decode(c):
    if not c:
        return [], [], []
    n = max(c[0], 0)
    ops = c[1:1 + n]
    r = c[1 + n:]
    m = max(r[0], 0) if r else 0
    ans = r[1:1 + m]
    return list(ops), list(ans), list(r[1 + m:])


def is_os(c):
    return bool(c) and c[0] < 0


def enc_os(m, mask, ops, answers, ds1, ds2=None):
    """m = 1, 2: ds1 is the schedule; m = 3: ds1 for the first main(), ds2 for the second"""
    d1 = list(ds1)
    while d1 and d1[-1] == 0:
        d1.pop()
    head = [-m, mask, len(ops)] + list(ops) + [len(answers)] + list(answers)
    if m != 3:
        return head + d1
    d2 = list(ds2 or [])
    while d2 and d2[-1] == 0:
        d2.pop()
    return head + [len(d1)] + d1 + d2


def decode_os(c):
    """-> (m, mask, ops, ans, ds1, ds2) or None if the harness/model answer -3"""
    if len(c) < 3 or c[0] < -3:
        return None
    m, mask = -c[0], c[1]
    ops, ans, ds = decode(c[2:])
    if m != 3:
        return m, mask, ops, ans, ds, []
    n1 = max(ds[0], 0) if ds else 0
    return m, mask, ops, ans, ds[1:1 + n1], ds[1 + n1:]


def pre_of(mask):
    return set(i for i in (1, 2, 3, 4) if (mask >> (i - 1)) & 1)


def tl_of(mask):
    """main() is run with a time limit (it calls setAlarm itself)"""
    return bool((mask >> 4) & 1)


OPN = {1: 'Block', 2: 'Unblock(false)', 3: 'Unblock(true)', 4: 'Shutdown', 5: 'NewOtherApp', 6: 'DeleteOtherApp', 7: 'CopyAndDropSelf',
       8: 'setAlarm(n>0)', 9: 'setAlarm(0)', 10: 'run()-throws:shutdown(true)+error-report-that-returns'}
ANSN = {0: 'stop', 2: 'setAlarm-then-continue', 3: 'setAlarm-then-stop', 4: 'blockSignals-inside-callback-then-continue',
        5: 'block+unblock(true)-inside-callback-then-continue'}
OSM = {1: 'first main()', 2: 'second main() after an empty run', 3: 'first main() then second main() with the same flow'}


def describe(c):
    if is_os(c):
        t = decode_os(c)
        if t is None:
            return 'malformed OS-level case %s' % c
        m, mask, ops, ans, d1, d2 = t
        return ('OS-level (raise through the handlers installed by main(); 4 = SIGALRM): %s%s; ignored before main()=%s flow=[%s] answers=%s '
                'decisions=%s%s' % (OSM[m], ' with --time-limit' if tl_of(mask) else '', sorted(pre_of(mask)),
                                    ', '.join(OPN.get(o, '?%d' % o) for o in ops),
                                    [ANSN.get(a, 'continue') for a in ans], d1, (' second run decisions=%s' % d2) if m == 3 else ''))
    ops, ans, ds = decode(c)
    arr = ['#%d:sig%d' % (i, d) for i, d in enumerate(ds) if d != 0]
    return 'flow=[%s] answers=%s arrivals(at scheduling point)=[%s] decisions=%s' % (
        ', '.join(OPN.get(o, '?%d' % o) for o in ops), ['continue' if a else 'stop' for a in ans], ', '.join(arr), ds)


# ------------------------------------------------------------------------------------------------
# step simulator used ONLY to enumerate schedules (which scheduling points exist depends on the run)
# state: (blocked, pending, mpc, ops, stack, nans)   stack: tuple of (sig, pc, deferred), top first
# ------------------------------------------------------------------------------------------------
def sim_code(st):
    b, p, mpc, ops, stack = st
    if stack:
        return stack[0][1]
    if mpc:
        return 9
    if not ops:
        return 0
    if ops[0] in (5, 6, 7, 8, 9):
        return 6 + ops[0]       # 11 / 12 / 13: construct / destroy another application object, copy-and-drop; 14 / 15: setAlarm(n) / setAlarm(0) (OS-level flows only)
    if ops[0] == 16:
        return 16               # the error report of shutdown(true) is running (OS-level flows only)
    return 7 if ops[0] in (1, 4, 10) else 8


def sim_step(st, ans):
    """one atomic step (decision 0); ans = answer used if this is a callback exit"""
    b, p, mpc, ops, stack = st
    if stack:
        (s, pc, df), rest = stack[0], stack[1:]
        if pc == 1:
            return (b + 1, p, mpc, ops, ((s, 2 if b == 0 else 4, df),) + rest)
        if pc == 2:
            return (b, p, mpc, ops, ((s, 3, df),) + rest)
        if pc == 3:
            if ans:
                return (b, p, mpc, ops, ((s, 6, df),) + rest)
            return (b, p, mpc, ops, rest)
        if pc == 4:
            return (b, p, mpc, ops, ((s, 5 if p == 0 else 6, df),) + rest)
        if pc == 5:
            return (b, s, mpc, ops, ((s, 6, df),) + rest)
        return (b - 1, p, mpc, ops, rest)
    if mpc:
        dl = mpc == 2
        if p != 0 and dl:
            return (b, 0, 0, ops, ((p, 1, True),))
        return (b, 0, 0, ops, ())
    o = ops[0]
    if o in (5, 6, 7, 8, 9):
        return (b, p, 0, ops[1:], ())
    if o == 10:
        return (b + 1, p, 0, (16,), ())     # shutdown(true): the increment; the error report follows and nothing of the flow after it
    if o == 16:
        return (b, p, 0, (), ())            # the report returns
    if o in (1, 4):
        return (b + 1, p, 0, ops[1:], ())
    return (b - 1, p, (2 if o == 3 else 1) if b == 1 else 0, ops[1:], ())


def in_progress(st):
    """signal numbers of the sigHandler activations in progress (OS-level modes: every non-deferred activation)"""
    return set(f[0] for f in st[4] if not f[2])


def d4_boot(pre, tl):
    """disposition of SIGALRM (0 default, 1 handler, 2 ignored) when a run of the first main() starts"""
    return 1 if tl else (2 if 4 in pre else 0)


def os_accepts(st, d4, s, pre):
    """does an OS-level arrival of s start a handler (else: discarded / not raised / not a signal of the application)"""
    if s in (1, 2, 3):
        return s not in pre and s not in in_progress(st)
    return s == 4 and d4 == 1


def os_sim_step(st, d4, code):
    """one step (decision 0) of an OS-level run; code = answer code of the callback being entered / left -> (st', d4')"""
    k = sim_code(st)
    top = st[4][0] if st[4] else None
    if k == 14 or (k == 2 and code in (2, 3)):
        d4 = 1                                  # setAlarm(n > 0): handler installed whatever was there
    st2 = sim_step(st, code not in (0, 3))
    if k == 2 and code == 4:
        st2 = (st2[0] + 1,) + tuple(st2[1:])    # the callback calls blockSignals() and does not release it
    if top is not None and len(st2[4]) < len(st[4]) and top[0] == 4 and not top[2]:
        d4 = 1                                  # ~ScopedSig of a SIGALRM activation
    return st2, d4


def enumerate_schedules(ops, max_arr, sigs, answers_free=True, limit=None, os_pre=None, d4=0, codes=None, start=None):
    """all (answers, decisions) of complete runs of the flow with at most max_arr arrivals;
    os_pre = set of numbers ignored before main(): OS-level arrivals (an arrival of a number that is ignored - before main()
    or because its handler is in progress - is discarded and changes nothing); d4 = initial disposition of SIGALRM;
    codes = answer codes to choose from when a callback is ENTERED (2 / 3 re-arm the alarm), default: 1 / 0 chosen at its exit"""
    out = []
    ops = tuple(ops)

    def dfs(st, left, ds, ans, d4, cur):
        if limit is not None and len(out) >= limit:
            return
        k = sim_code(st)
        if left > 0:
            for s in sigs:
                b, p, mpc, o, stack = st
                if os_pre is not None and not os_accepts(st, d4, s, os_pre):
                    dfs(st, left - 1, ds + [s], ans, d4, cur)
                else:
                    dfs((b, p, mpc, o, ((s, 1, False),) + stack), left - 1, ds + [s], ans, 2 if (os_pre is not None and s == 4) else d4, cur)
        if k == 0:
            out.append((list(ans), list(ds)))
            return
        if codes is not None and k == 2:
            for c_ in codes:
                st2, e4 = os_sim_step(st, d4, c_)
                dfs(st2, left, ds + [0], ans, e4, c_)
        elif codes is not None and k == 3:
            st2, e4 = os_sim_step(st, d4, cur)
            dfs(st2, left, ds + [0], ans + [cur], e4, None)
        elif k == 3:
            for a_ in ((1, 0) if answers_free else (1,)):
                st2, e4 = os_sim_step(st, d4, a_)
                dfs(st2, left, ds + [0], ans + [a_], e4, None)
        else:
            st2, e4 = os_sim_step(st, d4, 1)
            dfs(st2, left, ds + [0], ans, e4, cur)
    if start is not None:       # (state, decisions so far, answers so far)
        dfs(start[0], max_arr, list(start[1]), list(start[2]), d4, None)
    else:
        dfs((0, 0, 0, ops, ()), max_arr, [], [], d4, None)
    return out


def complete(ops, ds, ans, os_pre=None, d4=0, ret_d4=False):
    """decisions ds followed by as many 0 as the run needs to become idle (answer codes: ans, then continue)"""
    st = (0, 0, 0, tuple(ops), ())
    ai = 0
    out = []
    i = 0
    while True:
        d = ds[i] if i < len(ds) else 0
        k = sim_code(st)
        if d == 0 and k == 0:
            return (out, d4) if ret_d4 else out     # the run ends at the idle point (later decisions are never consumed)
        i += 1
        out.append(d)
        if d != 0:
            b, p, mpc, o, stack = st
            if os_pre is not None and not os_accepts(st, d4, d, os_pre):
                continue
            st = (b, p, mpc, o, ((d, 1, False),) + stack)
            if os_pre is not None and d == 4:
                d4 = 2
            continue
        code = (ans[ai] if ai < len(ans) else 1) if k in (2, 3) else 1
        if k == 3:
            ai += 1
        st, d4 = os_sim_step(st, d4, code)


def flows(maxlen, alphabet=(1, 2, 3)):
    res = [[]]
    frontier = [([], 0)]
    for _ in range(maxlen):
        nf = []
        for f, d in frontier:
            for o in alphabet:
                if o == 10:
                    res.append(f + [o])          # the run ends here: never extended
                elif o in (1, 4):
                    nf.append((f + [o], d + 1))
                elif o in (5, 6, 7, 8, 9):
                    nf.append((f + [o], d))
                elif d > 0:
                    nf.append((f + [o], d - 1))
        res += [f for f, _ in nf]
        frontier = nf
    return res


# ------------------------------------------------------------------------------------------------
# oracle: ghost accounting on the implementation's trace
# ------------------------------------------------------------------------------------------------
def parse(obs):
    ev = []
    i = 0
    n = len(obs)
    while i < n:
        k = obs[i]
        if 0 <= k <= 16 and i + 2 <= n - 1:
            ev.append(('R', k, obs[i + 1], obs[i + 2]))
            i += 3
        elif k in (20, 21, 30) and i + 1 <= n - 1:
            ev.append(({20: 'CB', 21: 'CE', 30: 'AR'}[k], obs[i + 1]))
            i += 2
        else:
            return None
    return ev


def account(c, obs):
    """returns (signatures, stats)"""
    if is_os(c):
        return account_os(c, obs)
    ops, _, _ = decode(c)
    return account_ops(ops, obs)


def account_ops(ops, obs, codes=None):
    """codes = answer codes of the callbacks of this trace in invocation order (OS-level cases): 4 = the callback takes a block
    that only the main flow releases"""
    cbi = 0
    ops = [o for o in ops if o in (1, 2, 3, 4, 10)]
    if 10 in ops:
        ops = ops[:ops.index(10) + 1]       # run() throws there: the rest of the flow is never executed
    ev = parse(obs)
    sigs = []
    stats = {'arrivals': 0, 'delivered': 0, 'deferred': 0, 'remembered': 0, 'discarded': 0, 'dropped': 0, 'overwritten': 0, 'stops': 0, 'in_report': 0}

    def bad(s):
        if s not in sigs:
            sigs.append(s)
    if ev is None or not ev or ev[-1][0] != 'R' or ev[-1][1] != 0:
        return ['trace-malformed'], stats
    stack = []          # activations, top last: dict(sig,id,deferred,r)
    arrs = []           # signal number per arrival id
    fate = {}           # id -> list of fates
    slot = None         # id of the arrival whose number is in pending_
    read = None         # old code: (value, id) read by the take before the clear
    depth = 0
    stops = 0
    cb_active = 0
    opi = 0
    deliver = False
    shut = False        # shutdown(bool) has started and the run ends with it: delivery is blocked for good from its first statement on
    in_report = False   # the error report of shutdown(true) (onUnhandledException) is running

    def setfate(i, f):
        fate.setdefault(i, []).append(f)
    n = len(ev)
    i = 0
    while i < n:
        e = ev[i]
        if e[0] != 'R':
            return ['trace-malformed'], stats
        _, k, b, p = e
        nxt = ev[i + 1] if i + 1 < n else None
        top = stack[-1] if stack else None
        # which scheduling point must this be?
        exp_k = top['pc'] if top else (9 if read == 'take' else (10 if isinstance(read, tuple) else None))
        if exp_k is not None and k != exp_k:
            bad('unexpected-step:%d-instead-of-%d' % (k, exp_k))
            return sigs, stats
        if k == 16 and not stack:
            in_report = True
        if nxt is not None and nxt[0] == 'AR':
            stack.append({'sig': nxt[1], 'id': len(arrs), 'deferred': False, 'r': None, 'pc': 1})
            arrs.append(nxt[1])
            stats['arrivals'] += 1
            if in_report:
                stats['in_report'] += 1
            i += 2
            continue
        if k == 0:
            if i != n - 1:
                bad('trace-malformed')
            break
        # the step k executes; find the next record (skipping the callback event it may print)
        j = i + 1
        cbev = None
        if nxt is not None and nxt[0] in ('CB', 'CE'):
            cbev = nxt
            j = i + 2
        if j >= n or ev[j][0] != 'R':
            return ['trace-malformed'], stats
        _, k2, b2, p2 = ev[j]
        exp_b, exp_p = b, p
        if k in (1, 2, 3, 4, 5, 6) and top is None:
            bad('unexpected-step:%d-without-activation' % k)
            return sigs, stats
        if k == 1:
            top['r'] = b
            exp_b = b + 1
            if b == 0:
                top['pc'] = 2
                if k2 != 2:
                    bad('unblocked-arrival-not-delivered-at-once')
            else:
                top['pc'] = 4
                if k2 == 2:
                    bad('callback-while-blocked')
                    top['pc'] = 2
                if top['deferred'] and stops == 0:
                    bad('deferred-delivery-found-blocked')
        elif k == 2:
            if cbev is None or cbev[0] != 'CB':
                bad('callback-entry-missing')
                return sigs, stats
            if cbev[1] != top['sig']:
                bad('callback-with-wrong-signal-number')
            if in_report:
                bad('callback-during-shutdown-error-report')      # shutdown(true) blocks delivery BEFORE it reports the error
            elif shut:
                bad('callback-during-shutdown')
            if depth != 0:
                bad('callback-while-application-holds-a-block')
            if cb_active != 0:
                bad('callback-while-another-callback-is-active')
            if stops != 0:
                bad('callback-after-stop')
            if b != 1:
                bad('callback-with-nesting-count-%d' % b)
            code_ = codes[cbi] if codes is not None and cbi < len(codes) else 1
            cbi += 1
            if code_ == 4:              # blockSignals() inside the callback: the application now holds a block
                exp_b = b + 1
                depth += 1
                top['cbb'] = top.get('cbb', 0) + 1
            setfate(top['id'], 'delivered')
            stats['delivered'] += 1
            if top['deferred']:
                stats['deferred'] += 1
            cb_active += 1
            top['pc'] = 3
        elif k == 3:
            if cbev is None or cbev[0] != 'CE':
                bad('callback-exit-missing')
                return sigs, stats
            cb_active -= 1
            if cbev[1] == 0:
                stops += 1
                stats['stops'] += 1
                stack.pop()
            else:
                top['pc'] = 6
                if k2 != 6:
                    bad('nesting-count-not-restored')   # returned after a continue without the decrement
                    stack.pop()
        elif k == 4:
            if p == 0:
                top['pc'] = 5
                if k2 != 5:
                    bad('empty-slot-but-signal-not-remembered')
                    top['pc'] = k2
            else:
                top['pc'] = 6
                if k2 == 5:
                    bad('occupied-slot-overwritten')
                    top['pc'] = 5
                else:
                    setfate(top['id'], 'stoplost' if top['deferred'] else 'discarded')
                    stats['discarded'] += 1
        elif k == 5:
            exp_p = top['sig']
            if slot is not None:
                setfate(slot, 'overwritten')   # only possible when arrivals interrupted one another (p was 0 at the test)
                stats['overwritten'] += 1
            slot = top['id']
            stats['remembered'] += 1
            top['pc'] = 6
        elif k == 6:
            exp_b = b - 1
            if top['r'] is not None and b2 != top['r'] + top.get('cbb', 0):
                bad('nesting-count-not-restored')       # previous value + the blocks the callback itself took and left to the main flow
            stack.pop()
        elif k == 7:
            exp_b = b + 1
            depth += 1
            if opi < len(ops) and (ops[opi] == 10 or (ops[opi] == 4 and opi == len(ops) - 1)):
                shut = True                 # the run ends with this shutdown: nothing releases its block
                if ops[opi] == 10 and k2 == 16 and b2 == b:
                    bad('shutdown-error-report-runs-with-delivery-not-blocked')    # onUnhandledException entered before fetch_and_inc(blocked_)
            opi += 1
        elif k == 16:
            in_report = False               # the report returns
        elif k == 8:
            exp_b = b - 1
            depth -= 1
            deliver = opi < len(ops) and ops[opi] == 3
            opi += 1
            if depth < 0:
                bad('flow-not-well-nested')
                return sigs, stats
            if k2 == 9:
                read = 'take'
                if depth != 0:
                    bad('take-at-inner-release')
            elif depth == 0 and stops == 0:
                bad('no-take-at-outermost-release')
        elif k == 9:
            if k2 == 10:
                read = (p, slot)      # old code: read now, clear later
            else:
                read = None
                exp_p = 0
                tok, slot = slot, None
                handover(tok, p, deliver, ev, j, stack, setfate, stats, bad)
        elif k == 10:
            exp_p = 0
            val, tok = read
            read = None
            if slot is not None and slot != tok:
                setfate(slot, 'lost')
                bad('lost:queued-signal-cleared-by-unblock')
            slot = None
            handover(tok, val, deliver, ev, j, stack, setfate, stats, bad)
        if b2 != exp_b:
            bad('blocked-changed-unexpectedly')
        if p2 != exp_p:
            bad('pending-changed-unexpectedly')
            if p2 == 0:
                slot = None
        i = j
    # final accounting: exactly one place per arrival
    for a in range(len(arrs)):
        fs = fate.get(a, [])
        places = len(fs) + (1 if slot == a else 0)
        if fs.count('delivered') > 1:
            bad('delivered-twice')
        if places == 0:
            bad('lost:arrival-without-fate')
        elif places > 1:
            bad('arrival-with-two-fates')
    if stack:
        bad('activation-never-finished')
    return sigs, stats


def handover(tok, val, deliver, ev, j, stack, setfate, stats, bad):
    """after the take: the remembered signal goes to the nested processSignal or is dropped"""
    nk = ev[j][1]
    starts = nk == 1 and not stack   # a record k=1 without an arrival event = the nested call
    if tok is not None and val != 0:
        if deliver:
            if starts:
                stack.append({'sig': val, 'id': tok, 'deferred': True, 'r': None, 'pc': 1})
            else:
                bad('remembered-signal-not-delivered-at-release')
        else:
            if starts:
                bad('dropped-signal-delivered')
                stack.append({'sig': val, 'id': tok, 'deferred': True, 'r': None, 'pc': 1})
            else:
                setfate(tok, 'dropped')
                stats['dropped'] += 1
    elif starts:
        bad('delivery-without-remembered-signal')
        stack.append({'sig': val, 'id': -1, 'deferred': True, 'r': None, 'pc': 1})


# ------------------------------------------------------------------------------------------------
# OS-level cases: dispositions and discarded arrivals, judged from the implementation's trace alone
# ------------------------------------------------------------------------------------------------
def parse_os(obs):
    """-> list of runs; a run = (events, dispositions after main() returned); None if malformed"""
    runs = []
    ev = []
    i, n = 0, len(obs)
    while i < n:
        k = obs[i]
        if 0 <= k <= 16 and i + 8 < n and obs[i + 3] == 40:
            ev.append(('R', k, obs[i + 1], obs[i + 2], tuple(obs[i + 4:i + 8]), obs[i + 8]))
            i += 9
        elif k in (20, 21, 30) and i + 1 < n:
            ev.append(({20: 'CB', 21: 'CE', 30: 'AR'}[k], obs[i + 1]))
            i += 2
        elif k in (31, 32, 33, 34) and i + 1 < n:
            ev.append(('NOTE', k, obs[i + 1]))
            i += 2
        elif k == 41 and i + 5 < n:
            runs.append((ev, tuple(obs[i + 1:i + 6])))
            ev = []
            i += 6
        elif k == 42 and i + 2 == n and not ev and runs:
            runs.append(('destroyed', obs[i + 1]))
            i += 2
        else:
            return None
    if ev:
        return None
    return runs


def os_pass(ev, pre, ever, bad, stats, al):
    """follows the sigHandler activations in progress through one run and judges dispositions / discarded arrivals;
    returns the trace without the OS-level records (for the ghost accounting), or None"""
    plain = []
    stk = []            # activations in progress, top last: signal id, or None for the nested call of unblockSignals
    stops = 0           # callbacks that answered stop in this run: from then on signals stay blocked for good and the property
                        # does not say what becomes of later ones (the model still does: any difference is a correspondence failure)
    # al: what is known about SIGALRM, carried from run to run: 'set' = setAlarm(n > 0) has been executed (by main() for a time
    # limit, by the flow, by a callback), 'd4' = the disposition the code's own signal() calls imply (last writer: setAlarm ->
    # handler, sigHandler entry -> ignored, ~ScopedSig -> handler), 'codes' / 'cb' = answer codes of the case / callbacks so far
    i, n = 0, len(ev)

    def busy():
        return set(x for x in stk if x is not None)
    while i < n:
        e = ev[i]
        if e[0] != 'R':
            return None
        _, k, b, p, dv, rg = e
        plain += [k, b, p]
        if rg != 1:
            bad('running-application-not-registered')     # getInstance() is null / another object while main() of this one runs
        act = busy()
        got4 = dv[3]
        if al['set'] and 4 not in act and got4 != 1:
            if stops == 0:
                bad('alarm-handler-not-installed-by-setAlarm')      # setAlarm was executed, no SIGALRM handler in progress
        elif not al['set'] and got4 != al['d4']:
            bad('alarm-disposition-changed-without-setAlarm')
        elif al['set'] and got4 != al['d4'] and stops == 0:
            bad('alarm-handler-not-installed-by-setAlarm' if al['d4'] == 1 else 'alarm-disposition-unexpected-during-its-handler')
        for s_ in (1, 2, 3):
            got = dv[s_ - 1]
            want = 2 if (s_ in pre or s_ in act) else 1
            if got == want:
                continue
            if got == 2:
                if stops == 0:
                    bad('handler-not-reinstalled' if s_ in ever else 'registered-signal-ignored-without-handler-in-progress')
                else:
                    stats['os_ignored_after_stop'] += 1
            elif got == 1:
                bad('environment-ignored-signal-got-handler' if s_ in pre else 'signal-not-ignored-during-its-handler')
            else:
                bad('handler-not-installed')
        nxt = ev[i + 1] if i + 1 < n else None
        if nxt is not None and nxt[0] == 'AR':
            d = nxt[1]
            note = ev[i + 2] if i + 2 < n and ev[i + 2][0] == 'NOTE' else None
            if note is not None:
                if note[2] != d:
                    return None
                if note[1] == 31:
                    stats['os_discarded'] += 1
                    if d == 4:
                        if al['set'] and al['d4'] == 1 and stops == 0:
                            bad('alarm-dropped-while-deliverable')      # setAlarm installed the handler and nothing of the code ignored it since
                    elif d not in pre and d not in act and stops == 0:
                        bad('signal-dropped-by-os-while-deliverable')
                elif note[1] == 33:
                    if d != 4 or al['set']:
                        bad('alarm-handler-not-installed-by-setAlarm' if d == 4 else 'handler-not-installed')
                elif note[1] == 34:
                    bad('signal-lost:handler-would-call-through-unregistered-application')
                elif d in (1, 2, 3, 4):
                    return None
                del plain[-3:]      # nothing happened to the application: the same scheduling point is recorded again
                i += 3
                continue
            if d not in (1, 2, 3, 4):
                return None
            if d != 4 and (d in pre or d in act):
                bad('ignored-signal-reached-the-application')
            if d == 4:
                if not al['set']:
                    bad('alarm-delivered-without-setAlarm')
                al['d4'] = 2
            plain += [30, d]
            stk.append(d)
            ever.add(d)
            stats['os_handled'] += 1
            i += 2
            continue
        # the step k executes
        if k == 0:
            if i != n - 1:
                return None
            break
        if k in (11, 12, 13, 14, 15, 16):   # an operation on another application object / setAlarm / the error report returns: a main-flow step
            if stk:
                return None
            if k == 14:
                al['set'], al['d4'] = True, 1
            i += 1
            continue
        if 1 <= k <= 6 and not stk:
            if k != 1:
                return None
            stk.append(None)        # processSignal(pend) called by unblockSignals: no sigHandler around it
        j = i + 1
        if nxt is not None and nxt[0] in ('CB', 'CE'):
            plain += [20 if nxt[0] == 'CB' else 21, nxt[1]]
            j = i + 2
            if k == 2 and nxt[0] == 'CB':
                code = al['codes'][al['cb']] if al['cb'] < len(al['codes']) else 1
                al['cb'] += 1
                al.setdefault('run_codes', []).append(code)
                if code in (2, 3):
                    al['set'], al['d4'] = True, 1       # the callback re-arms the alarm as its first action
            if k == 3 and nxt[0] == 'CE' and nxt[1] == 0 and stk:
                if stk.pop() == 4:  # stop: processSignal returns at once, ~ScopedSig runs
                    al['d4'] = 1
                stops += 1
        if k == 6 and stk:
            if stk.pop() == 4:
                al['d4'] = 1
        i = j
    if stk:
        bad('activation-never-finished')
    return plain


def account_os(c, obs):
    stats = {'arrivals': 0, 'delivered': 0, 'deferred': 0, 'remembered': 0, 'discarded': 0, 'dropped': 0, 'overwritten': 0, 'stops': 0, 'in_report': 0,
             'os_discarded': 0, 'os_handled': 0, 'os_ignored_after_stop': 0}
    sigs = []

    def bad(x):
        if x not in sigs:
            sigs.append(x)
    t = decode_os(c)
    if t is None:
        return ([] if obs == [-3] else ['trace-malformed']), stats
    m, mask, ops, ans_codes, _, _ = t
    runs = parse_os(obs)
    if runs is None or len(runs) != (3 if m == 3 else 2) or runs[-1][0] != 'destroyed':
        return ['trace-malformed'], stats
    if runs[-1][1] != 0:
        bad('destroyed-application-still-registered')
    runs = runs[:-1]
    pre = pre_of(mask)
    ever = set()
    al = {'set': False, 'd4': 2 if 4 in pre else 0, 'codes': list(ans_codes), 'cb': 0}
    if m == 2 and tl_of(mask):
        al['set'], al['d4'] = True, 1         # the (empty) first run already armed the time limit
    for ev, _after in runs:       # what main() leaves behind when it returns is not judged (the next run's records are)
        if tl_of(mask):
            al['set'], al['d4'] = True, 1     # main() with a time limit calls setAlarm after its installation loop
        plain = os_pass(ev, pre, ever, bad, stats, al)
        if plain is None:
            return sigs + ['trace-malformed'], stats
        s2, st2 = account_ops(ops, plain, codes=al.pop('run_codes', []))
        for x in s2:
            bad(x)
        for k_, v in st2.items():
            stats[k_] += v
    return sigs, stats


def oracle(c, obs):
    return account(c, obs)[0]


def nontrivial(c, obs):
    if is_os(c):
        t = decode_os(c)
        return t is not None and any(d != 0 for d in t[4] + t[5])
    return any(d != 0 for d in decode(c)[2])


# ------------------------------------------------------------------------------------------------
# generation
# ------------------------------------------------------------------------------------------------
FIXED = [
    ([1, 3], [], [0, 0, 0, 1, 0, 0, 2], 'regress-take-vs-nested-arrival'),      # the repaired defect (arrival at the take)
    ([1, 3], [], [0, 0, 1, 0, 0, 2], 'regress-arrival-before-take'),
    ([1, 3], [], [0, 1, 0, 0, 0, 0, 0, 0, 0, 2, 0, 0, 2], 'deferred-then-requeue'),
    ([1, 2], [], [0, 1], 'drop-at-unblock-false'),
    ([1, 1, 3, 3], [], [0, 0, 1, 0, 0, 2], 'nested-blocks'),
    ([1, 3], [0], [0, 1, 0, 0, 0, 0, 0, 2, 0, 0, 0, 0, 0, 0, 0, 0], 'stop-then-deferred-requeued'),
    ([4], [], [0, 1, 2], 'shutdown-blocks-for-good'),
    ([], [0], [1, 0, 0, 0, 2, 1], 'stop-blocks-for-good'),
    ([1], [], [0, 1, 0, 0, 2, 0, 0, 0, 0], 'interrupted-test-write-overwrite'),
]


FIXED_OS = [
    # (m, mask, flow, answers, decisions run 1, decisions run 2, kind)
    (1, 0, [1, 3], [], [0, 1, 0, 0, 0, 0, 0, 0, 0, 0, 0, 0, 0, 1, 0, 0, 0, 0, 2], None, 'os-blocked-arrival-then-same-and-other'),
    (1, 0, [], [], [1, 0, 0, 2, 0, 0, 1], None, 'os-arrival-during-callback-same-number-discarded'),
    (1, 0, [], [0], [1, 0, 0, 0, 1, 0, 0, 0, 0, 2], None, 'os-stop-answer-then-later-arrivals'),
    (1, 1, [], [], [1, 2, 0, 0, 0, 0, 1], None, 'os-environment-ignored-signal'),
    (2, 0, [1, 3], [], [0, 1, 0, 0, 0, 0, 0, 0, 0, 0, 0, 0, 0, 1], None, 'os-second-main'),
    (3, 0, [1, 3], [], [0, 1], [1, 0, 0, 0, 0, 2], 'os-two-runs-blocked-arrival-in-first'),
    (3, 2, [1, 2], [], [0, 1, 2], [0, 2, 1], 'os-two-runs-ignored-and-dropped'),
    (1, 0, [1, 3], [], [0, 4, 1], None, 'os-unregistered-number'),
    (1, 0, [5, 6, 7], [], [0, 0, 0, 1, 0, 0, 0, 0, 0, 0, 2], None, 'os-other-objects-destroyed-then-arrivals'),
    (1, 0, [7, 1, 3], [], [0, 0, 1, 0, 0, 0, 0, 0, 0, 0, 0, 0, 0, 0, 1], None, 'os-copy-dropped-then-blocked-arrival'),
    (1, 0, [5, 1, 6, 3], [], [1, 0, 0, 0, 0, 0, 0, 2, 0, 0, 0, 0, 0, 0, 0, 0, 0, 0, 0, 0, 1], None, 'os-other-object-destroyed-while-blocked'),
    (2, 0, [5, 6], [], [0, 0, 1], None, 'os-second-main-other-object'),
    (3, 0, [5], [], [0, 1], [2, 0, 0, 0, 0, 0, 0, 1], 'os-two-runs-other-object-alive-across-runs'),
    (3, 0, [6, 7], [], [1], [0, 0, 2], 'os-two-runs-destroy-in-second'),
    # SIGALRM (4): setAlarm from the flow / main() with a time limit (mask 16) / environment-ignored SIGALRM (mask 8) / re-arming callbacks
    (1, 8, [8], [], [4, 0, 4, 0, 0, 0, 0, 4], None, 'alarm-env-ignored-then-setAlarm'),
    (1, 24, [], [], [4, 0, 0, 0, 0, 4], None, 'alarm-env-ignored-time-limit'),
    (1, 0, [8], [2], [0, 4, 0, 0, 0, 4, 0, 0, 0, 0, 0, 0, 0, 0, 0, 4], None, 'alarm-rearmed-in-callback-second-alarm-during-callback'),
    (1, 0, [8, 1, 3], [2, 1], [0, 4, 0, 0, 0, 4, 0, 0, 0, 0, 0, 0, 0, 0, 0, 0, 0, 0, 0, 0, 0, 0, 4], None, 'alarm-rearmed-remembered-delivered-on-release'),
    (1, 8, [1, 8, 3, 9], [3], [0, 0, 4, 0, 0, 0, 0, 0, 0, 0, 0, 0, 0, 0, 0, 0, 4], None, 'alarm-while-blocked-then-stop-rearm'),
    (2, 8, [8], [], [0, 4], None, 'alarm-second-main-setAlarm'),
    (2, 24, [], [1], [4, 0, 0, 0, 0, 4], None, 'alarm-second-main-time-limit'),
    (3, 8, [8], [], [4, 0, 4], [4, 0, 0, 0, 0, 0, 4], 'alarm-two-runs-handler-persists'),
    (3, 24, [1, 3], [2], [0, 4], [4, 0, 0, 4], 'alarm-two-runs-time-limit'),
    (1, 0, [], [], [4], None, 'alarm-without-setAlarm-not-raised'),
    # run() throws: main() -> shutdown(true) -> onUnhandledException() override that returns (code 16 = the error report is running)
    (1, 0, [10], [], [0, 1, 0, 0, 0, 0, 2], None, 'shutdown-error-report-arrivals-remembered-and-discarded'),
    (1, 0, [10], [], [], None, 'shutdown-error-report-no-arrival'),
    (1, 0, [1, 10], [], [1, 0, 0, 1], None, 'shutdown-error-after-delivered-signal'),
    (1, 0, [1, 3, 10], [], [0, 1, 0, 0, 0, 0, 0, 0, 0, 0, 0, 0, 0, 0, 0, 1, 0, 0, 0, 0, 0, 1], None, 'shutdown-error-report-after-release'),
    (2, 0, [10], [], [0, 2, 0, 0, 0, 0, 0, 0, 1], None, 'shutdown-error-report-second-main'),
    (3, 0, [10], [], [0, 1], [1, 0, 0, 0, 0, 0, 2], 'shutdown-error-report-two-runs'),
    (1, 16, [10], [], [0, 4, 0, 0, 0, 0, 1], None, 'shutdown-error-report-alarm-of-the-time-limit'),
    (1, 0, [8, 10], [2], [4, 0, 0, 0, 0, 0, 0, 0, 4], None, 'shutdown-error-report-alarm-rearmed'),
    # the callback itself calls blockSignals() (answer 4) and lets the main flow release it; answer 5 = balanced pair inside the callback
    (1, 0, [3], [4], [1, 0, 0, 0, 0, 0, 0, 2], None, 'callback-takes-block-flow-releases-then-later-signal'),
    (1, 0, [3], [4], [1, 0, 0, 0, 0, 2, 0, 0, 0, 0, 0, 0, 0, 0, 0, 0, 0, 0, 1], None, 'callback-takes-block-next-signal-remembered-delivered-on-release'),
    (1, 0, [1, 3, 2], [4, 1], [1, 0, 0, 0, 0, 0, 2], None, 'callback-takes-block-nested-with-flow-blocks'),
    (2, 0, [2], [4], [1, 0, 0, 0, 0, 2, 0, 0, 0, 0, 0, 0, 3], None, 'callback-takes-block-second-main-drop-on-release'),
    (1, 0, [1, 3], [5, 5], [1, 0, 0, 0, 0, 0, 2], None, 'callback-balanced-block-unblock-pair'),
]


def flows_from(depth0, maxlen, alphabet=(1, 2, 3)):
    """flows that are well nested when the application already holds depth0 blocks (taken inside a callback)"""
    res = []
    frontier = [([], depth0)]
    for _ in range(maxlen):
        nf = []
        for f, d in frontier:
            for o in alphabet:
                if o == 1:
                    nf.append((f + [o], d + 1))
                elif d > 0:
                    nf.append((f + [o], d - 1))
        res += [f for f, _ in nf]
        frontier = nf
    return res


def callback_block_cases(maxops, maxarr, tier_codes=(1, 5)):
    """OS-level: signal a arrives before the first operation; its callback calls blockSignals() (answer code 4) and continues; the main
    flow releases that block later (or never); every schedule of further arrivals"""
    out = []
    for a in (1, 2):
        # decisions so far: arrival, inc, callback entry, callback exit, dec -> blocked_ = 1, nothing remembered
        for f in [[]] + flows_from(1, maxops):
            st = (1, 0, 0, tuple(f), ())
            for ans, ds in enumerate_schedules(f, maxarr, (1, 2), os_pre=set(), codes=tier_codes, start=(st, [a, 0, 0, 0, 0], [4])):
                out.append(enc_os(1, 0, f, ans, ds))
    return out


def callback_block_random(rnd, count):
    out = []
    fl = flows_from(1, 4)
    for _ in range(count):
        f = rnd.choice(fl)
        a = rnd.randint(1, 3)
        ans = [4] + [rnd.choice([1, 1, 5, 0, 2]) for _ in range(rnd.randint(0, 3))]
        ds = complete(f, [a], ans, set())
        for _ in range(rnd.randint(1, 3)):
            ds = ds[:rnd.randint(5, len(ds))] + [rnd.randint(1, 3)]
            ds = complete(f, ds, ans, set())
        out.append(enc_os(rnd.choice([1, 1, 2]), 0, f, ans, ds))
    return out


def obs_equal(case, impl, model):
    """plain equality: callbacks that call blockSignals() themselves (answer code 4) are part of the Coq model since the restriction of
    C18-r15 was lifted (Model.cb_block / Disp.cstep), so NO case is exempt from the model/implementation comparison any more"""
    return impl == model


def with_alarm(rnd, f):
    """the flow f with setAlarm(n > 0) (mostly early) and sometimes setAlarm(0)"""
    g = list(f)
    g.insert(rnd.randint(0, min(1, len(g))), 8)
    while rnd.random() < 0.3:
        g.insert(rnd.randint(0, len(g)), rnd.choice([8, 9]))
    return g


def with_objects(rnd, f):
    """the flow f with construct / destroy / copy-and-drop operations on other application objects sprinkled in"""
    g = []
    for o in list(f) + [None]:
        while rnd.random() < 0.45:
            g.append(rnd.choice([5, 6, 7, 5, 6]))
        if o is not None:
            g.append(o)
    return g


def os_targeted(rnd, count):
    """arrival of a while the application holds a block / while a callback runs (any scheduling point of the flow), then the run
    goes on to the idle point, then the SAME number arrives, then another one; in every OS-level mode; some callbacks answer stop"""
    out = []
    flows_ = [[1, 3], [1, 2], [1, 1, 3, 3], [], [1, 3, 1, 3], [1, 1, 2, 3], [4], [1, 3, 4], [10], [1, 3, 10], [1, 10], [10]]
    for n_ in range(count):
        f = rnd.choice(flows_)
        if n_ % 2 == 1:
            f = with_objects(rnd, f)      # other application objects come and go before and between the arrivals
        a = rnd.randint(1, 3)
        b = rnd.choice([x for x in (1, 2, 3) if x != a])
        mask = 0 if rnd.random() < 0.8 else rnd.randint(1, 7)
        ans = [1 if rnd.random() < 0.8 else 0 for _ in range(rnd.randint(0, 4))]
        if n_ % 3 == 0:                   # the alarm: SIGALRM ignored by the environment or not, setAlarm in the flow / time limit, re-arming callbacks
            a = 4
            mask = (mask & 7) | rnd.choice([0, 8, 8, 16, 24])
            if not tl_of(mask) or rnd.random() < 0.3:
                f = with_alarm(rnd, f)
            ans = [rnd.choice([1, 1, 2, 2, 3, 0]) for _ in range(rnd.randint(1, 4))]
        pre = pre_of(mask)
        d4i = d4_boot(pre, tl_of(mask))
        def comp(f_, ds_, ans_, pre_):
            return complete(f_, ds_, ans_, pre_, d4=d4i)
        base = comp(f, [], ans, pre)
        ds = list(base[:rnd.randint(0, len(base))]) + [a]
        if rnd.random() < 0.5:                      # a second arrival while the first one's handler / the block is in progress
            ds = comp(f, ds, ans, pre)
            cut = rnd.randint(max(len(ds) - 6, 0), len(ds))
            ds = ds[:cut] + [rnd.choice([a, b])]
        ds = comp(f, ds, ans, pre) + [a]        # later arrival of the same number at the idle point
        ds = comp(f, ds, ans, pre) + [b]        # and of another number
        ds = comp(f, ds, ans, pre)
        m = rnd.choice([1, 1, 2, 3])
        tag = ('-alarm' if n_ % 3 == 0 else '') + ('-objects' if n_ % 2 else '')
        if m == 3:
            cut = rnd.randint(0, len(ds))
            d1 = comp(f, ds[:cut], ans, pre)
            d2 = [a, 0, 0, 0, 0, b] if rnd.random() < 0.5 else ds[cut:]
            out.append((enc_os(3, mask, f, ans, d1, d2), {'kind': 'os-targeted-two-runs' + tag}))
        else:
            out.append((enc_os(m, mask, f, ans, ds), {'kind': 'os-targeted' + tag}))
    return out


def random_os_case(rnd, nops, narr, nsig):
    c = random_case(rnd, nops, narr, nsig)
    ops, ans, ds = decode(c)
    if rnd.random() < 0.5:
        n0 = len(ops)
        ops = with_objects(rnd, ops)
        for _ in range(len(ops) - n0):          # one more scheduling point per object operation
            ds.insert(rnd.randrange(len(ds) + 1), 0)
    if rnd.random() < 0.2:                      # the run ends with an exception: shutdown(true) and its error report
        ops = ops + [10]
        ds += [0] * 2 + [rnd.randint(1, 3) if rnd.random() < 0.7 else 0 for _ in range(rnd.randint(1, 8))]
    m = rnd.choice([1, 1, 2, 3])
    mask = 0 if rnd.random() < 0.8 else rnd.randint(1, 7)
    if rnd.random() < 0.4:                      # the alarm
        mask |= rnd.choice([0, 8, 16, 24])
        n0 = len(ops)
        ops = with_alarm(rnd, ops)
        for _ in range(len(ops) - n0):
            ds.insert(rnd.randrange(len(ds) + 1), 0)
        ds = [4 if (d != 0 and rnd.random() < 0.6) else d for d in ds]
        ans = [rnd.choice([0, 1, 1, 2, 2, 3]) for _ in ans] or [2]
    if m == 3:
        cut = rnd.randint(0, len(ds))
        return enc_os(3, mask, ops, ans, ds[:cut], ds[cut:])
    return enc_os(m, mask, ops, ans, ds)


def random_case(rnd, nops, narr, nsig):
    f = []
    d = 0
    for _ in range(nops):
        o = rnd.choice([1, 1, 2, 3, 3, 4] if rnd.random() < 0.1 else [1, 1, 2, 3, 3])
        if o in (2, 3) and d == 0:
            o = 1
        d += 1 if o in (1, 4) else -1
        f.append(o)
    total = 3 * nops + 6 * narr + 4
    ds = [0] * total
    for _ in range(narr):
        ds[rnd.randrange(total)] = rnd.randint(1, nsig)
    ans = [1 if rnd.random() < 0.85 else 0 for _ in range(rnd.randint(0, narr + 2))]
    return enc(f, ans, ds)


def gen(seed, tier):
    rnd = random.Random(seed * 7919 + 18)
    out = []
    for f, a, d, kind in FIXED:
        out.append((enc(f, a, d), {'kind': kind}))
    for m, mask, f, a, d1, d2, kind in FIXED_OS:
        out.append((enc_os(m, mask, f, a, d1, d2), {'kind': kind}))
    if tier == 'quick':
        spec = [(3, 3, (1, 2)), (4, 2, (1, 2))]
        # OS-level: (max ops, max arrivals, numbers, mode, mask)
        spec_os = [(3, 3, (1, 2), 1, 0), (4, 2, (1, 2), 1, 0), (2, 2, (1, 2), 2, 0), (2, 2, (1, 2), 1, 1)]
        spec_obj = [(3, 2, 1), (2, 2, 2)]
        spec_alarm = [(3, 2, 1, 0, (1, 2)), (3, 2, 1, 8, (1, 2)), (2, 2, 1, 24, (1, 2)), (2, 2, 2, 8, (1, 2)), (1, 2, 2, 24, (1, 2, 3, 0))]
        spec_cbb, ncbb = (3, 2), 1500
        # shutdown(true): (max ops over {block, unblock(true)} in front of the throwing op, max arrivals, numbers, mode, mask)
        spec_err = [(2, 3, (1, 2), 1, 0), (3, 2, (1, 2), 1, 0), (1, 2, (1, 2), 2, 0), (1, 2, (4, 1), 1, 16), (1, 2, (4, 1), 1, 24)]
        nrand, nrand_os, ntarget = 3000, 3000, 2400
    elif tier == 'thorough':
        spec = [(5, 3, (1, 2)), (3, 4, (1, 2)), (3, 3, (1, 2, 3)), (6, 1, (1,))]
        spec_os = [(4, 3, (1, 2), 1, 0), (3, 4, (1, 2), 1, 0), (3, 3, (1, 2, 3), 1, 0), (3, 3, (1, 2), 2, 0), (3, 2, (1, 2, 3), 1, 5)]
        spec_obj = [(4, 2, 1), (3, 3, 1), (3, 2, 2)]
        spec_alarm = [(3, 3, 1, 0, (1, 2)), (3, 3, 1, 8, (1, 2)), (4, 2, 1, 8, (1, 2)), (3, 2, 1, 24, (0, 1, 2, 3)), (3, 2, 2, 8, (1, 2)), (2, 3, 2, 24, (0, 1, 2, 3))]
        spec_cbb, ncbb = (4, 3), 30000
        spec_err = [(3, 3, (1, 2), 1, 0), (2, 4, (1, 2), 1, 0), (2, 3, (1, 2, 3), 1, 0), (2, 3, (1, 2), 2, 0), (2, 3, (4, 1), 1, 16), (2, 3, (4, 1), 1, 24), (2, 2, (1, 2), 1, 1)]
        nrand, nrand_os, ntarget = 200000, 80000, 30000
    else:
        spec = [(2, 2, (1, 2))]
        spec_os = [(2, 2, (1, 2), 1, 0)]
        spec_obj = [(2, 2, 1)]
        spec_alarm = [(2, 2, 1, 8, (1, 2))]
        spec_cbb, ncbb = (2, 2), 500
        spec_err = [(1, 2, (1, 2), 1, 0)]
        nrand, nrand_os, ntarget = 3000, 3000, 2400
    seen = set()
    for (maxops, maxarr, sg, m, mask) in spec_os:
        for f in flows(maxops):
            for ans, ds in enumerate_schedules(f, maxarr, sg, os_pre=pre_of(mask)):
                c = enc_os(m, mask, f, ans, ds)
                t = tuple(c)
                if t not in seen:
                    seen.add(t)
                    out.append((c, {'kind': 'os-exhaustive-ops%d-arr%d-mode%d-mask%d' % (maxops, maxarr, m, mask)}))
    # flows that also construct / destroy other application objects and copy-and-drop the running one
    for (maxops, maxarr, m) in spec_obj:
        for f in flows(maxops, alphabet=(1, 3, 5, 6, 7)):
            if not any(o in (5, 6, 7) for o in f):
                continue
            for ans, ds in enumerate_schedules(f, maxarr, (1, 2), os_pre=set()):
                c = enc_os(m, 0, f, ans, ds)
                t = tuple(c)
                if t not in seen:
                    seen.add(t)
                    out.append((c, {'kind': 'os-exhaustive-objects-ops%d-arr%d-mode%d' % (maxops, maxarr, m)}))
    # SIGALRM: (max ops over {block, unblock(true), setAlarm}, max arrivals of {4, 1}, mode, mask); callbacks continue or re-arm
    for (maxops, maxarr, m, mask, codes) in spec_alarm:
        pre_, tl_ = pre_of(mask), tl_of(mask)
        for f in flows(maxops, alphabet=(1, 3, 8)):
            if not tl_ and 8 not in f:
                continue
            for ans, ds in enumerate_schedules(f, maxarr, (4, 1), os_pre=pre_, d4=d4_boot(pre_, tl_), codes=codes):
                c = enc_os(m, mask, f, ans, ds)
                t = tuple(c)
                if t not in seen:
                    seen.add(t)
                    out.append((c, {'kind': 'os-exhaustive-alarm-ops%d-arr%d-mode%d-mask%d' % (maxops, maxarr, m, mask)}))
    # the run ends with an exception: every well-nested flow over {block, unblock(true)} followed by the throwing op (main() -> shutdown(true) ->
    # error report that returns), every schedule - arrivals before the increment, INSIDE the error report, after it
    for (maxops, maxarr, sg, m, mask) in spec_err:
        pre_, tl_ = pre_of(mask), tl_of(mask)
        for f0 in flows(maxops, alphabet=(1, 3)):
            f = f0 + [10]
            for ans, ds in enumerate_schedules(f, maxarr, sg, os_pre=pre_, d4=d4_boot(pre_, tl_)):
                c = enc_os(m, mask, f, ans, ds)
                t = tuple(c)
                if t not in seen:
                    seen.add(t)
                    out.append((c, {'kind': 'os-exhaustive-shutdown-error-ops%d-arr%d-mode%d-mask%d' % (maxops + 1, maxarr, m, mask)}))
    # two runs of main() on one object: every schedule of the first run (<= 2 ops, <= 2 arrivals), then every single arrival in the second
    for f in flows(2):
        for ans, ds in enumerate_schedules(f, 2, (1, 2), os_pre=set()):
            for ans2, ds2 in enumerate_schedules(f, 1, (1, 2), answers_free=False, os_pre=set()):
                c = enc_os(3, 0, f, ans + ans2, ds, ds2)
                t = tuple(c)
                if t not in seen:
                    seen.add(t)
                    out.append((c, {'kind': 'os-exhaustive-two-runs'}))
    out += os_targeted(rnd, ntarget)
    for c in callback_block_cases(*spec_cbb):
        t = tuple(c)
        if t not in seen:
            seen.add(t)
            out.append((c, {'kind': 'os-exhaustive-callback-takes-block-ops%d-arr%d' % spec_cbb}))
    for c in callback_block_random(rnd, ncbb):
        out.append((c, {'kind': 'os-random-callback-takes-block'}))
    for _ in range(nrand_os):
        out.append((random_os_case(rnd, rnd.randint(0, 8), rnd.randint(1, 6), rnd.choice([2, 3, 3, 4])), {'kind': 'os-random-long'}))
    for (maxops, maxarr, sg) in spec:
        for f in flows(maxops):
            for ans, ds in enumerate_schedules(f, maxarr, sg):
                c = enc(f, ans, ds)
                t = tuple(c)
                if t not in seen:
                    seen.add(t)
                    out.append((c, {'kind': 'exhaustive-ops%d-arr%d' % (maxops, maxarr)}))
        for f in ([4], [1, 4], [1, 3, 4], [4, 3]):
            for ans, ds in enumerate_schedules(f, min(maxarr, 2), sg[:2]):
                c = enc(f, ans, ds)
                t = tuple(c)
                if t not in seen:
                    seen.add(t)
                    out.append((c, {'kind': 'exhaustive-shutdown'}))
    for _ in range(nrand):
        out.append((random_case(rnd, rnd.randint(0, 10), rnd.randint(1, 6), rnd.choice([1, 2, 3])), {'kind': 'random-long'}))
    return out


def shrink_os(case, fails):
    t = decode_os(case)
    if t is None:
        return case
    m, mask, ops, ans, d1, d2 = t

    def mk(m_, mask_, ops_, ans_, a_, b_):
        return enc_os(m_, mask_, ops_, ans_, a_, b_ if m_ == 3 else None)
    if m == 3 and fails(mk(1, mask, ops, ans, d1, None)):
        m, d2 = 1, []
    if m == 2 and fails(mk(1, mask, ops, ans, d1, None)):
        m = 1
    if mask and fails(mk(m, 0, ops, ans, d1, d2)):
        mask = 0
    changed = True
    while changed:
        changed = False
        for which in (1, 0):
            ds = [d1, d2][which]
            for i in range(len(ds) - 1, -1, -1):
                for t_ in ([ds[:i] + [0] + ds[i + 1:]] if ds[i] != 0 else []) + [ds[:i] + ds[i + 1:]]:
                    cand = mk(m, mask, ops, ans, t_ if which == 0 else d1, t_ if which == 1 else d2)
                    if fails(cand):
                        ds = t_
                        if which == 0:
                            d1 = t_
                        else:
                            d2 = t_
                        changed = True
                        break
        for i in range(len(ops) - 1, -1, -1):
            t_ = ops[:i] + ops[i + 1:]
            if fails(mk(m, mask, t_, ans, d1, d2)):
                ops = t_
                changed = True
        if ans and fails(mk(m, mask, ops, ans[:-1], d1, d2)):
            ans = ans[:-1]
            changed = True
    return mk(m, mask, ops, ans, d1, d2)


def shrink(case, fails):
    if is_os(case):
        return shrink_os(case, fails)
    ops, ans, ds = decode(case)
    changed = True
    while changed:
        changed = False
        for i in range(len(ds) - 1, -1, -1):
            if ds[i] != 0:
                t = ds[:i] + [0] + ds[i + 1:]
                if fails(enc(ops, ans, t)):
                    ds = t
                    changed = True
        for i in range(len(ds) - 1, -1, -1):
            t = ds[:i] + ds[i + 1:]
            if fails(enc(ops, ans, t)):
                ds = t
                changed = True
        for i in range(len(ops) - 1, -1, -1):
            t = ops[:i] + ops[i + 1:]
            if fails(enc(t, ans, ds)):
                ops = t
                changed = True
        if ans and fails(enc(ops, ans[:-1], ds)):
            ans = ans[:-1]
            changed = True
    return enc(ops, ans, ds)


def mutate(case, rnd):
    if is_os(case):
        t = decode_os(case)
        if t is None:
            return []
        m, mask, ops, ans, d1, d2 = t
        res = []
        for _ in range(8):
            a, b = list(d1) + [0] * 4, list(d2) + [0] * 2
            tgt = a if (m != 3 or rnd.random() < 0.6) else b
            tgt[rnd.randrange(len(tgt))] = rnd.randint(0, 3)
            res.append(enc_os(m, mask, ops, ans, a, b if m == 3 else None))
        return res
    ops, ans, ds = decode(case)
    res = []
    for _ in range(8):
        d = list(ds) + [0] * 4
        d[rnd.randrange(len(d))] = rnd.randint(0, 2)
        res.append(enc(ops, ans, d))
    return res


LEVEL_TEXT = ('Machine-checked invariant proofs (Coq) over a small-step transition system whose transitions are the individual atomic '
              'steps of Application::processSignal / blockSignals / unblockSignals (fetch_and_inc, test, read/write of pending_, callback '
              'entry/exit, fetch_and_dec, fetch_and_clear) with a stack of nested handler activations: for every well nested main flow, '
              'every callback answer list, every schedule of arrivals AND every callback that calls blockSignals() itself (any number of times, '
              'left to the main flow to release: Model.cb_block is a transition of the reachability relation, and the main flow may re-plan at '
              'an operation boundary with anything well nested relative to the blocks held then) - no callback is entered while the application '
              'holds a block (its own or one a callback took) or another callback runs; after an activation whose callback took k blocks '
              'blocked_ = entry value + k, the application holds exactly k blocks and no callback is entered until they are released '
              '(c18_callback_taken_blocks, c18_no_entry_while_holding); an arrival that finds blocked_=0 is delivered in its own activation; one slot; every arrival is in exactly '
              'one place (token conservation: never lost, never twice; the remembered one goes to the nested processSignal or is dropped at '
              'the take of the next outermost release); the nesting count is restored up to the blocks the callback itself took (c18_nesting_restored / '
              'c18_nesting_general / c18_callback_continue_restores carry that term; a deferred delivery can be re-queued or discarded only after a stop '
              'answer or a callback-taken block: 0 < stops + cbt). Layered around it (coq/C18/Disp.v) the OS-level '
              'entry point: dispositions as Application::sigHandler (signal(sig,SIG_IGN) ... signal(sig,sigHandler) in every return path) '
              'and the installation loop of Application::main (ignored stays ignored, nothing restored, any number of runs) manipulate them; '
              'proved for every schedule of OS-level arrivals and steps, including interruptions of sigHandler itself: the ignored registered '
              'numbers are exactly those with a handler activation in progress (plus those the environment had ignored), so at quiescence '
              'every handler is installed whatever blocked_ is; the OS discards an arrival iff a handler for the same number is in progress, '
              'every other arrival reaches processSignal and is a token of the exactly-once accounting; with blocked_=0 it is in the callback '
              'after its own three steps; the static instance pointer sigHandler delivers through (set by main(), cleared by ~Application only '
              'when it points to the object being destroyed) is the running object throughout every run, whatever other Application objects the '
              'main flow constructs, destroys or copies meanwhile, and is null after its destruction; SIGALRM: setAlarm(n>0) - from the main flow, '
              'from main() for a time limit, from inside a callback - installs the handler unconditionally, so once it has been executed and no '
              'SIGALRM activation is in progress the handler is installed even if the environment had SIGALRM ignored and an expiring alarm reaches '
              'processSignal; a callback that re-arms the alarm leaves the handler installed although its own ScopedSig had set SIG_IGN, so an '
              'alarm expiring during that callback is not discarded (it re-enters sigHandler and is remembered); the shutdown path: once the main flow has executed the '
              'increment of its last block operation - shutdown(false) at the end of run(), or shutdown(true) from the catch(...) of main() - then for every schedule, including '
              'arrivals inside the error report of shutdown(true) (onUnhandledException override that returns), the flow holds a block, blocked_ >= 1, no activation enters the callback, '
              'the list of deliveries does not grow, every arrival is remembered (first) or discarded (c18_shutdown_blocks_for_good, c18_no_callback_from_shutdown_to_end_of_run). The model is tied to the code by differential correspondence of the full step trace (extracted '
              'model vs. sanitizer build of the real class driven through the yield hook; OS-level cases through real raise() inside a real '
              'Application::main() with the dispositions read back by sigaction at every scheduling point), exhaustively for all schedules '
              'with <= 3 operations and <= 3 arrivals in both families, and an independent trace oracle.')
LEVEL_NOTE = ('Trusted: Coq kernel/vm_compute, extraction+driver (sample cross-checked by vm_compute), harness + yield hook, python oracle; '
              'atomicity of the __sync builtins, LIFO nesting of handlers on one thread and the no-mask signal semantics (mask cleared before '
              'each raise) are modelling assumptions; sigHandler has no yield point around its two signal() calls, so interruptions there are '
              'covered by the theorems only; the Windows alarm thread is outside the model. The defect found (read-then-clear of pending_ in '
              'unblockSignals loses a signal) was repaired (aeb5013); the pre-repair model is kept and refuted by c18_lost_refuted_before_repair.')
TECHNIQUE = 'Coq invariant proofs over a small-step interleaving model + differential correspondence of step traces with the implementation'
DESIGN_REF = 'DESIGN.md section 5, C18'

# "exhaustive" refers to the bounded schedule spaces named below (every case of these spaces is generated and run); the targeted and
# random streams are samples.  Not swept: interruptions inside sigHandler around its signal() calls (no yield point), more than 3 (4)
# arrivals, more than two runs of main(), masks other than {}, {1} ({1,3} in thorough).
EXHAUSTIVE = {'quick': True, 'thorough': True}
EXHAUSTIVE_SPACE = ('quick: every schedule (arrival decisions at every yield point, both callback answers) of every well-nested main flow with <= 3 operations and '
                    '<= 3 arrivals (<= 4 operations and <= 2 arrivals) of 2 signal numbers, in the DIRECT family (processSignal called at the yield point) and in the '
                    'OS-LEVEL family (raise() inside the first main(), no number environment-ignored); OS-LEVEL <= 2 ops / <= 2 arrivals inside a second main() and '
                    'with number 1 environment-ignored; two runs: every <= 2 ops / <= 2 arrivals first run x every single arrival in the second run. '
                    'thorough: DIRECT <= 5 ops/3 arrivals, <= 3 ops/4 arrivals, 3 signal numbers; OS-LEVEL <= 4 ops/3 arrivals, <= 3 ops/4 arrivals, <= 3 ops/3 arrivals of '
                    '3 numbers, <= 3/3 in a second main(), <= 3/2 with numbers 1 and 3 environment-ignored. OS-LEVEL flows with object operations (construct / destroy another Application, '
                    'copy-and-drop the running one): quick <= 3 ops over {block, unblock(true), new, delete, copy} / <= 2 arrivals (first main()), <= 2/2 (second main()); thorough <= 4/2, <= 3/3, <= 3/2 (second main()). '
                    'OS-LEVEL alarm flows (ops over {block, unblock(true), setAlarm}, arrivals of {SIGALRM, 1}, every callback continues or re-arms): quick <= 3 ops / <= 2 arrivals with SIGALRM '
                    'environment-ignored and not, <= 2/2 with --time-limit, <= 2/2 inside a second main(); thorough <= 3/3, <= 4/2, all four answer codes with --time-limit. '
                    'OS-LEVEL flows that end with an exception (ops over {block, unblock(true)} then "run() throws" = shutdown(true) with an error report that returns; arrivals before the increment, inside the report, after it): '
                    'quick <= 3 ops (incl. the throw) / <= 3 arrivals, <= 4/2, <= 2/2 inside a second main(), <= 2/2 of {SIGALRM, 1} with --time-limit (SIGALRM environment-ignored or not); thorough <= 4/3, <= 3/4, <= 3/3 of 3 numbers, <= 3/3 second main(), <= 3/3 alarm, <= 3/2 with number 1 environment-ignored. NOT enumerated: interruptions of sigHandler between its entry and '
                    'signal(sig,SIG_IGN) / between the return of processSignal and signal(sig,sigHandler) (no yield point there). '
                    'Callbacks that take a block themselves (answer 4; in the Coq model since the C18-r15 restriction was lifted, compared with the implementation, covered by the theorems through reach_cbb / reach_ops): quick = signal 1 or 2 arrives before the first operation, its '
                    'callback blocks, every flow of <= 3 operations that is well nested from depth 1, <= 2 further arrivals of {1,2} with answers continue / balanced pair; thorough <= 4 ops / <= 3 arrivals; plus random. '
                    'The unbounded claim is carried by the theorems, not by this enumeration.')
