// C19: real OptionContext::description (through StringOut), defaults(n), and parseCommandString on the real defaults().
// Case (see coq/C19/Model.v run_case):
//   activeLevel prefixN nGroups { capLen cap.. level nOpts { nameLen name.. alias neg level flag arg? impl? dflt? descLen desc.. }* }*
//   x? : 0 | 1 len bytes
//   flag bit 0: the value is a flag.  flag bit 1: the option is DECLARED THROUGH ITS KEY STRING: `name` is the key (name[!][,alias][,@level], any
//   bytes) handed to group.addOptions()(key, value, desc), `level` is set on the value beforehand (Value::level), alias / neg are not read; a key
//   the init helper refuses (Po::Error) declares nothing.  Without bit 1 the harness writes the key name[!][,alias],@level itself.
//   group level L >= 8: the group is created with level L/8-1, the options are declared in it, then OptionGroup::setDescriptionLevel(L%8) is
//   called before the group is handed to OptionContext::add (L < 8: created and added with level L).
//   The groups are OptionGroups handed to OptionContext::add in this order; captions may repeat (with different levels): the context
//   merges them (the model does the same merge: coq/C19/Model.v add_group).
//   optional trailer (NOT read by the model: it does not change the context a correct implementation ends up with):
//   nDirectives { group k kind target nTail }*   - see struct Directive
//   Every case ALSO prints its help through the library's own printer, Application::printHelp(ctx) (FileOut(stdout) + printf, what `--help` of
//   an Application does), with fd 1 redirected into a temporary file: the captured text must be, byte for byte,
//     "<name> version <v>\nusage: <name> [options]\n" + description() + "\nusage: <name> [options]\nDefault command-line:\n<name> " + defaults(strlen(name)+1) + "\n"
//   where description() / defaults() are what the direct calls below return (the application's name has prefixN-1 characters, so the default
//   command line is the one the observation shows; prefixN = 0: name "app", compared with defaults(4)).  Nothing is printed when they agree.
//   Every case is ALSO run through Application::main(argc, argv) with --help / -h / --help=N / -hN (MainApp below: initOptions adds the case's context to the root
//   context in which getOptions has put its "Basic Options"; getHelpOption allows N up to 5 or 6, or is the library's default flag for 1/4 of the cases): captured stdout must be the
//   frame above around description() / defaults() of a reference context (addBasic + the case's context) at level N-1, main returns EXIT_SUCCESS without entering setup/run, the
//   printed option entries obey the level rule, clashes with the basic options / invalid defaults / N out of range are reported (error(), EXIT_FAILURE, nothing printed).
//   Nothing is added to the observation when all of this holds.  C19M_DEBUG=1 / C19M_DUMP=1 in the environment: diagnostics on stderr.
// Observation: [-997 if the context is inconsistent after the adds]
//              [-995 flags form N if a run of Application::main differs: flags 1 = text differs from frame + description() + defaults() at level N-1, 2 = level rule broken in the printed
//               entries, 4 = no help printed / reference refused, 8 = exit code or error count, 16 = setup()/run() entered, 32 = N out of range accepted; form 0 --help=N, 1 -hN, 2 --help, 3 -h,
//               4 out-of-range; form / N of the first failing run]
//              [-996 flags len bytes.. if the help printed by Application::printHelp differs:
//              flags 1 = description part / frame differs, 2 = default command line differs; bytes = the captured text behind "Default command-line:\n"]
//              per declaration (in order) nameLen name.. alias level neg of the registered option | -1 (key refused) ; descLen desc.. fault(0) ; defsLen defs.. ;
//              0 nParsed { optIndex valLen val.. }*  |  errorClass (1 unknown, 2 ambiguous, 3 syntax, 9 other)
#include "common.h"
#include <deque>
#include <memory>
#include <unistd.h>
#include <cctype>
#include <potassco/application.h>
#include <potassco/program_opts/program_options.h>
#include <potassco/program_opts/typed_value.h>
#include <potassco/program_opts/errors.h>
namespace Po = Potassco::ProgramOptions;

struct Spec {
	std::string name, arg, impl, dflt, desc, key; bool hasArg, hasImpl, hasDflt; bool b; std::string s;
	ll alias; bool neg; ll level; bool flag, keyed, refused;
	Spec() : hasArg(false), hasImpl(false), hasDflt(false), b(false), alias(0), neg(false), level(0), flag(false), keyed(false), refused(false) {}
};
struct GroupSpec { std::string cap; ll level, declLevel, addLevel; size_t first, count; };
// A directive says how the context's group g is really put together: the group of the case is handed to OptionContext::add in several
// pieces (same caption, same level), and a piece may end in options the context must REFUSE (DuplicateOption, caught, caller carries on):
//   kind 0 clash of the long name with an option registered earlier, 1 clash of the alias, 3 clash of the long name + an unused alias,
//   2 no clash (plain split).  `tail` further options follow the refused one inside the same piece.
// A refused add keeps the options in front of the clash and nothing else, so the context is the one the case describes.
struct Directive { size_t g, k; ll kind; size_t target, tail; };

// An application that leaves help printing to the library (printHelp / printUsage are NOT overridden).
struct HelpApp : Potassco::Application {
	std::string name;
	explicit HelpApp(const std::string& n) : name(n) {}
	const char* getName()    const { return name.c_str(); }
	const char* getVersion() const { return "1.0"; }
	void initOptions(Po::OptionContext&) {}
	void validateOptions(const Po::OptionContext&, const Po::ParsedOptions&, const Po::ParsedValues&) {}
	void setup() {}
	void run()   {}
};
// Runs f() with fd 1 pointing into a temporary file and returns what was written.
template <class F>
static std::string captured(F f) {
	static FILE* tmp = std::tmpfile();
	std::string got;
	if (!tmp) return got;
	int tfd = fileno(tmp);
	std::fflush(stdout);
	int saved = dup(1);
	if (saved < 0) return got;
	if (ftruncate(tfd, 0) != 0 || lseek(tfd, 0, SEEK_SET) < 0 || dup2(tfd, 1) < 0) { close(saved); return got; }
	try { f(); } catch (...) { got = "<exception>"; }
	std::fflush(stdout);
	dup2(saved, 1);
	close(saved);
	off_t end = lseek(tfd, 0, SEEK_END);
	if (end > 0) {
		std::string buf((size_t)end, '\0');
		ssize_t r = pread(tfd, &buf[0], buf.size(), 0);
		if (r > 0) got.append(buf.data(), (size_t)r);
	}
	return got;
}
struct CallPrintHelp { HelpApp* app; const Po::OptionContext* ctx; void operator()() const { app->printHelp(*ctx); } };
static std::string capturedHelp(HelpApp& app, const Po::OptionContext& ctx) { CallPrintHelp f = {&app, &ctx}; return captured(f); }

// The path a user takes: Application::main(argc, argv) with --help[=N] / -h[N].  initOptions() hands the case's context (its merged groups, the very
// Option objects) to the root context getOptions() has put its own "Basic Options" group into; nothing else is overridden that takes part in
// printing (printHelp / printUsage / printVersion are the library's), error / info / warn only count instead of writing to stderr.
struct MainApp : HelpApp {
	const Po::OptionContext* src; unsigned maxHelp; bool ran; mutable int errors;
	MainApp(const std::string& n, const Po::OptionContext& s, unsigned mh) : HelpApp(n), src(&s), maxHelp(mh), ran(false), errors(0) {}
	static const char* helpText() { return "Print {1=basic|2=more|3=full} help and exit"; }
	HelpOpt getHelpOption() const { return maxHelp <= 1 ? Potassco::Application::getHelpOption() : HelpOpt(helpText(), maxHelp); }
	void error(const char*) const { ++errors; }
	void info(const char*)  const {}
	void warn(const char*)  const {}
	void initOptions(Po::OptionContext& root) { root.add(*src); }
	void setup() { ran = true; }
	void run()   { ran = true; }
};
struct CallMain { MainApp* app; std::vector<std::string>* args; int* ret;
	void operator()() const {
		std::vector<char*> argv;
		for (size_t i = 0; i != args->size(); ++i) argv.push_back(&(*args)[i][0]);
		argv.push_back(0);
		*ret = app->main((int)args->size(), &argv[0]);
	}
};
// What getOptions() declares itself (src/application.cpp), written down once more: the reference context is this group + the case's context.
struct BasicVars { unsigned help, verbose, timeout; bool version, fast; BasicVars() : help(0), verbose(0), timeout(0), version(false), fast(false) {} };
static void addBasic(Po::OptionContext& ref, const MainApp& app, BasicVars& b) {
	Po::OptionGroup basic("Basic Options");
	Potassco::Application::HelpOpt ho = app.getHelpOption();
	Po::Value* hv = ho.second == 1 ? Po::storeTo(b.help)->flag() : Po::storeTo(b.help)->arg("<n>")->implicit("1");
	basic.addOptions()
		("help,h"      , hv, ho.first)
		("version,v"   , Po::flag(b.version), "Print version information and exit")
		("verbose,V"   , Po::storeTo(b.verbose)->implicit("-1")->arg("<n>"), "Set verbosity level to %A")
		("time-limit"  , Po::storeTo(b.timeout)->arg("<n>"), "Set time limit to %A seconds (0=no limit)")
		("fast-exit,@1", Po::flag(b.fast), "Force fast exit (do not call dtors)")
	;
	ref.add(basic);
}
static bool plainName(const std::string& n) {
	if (n.empty()) return false;
	for (size_t i = 0; i != n.size(); ++i) { char ch = n[i]; if (!std::isalnum((unsigned char)ch) && ch != '-' && ch != '_') return false; }
	return true;
}
// number of lines of `body` that are the entry of option `name`: "  --name" or "  --[no-]name" followed by one of "[,= :" or the end of the line
static size_t headerLines(const std::string& body, const std::string& name) {
	size_t cnt = 0, pos = 0;
	while (pos <= body.size()) {
		size_t eol = body.find('\n', pos);
		if (eol == std::string::npos) eol = body.size();
		for (int form = 0; form != 2; ++form) {
			std::string h = std::string(form ? "  --[no-]" : "  --") + name;
			if (eol - pos >= h.size() && body.compare(pos, h.size(), h) == 0) {
				if (pos + h.size() == eol || std::strchr("[,= :", body[pos + h.size()])) { ++cnt; break; }
			}
		}
		pos = eol + 1;
	}
	return cnt;
}
static unsigned long statRuns = 0, statPrinted = 0, statRefused = 0, statLevelChecked = 0;   // printed to stderr at the end when C19M_DEBUG is set
static bool lenientFlag(const std::string&, bool& b) { b = true; return true; }

int main() {
	Case c; Obs o;
	while (readCase(c)) {
		ll active = c.next();
		size_t prefix = (size_t)c.next();
		size_t ng = (size_t)c.next();
		std::deque<Spec> specs;
		std::deque<std::string> sinks;
		std::vector<GroupSpec> groups;
		std::vector<std::string> refusedNames;
		Po::OptionContext ctx("ctx");
		bool bad = false, anomaly = false;
		for (size_t g = 0; g != ng; ++g) {
			GroupSpec gs;
			gs.cap = c.bytes((size_t)c.next());
			gs.level = c.next();
			gs.declLevel = gs.level < 8 ? gs.level : gs.level / 8 - 1;
			gs.addLevel  = gs.level < 8 ? gs.level : gs.level % 8;
			gs.first = specs.size();
			gs.count = (size_t)c.next();
			for (size_t k = 0; k != gs.count; ++k) {
				specs.push_back(Spec());
				Spec& s = specs.back();
				s.name = c.bytes((size_t)c.next());
				s.alias = c.next(); s.neg = c.next() != 0; s.level = c.next();
				{ ll f = c.next(); s.flag = (f & 1) != 0; s.keyed = (f & 2) != 0; }
				if (c.next() != 0) { s.hasArg = true;  s.arg = c.bytes((size_t)c.next()); }
				if (c.next() != 0) { s.hasImpl = true; s.impl = c.bytes((size_t)c.next()); }
				if (c.next() != 0) { s.hasDflt = true; s.dflt = c.bytes((size_t)c.next()); }
				s.desc = c.bytes((size_t)c.next());
			}
			groups.push_back(gs);
		}
		std::vector<Directive> dirs;
		if (c.more()) {
			size_t nd = (size_t)c.next();
			for (size_t i = 0; i != nd && c.more(); ++i) {
				Directive d;
				d.g = (size_t)c.next(); d.k = (size_t)c.next(); d.kind = c.next(); d.target = (size_t)c.next(); d.tail = (size_t)c.next() % 5;
				dirs.push_back(d);
			}
		}
		std::vector<size_t> acc;   // the declarations accepted so far (all of them unless a key was refused), in order
		try {
			for (size_t g = 0; g != ng; ++g) {
				const GroupSpec& gs = groups[g];
				// a group is created with its declaration level; its level when handed to add may have been changed by setDescriptionLevel
				std::unique_ptr<Po::OptionGroup> piece(new Po::OptionGroup(gs.cap, (Po::DescriptionLevel)gs.declLevel));
				for (size_t k = 0; k <= gs.count; ++k) {
					size_t cur = acc.size();     // number of options declared (and, piece by piece, accepted by the context) so far
					for (size_t di = 0; di != dirs.size(); ++di) {
						const Directive& d = dirs[di];
						if (d.g != g || std::min(d.k, gs.count) != k || cur == 0) continue;
						if (d.kind != 2) {
							size_t t = acc[d.target % cur];
							ll kind = d.kind;
							if (kind == 1) {
								std::vector<size_t> withAlias;
								for (size_t j = 0; j != cur; ++j) if (specs[acc[j]].alias) withAlias.push_back(acc[j]);
								if (withAlias.empty()) kind = 0; else t = withAlias[d.target % withAlias.size()];
							}
							std::string tag = "Z" + std::to_string(di);
							sinks.push_back(std::string());
							std::string dupName = kind == 1 ? tag + "dup" : specs[t].name;
							char dupAlias = kind == 1 ? (char)specs[t].alias : kind == 3 ? '#' : (char)0;
							if (kind == 1) refusedNames.push_back(dupName);
							piece->addOption(Po::SharedOptPtr(new Po::Option(dupName, dupAlias, "refused", Po::storeTo(sinks.back())->defaultsTo("7"))));
							for (size_t j = 0; j != d.tail; ++j) {
								sinks.push_back(std::string());
								refusedNames.push_back(tag + "tail" + std::to_string(j));
								piece->addOption(Po::SharedOptPtr(new Po::Option(refusedNames.back(), 0, "behind the refused option", Po::storeTo(sinks.back())->defaultsTo("1"))));
							}
							bool refused = false;
							piece->setDescriptionLevel((Po::DescriptionLevel)gs.addLevel);
							try { ctx.add(*piece); } catch (const Po::DuplicateOption&) { refused = true; }
							if (!refused) anomaly = true;
						}
						else { piece->setDescriptionLevel((Po::DescriptionLevel)gs.addLevel); ctx.add(*piece); }
						piece.reset(new Po::OptionGroup(gs.cap, (Po::DescriptionLevel)gs.declLevel));
					}
					if (k == gs.count) break;
					Spec& s = specs[gs.first + k];
					// a flag's value parser: the library's (most defaults written into a case are then INVALID defaults, which Application::main reports
				// instead of printing help) or, for fifteen flags out of sixteen, one that takes any string; the help text does not depend on it
				bool lenient = (gs.first + k + s.name.size()) % 16 != 0;
				Po::Value* v = s.flag ? static_cast<Po::Value*>(lenient ? Po::storeTo(s.b, &lenientFlag)->flag() : Po::flag(s.b)) : static_cast<Po::Value*>(Po::storeTo(s.s));
					// the three descriptions share one setter (Value::desc) whose storage depends on how many were set before:
					// attach them in an order chosen from the case (all six orders occur)
					static const int perm[6][3] = {{0,1,2},{0,2,1},{1,0,2},{1,2,0},{2,0,1},{2,1,0}};
					const int* pm = perm[(s.name.size() + (size_t)s.alias + (size_t)s.level + s.desc.size() + (gs.first + k)) % 6];
					for (int j = 0; j != 3; ++j) {
						if (pm[j] == 0 && s.hasArg)  v->arg(s.arg.c_str());
						if (pm[j] == 1 && s.hasImpl) v->implicit(s.impl.c_str());
						if (pm[j] == 2 && s.hasDflt) v->defaultsTo(s.dflt.c_str());
					}
					if (s.keyed) {
						// the key string of the case goes to the real init helper; the value carries its own level; the group has its declaration level
						s.key = s.name;
						v->level((Po::DescriptionLevel)s.level);
						try { piece->addOptions()(s.key.c_str(), v, s.desc.c_str()); }
						catch (const Po::Error&) { s.refused = true; }      // "Invalid empty option name" / "Invalid Key": v was deleted by the helper
						if (!s.refused) {
							const Po::Option& made = **(piece->end() - 1);
							s.name = made.name(); s.alias = (unsigned char)made.alias();
							acc.push_back(gs.first + k);
						}
						continue;
					}
					s.key = s.name;
					if (s.neg) s.key += '!';
					if (s.alias) { s.key += ','; s.key += (char)s.alias; }
					s.key += ",@"; s.key += std::to_string(s.level);
					piece->addOptions()(s.key.c_str(), v, s.desc.c_str());
					acc.push_back(gs.first + k);
				}
				piece->setDescriptionLevel((Po::DescriptionLevel)gs.addLevel);
				ctx.add(*piece);
			}
		}
		catch (const std::exception&) { bad = true; }
		if (bad) { o.add(-998); o.flush(); continue; }
		// The context must be consistent after refused adds: what its groups list (the source of description() and defaults()) is exactly
		// what it registered (begin()..end(), reachable through tryFind), and no refused name is known to it.
		{
			size_t listed = 0;
			for (size_t g = 0; g != ng; ++g) {
				bool seen = false;   // groups of the case with equal captions are one group of the context (merged by add)
				for (size_t h = 0; h != g; ++h) seen = seen || groups[h].cap == groups[g].cap;
				if (seen) continue;
				const Po::OptionGroup* grp = ctx.tryFindGroup(groups[g].cap);
				if (!grp) { anomaly = true; continue; }
				for (Po::OptionGroup::option_iterator it = grp->begin(); it != grp->end(); ++it, ++listed) {
					bool found = false;
					for (Po::OptionContext::option_iterator x = ctx.begin(); x != ctx.end(); ++x) found = found || x->get() == it->get();
					if (!found) anomaly = true;
				}
			}
			if (listed != ctx.size() || ctx.size() != acc.size()) anomaly = true;
			for (Po::OptionContext::option_iterator x = ctx.begin(); x != ctx.end(); ++x) {
				if (ctx.tryFind((*x)->name().c_str(), Po::OptionContext::find_name) != x) anomaly = true;
			}
			for (size_t i = 0; i != refusedNames.size(); ++i) {
				if (ctx.tryFind(refusedNames[i].c_str(), Po::OptionContext::find_name) != ctx.end()) anomaly = true;
			}
		}
		ctx.setActiveDescLevel((Po::DescriptionLevel)active);
		std::string text;
		{
			Po::StringOut out(text);
			ctx.description(out);
		}
		std::string defs = ctx.defaults(prefix);
		// the same help through Application::printHelp (the library's `--help` printer)
		ll helpFlags = 0; std::string helpDefs;
		{
			HelpApp app(prefix ? std::string(prefix - 1, 'a') : std::string("app"));
			std::string appDefs = prefix ? defs : ctx.defaults(app.name.size() + 1);
			std::string usage = "usage: " + app.name + " " + app.getUsage() + "\n";   // getUsage(): the library's default, "[options]"
			std::string marker = "Default command-line:\n";
			std::string front = app.name + " version 1.0\n" + usage + text + "\n" + usage + marker;
			std::string got = capturedHelp(app, ctx);
			size_t cut;
			if (got.compare(0, front.size(), front) == 0) { cut = front.size(); }
			else {
				helpFlags |= 1;
				cut = got.rfind(marker);
				cut = cut == std::string::npos ? got.size() : cut + marker.size();
			}
			helpDefs = got.substr(cut);
			if (helpDefs != app.name + " " + appDefs + "\n") helpFlags |= 2;
		}
		// the same help the way a user gets it: Application::main(argc, argv) with --help / --help=N / -h / -hN (getOptions: the application's own
		// "Basic Options" group in front of the case's groups, parseCommandLine, assignDefaults, level = N-1, setActiveDescLevel, printHelp, return)
		ll mainFlags = 0, mainForm = 0, mainN = 0;
		{
			unsigned long hsh = 1469598103UL;
			for (size_t i = 0; i != c.v.size(); ++i) hsh = (hsh ^ (unsigned long)c.v[i]) * 1099511UL + 7;
			hsh >>= 7;
			unsigned maxHelp = hsh % 4 == 0 ? 1u : (hsh % 4 == 1 ? 6u : 5u);
			std::string appName = prefix ? std::string(prefix - 1, 'a') : std::string("app");
			bool newline = false, plain = true;
			for (size_t i = 0; i != specs.size(); ++i) {
				const Spec& s = specs[i];
				newline = newline || (s.name + s.arg + s.impl + s.dflt + s.desc).find('\n') != std::string::npos;
			}
			for (size_t g = 0; g != ng; ++g) newline = newline || groups[g].cap.find('\n') != std::string::npos;
			for (Po::OptionContext::option_iterator x = ctx.begin(); x != ctx.end(); ++x) plain = plain && plainName((*x)->name());
			// runs: form 0 "--help=N", 1 "-hN", 2 "--help" (N = 1), 3 "-h" (N = 1), 4 "--help=N" with N out of range (0 or maxHelp+1)
			std::vector<std::pair<int, unsigned> > runs;
			runs.push_back(std::make_pair(2, 1u)); runs.push_back(std::make_pair(3, 1u));
			if (maxHelp > 1) {
				for (unsigned n = 1; n <= maxHelp; ++n) runs.push_back(std::make_pair((int)((hsh / 4 + n) % 2), n));
				runs.push_back(std::make_pair(4, (hsh / 8) % 2 ? 0u : maxHelp + 1));
			}
			else { runs.push_back(std::make_pair(4, 2u)); }
			for (size_t r = 0; r != runs.size(); ++r) {
				int form = runs[r].first; unsigned N = runs[r].second;
				ll fl = 0;
				MainApp app(appName, ctx, maxHelp);
				std::vector<std::string> args;
				args.push_back(appName);
				args.push_back(form == 2 ? std::string("--help") : form == 3 ? std::string("-h") : (form == 1 ? "-h" : "--help=") + std::to_string(N));
				int ret = -1;
				CallMain call = {&app, &args, &ret};
				std::string got = captured(call);
				// reference: a context with the Basic Options written down above + the case's context, at level N-1
				Po::OptionContext ref("<" + appName + ">");
				BasicVars bv;
				bool refFails = false;
				try {
					addBasic(ref, app, bv);
					ref.add(ctx);
					ref.assignDefaults(Po::ParsedOptions());    // main() has tried the same defaults before (a value that took its default is not parsed again)
				}
				catch (const std::exception& e) { refFails = true; if (getenv("C19M_DEBUG") && r == 0) fprintf(stderr, "C19M refused: %.60s\n", e.what()); }
				if (app.ran) fl |= 16;
				++statRuns; if (!got.empty()) ++statPrinted; if (refFails) ++statRefused;
				if (form == 4) {
					if (!got.empty() || ret != EXIT_FAILURE) fl |= 32;
				}
				else if (got.empty() && refFails) {
					if (ret != EXIT_FAILURE || app.errors == 0) fl |= 8;   // a name / alias of the case clashes with a basic option, or an invalid default: reported, no help
				}
				else if (got.empty() || refFails) { fl |= 4; }
				else {
					unsigned L = std::min(N - 1, 4u);
					ref.setActiveDescLevel((Po::DescriptionLevel)(N - 1));
					std::string rtext;
					{ Po::StringOut out(rtext); ref.description(out); }
					std::string usage = "usage: " + appName + " [options]\n";
					std::string want = appName + " version 1.0\n" + usage + rtext + "\n" + usage + "Default command-line:\n" + appName + " " + ref.defaults(appName.size() + 1) + "\n";
					if (got != want) fl |= 1;
					if (ret != EXIT_SUCCESS || app.errors != 0) fl |= 8;
					// the level rule, read off the printed text alone: an option has its entry (a line "  --[no-]name" + one of "[,= :") iff its own level and
					// the level of its group (minimum over the adds of its caption; "Basic Options" is a group of level 0) do not exceed N-1 (at most 4)
					size_t cut = got.rfind("\nusage: ");
					if (!newline && plain && cut != std::string::npos) {
						++statLevelChecked;
						std::string body = got.substr(0, cut + 1);
						static const char* const basicNames[5] = {"help", "version", "verbose", "time-limit", "fast-exit"};
						for (int b = 0; b != 5; ++b) {
							size_t wantN = (b == 4 ? 1u : 0u) <= L ? 1 : 0;
							if (headerLines(body, basicNames[b]) != wantN) fl |= 2;
						}
						for (size_t i = 0; i != acc.size() && i < ctx.size(); ++i) {
							const Po::Option& opt = **(ctx.begin() + i);
							size_t g = 0;
							while (g + 1 < ng && !(groups[g].first <= acc[i] && acc[i] < groups[g].first + groups[g].count)) ++g;
							ll gl = groups[g].cap == "Basic Options" ? 0 : groups[g].addLevel;
							for (size_t h = 0; h != ng; ++h) if (groups[h].cap == groups[g].cap) gl = std::min(gl, groups[h].addLevel);
							size_t wantN = ((ll)opt.descLevel() <= (ll)L && gl <= (ll)L) ? 1 : 0;
							if (headerLines(body, opt.name()) != wantN) fl |= 2;
						}
					}
				}
				if (fl && !mainFlags) { mainForm = form; mainN = N; }
				mainFlags |= fl;
				if (getenv("C19M_DUMP")) fprintf(stderr, "C19M %s -> ret=%d errors=%d\n%s", args[1].c_str(), ret, app.errors, got.c_str());
				if (getenv("C19M_DEBUG") && fl) fprintf(stderr, "C19M fl=%lld form=%d N=%u ret=%d errors=%d refFails=%d got=[%s]\n", fl, form, N, ret, app.errors, (int)refFails, got.c_str());
			}
		}
		if (anomaly) { o.add(-997); }
		if (mainFlags) { o.add(-995); o.add(mainFlags); o.add(mainForm); o.add(mainN); }
		if (helpFlags) {
			if (helpDefs.size() > 600) helpDefs.resize(600);
			o.add(-996); o.add(helpFlags); o.add((ll)helpDefs.size()); o.addBytes(helpDefs.data(), helpDefs.size());
		}
		{
			Po::OptionContext::option_iterator it = ctx.begin();
			for (size_t i = 0; i != specs.size(); ++i) {
				if (specs[i].refused) { o.add(-1); continue; }
				if (it == ctx.end()) break;
				const Po::Option& opt = **it; ++it;
				o.add((ll)opt.name().size()); o.addBytes(opt.name().data(), opt.name().size());
				o.add((unsigned char)opt.alias()); o.add((ll)opt.descLevel()); o.add(opt.value()->isNegatable() ? 1 : 0);
			}
		}
		o.add((ll)text.size()); o.addBytes(text.data(), text.size());
		o.add(0);
		o.add((ll)defs.size()); o.addBytes(defs.data(), defs.size());
		try {
			Po::ParsedValues pv = Po::parseCommandString(defs, ctx);
			size_t cnt = 0;
			for (Po::ParsedValues::iterator it = pv.begin(); it != pv.end(); ++it) ++cnt;
			o.add(0); o.add((ll)cnt);
			for (Po::ParsedValues::iterator it = pv.begin(); it != pv.end(); ++it) {
				ll idx = -1;
				for (size_t k = 0; k != ctx.size(); ++k) if ((ctx.begin() + k)->get() == it->first.get()) idx = (ll)k;
				o.add(idx); o.add((ll)it->second.size()); o.addBytes(it->second.data(), it->second.size());
			}
		}
		catch (const Po::UnknownOption&)   { o.add(1); }
		catch (const Po::AmbiguousOption&) { o.add(2); }
		catch (const Po::SyntaxError&)     { o.add(3); }
		catch (const std::exception&)      { o.add(9); }
		o.flush();
	}
	if (getenv("C19M_DEBUG")) fprintf(stderr, "C19M main() runs=%lu printed=%lu refused=%lu level-checked=%lu\n", statRuns, statPrinted, statRefused, statLevelChecked);
	return 0;
}
