// C19: real OptionContext::description (through StringOut), defaults(n), and parseCommandString on the real defaults().
// Case (see coq/C19/Model.v run_case):
//   activeLevel prefixN nGroups { capLen cap.. level nOpts { nameLen name.. alias neg level flag arg? impl? dflt? descLen desc.. }* }*
//   x? : 0 | 1 len bytes
// Observation: per option (context order) nameLen name.. alias level neg ; descLen desc.. fault(0) ; defsLen defs.. ;
//              0 nParsed { optIndex valLen val.. }*  |  errorClass (1 unknown, 2 ambiguous, 3 syntax, 9 other)
#include "common.h"
#include <deque>
#include <potassco/program_opts/program_options.h>
#include <potassco/program_opts/typed_value.h>
#include <potassco/program_opts/errors.h>
namespace Po = Potassco::ProgramOptions;

struct Spec {
	std::string name, arg, impl, dflt, desc, key; bool hasArg, hasImpl, hasDflt; bool b; std::string s;
	Spec() : hasArg(false), hasImpl(false), hasDflt(false), b(false) {}
};

int main() {
	Case c; Obs o;
	while (readCase(c)) {
		ll active = c.next();
		size_t prefix = (size_t)c.next();
		size_t ng = (size_t)c.next();
		std::deque<Spec> specs;
		Po::OptionContext ctx("ctx");
		bool bad = false;
		try {
			for (size_t g = 0; g != ng; ++g) {
				std::string cap = c.bytes((size_t)c.next());
				ll glevel = c.next();
				size_t no = (size_t)c.next();
				Po::OptionGroup grp(cap, (Po::DescriptionLevel)glevel);
				for (size_t k = 0; k != no; ++k) {
					specs.push_back(Spec());
					Spec& s = specs.back();
					s.name = c.bytes((size_t)c.next());
					ll alias = c.next(); bool neg = c.next() != 0; ll level = c.next(); bool flag = c.next() != 0;
					if (c.next() != 0) { s.hasArg = true;  s.arg = c.bytes((size_t)c.next()); }
					if (c.next() != 0) { s.hasImpl = true; s.impl = c.bytes((size_t)c.next()); }
					if (c.next() != 0) { s.hasDflt = true; s.dflt = c.bytes((size_t)c.next()); }
					s.desc = c.bytes((size_t)c.next());
					Po::Value* v = flag ? static_cast<Po::Value*>(Po::flag(s.b)) : static_cast<Po::Value*>(Po::storeTo(s.s));
					if (s.hasArg)  v->arg(s.arg.c_str());
					if (s.hasImpl) v->implicit(s.impl.c_str());
					if (s.hasDflt) v->defaultsTo(s.dflt.c_str());
					s.key = s.name;
					if (neg) s.key += '!';
					if (alias) { s.key += ','; s.key += (char)alias; }
					s.key += ",@"; s.key += std::to_string(level);
					grp.addOptions()(s.key.c_str(), v, s.desc.c_str());
				}
				ctx.add(grp);
			}
		}
		catch (const std::exception&) { bad = true; }
		if (bad) { o.add(-998); o.flush(); continue; }
		for (Po::OptionContext::option_iterator it = ctx.begin(); it != ctx.end(); ++it) {
			const Po::Option& opt = **it;
			o.add((ll)opt.name().size()); o.addBytes(opt.name().data(), opt.name().size());
			o.add((unsigned char)opt.alias()); o.add((ll)opt.descLevel()); o.add(opt.value()->isNegatable() ? 1 : 0);
		}
		ctx.setActiveDescLevel((Po::DescriptionLevel)active);
		std::string text;
		{
			Po::StringOut out(text);
			ctx.description(out);
		}
		o.add((ll)text.size()); o.addBytes(text.data(), text.size());
		o.add(0);
		std::string defs = ctx.defaults(prefix);
		o.add((ll)defs.size()); o.addBytes(defs.data(), defs.size());
		try {
			Po::ParsedValues pv = Po::parseCommandString(defs, ctx);
			size_t cnt = 0;
			for (Po::ParsedValues::iterator it = pv.begin(); it != pv.end(); ++it) ++cnt;
			o.add(0); o.add((ll)cnt);
			for (Po::ParsedValues::iterator it = pv.begin(); it != pv.end(); ++it) {
				ll idx = -1;
				for (size_t k = 0; k != ctx.size(); ++k) if ((ctx.begin() + k)->get() == it->first.get()) idx = (ll)k;
				o.add(idx); o.add((ll)it->second.size()); o.addBytes(it->second.data(), it->second.size());
			}
		}
		catch (const Po::UnknownOption&)   { o.add(1); }
		catch (const Po::AmbiguousOption&) { o.add(2); }
		catch (const Po::SyntaxError&)     { o.add(3); }
		catch (const std::exception&)      { o.add(9); }
		o.flush();
	}
	return 0;
}
