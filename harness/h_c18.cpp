// C18: deterministic single-thread scheduler around the real Application signal code.
// Case:  nops op...  nans ans...  decision...
//   op: 1 = blockSignals(), 2 = unblockSignals(false), 3 = unblockSignals(true), 4 = shutdown(false)
//   ans: answers of onSignal in invocation order (1 = continue, 0 = stop; continue when exhausted)
//   decision: consumed one per scheduling point (= before each atomic step of the running activation):
//             0 = the step executes, s != 0 = signal s arrives here (processSignal(s) is called synchronously,
//             which is what a handler interrupting at this point does on one thread); 0 when exhausted.
// Observation: at every scheduling point "k blocked_ pending_" (k = the step that follows: 1 inc, 2 callback entry,
//   3 callback exit, 4 read pending_, 5 write pending_, 6 dec; main flow: 7 block-inc, 8 unblock-dec,
//   9 take pending_ (read / exchange), 10 clear pending_), "30 s" for an arrival, "20 s" / "21 ans" for callback
//   entry / exit; k = 0 is the idle main flow after its last operation (the run ends when the decision there is 0).
#include "common.h"
#define private public
#define protected public
#include <potassco/application.h>
#undef private
#undef protected
namespace Potassco { extern void (*verifYieldHook_g)(int); }

static Obs o;
static Case* cur = 0;
static std::vector<ll> answers; static size_t ansPos = 0;
struct App;
static App* app = 0;
static void yieldPoint(int k);

struct App : public Potassco::Application {
	const char* getName()    const { return "h_c18"; }
	const char* getVersion() const { return "0"; }
	void initOptions(Potassco::ProgramOptions::OptionContext&) {}
	void validateOptions(const Potassco::ProgramOptions::OptionContext&, const Potassco::ProgramOptions::ParsedOptions&, const Potassco::ProgramOptions::ParsedValues&) {}
	void setup() {}
	// The schedule is executed either on a fresh object or (every other case) inside run() of a SECOND main() call on an object whose
	// first run completed: Application::main() must start every run with delivery unblocked and nothing remembered, so both are the
	// same for the model.
	std::vector<ll>* ops; bool active;
	App() : ops(0), active(false) {}
	void execOps();
	void run() { if (active) { execOps(); } }
	void info(const char*) const {}
	bool onSignal(int s) {
		o.add(20); o.add(s);
		yieldPoint(3);
		bool a = ansPos < answers.size() ? answers[ansPos++] != 0 : true;
		o.add(21); o.add(a ? 1 : 0);
		return a;
	}
};

static bool recording = true;
static void yieldPoint(int k) {
	if (!recording) return;
	for (;;) {
		o.add(k); o.add(app->blocked_); o.add(app->pending_);
		ll d = cur->next(); // 0 when exhausted
		if (d == 0) return;
		o.add(30); o.add(d);
		app->processSignal(static_cast<int>(d));
	}
}

void App::execOps() {
	for (size_t i = 0; i != ops->size(); ++i) {
		switch ((*ops)[i]) {
			case 1:  yieldPoint(7); blockSignals(); break;
			case 2:  yieldPoint(8); unblockSignals(false); break;
			case 3:  yieldPoint(8); unblockSignals(true); break;
			case 4:  yieldPoint(7); shutdown(false); break;
			default: break;
		}
	}
	// arrivals after the last operation of the main flow
	yieldPoint(0); // its last record "0 blocked_ pending_" is the final state
	recording = false; // what main() itself does after run() (its own shutdown) is not part of the schedule
}

int main() {
	Case c;
	Potassco::verifYieldHook_g = &yieldPoint;
	while (readCase(c)) {
		cur = &c;
		std::vector<ll> ops;
		for (ll n = c.next(); n > 0 && c.more(); --n) ops.push_back(c.next());
		answers.clear(); ansPos = 0;
		for (ll n = c.next(); n > 0 && c.more(); --n) answers.push_back(c.next());
		try {
			App a; app = &a; a.ops = &ops;
			ll h = 0; for (size_t i = 0; i != c.v.size(); ++i) h += c.v[i];
			if ((h & 1) == 0) { recording = true; a.execOps(); }
			else {
				char name[] = "h_c18"; char* argv[] = { name, 0 };
				recording = false; a.active = false; a.main(1, argv);   // a complete first run (its shutdown takes a block)
				recording = true;  a.active = true;  a.main(1, argv);   // the schedule runs inside the second run
				recording = false;
			}
			app = 0;
		}
		catch (...) { o.add(-1); }
		o.flush();
	}
	return 0;
}
