// C18: deterministic single-thread scheduler around the real Application signal code.
// Case (direct mode):  nops op...  nans ans...  decision...
//   op: 1 = blockSignals(), 2 = unblockSignals(false), 3 = unblockSignals(true), 4 = shutdown(false)
//   ans: answers of onSignal in invocation order (1 = continue, 0 = stop; continue when exhausted)
//   decision: consumed one per scheduling point (= before each atomic step of the running activation):
//             0 = the step executes, s != 0 = signal s arrives here (processSignal(s) is called synchronously,
//             which is what a handler interrupting at this point does on one thread); 0 when exhausted.
// Observation: at every scheduling point "k blocked_ pending_" (k = the step that follows: 1 inc, 2 callback entry,
//   3 callback exit, 4 read pending_, 5 write pending_, 6 dec; main flow: 7 block-inc, 8 unblock-dec,
//   9 take pending_ (read / exchange), 10 clear pending_), "30 s" for an arrival, "20 s" / "21 ans" for callback
//   entry / exit; k = 0 is the idle main flow after its last operation (the run ends when the decision there is 0).
//
// Case (OS-level modes):  -m mask  nops op...  nans ans...  [n1]  decision...
//   The schedule runs inside a real Application::main() and an arrival is a real signal: raise(SIGINT/SIGTERM/SIGUSR1 for
//   s = 1/2/3) with the handlers that main() installed (raise delivers synchronously on this thread).  The signal mask is
//   cleared before every raise, so the disposition alone decides whether the OS calls the handler (no-mask semantics of
//   Windows / System V signal(); with the BSD mask of glibc's signal() the kernel would hold a same-number arrival
//   pending until the handler returns instead of discarding it).
//   m = 1: inside the first main(); m = 2: inside a second main() after an empty first run; m = 3: the first main() runs
//   the flow with the first n1 decisions, a second main() on the same object runs the same flow with the rest.
//   mask: bit s-1 set = signal s is ignored (SIG_IGN) by the environment before the first main().
//   Extra observation: after every "k blocked_ pending_" record "40 d1 d2 d3" = disposition of the three registered
//   signals as sigaction() reports it (0 default, 1 Application::sigHandler, 2 ignored, 3 other); after "30 s":
//   "31 s" = the OS did not call the handler (discarded), "32 s" = not a registered signal (not raised),
//   "33 s" = disposition is not handler/ignore (not raised: it would kill the harness); "41 d1 d2 d3" after main() returned.
//   Signal numbers are printed as case ids (callback argument, pending_).
#include "common.h"
#include <signal.h>
#define private public
#define protected public
#include <potassco/application.h>
#undef private
#undef protected
namespace Potassco { extern void (*verifYieldHook_g)(int); }

static Obs o;
static Case* cur = 0;
static std::vector<ll> answers; static size_t ansPos = 0;
struct App;
static App* app = 0;
static void yieldPoint(int k);

static int  osMode = 0;                 // 0 = direct mode
static const int REAL[4] = { 0, SIGINT, SIGTERM, SIGUSR1 };
static ll   decLeft = -1;               // decisions left for this run (-1 = no bound)
static unsigned long entered = 0;       // number of processSignal activations started so far
static ll toId(long real) {
	if (!osMode || real == 0) return real;
	for (int i = 1; i <= 3; ++i) { if (REAL[i] == real) return i; }
	return 1000 + real;
}
static int dispCode(int sig) {
	struct sigaction old; std::memset(&old, 0, sizeof(old));
	if (sigaction(sig, 0, &old) != 0) return 3;
	if (old.sa_handler == SIG_IGN) return 2;
	if (old.sa_handler == SIG_DFL) return 0;
	return old.sa_handler == &Potassco::Application::sigHandler ? 1 : 3;
}
static void printDisp(int tag) { o.add(tag); for (int i = 1; i <= 3; ++i) o.add(dispCode(REAL[i])); }
static void clearMask() {
	sigset_t m; sigemptyset(&m);
	for (int i = 1; i <= 3; ++i) sigaddset(&m, REAL[i]);
	sigprocmask(SIG_UNBLOCK, &m, 0);
}
static void setAll(void (*h)(int)) { for (int i = 1; i <= 3; ++i) signal(REAL[i], h); }

struct App : public Potassco::Application {
	const char* getName()    const { return "h_c18"; }
	const char* getVersion() const { return "0"; }
	const int*  getSignals() const { static const int s[] = { SIGINT, SIGTERM, SIGUSR1, 0 }; return s; }
	void initOptions(Potassco::ProgramOptions::OptionContext&) {}
	void validateOptions(const Potassco::ProgramOptions::OptionContext&, const Potassco::ProgramOptions::ParsedOptions&, const Potassco::ProgramOptions::ParsedValues&) {}
	void setup() {}
	// The schedule is executed either on a fresh object or (every other case) inside run() of a SECOND main() call on an object whose
	// first run completed: Application::main() must start every run with delivery unblocked and nothing remembered, so both are the
	// same for the model.
	std::vector<ll>* ops; bool active;
	App() : ops(0), active(false) {}
	void execOps();
	void run() { if (active) { execOps(); } }
	void info(const char*) const {}
	bool onSignal(int s) {
		o.add(20); o.add(toId(s));
		yieldPoint(3);
		bool a = ansPos < answers.size() ? answers[ansPos++] != 0 : true;
		o.add(21); o.add(a ? 1 : 0);
		return a;
	}
};

static bool recording = true;
static ll nextDecision() {
	if (decLeft == 0) return 0;
	if (decLeft > 0) --decLeft;
	return cur->next(); // 0 when exhausted
}
static void yieldPoint(int k) {
	if (k == 1) ++entered;
	if (!recording) return;
	for (;;) {
		o.add(k); o.add(app->blocked_); o.add(toId(app->pending_));
		if (osMode) printDisp(40);
		ll d = nextDecision();
		if (d == 0) return;
		o.add(30); o.add(d);
		if (!osMode) { app->processSignal(static_cast<int>(d)); continue; }
		if (d < 1 || d > 3) { o.add(32); o.add(d); continue; }
		int dc = dispCode(REAL[d]);
		if (dc != 1 && dc != 2) { o.add(33); o.add(d); continue; }
		unsigned long before = entered;
		clearMask();
		raise(REAL[d]);                      // the real entry point: the OS calls Application::sigHandler, or discards the signal
		if (entered == before) { o.add(31); o.add(d); }
	}
}

void App::execOps() {
	for (size_t i = 0; i != ops->size(); ++i) {
		switch ((*ops)[i]) {
			case 1:  yieldPoint(7); blockSignals(); break;
			case 2:  yieldPoint(8); unblockSignals(false); break;
			case 3:  yieldPoint(8); unblockSignals(true); break;
			case 4:  yieldPoint(7); shutdown(false); break;
			default: break;
		}
	}
	// arrivals after the last operation of the main flow
	yieldPoint(0); // its last record "0 blocked_ pending_" is the final state
	recording = false; // what main() itself does after run() (its own shutdown) is not part of the schedule
}

int main() {
	Case c;
	Potassco::verifYieldHook_g = &yieldPoint;
	char name[] = "h_c18"; char* argv[] = { name, 0 };
	while (readCase(c)) {
		cur = &c; osMode = 0; decLeft = -1; recording = false;
		setAll(SIG_DFL); clearMask();   // cases are independent
		ll mask = 0;
		bool bad = false;
		if (!c.v.empty() && c.v[0] < 0) {
			if (c.v.size() < 3 || c.v[0] < -3) { bad = true; }
			else { osMode = static_cast<int>(-c.next()); mask = c.next(); }
		}
		if (bad) { o.add(-3); o.flush(); continue; }
		std::vector<ll> ops;
		for (ll n = c.next(); n > 0 && c.more(); --n) ops.push_back(c.next());
		answers.clear(); ansPos = 0;
		for (ll n = c.next(); n > 0 && c.more(); --n) answers.push_back(c.next());
		try {
			App a; app = &a; a.ops = &ops;
			if (osMode == 0) {
				ll h = 0; for (size_t i = 0; i != c.v.size(); ++i) h += c.v[i];
				if ((h & 1) == 0) { recording = true; a.execOps(); }
				else {
					recording = false; a.active = false; a.main(1, argv);   // a complete first run (its shutdown takes a block)
					recording = true;  a.active = true;  a.main(1, argv);   // the schedule runs inside the second run
					recording = false;
				}
			}
			else {
				for (int i = 1; i <= 3; ++i) signal(REAL[i], ((mask >> (i - 1)) & 1) ? SIG_IGN : SIG_DFL);   // what the environment left
				if (osMode == 1) {
					recording = true; a.active = true; a.main(1, argv); recording = false;
					printDisp(41);
				}
				else if (osMode == 2) {
					recording = false; a.active = false; a.main(1, argv);
					recording = true;  a.active = true;  a.main(1, argv); recording = false;
					printDisp(41);
				}
				else {
					ll n1 = c.next(); if (n1 < 0) n1 = 0;
					size_t p0 = c.p;
					decLeft = n1;
					recording = true; a.active = true; a.main(1, argv); recording = false;
					printDisp(41);
					c.p = (n1 < static_cast<ll>(c.v.size() - p0)) ? p0 + static_cast<size_t>(n1) : c.v.size();
					decLeft = -1;
					recording = true; a.main(1, argv); recording = false;
					printDisp(41);
				}
			}
			app = 0;
		}
		catch (...) { o.add(-1); }
		setAll(SIG_DFL);
		o.flush();
	}
	return 0;
}
