// C18: deterministic single-thread scheduler around the real Application signal code.
// Case (direct mode):  nops op...  nans ans...  decision...
//   op: 1 = blockSignals(), 2 = unblockSignals(false), 3 = unblockSignals(true), 4 = shutdown(false)
//   ans: answers of onSignal in invocation order (1 = continue, 0 = stop; continue when exhausted)
//   decision: consumed one per scheduling point (= before each atomic step of the running activation):
//             0 = the step executes, s != 0 = signal s arrives here (processSignal(s) is called synchronously,
//             which is what a handler interrupting at this point does on one thread); 0 when exhausted.
// Observation: at every scheduling point "k blocked_ pending_" (k = the step that follows: 1 inc, 2 callback entry,
//   3 callback exit, 4 read pending_, 5 write pending_, 6 dec; main flow: 7 block-inc, 8 unblock-dec,
//   9 take pending_ (read / exchange), 10 clear pending_), "30 s" for an arrival, "20 s" / "21 ans" for callback
//   entry / exit; k = 0 is the idle main flow after its last operation (the run ends when the decision there is 0).
//
// Case (OS-level modes):  -m mask  nops op...  nans ans...  [n1]  decision...
//   The schedule runs inside a real Application::main() and an arrival is a real signal: raise(SIGINT/SIGTERM/SIGUSR1 for
//   s = 1/2/3) with the handlers that main() installed (raise delivers synchronously on this thread).  The signal mask is
//   cleared before every raise, so the disposition alone decides whether the OS calls the handler (no-mask semantics of
//   Windows / System V signal(); with the BSD mask of glibc's signal() the kernel would hold a same-number arrival
//   pending until the handler returns instead of discarding it).
//   m = 1: inside the first main(); m = 2: inside a second main() after an empty first run; m = 3: the first main() runs
//   the flow with the first n1 decisions, a second main() on the same object runs the same flow with the rest.
//   mask: bit s-1 set = signal s is ignored (SIG_IGN) by the environment before the first main().
//   Extra observation: after every "k blocked_ pending_" record "40 d1 d2 d3" = disposition of the three registered
//   signals as sigaction() reports it (0 default, 1 Application::sigHandler, 2 ignored, 3 other); after "30 s":
//   "31 s" = the OS did not call the handler (discarded), "32 s" = not a registered signal (not raised),
//   "33 s" = disposition is not handler/ignore (not raised: it would kill the harness); "41 d1 d2 d3" after main() returned.
//   Signal numbers are printed as case ids (callback argument, pending_).
//   Further ops (OS-level modes only; ignored in direct mode): 5 = construct another application object (new App, never runs
//   main()), 6 = destroy the most recently constructed other object, 7 = copy the running object and drop the copy
//   ({ App snapshot(*this); }); scheduling-point codes 11 / 12 / 13.  The "40" / "41" records carry a 4th value
//   r = Application::getInstance(): 0 null, 1 the running object, 2 another object; after "30 s": "34 s" = the handler is
//   installed but getInstance() is not the running object (not raised: sigHandler would call through that pointer).
//   After the last run the application object is destroyed: "42 r" (others still alive are destroyed after that).
//   SIGALRM is signal id 4 (not in getSignals()): op 8 = setAlarm(3600) (scheduling-point code 14), op 9 = setAlarm(0) (code 15);
//   mask bit 3 = SIGALRM ignored by the environment, mask bit 4 (16) = main() is run with --time-limit=3600 (it calls setAlarm itself);
//   an expiring alarm is realised as raise(SIGALRM) at a scheduling point (decision 4) - the real timer never fires (alarm(0) at the
//   end of every case).  "40"/"41" records: d1 d2 d3 d4 r.  Answers in OS-level modes: 0 stop, 2 = the callback first calls
//   setAlarm(3600) and continues, 3 = calls setAlarm(3600) and stops, 4 = the callback first calls blockSignals() (not released by
//   the callback: the main flow's next unblockSignals releases it) and continues, 5 = the callback first calls blockSignals();
//   unblockSignals(true) (balanced) and continues, anything else continue.  (An unblockSignals alone inside a callback is never
//   legal: a callback only runs when the application holds no block.)
//   op 10 (OS-level modes only; ignored in direct mode) = the run ends with an exception: after the scheduling point "7 .." (the
//   increment of shutdown(bool) follows) run() THROWS; Application::main() catches (catch (...)) and calls shutdown(true), which calls
//   the application's onUnhandledException() - overridden here by a version that RETURNS (the default one calls exit) and that is a
//   window in which signals can arrive: scheduling-point code 16 (recorded again after every arrival handled there; decision 0 = the
//   report returns).  The rest of the flow is never executed; the final record "0 blocked_ pending_" is printed from the
//   application's shutdown() hook, the last thing shutdown(bool) calls.
#include "common.h"
#include <signal.h>
#include <unistd.h>
#define private public
#define protected public
#include <potassco/application.h>
#undef private
#undef protected
namespace Potassco { extern void (*verifYieldHook_g)(int); }

static Obs o;
static Case* cur = 0;
static std::vector<ll> answers; static size_t ansPos = 0;
struct App;
static App* app = 0;
static void yieldPoint(int k);
static bool recording = true;

static int  osMode = 0;                 // 0 = direct mode
static const int NSIG_ = 4;
static const int REAL[5] = { 0, SIGINT, SIGTERM, SIGUSR1, SIGALRM };
static ll   decLeft = -1;               // decisions left for this run (-1 = no bound)
static unsigned long entered = 0;       // number of processSignal activations started so far
static ll toId(long real) {
	if (!osMode || real == 0) return real;
	for (int i = 1; i <= NSIG_; ++i) { if (REAL[i] == real) return i; }
	return 1000 + real;
}
static int dispCode(int sig) {
	struct sigaction old; std::memset(&old, 0, sizeof(old));
	if (sigaction(sig, 0, &old) != 0) return 3;
	if (old.sa_handler == SIG_IGN) return 2;
	if (old.sa_handler == SIG_DFL) return 0;
	return old.sa_handler == &Potassco::Application::sigHandler ? 1 : 3;
}
static int instCode();
static void printDisp(int tag) { o.add(tag); for (int i = 1; i <= NSIG_; ++i) o.add(dispCode(REAL[i])); o.add(instCode()); }
static void clearMask() {
	sigset_t m; sigemptyset(&m);
	for (int i = 1; i <= NSIG_; ++i) sigaddset(&m, REAL[i]);
	sigprocmask(SIG_UNBLOCK, &m, 0);
}
static void setAll(void (*h)(int)) { for (int i = 1; i <= NSIG_; ++i) signal(REAL[i], h); }

struct App : public Potassco::Application {
	const char* getName()    const { return "h_c18"; }
	const char* getVersion() const { return "0"; }
	const int*  getSignals() const { static const int s[] = { SIGINT, SIGTERM, SIGUSR1, 0 }; return s; }
	void initOptions(Potassco::ProgramOptions::OptionContext&) {}
	void validateOptions(const Potassco::ProgramOptions::OptionContext&, const Potassco::ProgramOptions::ParsedOptions&, const Potassco::ProgramOptions::ParsedValues&) {}
	void setup() {}
	// The schedule is executed either on a fresh object or (every other case) inside run() of a SECOND main() call on an object whose
	// first run completed: Application::main() must start every run with delivery unblocked and nothing remembered, so both are the
	// same for the model.
	std::vector<ll>* ops; bool active; bool errorPath;
	App() : ops(0), active(false), errorPath(false) {}
	void execOps();
	void run() { if (active) { execOps(); } }
	struct RunFailed {};                 // what run() throws for op 10
	// main(): catch (...) { shutdown(true); } -> ... onUnhandledException() ... shutdown()
	void onUnhandledException() { if (errorPath) { yieldPoint(16); } }                      // the error report: returns
	void shutdown() { if (errorPath) { errorPath = false; yieldPoint(0); recording = false; } }   // end of shutdown(bool): final state
	using Potassco::Application::shutdown;
	void info(const char*) const {}
	bool onSignal(int s) {
		o.add(20); o.add(toId(s));
		ll code = ansPos < answers.size() ? answers[ansPos] : 1;
		if (osMode && (code == 2 || code == 3)) { setAlarm(3600); }   // a callback that re-arms the alarm (grace period) as its first action
		if (osMode && code == 4) { blockSignals(); }                          // a callback that takes a block and leaves it to the main flow to release it
		if (osMode && code == 5) { blockSignals(); unblockSignals(true); }    // a callback with a balanced block / unblock pair of its own
		yieldPoint(3);
		if (ansPos < answers.size()) ++ansPos;
		bool a = osMode ? !(code == 0 || code == 3) : code != 0;
		o.add(21); o.add(a ? 1 : 0);
		return a;
	}
};

static std::vector<App*> others;   // other application objects alive (ops 5 / 6)
static App* self = 0;              // the object whose main() runs (kept after its destruction for the comparison only)
static int instCode() {
	Potassco::Application* i = Potassco::Application::getInstance();
	return i == 0 ? 0 : (i == self ? 1 : 2);
}
static ll nextDecision() {
	if (decLeft == 0) return 0;
	if (decLeft > 0) --decLeft;
	return cur->next(); // 0 when exhausted
}
static void yieldPoint(int k) {
	if (k == 1) ++entered;
	if (!recording) return;
	for (;;) {
		o.add(k); o.add(app->blocked_); o.add(toId(app->pending_));
		if (osMode) printDisp(40);
		ll d = nextDecision();
		if (d == 0) return;
		o.add(30); o.add(d);
		if (!osMode) { app->processSignal(static_cast<int>(d)); continue; }
		if (d < 1 || d > NSIG_) { o.add(32); o.add(d); continue; }
		int dc = dispCode(REAL[d]);
		if (dc != 1 && dc != 2) { o.add(33); o.add(d); continue; }
		if (dc == 1 && instCode() != 1) { o.add(34); o.add(d); continue; }   // sigHandler would call processSignal through null / another object
		unsigned long before = entered;
		clearMask();
		raise(REAL[d]);                      // the real entry point: the OS calls Application::sigHandler, or discards the signal
		if (entered == before) { o.add(31); o.add(d); }
	}
}

void App::execOps() {
	for (size_t i = 0; i != ops->size(); ++i) {
		switch ((*ops)[i]) {
			case 1:  yieldPoint(7); blockSignals(); break;
			case 2:  yieldPoint(8); unblockSignals(false); break;
			case 3:  yieldPoint(8); unblockSignals(true); break;
			case 4:  yieldPoint(7); shutdown(false); break;
			case 5:  if (osMode) { yieldPoint(11); others.push_back(new App()); } break;
			case 6:  if (osMode) { yieldPoint(12); if (!others.empty()) { delete others.back(); others.pop_back(); } } break;
			case 7:  if (osMode) { yieldPoint(13); { App snapshot(*this); (void)snapshot; } } break;
			case 8:  if (osMode) { yieldPoint(14); setAlarm(3600); } break;
			case 9:  if (osMode) { yieldPoint(15); setAlarm(0); } break;
			case 10: if (osMode) { yieldPoint(7); errorPath = true; throw RunFailed(); } break;   // main() catches: shutdown(true)
			default: break;
		}
	}
	// arrivals after the last operation of the main flow
	yieldPoint(0); // its last record "0 blocked_ pending_" is the final state
	recording = false; // what main() itself does after run() (its own shutdown) is not part of the schedule
}

static int runMain(App& a, bool tl) {
	char name[] = "h_c18"; char tlopt[] = "--time-limit=3600";
	char* argv[] = { name, tl ? tlopt : 0, 0 };
	return a.main(tl ? 2 : 1, argv);
}

int main() {
	Case c;
	Potassco::verifYieldHook_g = &yieldPoint;
	// (parseCommandLine removes the options it consumed from argv: a fresh argv for every main() call)
	while (readCase(c)) {
		cur = &c; osMode = 0; decLeft = -1; recording = false;
		setAll(SIG_DFL); clearMask();   // cases are independent
		ll mask = 0;
		bool bad = false;
		if (!c.v.empty() && c.v[0] < 0) {
			if (c.v.size() < 3 || c.v[0] < -3) { bad = true; }
			else { osMode = static_cast<int>(-c.next()); mask = c.next(); }
		}
		if (bad) { o.add(-3); o.flush(); continue; }
		std::vector<ll> ops;
		for (ll n = c.next(); n > 0 && c.more(); --n) ops.push_back(c.next());
		answers.clear(); ansPos = 0;
		for (ll n = c.next(); n > 0 && c.more(); --n) answers.push_back(c.next());
		try {
			App* pa = new App(); App& a = *pa; app = pa; self = pa; a.ops = &ops;
			const bool tl = osMode && ((mask >> 4) & 1);   // run main() with a time limit: it calls setAlarm(3600) itself
			if (osMode == 0) {
				ll h = 0; for (size_t i = 0; i != c.v.size(); ++i) h += c.v[i];
				if ((h & 1) == 0) { recording = true; a.execOps(); }
				else {
					recording = false; a.active = false; runMain(a, tl);   // a complete first run (its shutdown takes a block)
					recording = true;  a.active = true;  runMain(a, tl);   // the schedule runs inside the second run
					recording = false;
				}
			}
			else {
				for (int i = 1; i <= NSIG_; ++i) signal(REAL[i], ((mask >> (i - 1)) & 1) ? SIG_IGN : SIG_DFL);   // what the environment left
				if (osMode == 1) {
					recording = true; a.active = true; runMain(a, tl); recording = false;
					printDisp(41);
				}
				else if (osMode == 2) {
					recording = false; a.active = false; runMain(a, tl);
					recording = true;  a.active = true;  runMain(a, tl); recording = false;
					printDisp(41);
				}
				else {
					ll n1 = c.next(); if (n1 < 0) n1 = 0;
					size_t p0 = c.p;
					decLeft = n1;
					recording = true; a.active = true; runMain(a, tl); recording = false;
					printDisp(41);
					c.p = (n1 < static_cast<ll>(c.v.size() - p0)) ? p0 + static_cast<size_t>(n1) : c.v.size();
					decLeft = -1;
					recording = true; runMain(a, tl); recording = false;
					printDisp(41);
				}
			}
			alarm(0);          // the real timer never fires
			setAll(SIG_DFL);   // no handler may run once the object is gone
			app = 0;
			delete pa;         // ~Application: resetInstance(*this)
			if (osMode) { o.add(42); o.add(instCode()); }
		}
		catch (...) { o.add(-1); }
		alarm(0);
		for (size_t i = 0; i != others.size(); ++i) delete others[i];
		others.clear(); self = 0;
		setAll(SIG_DFL);
		o.flush();
	}
	return 0;
}
