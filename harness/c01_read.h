// C01/C03: run the real aspif reader on a text with a Recorder attached and print the observation
//   accepted line reports delivered-calls...
// mode 0: readProgram (accept + parse(Complete));  mode 1: the caller's loop  parse(Incremental); while (more()) parse(Incremental);
// primed (see reuse.h): the SAME AspifInput object first reads a primer text chosen by the case's hash (accepted incremental ones, or ones
// REFUSED inside a rule / theory atom / string / later step / problem line; calls discarded) and is then attached to the case's text;
// unprimed cases use a fresh reader (readAspif / a new AspifInput) exactly as before.
#pragma once
#include "rec.h"
#include "reuse.h"
#include <potassco/aspif.h>
namespace c01 {
static int      g_reports = 0;
static unsigned g_line    = 0;
inline int onError(int line, const char*) { ++g_reports; g_line = (unsigned)line; return 1; }
inline int readIncremental(std::istream& in, Potassco::AspifInput& reader, Potassco::ErrorHandler err) {
	try {
		if (!reader.accept(in)) { Potassco::BufferedStream::fail(reader.line(), "invalid input format"); }
		if (!reader.parse(Potassco::ProgramReader::Incremental)) { Potassco::BufferedStream::fail(reader.line(), "invalid input format"); }
		while (reader.more()) {
			if (!reader.parse(Potassco::ProgramReader::Incremental)) { Potassco::BufferedStream::fail(reader.line(), "invalid input format"); }
		}
	}
	catch (const std::exception& e) {
		if (!err) { throw; }
		return err(reader.line(), e.what());
	}
	return 0;
}
// appends the observation of one read to o; the recorded calls go to rec (if given) instead of o
inline bool readText(const std::string& text, int mode, Obs& o, Obs* recOut = 0, const reuse::Primer* pr = 0) {
	const bool primed = pr != 0;
	Obs rec; Recorder r(rec);
	std::istringstream in(text);
	std::istringstream primer(std::string(pr ? pr->text : ""));
	Potassco::AspifInput reader(r);
	if (primed) { reuse::prime(reader, primer); rec.s.clear(); }
	g_reports = 0; g_line = 0;
	int rc = -1; int cls = 0;
	try {
		if      (mode != 0) { rc = readIncremental(in, reader, &onError); }
		else if (primed)    { rc = Potassco::readProgram(in, reader, &onError); } // = readAspif on an existing reader object
		else                { rc = Potassco::readAspif(in, r, &onError); }
	}
	catch (const std::exception&) { cls = 7; }
	catch (...) { cls = 8; }
	if (cls) { o.add(-cls); o.add(0); o.add(g_reports); }           // an exception escaped although a handler was given
	else     { o.add(rc == 0 ? 1 : 0); o.add(g_line); o.add(g_reports); }
	if (recOut) { recOut->s = rec.s; }
	else if (!rec.s.empty()) { o.s += ' '; o.s += rec.s; }
	return !cls && rc == 0;
}
inline void parseInts(const std::string& s, Case& c) {
	c.v.clear(); c.p = 0;
	const char* p = s.c_str(); char* e;
	for (;;) { while (*p == ' ') ++p; if (!*p) break; ll x = std::strtoll(p, &e, 10); if (e == p) break; c.v.push_back(x); p = e; }
}
}
