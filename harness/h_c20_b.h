// C20: interface of the harness's SECOND translation unit (harness/h_c20_b.cpp).
// That unit declares, in its own unnamed namespace, three types spelled exactly like three types of h_c20.cpp's unnamed
// namespace (Setting, Triple, Record) - distinct C++ types with internal linkage whose std::type_info::name() strings are
// EQUAL (g++: "N12_GLOBAL__N_17SettingE" in both units; libstdc++ compares such '*'-prefixed names by address, name() strips
// the '*').  The types themselves cannot be named outside their unit, so every typed operation on them is a plain function
// here; `k` = 0 Setting (8 bytes, stored in place), 1 Triple (12 bytes, between one and two words), 2 Record (40 bytes,
// non-trivial, heap).  Layouts and value encodings differ from the first unit's types of the same name.
#ifndef VERIF_H_C20_B_H
#define VERIF_H_C20_B_H
#include <potassco/program_opts/value_store.h>
#include <potassco/program_opts/typed_value.h>
#include <potassco/program_opts/mapped_value.h>
#include <string>
#include <typeinfo>
#include <cstddef>

enum { B_NTYPES = 3 };
// marker reported instead of a value when checked typed access handed out an object that is NOT of the requested type
// (never dereferenced as that type: the layouts differ)
enum { B_FOREIGN = -889 };

const char* b_type_name(int k);                                         // typeid(T_k).name()
bool        b_same_typeinfo(int k, const std::type_info& t);           // typeid(T_k) == t
std::size_t b_sizeof(int k);
bool        b_holds(const Potassco::ProgramOptions::ValueStore& s, int k);          // !s.empty() && s.type() == typeid(T_k)

// typed store: s = T_k(v) through ValueStore::operator=(const T&) (from an alias of the holder's own value when it already holds T_k(v))
void  b_store(Potassco::ProgramOptions::ValueStore& s, int k, long v);
// new ValueStore(T_k(v))
Potassco::ProgramOptions::ValueStore* b_construct(int k, long v);
// client objects: new T_k(v) / delete / assimilate / destructor of a surrendered in-place object / value of a genuine T_k
void* b_new(int k, long v);
void  b_delete(int k, void* p);
void  b_adopt(Potassco::ProgramOptions::ValueStore& s, int k, void* p);
void  b_destroy_in_place(int k, void* p);
long  b_value(int k, const void* p);
// value_cast<T_k>(s) = T_k(v)   (write through the non-const reference form; the holder holds T_k)
void  b_set_through(Potassco::ProgramOptions::ValueStore& s, int k, long v);
// value of the T_k the holder holds (reference form)
long  b_read(const Potassco::ProgramOptions::ValueStore& s, int k);
// checked typed access with this unit's T_k - the whole value_cast family:
//   0 = refused: the reference form threw bad_value_cast AND the pointer form returned null (correct unless the holder holds T_k)
//   1 = accepted; *read = the value if the holder really holds T_k, B_FOREIGN if it does not (wrongly accepted)
// *agree = 0 when the forms (pointer / reference / non-const / unsafe) contradict each other
int   b_probe(const Potassco::ProgramOptions::ValueStore& s, int k, long* read, int* agree);
// ValueMap::add<T_k>(m, name, p) / store<T_k>(m, parser)
bool  b_map_add(Potassco::ProgramOptions::ValueMap* m, const std::string& name, int k, const void* p);
Potassco::ProgramOptions::Value* b_make_nv(Potassco::ProgramOptions::ValueMap& m, int k);
#endif
