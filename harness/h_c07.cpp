// C07: run the real smodels reader (readSmodels) on a byte string with a Recorder attached.
// Case: N opts len bytes...      opts bit0 = claspExt, bit1 = cEdge, bit2 = cHeuristic, bit3 = filter
// Observation: <encoded calls in delivery order> status line nerr
//   status 1 = accepted (readSmodels returned 0), 0 = rejected through the error handler, 7 = an exception escaped
//   line   = line passed to the error handler (0 when accepted), nerr = number of handler invocations
#include "rec.h"
#include <potassco/smodels.h>
static int g_line = 0, g_nerr = 0;
static int onError(int line, const char*) { g_line = line; ++g_nerr; return 1000 + line; }
int main() {
	Case c; Obs o;
	while (readCase(c)) {
		ll n = c.next();
		if (n != Potassco::BufferedStream::BUF_SIZE) { o.add(-999); o.flush(); continue; }
		ll opts = c.next();
		size_t len = (size_t)c.next();
		std::string in = c.bytes(len);
		if (opts & 6) { o.add(-3); o.flush(); continue; } // special-predicate conversion belongs to C08
		Potassco::SmodelsInput::Options op;
		if (opts & 1) op.enableClaspExt();
		if (opts & 2) op.convertEdges();
		if (opts & 4) op.convertHeuristic();
		if (opts & 8) op.dropConverted();
		std::istringstream is(in);
		g_line = 0; g_nerr = 0;
		int status = 7;
		try {
			Recorder rec(o);
			int r = Potassco::readSmodels(is, rec, &onError, op);
			status = r == 0 ? 1 : 0;
			if (r != 0 && r != 1000 + g_line) status = 8; // the handler's result must be passed through
		}
		catch (const std::exception&) { status = 7; }
		o.add(status); o.add(g_line); o.add(g_nerr);
		o.flush();
	}
	return 0;
}
