// C07: run the real smodels reader (readSmodels) on a byte string with a Recorder attached.
// Case: N opts len bytes...      opts bit0 = claspExt, bit1 = cEdge, bit2 = cHeuristic, bit3 = filter
// Observation: <encoded calls in delivery order> status line nerr
//   status 1 = accepted (readSmodels returned 0), 0 = rejected through the error handler, 7 = an exception escaped
//   line   = line passed to the error handler (0 when accepted), nerr = number of handler invocations
// Every other case (reuse::primed, a hash of the case) reads the text with a SmodelsInput OBJECT that has read an accepted primer text before
// (an incremental one, starting with rule type 90, when the case enables claspExt); the primer's calls are discarded. See reuse.h.
#include "rec.h"
#include "reuse.h"
#include <potassco/smodels.h>
static int g_line = 0, g_nerr = 0;
static int onError(int line, const char*) { g_line = line; ++g_nerr; return 1000 + line; }
int main() {
	Case c; Obs o;
	while (readCase(c)) {
		const bool primed = reuse::primed(c);
		ll n = c.next();
		if (n != Potassco::BufferedStream::BUF_SIZE) { o.add(-999); o.flush(); continue; }
		ll opts = c.next();
		size_t len = (size_t)c.next();
		std::string in = c.bytes(len);
		if (opts & 6) { o.add(-3); o.flush(); continue; } // special-predicate conversion belongs to C08
		Potassco::SmodelsInput::Options op;
		if (opts & 1) op.enableClaspExt();
		if (opts & 2) op.convertEdges();
		if (opts & 4) op.convertHeuristic();
		if (opts & 8) op.dropConverted();
		std::istringstream is(in);
		std::istringstream primer((opts & 1) ? reuse::SMODELS_PRIMER_EXT : reuse::SMODELS_PRIMER);
		g_line = 0; g_nerr = 0;
		int status = 7;
		try {
			Recorder rec(o);
			int r;
			if (primed) {
				Potassco::SmodelsInput reader(rec, op);
				reuse::prime(reader, primer); o.s.clear();    // o is empty at this point: only the primer's calls are dropped
				r = Potassco::readProgram(is, reader, &onError); // = readSmodels on an existing reader object
			}
			else { r = Potassco::readSmodels(is, rec, &onError, op); }
			status = r == 0 ? 1 : 0;
			if (r != 0 && r != 1000 + g_line) status = 8; // the handler's result must be passed through
		}
		catch (const std::exception&) { status = 7; }
		o.add(status); o.add(g_line); o.add(g_nerr);
		o.flush();
	}
	return 0;
}
