// C07: run the real smodels reader on a byte string with a Recorder attached.
// Case: N opts len bytes... [mv] opts bit0 = claspExt, bit1 = cEdge, bit2 = cHeuristic, bit3 = filter,
//                                bit4 = CALLER: 0 = readSmodels / readProgram (accept + parse(Complete)),
//                                               1 = the step-wise API: accept(); parse(Incremental); while (more()) parse(Incremental);
//   mv (optional, behind the text): 0 / absent = ProgramReader::setMaxVar is NOT called (varMax_ = INT_MAX, what readSmodels gives);
//       k in 1..atomMax = reader.setMaxVar(k) before the text is read; -1 = setMaxVar(0); anything else: outside the model's domain (-3).
//       "The given value is used when matching atoms or literals. If a larger value is found in the input stream, an std::exception is raised."
//       SmodelsInput reads heads, the head count of choice/disjunctive rules, ALL body atoms and the atom of 91/92 with the member matchAtom
//       (varMax_); symbol-table, compute and E-section atoms with matchPos(atomMax). Model: coq/C07/Model.v read_smodels_v.
//   bit1 (cEdge) is refused (-3, C08); bit2 (cHeuristic) is refused (-3) when the text contains `_heuristic(` and otherwise must make no
//   difference: every symbol then goes through SmodelsInput's private name table instead of straight to output() (model: coq/C07/Run.v)
// Observation: <encoded calls in delivery order> status line nerr
//   status 1 = accepted (the read returned 0), 0 = rejected through the error handler, 7 = an exception escaped
//   line   = line passed to the error handler (0 when accepted), nerr = number of handler invocations
// The step-wise caller is what ProgramReader offers for incremental programs (ReadMode Incremental is parse()'s DEFAULT argument); it performs
// the same doParse / skipWs / "invalid extra input" sequence as parse(Complete), so for a correct reader the observation does not depend
// on bit4 and the model (coq/C07/Model.v run_case) ignores the bit.
// Every other case (reuse::primed, a hash of the case) reads the text with a SmodelsInput OBJECT that has read - or REFUSED - a primer text
// before (chosen by the hash among reuse::SMODELS_PRIMERS and, when the case enables claspExt, SMODELS_EXT_PRIMERS); the primer's calls are discarded. See reuse.h.
#include "rec.h"
#include "reuse.h"
#include <potassco/smodels.h>
static int g_line = 0, g_nerr = 0;
static int onError(int line, const char*) { g_line = line; ++g_nerr; return 1000 + line; }
// readProgram with the caller's loop in place of parse(Complete); same error protocol
static int readStepwise(std::istream& in, Potassco::ProgramReader& reader, Potassco::ErrorHandler err) {
	try {
		if (!reader.accept(in) || !reader.parse(Potassco::ProgramReader::Incremental)) { Potassco::BufferedStream::fail(reader.line(), "invalid input format"); }
		while (reader.more()) {
			if (!reader.parse(Potassco::ProgramReader::Incremental)) { Potassco::BufferedStream::fail(reader.line(), "invalid input format"); }
		}
	}
	catch (const std::exception& e) {
		if (!err) { throw; }
		return err(reader.line(), e.what());
	}
	return 0;
}
int main() {
	Case c; Obs o;
	while (readCase(c)) {
		const bool primed = reuse::primed(c);
		ll n = c.next();
		if (n != Potassco::BufferedStream::BUF_SIZE) { o.add(-999); o.flush(); continue; }
		ll opts = c.next();
		size_t len = (size_t)c.next();
		std::string in = c.bytes(len);
		const ll mv = c.more() ? c.next() : 0;
		// special-predicate conversion belongs to C08.  convertHeuristic (bit2) is admitted for texts WITHOUT `_heuristic(`: then no name is a
		// heuristic predicate, nothing is converted, and the option only routes every symbol through the reader's private name table
		// (SymTab::add, shared by the steps of an incremental program) - it must be invisible (coq/C07/Run.v applies the same test)
		if ((opts & 2) || ((opts & 4) && in.find("_heuristic(") != std::string::npos)) { o.add(-3); o.flush(); continue; }
		if (mv < -1 || mv > (ll)Potassco::atomMax) { o.add(-3); o.flush(); continue; } // setMaxVar beyond atomMax: outside the domain
		Potassco::SmodelsInput::Options op = reuse::smodelsOptions(c, (opts & 1) != 0, (opts & 2) != 0, (opts & 4) != 0, (opts & 8) != 0);
		const bool stepwise = (opts & 16) != 0;
		std::istringstream is(in);
		std::istringstream primer(std::string(primed ? reuse::smodelsPrimer(c, (opts & 1) != 0).text : ""));
		g_line = 0; g_nerr = 0;
		int status = 7;
		try {
			Recorder rec(o);
			int r;
			if (primed || stepwise || mv != 0) {
				Potassco::SmodelsInput reader(rec, op);
				if (primed) { reuse::prime(reader, primer); o.s.clear(); } // o is empty at this point: only the primer's calls are dropped
				if (mv != 0) { reader.setMaxVar(mv < 0 ? 0u : static_cast<unsigned>(mv)); } // the limit applies to the case's text, not to the primer
				r = stepwise ? readStepwise(is, reader, &onError)
				             : Potassco::readProgram(is, reader, &onError); // = readSmodels on an existing reader object
			}
			else { r = Potassco::readSmodels(is, rec, &onError, op); }
			status = r == 0 ? 1 : 0;
			if (r != 0 && r != 1000 + g_line) status = 8; // the handler's result must be passed through
		}
		catch (const std::exception&) { status = 7; }
		o.add(status); o.add(g_line); o.add(g_nerr);
		o.flush();
	}
	return 0;
}
