// C16: drive the real xconvert / string_cast / stringTo / toString for every supported type.
// Case (see coq/C16/Model.v, run_case):
//   0 ty e len bytes...     xconvert(x, out, &end, 0) and string_cast(x, out2); errno = e ? ERANGE : 0 before each call
//                           -> tok val (end - x) (errno == ERANGE) cast_ok cast_val
//   1 ty v                  s = toString(T(v)); stringTo(s.c_str(), back)          -> |s| s ok back
//   2 ta tb e len bytes...  xconvert(x, pair<A,B>&, &end, 0), string_cast          -> sum first second (end - x) cast_ok
//   3 ta tb a b             s = toString(pair(a,b)); stringTo                      -> |s| s ok a' b'
//   4 ty e len bytes...     xconvert(x, vector<T>&, &end, 0), string_cast          -> t (end - x) elems... cast_ok
//   5 ty n v1..vn           s = toString(vector); stringTo                         -> |s| s ok m elems...
//   7 ty lo hi              for v in lo..hi: stringTo(toString(T(v))) == v ?                 -> #failures first-failure
//   6 k                     k = 0: <climits>; k = enum type code: eMin eMax |rep| rep
//   8 ...                   lists written into NON-EMPTY accumulators (the appending use of xconvert(std::string&, ...)):
//     8 0 ta a ty n v..            s = toString(A(a), vector<T>)        -> |s| s tok a' (end - x) [lok m elems.. | 0 0]
//     8 1 ta a tb b ty n v..       s = toString(A(a), B(b), vector<T>)  -> |s| s tok a' k [tok b' k [lok m elems.. | 0 0] | 0 0 0 0 0]
//     8 2 ty sep plen bytes n v..  accu = bytes; xconvert(accu, begin, end, char(sep)) (iterator range, custom separator);
//                                  xconvert(accu.c_str() + plen, vector<T>&, &end, sep)   -> |accu| accu t (end - start) elems..
//     8 3 ty d n v.. m w..         accu = ""; xconvert(accu, l1); accu += char(d); xconvert(accu, l2) -> |accu| accu |part1| ok1 m1 e.. ok2 m2 e..
//     8 4 ty n v..                 accu = "["; xconvert(accu, vec); accu += "]"; string_cast(accu) -> |accu| accu ok m elems..
//   9 ...                   the STREAM-PARSED types: every T without a typed overload goes through the fall back template
//                           xconvert(const char*, T&, const char**, double) (std::istream over the string, end position from tellg()).
//                           The text sits behind a guard character, so that a reported end position in front of the string is observed.
//     9 0 ty e len bytes          xconvert(x, out, &end, 0), string_cast(x, out2)           -> tok val (end - x) (errno == ERANGE) cast_ok cast_val
//     9 1 ta tb e len bytes       pair<A,B>, A / B in {30..33, 1 char, 2 int}, one of them 30..33 -> sum first second (end - x) cast_ok
//     9 2 ty m e len bytes        m = 0: vector<T>: convert_seq<T>(x, |s| + 2, ...) first; if it fills all |s| + 2 places the parser makes
//                                 no progress: -> t (end - x) -996; else xconvert(x, vector<T>&, &end, 0), string_cast -> t (end - x) elems.. cast_ok
//                                 m = 1..3: the array T[m]: xconvert(x, T(&)[m], &end, 0), string_cast  -> t (end - x) elems.. cast_ok
//     9 4                         SCHAR_MIN SCHAR_MAX UCHAR_MAX SHRT_MIN SHRT_MAX USHRT_MAX
//     stream types: 30 signed char (int8_t) 31 unsigned char (uint8_t) 32 short 33 unsigned short
// ty: 0 bool 1 char 2 int 3 unsigned 4 long 5 unsigned long 6 long long 7 unsigned long long
//     8 Head_t 9 Body_t 10 Value_t 11 Heuristic_t 12 Directive_t 13 Theory_t 14 Tuple_t 15 Clause_t 16 Statistics_t
//     17 Level_t 18 Sparse_t 19 Neg_t 20 Off_t 21 Unord_t 22 One_t: enumerations declared below with the PUBLIC macros
//     (scalars: ops 0 1 6; lists: ops 4 5; pairs (ops 2 3): <E,int>, <int,E>, <E,E>)
#include "common.h"
#include <cerrno>
#include <climits>
#include <utility>
#include <iterator>
#include <potassco/string_convert.h>
#include <potassco/basic_types.h>
#include <potassco/theory_data.h>
#include <potassco/clingo.h>
using namespace Potassco;

// Enumerations declared with the PUBLIC macros of potassco/platform.h, in shapes none of the library's own enumerations has
// (those all start at their min, most are dense).  POTASSCO_ENUM_CONSTANTS fixes min = 0, POTASSCO_ENUM_CONSTANTS_T takes the
// caller's minVal; max is the last enumerator; the key table is the stringified argument list.
// tools/consts/C16.py (model) and props/C16.py (oracle) each read these declarations from THIS file; harness op 6 reports what
// enumClass() really holds.
struct Level_t  { POTASSCO_ENUM_CONSTANTS(Level_t, Low = 1, Mid = 2, High = 3); };            // smallest constant above min (0)
struct Sparse_t { POTASSCO_ENUM_CONSTANTS(Sparse_t, A = 2, B = 3, C = 7, D); };               // holes 4 5 6, implicit last value, 0 and 1 below the first constant
struct Neg_t    { POTASSCO_ENUM_CONSTANTS_T(Neg_t, int, -5, M3 = -3, M1 = -1, P2 = 2); };     // negative minVal that is no constant, holes on both sides of 0
struct Off_t    { POTASSCO_ENUM_CONSTANTS_T(Off_t, int, 2, X = 4, Y, Z = 8); };               // positive minVal that is no constant
struct Unord_t  { POTASSCO_ENUM_CONSTANTS(Unord_t, Q = 5, R = 2, U, T = 2, S = 9); };         // not increasing, an alias (T == R), implicit value after a decrease
struct One_t    { POTASSCO_ENUM_CONSTANTS(One_t, Only = 4); };                                // a single constant above min

template <class T> struct Tag { typedef T type; };
template <class T, bool isEnum> struct TrImpl;
template <class T> struct TrImpl<T, false> {
	static T    make(ll v) { return static_cast<T>(v); }
	static ll   enc(T x)   { return static_cast<ll>(x); }
	static T    init()     { return T(); }
	static bool repr(ll)   { return true; }
};
template <> struct TrImpl<bool, false> {
	static bool make(ll v)  { return v != 0; }
	static ll   enc(bool x) { return x ? 1 : 0; }
	static bool init()      { return false; }
	static bool repr(ll)    { return true; }
};
template <> struct TrImpl<char, false> {
	static char make(ll v)  { return static_cast<char>(static_cast<unsigned char>(v)); }
	static ll   enc(char x) { return static_cast<unsigned char>(x); }
	static char init()      { return char(); }
	static bool repr(ll)    { return true; }
};
template <class T> struct TrImpl<T, true> {
	static T    make(ll v) { return T(static_cast<typename T::E>(static_cast<int>(v))); }
	static ll   enc(T x)   { return static_cast<ll>(static_cast<int>(x)); }
	static T    init()     { return T(); }
	// only eMin .. __eEnd can be materialised as T::E without undefined behaviour
	static bool repr(ll v) { int i = static_cast<int>(v); return i >= static_cast<int>(T::eMin) && i <= static_cast<int>(T::eMax) + 1; }
};
template <class T> struct IsEnum { enum { value = 0 }; };
#define C16_ENUM(T) template <> struct IsEnum<T> { enum { value = 1 }; }
C16_ENUM(Head_t); C16_ENUM(Body_t); C16_ENUM(Value_t); C16_ENUM(Heuristic_t); C16_ENUM(Directive_t);
C16_ENUM(Theory_t); C16_ENUM(Tuple_t); C16_ENUM(Clause_t); C16_ENUM(Statistics_t);
C16_ENUM(Level_t); C16_ENUM(Sparse_t); C16_ENUM(Neg_t); C16_ENUM(Off_t); C16_ENUM(Unord_t); C16_ENUM(One_t);
template <class T> struct Tr : TrImpl<T, IsEnum<T>::value != 0> {};

// value after normalisation as the model does it (static_cast<T>(long long))
template <class T> ll normalised(ll v) { return IsEnum<T>::value ? static_cast<ll>(static_cast<int>(v)) : Tr<T>::enc(Tr<T>::make(v)); }

template <class F> bool withScalar(ll ty, F f) {
	switch (ty) {
		case 0:  f(Tag<bool>()); return true;
		case 1:  f(Tag<char>()); return true;
		case 2:  f(Tag<int>()); return true;
		case 3:  f(Tag<unsigned>()); return true;
		case 4:  f(Tag<long>()); return true;
		case 5:  f(Tag<unsigned long>()); return true;
		case 6:  f(Tag<long long>()); return true;
		case 7:  f(Tag<unsigned long long>()); return true;
		case 8:  f(Tag<Head_t>()); return true;
		case 9:  f(Tag<Body_t>()); return true;
		case 10: f(Tag<Value_t>()); return true;
		case 11: f(Tag<Heuristic_t>()); return true;
		case 12: f(Tag<Directive_t>()); return true;
		case 13: f(Tag<Theory_t>()); return true;
		case 14: f(Tag<Tuple_t>()); return true;
		case 15: f(Tag<Clause_t>()); return true;
		case 16: f(Tag<Statistics_t>()); return true;
		case 17: f(Tag<Level_t>()); return true;
		case 18: f(Tag<Sparse_t>()); return true;
		case 19: f(Tag<Neg_t>()); return true;
		case 20: f(Tag<Off_t>()); return true;
		case 21: f(Tag<Unord_t>()); return true;
		case 22: f(Tag<One_t>()); return true;
		default: return false;
	}
}
// the enumerations declared in this file
template <class F> bool withNewEnum(ll ty, F f) {
	switch (ty) {
		case 17: f(Tag<Level_t>()); return true;
		case 18: f(Tag<Sparse_t>()); return true;
		case 19: f(Tag<Neg_t>()); return true;
		case 20: f(Tag<Off_t>()); return true;
		case 21: f(Tag<Unord_t>()); return true;
		case 22: f(Tag<One_t>()); return true;
		default: return false;
	}
}
static bool isNewEnum(ll ty) { return ty >= 17 && ty <= 22; }
// element types of pairs and vectors
template <class F> bool withComp(ll ty, F f) {
	switch (ty) {
		case 0:  f(Tag<bool>()); return true;
		case 1:  f(Tag<char>()); return true;
		case 2:  f(Tag<int>()); return true;
		case 3:  f(Tag<unsigned>()); return true;
		case 6:  f(Tag<long long>()); return true;
		case 7:  f(Tag<unsigned long long>()); return true;
		case 10: f(Tag<Value_t>()); return true;
		case 14: f(Tag<Tuple_t>()); return true;
		default: return false;
	}
}
static bool isComp(ll ty) { return ty == 0 || ty == 1 || ty == 2 || ty == 3 || ty == 6 || ty == 7 || ty == 10 || ty == 14; }
// element types of vectors (ops 4, 5): the above and the enumerations declared in this file
template <class F> bool withList(ll ty, F f) { return isNewEnum(ty) ? withNewEnum(ty, f) : withComp(ty, f); }
static bool isList(ll ty) { return isComp(ty) || isNewEnum(ty); }
// pairs (ops 2, 3): <A,B> over the element types above, and <E,int>, <int,E>, <E,E> for the enumerations declared in this file
template <class F> bool withPair(ll ta, ll tb, F f) {
	if (isComp(ta) && isComp(tb)) { withComp(ta, [&](auto a) { withComp(tb, [&](auto b) { f(a, b); }); }); return true; }
	if (isNewEnum(ta) && tb == 2)  { withNewEnum(ta, [&](auto a) { f(a, Tag<int>()); }); return true; }
	if (ta == 2 && isNewEnum(tb))  { withNewEnum(tb, [&](auto b) { f(Tag<int>(), b); }); return true; }
	if (isNewEnum(ta) && ta == tb) { withNewEnum(ta, [&](auto a) { f(a, a); }); return true; }
	return false;
}
static void setErrno(bool e) { errno = e ? ERANGE : 0; }

template <class T> void opParse(Obs& o, bool e, const std::string& s) {
	const char* x = s.c_str();
	T out = Tr<T>::init(); const char* end = 0;
	setErrno(e);
	int tok = xconvert(x, out, &end, 0);
	bool er = errno == ERANGE;
	o.add(tok != 0 ? 1 : 0); o.add(tok != 0 ? Tr<T>::enc(out) : 0); o.add(static_cast<ll>(end - x)); o.add(er ? 1 : 0);
	T out2 = Tr<T>::init();
	setErrno(e);
	bool ok = string_cast(x, out2);
	o.add(ok ? 1 : 0); o.add(ok ? Tr<T>::enc(out2) : 0);
}
template <class T> void opPrint(Obs& o, ll v) {
	if (!Tr<T>::repr(normalised<T>(v))) { o.add(-998); return; }
	T val = Tr<T>::make(v);
	std::string s = toString<T>(val); // the template, not the aspif-text overloads toString(Heuristic_t) / toString(Tuple_t)
	o.add(static_cast<ll>(s.size())); o.addBytes(s.data(), s.size());
	T back = Tr<T>::init();
	setErrno(false);
	bool ok = stringTo(s.c_str(), back);
	o.add(ok ? 1 : 0); o.add(ok ? Tr<T>::enc(back) : 0);
}
template <class A, class B> void opParsePair(Obs& o, bool e, const std::string& s) {
	const char* x = s.c_str();
	std::pair<A, B> out(Tr<A>::init(), Tr<B>::init()); const char* end = 0;
	setErrno(e);
	int sum = xconvert(x, out, &end, 0);
	o.add(sum); o.add(sum >= 1 ? Tr<A>::enc(out.first) : 0); o.add(sum >= 2 ? Tr<B>::enc(out.second) : 0); o.add(static_cast<ll>(end - x));
	std::pair<A, B> out2(Tr<A>::init(), Tr<B>::init());
	setErrno(e);
	o.add(string_cast(x, out2) ? 1 : 0);
}
template <class A, class B> void opPrintPair(Obs& o, ll a, ll b) {
	if (!Tr<A>::repr(normalised<A>(a)) || !Tr<B>::repr(normalised<B>(b))) { o.add(-998); return; }
	std::pair<A, B> p(Tr<A>::make(a), Tr<B>::make(b));
	std::string s = toString<std::pair<A, B> >(p);
	o.add(static_cast<ll>(s.size())); o.addBytes(s.data(), s.size());
	std::pair<A, B> back(Tr<A>::init(), Tr<B>::init());
	setErrno(false);
	bool ok = stringTo(s.c_str(), back);
	o.add(ok ? 1 : 0); o.add(ok ? Tr<A>::enc(back.first) : 0); o.add(ok ? Tr<B>::enc(back.second) : 0);
}
template <class T> void opParseList(Obs& o, bool e, const std::string& s) {
	const char* x = s.c_str();
	std::vector<T> out; const char* end = 0;
	setErrno(e);
	int t = xconvert(x, out, &end, 0);
	o.add(t); o.add(static_cast<ll>(end - x));
	for (std::size_t i = 0; i != out.size(); ++i) o.add(Tr<T>::enc(out[i]));
	std::vector<T> out2;
	setErrno(e);
	o.add(string_cast(x, out2) ? 1 : 0);
}
template <class T> void opPrintList(Obs& o, const std::vector<ll>& vs) {
	std::vector<T> in;
	for (std::size_t i = 0; i != vs.size(); ++i) {
		if (!Tr<T>::repr(normalised<T>(vs[i]))) { o.add(-998); return; }
		in.push_back(Tr<T>::make(vs[i]));
	}
	std::string s = toString<std::vector<T> >(in);
	o.add(static_cast<ll>(s.size())); o.addBytes(s.data(), s.size());
	std::vector<T> back;
	setErrno(false);
	bool ok = stringTo(s.c_str(), back);
	o.add(ok ? 1 : 0); o.add(static_cast<ll>(back.size()));
	for (std::size_t i = 0; i != back.size(); ++i) o.add(Tr<T>::enc(back[i]));
}
// op 7: exhaustive value-level round trip over lo..hi (inclusive)
template <class T> void opSweep(Obs& o, ll lo, ll hi) {
	ll fails = 0, first = 0;
	std::string s;
	for (ll v = lo;; ++v) {
		T val = Tr<T>::make(v), back = Tr<T>::init();
		s.clear();
		xconvert(s, val);
		errno = 0;
		if (!stringTo(s.c_str(), back) || !(back == val)) { if (!fails++) first = v; }
		if (v == hi) break;
	}
	o.add(fails); o.add(first);
}
// ---- op 8: lists appended to non-empty accumulators ----
template <class T> bool makeList(const std::vector<ll>& vs, std::vector<T>& in) {
	for (std::size_t i = 0; i != vs.size(); ++i) {
		if (!Tr<T>::repr(normalised<T>(vs[i]))) return false;
		in.push_back(Tr<T>::make(vs[i]));
	}
	return true;
}
template <class T> void addCastList(Obs& o, const char* x) {
	std::vector<T> back;
	bool ok = string_cast(x, back);
	o.add(ok ? 1 : 0); o.add(static_cast<ll>(back.size()));
	for (std::size_t i = 0; i != back.size(); ++i) o.add(Tr<T>::enc(back[i]));
}
// xconvert(x, A&, &end): tok value consumed; returns the position behind a following ',' or 0
template <class A> const char* addScalarThen(Obs& o, const char* x) {
	A out = Tr<A>::init(); const char* end = 0;
	int tok = xconvert(x, out, &end, 0);
	o.add(tok != 0 ? 1 : 0); o.add(tok != 0 ? Tr<A>::enc(out) : 0); o.add(static_cast<ll>(end - x));
	return tok != 0 && *end == ',' ? end + 1 : 0;
}
template <class A, class T> void opToString2(Obs& o, ll a, const std::vector<ll>& vs) {
	std::vector<T> in;
	if (!Tr<A>::repr(normalised<A>(a)) || !makeList<T>(vs, in)) { o.add(-998); return; }
	std::string s = toString(Tr<A>::make(a), in);
	o.add(static_cast<ll>(s.size())); o.addBytes(s.data(), s.size());
	setErrno(false);
	const char* n = addScalarThen<A>(o, s.c_str());
	if (n) addCastList<T>(o, n); else { o.add(0); o.add(0); }
}
template <class A, class B, class T> void opToString3(Obs& o, ll a, ll b, const std::vector<ll>& vs) {
	std::vector<T> in;
	if (!Tr<A>::repr(normalised<A>(a)) || !Tr<B>::repr(normalised<B>(b)) || !makeList<T>(vs, in)) { o.add(-998); return; }
	std::string s = toString(Tr<A>::make(a), Tr<B>::make(b), in);
	o.add(static_cast<ll>(s.size())); o.addBytes(s.data(), s.size());
	setErrno(false);
	const char* n = addScalarThen<A>(o, s.c_str());
	if (!n) { for (int i = 0; i != 5; ++i) o.add(0); return; }
	n = addScalarThen<B>(o, n);
	if (n) addCastList<T>(o, n); else { o.add(0); o.add(0); }
}
template <class T> void opAppendRange(Obs& o, ll sep, const std::string& pre, const std::vector<ll>& vs) {
	std::vector<T> in;
	if (!makeList<T>(vs, in) || sep < 1 || sep > 255) { o.add(-998); return; }
	std::string accu(pre);
	xconvert(accu, in.begin(), in.end(), static_cast<char>(static_cast<unsigned char>(sep)));
	o.add(static_cast<ll>(accu.size())); o.addBytes(accu.data(), accu.size());
	std::vector<T> back; const char* start = accu.c_str() + pre.size(); const char* end = 0;
	setErrno(false);
	int t = xconvert(start, back, &end, static_cast<int>(static_cast<char>(static_cast<unsigned char>(sep))));
	o.add(t); o.add(static_cast<ll>(end - start));
	for (std::size_t i = 0; i != back.size(); ++i) o.add(Tr<T>::enc(back[i]));
}
template <class T> void opTwoLists(Obs& o, ll d, const std::vector<ll>& v1, const std::vector<ll>& v2) {
	std::vector<T> l1, l2;
	if (!makeList<T>(v1, l1) || !makeList<T>(v2, l2) || d < 1 || d > 255) { o.add(-998); return; }
	std::string accu;
	xconvert(accu, l1);
	std::size_t p = accu.size();
	accu += static_cast<char>(static_cast<unsigned char>(d));
	xconvert(accu, l2);
	o.add(static_cast<ll>(accu.size())); o.addBytes(accu.data(), accu.size()); o.add(static_cast<ll>(p));
	std::string a = accu.substr(0, p), b = accu.substr(p + 1);
	setErrno(false); addCastList<T>(o, a.c_str());
	setErrno(false); addCastList<T>(o, b.c_str());
}
template <class T> void opBracketed(Obs& o, const std::vector<ll>& vs) {
	std::vector<T> in;
	if (!makeList<T>(vs, in)) { o.add(-998); return; }
	std::string accu("[");
	xconvert(accu, in);
	accu += "]";
	o.add(static_cast<ll>(accu.size())); o.addBytes(accu.data(), accu.size());
	setErrno(false); addCastList<T>(o, accu.c_str());
}
static std::vector<ll> takeVals(Case& c) {
	ll n = c.next(); std::vector<ll> vs;
	for (ll i = 0; i < n && c.more(); ++i) vs.push_back(c.next());
	return vs;
}
template <class F> bool withFew(ll ty, F f) {
	switch (ty) {
		case 0:  f(Tag<bool>()); return true;
		case 2:  f(Tag<int>()); return true;
		case 7:  f(Tag<unsigned long long>()); return true;
		case 10: f(Tag<Value_t>()); return true;
		default: return false;
	}
}
static bool isFew(ll ty) { return ty == 0 || ty == 2 || ty == 7 || ty == 10; }

// ---- op 9: types parsed by the stream fall back ----
// "#" + text: x[-1] is defined, an end position in front of the string is reported as a negative offset (not read out of bounds)
struct Guarded {
	std::vector<char> buf;
	explicit Guarded(const std::string& s) : buf(s.size() + 2, '\0') { buf[0] = '#'; std::memcpy(&buf[1], s.c_str(), std::strlen(s.c_str())); buf[1 + std::strlen(s.c_str())] = 0; }
	const char* x() const { return &buf[1]; }
};
template <class F> bool withStream(ll ty, F f) {
	switch (ty) {
		case 30: f(Tag<signed char>()); return true;
		case 31: f(Tag<unsigned char>()); return true;
		case 32: f(Tag<short>()); return true;
		case 33: f(Tag<unsigned short>()); return true;
		default: return false;
	}
}
static bool isStream(ll ty) { return ty >= 30 && ty <= 33; }
template <class F> bool withStreamComp(ll ty, F f) {
	if (isStream(ty)) return withStream(ty, f);
	if (ty == 1) { f(Tag<char>()); return true; }
	if (ty == 2) { f(Tag<int>()); return true; }
	return false;
}
static bool isStreamComp(ll ty) { return isStream(ty) || ty == 1 || ty == 2; }
template <class T> void opStreamScalar(Obs& o, bool e, const std::string& s) {
	Guarded g(s); const char* x = g.x();
	T out = T(); const char* end = 0;
	setErrno(e);
	int tok = xconvert(x, out, &end, 0);
	bool er = errno == ERANGE;
	o.add(tok != 0 ? 1 : 0); o.add(tok != 0 ? static_cast<ll>(out) : 0); o.add(static_cast<ll>(end - x)); o.add(er ? 1 : 0);
	T out2 = T();
	setErrno(e);
	bool ok = string_cast(x, out2);
	o.add(ok ? 1 : 0); o.add(ok ? static_cast<ll>(out2) : 0);
}
template <class A, class B> void opStreamPair(Obs& o, bool e, const std::string& s) {
	Guarded g(s); const char* x = g.x();
	std::pair<A, B> out(Tr<A>::init(), Tr<B>::init()); const char* end = 0;
	setErrno(e);
	int sum = xconvert(x, out, &end, 0);
	o.add(sum); o.add(sum >= 1 ? Tr<A>::enc(out.first) : 0); o.add(sum >= 2 ? Tr<B>::enc(out.second) : 0); o.add(static_cast<ll>(end - x));
	std::pair<A, B> out2(Tr<A>::init(), Tr<B>::init());
	setErrno(e);
	o.add(string_cast(x, out2) ? 1 : 0);
}
template <class T> void opStreamVector(Obs& o, bool e, const std::string& s) {
	Guarded g(s); const char* x = g.x();
	std::size_t bound = std::strlen(x) + 2;
	{ // every iteration of convert_seq consumes at least one character: more than |s| + 1 elements means no progress
		std::vector<T> probe; const char* end = 0;
		setErrno(e);
		std::size_t t = convert_seq<T>(x, bound, std::back_inserter(probe), ',', &end);
		if (t >= bound) { o.add(static_cast<ll>(t)); o.add(static_cast<ll>(end - x)); o.add(-996); return; }
	}
	std::vector<T> out; const char* end = 0;
	setErrno(e);
	int t = xconvert(x, out, &end, 0);
	o.add(t); o.add(static_cast<ll>(end - x));
	for (std::size_t i = 0; i != out.size(); ++i) o.add(static_cast<ll>(out[i]));
	std::vector<T> out2;
	setErrno(e);
	o.add(string_cast(x, out2) ? 1 : 0);
}
template <class T, int N> void opStreamArray(Obs& o, bool e, const std::string& s) {
	Guarded g(s); const char* x = g.x();
	T out[N] = {}; const char* end = 0;
	setErrno(e);
	int t = xconvert(x, out, &end, 0);
	o.add(t); o.add(static_cast<ll>(end - x));
	for (int i = 0; i < t && i < N; ++i) o.add(static_cast<ll>(out[i]));
	T out2[N] = {};
	setErrno(e);
	o.add(string_cast(x, out2) ? 1 : 0);
}

template <class T> void opMeta(Obs& o) {
	EnumClass ec = T::enumClass();
	o.add(ec.min); o.add(ec.max); o.add(static_cast<ll>(std::strlen(ec.rep))); o.addBytes(ec.rep, std::strlen(ec.rep));
}

int main() {
	Case c; Obs o;
	while (readCase(c)) {
		try {
			ll op = c.next();
			if (op == 0) {
				ll ty = c.next(); bool e = c.next() != 0; ll len = c.next(); std::string s = c.bytes(len > 0 ? (size_t)len : 0);
				if (!withScalar(ty, [&](auto t) { opParse<typename decltype(t)::type>(o, e, s); })) o.add(-998);
			}
			else if (op == 1) {
				ll ty = c.next(); ll v = c.next();
				if (!withScalar(ty, [&](auto t) { opPrint<typename decltype(t)::type>(o, v); })) o.add(-998);
			}
			else if (op == 2) {
				ll ta = c.next(), tb = c.next(); bool e = c.next() != 0; ll len = c.next(); std::string s = c.bytes(len > 0 ? (size_t)len : 0);
				if (!withPair(ta, tb, [&](auto a, auto b) { opParsePair<typename decltype(a)::type, typename decltype(b)::type>(o, e, s); })) o.add(-998);
			}
			else if (op == 3) {
				ll ta = c.next(), tb = c.next(); ll va = c.next(), vb = c.next();
				if (!withPair(ta, tb, [&](auto a, auto b) { opPrintPair<typename decltype(a)::type, typename decltype(b)::type>(o, va, vb); })) o.add(-998);
			}
			else if (op == 4) {
				ll ty = c.next(); bool e = c.next() != 0; ll len = c.next(); std::string s = c.bytes(len > 0 ? (size_t)len : 0);
				if (!isList(ty)) o.add(-998);
				else withList(ty, [&](auto t) { opParseList<typename decltype(t)::type>(o, e, s); });
			}
			else if (op == 5) {
				ll ty = c.next(); ll n = c.next(); std::vector<ll> vs;
				for (ll i = 0; i < n && c.more(); ++i) vs.push_back(c.next());
				if (!isList(ty)) o.add(-998);
				else withList(ty, [&](auto t) { opPrintList<typename decltype(t)::type>(o, vs); });
			}
			else if (op == 6) {
				ll k = c.next();
				if (k == 0) {
					o.add(INT_MIN); o.add(INT_MAX); o.add((ll)UINT_MAX); o.add((ll)LONG_MIN); o.add((ll)LONG_MAX); o.add((ll)ULONG_MAX);
					o.add(LLONG_MIN); o.add(LLONG_MAX); o.add((ll)ULLONG_MAX);
				}
				else if (k == 8)  opMeta<Head_t>(o);
				else if (k == 9)  opMeta<Body_t>(o);
				else if (k == 10) opMeta<Value_t>(o);
				else if (k == 11) opMeta<Heuristic_t>(o);
				else if (k == 12) opMeta<Directive_t>(o);
				else if (k == 13) opMeta<Theory_t>(o);
				else if (k == 14) opMeta<Tuple_t>(o);
				else if (k == 15) opMeta<Clause_t>(o);
				else if (k == 16) opMeta<Statistics_t>(o);
				else if (isNewEnum(k)) withNewEnum(k, [&](auto t) { opMeta<typename decltype(t)::type>(o); });
				else o.add(-998);
			}
			else if (op == 7) {
				ll ty = c.next(), lo = c.next(), hi = c.next();
				if (ty < 0 || ty > 7 || lo > hi) o.add(-998);
				else withScalar(ty, [&](auto t) { opSweep<typename decltype(t)::type>(o, lo, hi); });
			}
			else if (op == 8) {
				ll k = c.next();
				if (k == 0) {
					ll ta = c.next(), a = c.next(), ty = c.next(); std::vector<ll> vs = takeVals(c);
					if (!isComp(ta) || !isComp(ty)) o.add(-998);
					else withComp(ta, [&](auto x) { withComp(ty, [&](auto t) { opToString2<typename decltype(x)::type, typename decltype(t)::type>(o, a, vs); }); });
				}
				else if (k == 1) {
					ll ta = c.next(), a = c.next(), tb = c.next(), b = c.next(), ty = c.next(); std::vector<ll> vs = takeVals(c);
					if (!isFew(ta) || !isFew(tb) || !isComp(ty)) o.add(-998);
					else withFew(ta, [&](auto x) { withFew(tb, [&](auto y) { withComp(ty, [&](auto t) {
						opToString3<typename decltype(x)::type, typename decltype(y)::type, typename decltype(t)::type>(o, a, b, vs); }); }); });
				}
				else if (k == 2) {
					ll ty = c.next(), sep = c.next(), plen = c.next();
					std::size_t avail = c.v.size() - c.p;
					if (plen < 0 || (std::size_t)plen > avail) o.add(-998);
					else {
						std::string pre = c.bytes((size_t)plen); std::vector<ll> vs = takeVals(c);
						if (!isComp(ty)) o.add(-998);
						else withComp(ty, [&](auto t) { opAppendRange<typename decltype(t)::type>(o, sep, pre, vs); });
					}
				}
				else if (k == 3) {
					ll ty = c.next(), d = c.next(); std::vector<ll> v1 = takeVals(c), v2 = takeVals(c);
					if (!isComp(ty)) o.add(-998);
					else withComp(ty, [&](auto t) { opTwoLists<typename decltype(t)::type>(o, d, v1, v2); });
				}
				else if (k == 4) {
					ll ty = c.next(); std::vector<ll> vs = takeVals(c);
					if (!isComp(ty)) o.add(-998);
					else withComp(ty, [&](auto t) { opBracketed<typename decltype(t)::type>(o, vs); });
				}
				else o.add(-998);
			}
			else if (op == 9) {
				ll k = c.next();
				if (k == 0) {
					ll ty = c.next(); bool e = c.next() != 0; ll len = c.next(); std::string s = c.bytes(len > 0 ? (size_t)len : 0);
					if (!withStream(ty, [&](auto t) { opStreamScalar<typename decltype(t)::type>(o, e, s); })) o.add(-998);
				}
				else if (k == 1) {
					ll ta = c.next(), tb = c.next(); bool e = c.next() != 0; ll len = c.next(); std::string s = c.bytes(len > 0 ? (size_t)len : 0);
					if (!isStreamComp(ta) || !isStreamComp(tb) || !(isStream(ta) || isStream(tb))) o.add(-998);
					else withStreamComp(ta, [&](auto a) { withStreamComp(tb, [&](auto b) {
						opStreamPair<typename decltype(a)::type, typename decltype(b)::type>(o, e, s); }); });
				}
				else if (k == 2) {
					ll ty = c.next(), m = c.next(); bool e = c.next() != 0; ll len = c.next(); std::string s = c.bytes(len > 0 ? (size_t)len : 0);
					if (!isStream(ty) || m < 0 || m > 3) o.add(-998);
					else withStream(ty, [&](auto t) {
						typedef typename decltype(t)::type T;
						if      (m == 0) opStreamVector<T>(o, e, s);
						else if (m == 1) opStreamArray<T, 1>(o, e, s);
						else if (m == 2) opStreamArray<T, 2>(o, e, s);
						else             opStreamArray<T, 3>(o, e, s);
					});
				}
				else if (k == 4) {
					o.add(SCHAR_MIN); o.add(SCHAR_MAX); o.add(UCHAR_MAX); o.add(SHRT_MIN); o.add(SHRT_MAX); o.add(USHRT_MAX);
				}
				else o.add(-998);
			}
			else o.add(-998);
		}
		catch (const std::bad_alloc&)  { o.s.clear(); o.add(-990); }
		catch (const std::exception&)  { o.s.clear(); o.add(-991); }
		o.flush();
	}
	return 0;
}
