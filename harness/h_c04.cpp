// C04: every reader, and the lpconvert pipelines, on arbitrary bytes (ASan+UBSan+LSan build).
// Case: mode opts len bytes...
//   mode 0 aspif reader, 1 smodels reader (opts: 1 claspExt, 2 cEdge, 4 cHeuristic, 8 filter), 2 ground-text reader  -> recorded calls
//   mode 3 aspif -> SmodelsConvert -> SmodelsOutput (opts&1: potassco)     4 aspif -> AspifTextOutput
//   mode 5 smodels -> AspifOutput (opts&1: potassco, opts&2: filter)        6 smodels -> AspifTextOutput
//   mode 7 the real lpconvert binary ($VERIF_LPCONVERT) with -p (1) -f (2) -t (4), input on stdin
// Observation: status (0 accepted, 1 error reported, 2 std::exception escaped, 3 other exception), handler invocations, error line,
//              leak flag, then the recorded calls (modes 0-2) or the length and the bytes of the output stream (modes 3-7).
//              Mode 7: status = exit status of the binary (0, 1; 2000 = sanitizer report about an allocation size announced by the input),
//              handler invocations = number of "*** ERROR: In line <n>" reports on stderr, error line = <n>, output = its stdout.
#include "common.h"
#include "rec.h"
#include "reuse.h" // modes 0-2: every other case (hash of the case) reads with a reader OBJECT that has read - or refused - a primer text before (chosen by the hash)
#include <potassco/aspif.h>
#include <potassco/aspif_text.h>
#include <potassco/smodels.h>
#include <potassco/convert.h>
#include <fstream>
#include <cstring>
#include <unistd.h>
#include <sys/wait.h>
// cheap per-case leak detection: live allocation count must return to its value before the case;
// only when it does not is the (expensive) LSan check consulted.
static long g_live = 0;
void* operator new(std::size_t n) { void* p = std::malloc(n ? n : 1); if (!p) throw std::bad_alloc(); ++g_live; return p; }
void* operator new[](std::size_t n) { void* p = std::malloc(n ? n : 1); if (!p) throw std::bad_alloc(); ++g_live; return p; }
void operator delete(void* p) noexcept { if (p) { --g_live; std::free(p); } }
void operator delete[](void* p) noexcept { if (p) { --g_live; std::free(p); } }
void operator delete(void* p, std::size_t) noexcept { if (p) { --g_live; std::free(p); } }
void operator delete[](void* p, std::size_t) noexcept { if (p) { --g_live; std::free(p); } }
static bool g_leakReported = false;
static int g_errs = 0, g_line = 0;
static int onError(int line, const char*) { ++g_errs; g_line = line; return 1; }
static const Case* g_case = 0; // the case being run (the order of the option builder calls is derived from it)
static Potassco::SmodelsInput::Options smOpts(ll o) {
	return reuse::smodelsOptions(*g_case, (o & 1) != 0, (o & 2) != 0, (o & 4) != 0, (o & 8) != 0);
}
static std::string slurp(const std::string& path) {
	std::ifstream f(path.c_str(), std::ios::binary);
	std::ostringstream ss; ss << f.rdbuf();
	return ss.str();
}
static int runLpconvert(const std::string& in, ll opts, std::string& out, int& nerr, int& line) {
	const char* exe = std::getenv("VERIF_LPCONVERT");
	if (!exe) return -1;
	char tmpl[] = "/tmp/verif-c04-XXXXXX";
	int fd = mkstemp(tmpl);
	if (fd < 0) return -1;
	if (write(fd, in.data(), in.size()) != (ssize_t)in.size()) { close(fd); unlink(tmpl); return -1; }
	close(fd);
	std::string cmd = std::string(exe) + ((opts & 1) ? " -p" : "") + ((opts & 2) ? " -f" : "") + ((opts & 4) ? " -t" : "") + " < " + tmpl + " > " + tmpl + ".out 2> " + tmpl + ".err";
	int st = std::system(cmd.c_str());
	int code = WIFEXITED(st) ? WEXITSTATUS(st) : 1000 + (WIFSIGNALED(st) ? WTERMSIG(st) : 0);
	std::string err = slurp(std::string(tmpl) + ".err");
	if (code == 77) { // sanitizer report: an allocation size announced by the input itself is outside the claim (reported as 2000)
		if (err.find("allocation-size-too-big") != std::string::npos || err.find("out-of-memory") != std::string::npos) code = 2000;
	}
	out = slurp(std::string(tmpl) + ".out");
	static const char* const tag = "*** ERROR: In line ";
	for (std::size_t p = 0; (p = err.find(tag, p)) != std::string::npos; p += std::strlen(tag)) {
		if (nerr++ == 0) { line = std::atoi(err.c_str() + p + std::strlen(tag)); }
	}
	unlink(tmpl); unlink((std::string(tmpl) + ".err").c_str()); unlink((std::string(tmpl) + ".out").c_str());
	return code;
}
int main() {
	Case c; Obs o;
	{ std::istringstream warm("asp 1 0 0\n0\n"); Obs r0; Recorder r(r0); Potassco::readAspif(warm, r, &onError); }
	while (readCase(c)) {
		g_case = &c;
		const bool primed = reuse::primed(c);
		ll mode = c.next(), opts = c.next(); size_t len = (size_t)c.next();
		std::string in = c.bytes(len);
		g_errs = 0; g_line = 0;
		int status = 0; Obs rec; std::string outBytes;
		rec.s.reserve(1 << 16); outBytes.reserve(1 << 16);   // before live0: assigning the output below must not look like a leak
		long live0 = g_live;
		try {
			std::ostringstream os;
			std::istringstream is(in);
			Recorder r(rec);
			int rc = 0;
			if (primed && mode >= 0 && mode <= 2) { // reader reuse: the primer's calls are dropped, then the case's text is read exactly like readAspif/readSmodels/readProgram do
				std::istringstream pr(std::string(mode == 0 ? reuse::aspifPrimer(c).text : mode == 2 ? reuse::textPrimer(c).text : reuse::smodelsPrimer(c, (opts & 1) != 0).text));
				if      (mode == 0) { Potassco::AspifInput rd(r);              reuse::prime(rd, pr); rec.s.clear(); rc = Potassco::readProgram(is, rd, &onError); }
				else if (mode == 1) { Potassco::SmodelsInput rd(r, smOpts(opts)); reuse::prime(rd, pr); rec.s.clear(); rc = Potassco::readProgram(is, rd, &onError); }
				else                { Potassco::AspifTextInput rd(&r);         reuse::prime(rd, pr); rec.s.clear(); rc = Potassco::readProgram(is, rd, &onError); }
			}
			else if (mode == 0) { rc = Potassco::readAspif(is, r, &onError); }
			else if (mode == 1) { rc = Potassco::readSmodels(is, r, &onError, smOpts(opts)); }
			else if (mode == 2) { Potassco::AspifTextInput ti(&r); rc = Potassco::readProgram(is, ti, &onError); }
			else if (mode == 3) { Potassco::SmodelsOutput w(os, (opts & 1) != 0, 0); Potassco::SmodelsConvert cv(w, (opts & 1) != 0); rc = Potassco::readAspif(is, cv, &onError); }
			else if (mode == 4) { Potassco::AspifTextOutput t(os); rc = Potassco::readAspif(is, t, &onError); }
			else if (mode == 5 || mode == 6) {
				Potassco::SmodelsInput::Options so;
				if (opts & 1) { so.enableClaspExt().convertEdges().convertHeuristic(); if (opts & 2) so.dropConverted(); }
				if (mode == 5) { Potassco::AspifOutput a(os); rc = Potassco::readSmodels(is, a, &onError, so); }
				else           { Potassco::AspifTextOutput t(os); rc = Potassco::readSmodels(is, t, &onError, so); }
			}
			status = (rc != 0 || g_errs != 0) ? 1 : 0;
			outBytes.assign(os.str());
			if (mode == 7) { status = runLpconvert(in, opts, outBytes, g_errs, g_line); }
		}
		catch (const std::exception&) { status = 2; }
		catch (...) { status = 3; }
		int leak = 0;
		if (g_live > live0) { leak = __lsan_do_recoverable_leak_check() ? 1 : 0; }
		if (leak) { g_leakReported = true; }
		o.add(status); o.add(g_errs); o.add(g_line); o.add(leak ? 1 : 0);
		if (mode <= 2) { if (!rec.s.empty()) { o.s += ' '; o.s += rec.s; } }
		else { o.add((ll)outBytes.size()); o.addBytes(outBytes.data(), outBytes.size()); }
		o.flush();
	}
	// A leak that was attributed to ITS case above (leak flag in that case's observation) would be reported once more by LeakSanitizer when
	// the process ends, and the driver blames a report at exit on the LAST case of the batch - an unrelated input as replay. So when a
	// case has carried the flag the at-exit check is skipped; when none has, the process ends normally and the at-exit check remains the
	// backstop for blocks the operator new/delete counter does not see (malloc'ed by the library).
	if (g_leakReported) { std::fflush(stdout); _exit(0); }
	return 0;
}
