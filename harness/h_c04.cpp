// C04: every reader, and the lpconvert pipelines, on arbitrary bytes (ASan+UBSan+LSan build).
// Case: mode opts len bytes...
//   mode 0 aspif reader, 1 smodels reader (opts: 1 claspExt, 2 cEdge, 4 cHeuristic, 8 filter), 2 ground-text reader  -> recorded calls
//   mode 3 aspif -> SmodelsConvert -> SmodelsOutput (opts&1: potassco)     4 aspif -> AspifTextOutput
//   mode 5 smodels -> AspifOutput (opts&1: potassco, opts&2: filter)        6 smodels -> AspifTextOutput
//   mode 7 the real lpconvert binary ($VERIF_LPCONVERT) with -p (1) -f (2) -t (4), input on stdin
// Observation: status (0 accepted, 1 error reported, 2 std::exception escaped, 3 other exception, 4 modes 3-6: a re-used writer object did not behave like a fresh one), handler invocations, error line,
//              leak flag, then the recorded calls (modes 0-2) or the length and the bytes of the output stream (modes 3-7).
//              Mode 7: status = exit status of the binary (0, 1; 2000 = sanitizer report about an allocation size announced by the input),
//              handler invocations = number of "*** ERROR: In line <n>" reports on stderr, error line = <n>, output = its stdout.
#include "common.h"
#include "rec.h"
#include "reuse.h" // modes 0-2: every other case (hash of the case) reads with a reader OBJECT that has read - or refused - a primer text before (chosen by the hash)
//                    modes 3-6: the same cases ("primed", hash bit 17) are written by a WRITER OBJECT (SmodelsOutput / AspifTextOutput / AspifOutput) that has been
//                    given a primer program before - see "Writer REUSE" below
#include <potassco/aspif.h>
#include <potassco/aspif_text.h>
#include <potassco/smodels.h>
#include <potassco/convert.h>
#include <fstream>
#include <cstring>
#include <unistd.h>
#include <sys/wait.h>
// cheap per-case leak detection: live allocation count must return to its value before the case;
// only when it does not is the (expensive) LSan check consulted.
static long g_live = 0;
void* operator new(std::size_t n) { void* p = std::malloc(n ? n : 1); if (!p) throw std::bad_alloc(); ++g_live; return p; }
void* operator new[](std::size_t n) { void* p = std::malloc(n ? n : 1); if (!p) throw std::bad_alloc(); ++g_live; return p; }
void operator delete(void* p) noexcept { if (p) { --g_live; std::free(p); } }
void operator delete[](void* p) noexcept { if (p) { --g_live; std::free(p); } }
void operator delete(void* p, std::size_t) noexcept { if (p) { --g_live; std::free(p); } }
void operator delete[](void* p, std::size_t) noexcept { if (p) { --g_live; std::free(p); } }
static bool g_leakReported = false;
static int g_errs = 0, g_line = 0;
static int onError(int line, const char*) { ++g_errs; g_line = line; return 1; }
static const Case* g_case = 0; // the case being run (the order of the option builder calls is derived from it)
static Potassco::SmodelsInput::Options smOpts(ll o) {
	return reuse::smodelsOptions(*g_case, (o & 1) != 0, (o & 2) != 0, (o & 4) != 0, (o & 8) != 0);
}
static std::string slurp(const std::string& path) {
	std::ifstream f(path.c_str(), std::ios::binary);
	std::ostringstream ss; ss << f.rdbuf();
	return ss.str();
}
static int runLpconvert(const std::string& in, ll opts, std::string& out, int& nerr, int& line) {
	const char* exe = std::getenv("VERIF_LPCONVERT");
	if (!exe) return -1;
	char tmpl[] = "/tmp/verif-c04-XXXXXX";
	int fd = mkstemp(tmpl);
	if (fd < 0) return -1;
	if (write(fd, in.data(), in.size()) != (ssize_t)in.size()) { close(fd); unlink(tmpl); return -1; }
	close(fd);
	std::string cmd = std::string(exe) + ((opts & 1) ? " -p" : "") + ((opts & 2) ? " -f" : "") + ((opts & 4) ? " -t" : "") + " < " + tmpl + " > " + tmpl + ".out 2> " + tmpl + ".err";
	int st = std::system(cmd.c_str());
	int code = WIFEXITED(st) ? WEXITSTATUS(st) : 1000 + (WIFSIGNALED(st) ? WTERMSIG(st) : 0);
	std::string err = slurp(std::string(tmpl) + ".err");
	if (code == 77) { // sanitizer report: an allocation size announced by the input itself is outside the claim (reported as 2000)
		if (err.find("allocation-size-too-big") != std::string::npos || err.find("out-of-memory") != std::string::npos) code = 2000;
	}
	out = slurp(std::string(tmpl) + ".out");
	static const char* const tag = "*** ERROR: In line ";
	for (std::size_t p = 0; (p = err.find(tag, p)) != std::string::npos; p += std::strlen(tag)) {
		if (nerr++ == 0) { line = std::atoi(err.c_str() + p + std::strlen(tag)); }
	}
	unlink(tmpl); unlink((std::string(tmpl) + ".err").c_str()); unlink((std::string(tmpl) + ".out").c_str());
	return code;
}
// Writer REUSE (modes 3-6, added for seeded change C04-r15). AbstractProgram::initProgram "starts a new program": one output object may be
// handed several programs in a row - by a caller whose ErrorHandler returns instead of exiting also after an input that was REFUSED in the
// middle of a step, so that endStep() never ran - and must write each like a fresh writer would ("uses bytes it did not read from the input":
// nothing of an earlier program may be written or indexed). For the primed cases (reuse::primed, the same bit as the reader reuse) the
// harness first reads a PRIMER text of the input format INTO THE WRITER OBJECT that then converts the case, throws away what was written so
// far (os.str("")) and runs the case exactly like the unprimed path. Hash bit 18: the primer and the case are read by ONE reader object
// (accept twice) / by a fresh reader each (readAspif / readSmodels twice - the demo's shape). Hash bit 19 (aspif) / pick (smodels): the primer
// comes from the tables below (programs that leave statements of every kind PENDING in the text writer: refused in the middle of a step
// after facts / rules / #show with stored strings / every directive / theory data, cut off at the end of the input inside a step, refused
// in a later step, refused by the writer itself) or from harness/reuse.h (accepted incremental ones, refused before anything was delivered..).
// Mode 3 re-uses the SmodelsOutput only: SmodelsConvert keeps its atom mapping across initProgram by design, so the primer and the case
// each get a converter of their own. A second, fresh run of the same case gives the reference: status / error reports / error line /
// output bytes of the re-used writer must equal those of a fresh one, else the status is reported as 4 (the output shown is the re-used
// writer's). For a correct writer every primer is invisible, so the model (coq/C04/Pipe.v over C06's writer, c06_second_program_like_fresh)
// is unchanged. props/C04.py reads these tables from this file (one entry per line: {"tag", literal ...}; keep that shape).
#define WR_X60 "XXXXXXXXXXXXXXXXXXXXXXXXXXXXXXXXXXXXXXXXXXXXXXXXXXXXXXXXXXXX"
static const reuse::Primer ASPIF_WRITER_PRIMERS[] = {
	{"refused-after-fact", "asp 1 0 0\n1 0 1 1 0 0\n1 0 1 2 0 1 0\n0\n"},
	{"refused-after-show-of-stored-string", "asp 1 0 0\n4 60 " WR_X60 " 2 1 2\n1 0 1 2 0 1 0\n0\n"},
	{"refused-after-every-directive", "asp 1 0 0\n1 0 1 1 0 1 -2\n1 1 2 2 3 1 2 2 1 1 -4 2\n2 1 2 1 3 -2 1\n3 1 1\n4 1 a 1 1\n4 3 b c 0\n4 5 \"s t\" 2 1 -2\n4 4 q(1) 1 -3\n5 2 2\n6 1 -1\n7 0 1 2 3 1 2\n8 0 1 1 1\n9 0 1 5\n9 1 2 1 x\n9 2 3 2 1 1\n9 4 0 1 3 1 1\n9 5 4 2 1 0\n99\n"},
	{"cut-off-inside-step", "asp 1 0 0\n1 0 1 1 0 0\n4 3 X y 0\n2 0 1 1 1\n"},
	{"refused-in-third-step", "asp 1 0 0 incremental\n1 0 1 1 0 0\n0\n1 0 1 2 0 0\n0\n4 2 Ab 2 1 2\n4 2 Cd 0\n3 2 1 2\n1 0 1 3 0 1 0\n0\n"},
	{"refused-by-the-text-writer", "asp 1 0 0\n1 0 1 1 0 0\n4 2 Ab 1 -1\n9 4 0 0 0\n9 4 0 0 0\n0\n"},
	{"refused-after-many-strings", "asp 1 0 0\n4 1 A 0\n4 1 B 0\n4 1 C 0\n4 1 D 2 1 2\n5 1 0\n1 0 1 0\n"},
	{"accepted-then-extra-input", "asp 1 0 0\n1 0 1 1 0 0\n4 2 Ab 0\n0\nasp 1 0 0\n"},
};
static const reuse::Primer SMODELS_WRITER_PRIMERS[] = { // need no option
	{"refused-after-rules", "1 2 0 0\n1 3 1 0 2\n3 2 4 5 0 0\n1 0 0 0\n"},
	{"cut-off-inside-symbol-table", "1 2 0 0\n0\n2 Foo\n3 \"bar\"\n4 X y\n"},
	{"cut-off-inside-rules", "1 2 0 0\n2 3 2 0 1 4 5\n5 6 2 2 1 4 5 1 1\n6 0 2 1 2 3 1 2\n"},
};
static int quietError(int, const char*) { return 1; } // the caller's handler survives the primer's error
template <unsigned N> static const reuse::Primer& wrPick(const Case& c, const reuse::Primer (&t)[N]) { return t[reuse::pick(c, N)]; }
static const reuse::Primer& aspifWriterPrimer(const Case& c) {
	return ((reuse::hash(c) >> 19) & 1u) ? wrPick(c, ASPIF_WRITER_PRIMERS) : reuse::aspifPrimer(c);
}
static const reuse::Primer& smodelsWriterPrimer(const Case& c, bool claspExt) {
	return ((reuse::hash(c) >> 19) & 1u) ? wrPick(c, SMODELS_WRITER_PRIMERS) : reuse::smodelsPrimer(c, claspExt);
}
struct PipeResult { int rc; int errs; int line; std::string out; };
// one conversion of `in` (modes 3-6); primer != 0: into a writer object that was given the primer before
static PipeResult runPipe(const Case& c, ll mode, ll opts, const std::string& in, const reuse::Primer* primer) {
	g_errs = 0; g_line = 0;
	std::ostringstream os;
	std::istringstream is(in);
	std::istringstream pr(std::string(primer ? primer->text : ""));
	const bool oneReader = primer && ((reuse::hash(c) >> 18) & 1u) != 0;
	int rc = 0;
	Potassco::SmodelsInput::Options so;
	if ((mode == 5 || mode == 6) && (opts & 1)) { so.enableClaspExt().convertEdges().convertHeuristic(); if (opts & 2) so.dropConverted(); }
	#define WR_FORGET() do { os.str(std::string()); os.clear(); } while (0)
	if (mode == 3) {
		Potassco::SmodelsOutput w(os, (opts & 1) != 0, 0);
		if (primer) { Potassco::SmodelsConvert cv0(w, (opts & 1) != 0); try { Potassco::readAspif(pr, cv0, &quietError); } catch (...) {} }
		WR_FORGET();
		Potassco::SmodelsConvert cv(w, (opts & 1) != 0);
		rc = Potassco::readAspif(is, cv, &onError);
	}
	else if (mode == 4 || mode == 6) {
		Potassco::AspifTextOutput t(os);
		if (mode == 4) {
			Potassco::AspifInput rd(t);
			if (oneReader)   { reuse::prime(rd, pr); }
			else if (primer) { try { Potassco::readAspif(pr, t, &quietError); } catch (...) {} }
			WR_FORGET();
			rc = oneReader ? Potassco::readProgram(is, rd, &onError) : Potassco::readAspif(is, t, &onError);
		}
		else {
			Potassco::SmodelsInput rd(t, so);
			if (oneReader)   { reuse::prime(rd, pr); }
			else if (primer) { try { Potassco::readSmodels(pr, t, &quietError, so); } catch (...) {} }
			WR_FORGET();
			rc = oneReader ? Potassco::readProgram(is, rd, &onError) : Potassco::readSmodels(is, t, &onError, so);
		}
	}
	else { // mode 5
		Potassco::AspifOutput a(os);
		Potassco::SmodelsInput rd(a, so);
		if (oneReader)   { reuse::prime(rd, pr); }
		else if (primer) { try { Potassco::readSmodels(pr, a, &quietError, so); } catch (...) {} }
		WR_FORGET();
		rc = oneReader ? Potassco::readProgram(is, rd, &onError) : Potassco::readSmodels(is, a, &onError, so);
	}
	#undef WR_FORGET
	PipeResult r; r.rc = rc; r.errs = g_errs; r.line = g_line; r.out = os.str();
	return r;
}
int main() {
	Case c; Obs o;
	{ std::istringstream warm("asp 1 0 0\n0\n"); Obs r0; Recorder r(r0); Potassco::readAspif(warm, r, &onError); }
	while (readCase(c)) {
		g_case = &c;
		const bool primed = reuse::primed(c);
		ll mode = c.next(), opts = c.next(); size_t len = (size_t)c.next();
		std::string in = c.bytes(len);
		g_errs = 0; g_line = 0;
		int status = 0; Obs rec; std::string outBytes;
		rec.s.reserve(1 << 16); outBytes.reserve(1 << 16);   // before live0: assigning the output below must not look like a leak
		long live0 = g_live;
		try {
			std::ostringstream os;
			std::istringstream is(in);
			Recorder r(rec);
			int rc = 0; bool writerDiffers = false;
			if (primed && mode >= 0 && mode <= 2) { // reader reuse: the primer's calls are dropped, then the case's text is read exactly like readAspif/readSmodels/readProgram do
				std::istringstream pr(std::string(mode == 0 ? reuse::aspifPrimer(c).text : mode == 2 ? reuse::textPrimer(c).text : reuse::smodelsPrimer(c, (opts & 1) != 0).text));
				if      (mode == 0) { Potassco::AspifInput rd(r);              reuse::prime(rd, pr); rec.s.clear(); rc = Potassco::readProgram(is, rd, &onError); }
				else if (mode == 1) { Potassco::SmodelsInput rd(r, smOpts(opts)); reuse::prime(rd, pr); rec.s.clear(); rc = Potassco::readProgram(is, rd, &onError); }
				else                { Potassco::AspifTextInput rd(&r);         reuse::prime(rd, pr); rec.s.clear(); rc = Potassco::readProgram(is, rd, &onError); }
			}
			else if (mode == 0) { rc = Potassco::readAspif(is, r, &onError); }
			else if (mode == 1) { rc = Potassco::readSmodels(is, r, &onError, smOpts(opts)); }
			else if (mode == 2) { Potassco::AspifTextInput ti(&r); rc = Potassco::readProgram(is, ti, &onError); }
			else if (mode >= 3 && mode <= 6) {
				const reuse::Primer* p = !primed ? 0 : (mode <= 4 ? &aspifWriterPrimer(c) : &smodelsWriterPrimer(c, (opts & 1) != 0));
				PipeResult got = runPipe(c, mode, opts, in, p);
				if (p) { // reference: the same text into a fresh writer
					PipeResult ref = runPipe(c, mode, opts, in, 0);
					writerDiffers = (ref.rc != 0) != (got.rc != 0) || ref.errs != got.errs || ref.line != got.line || ref.out != got.out;
					g_errs = got.errs; g_line = got.line;
				}
				rc = got.rc; os << got.out;
			}
			status = writerDiffers ? 4 : (rc != 0 || g_errs != 0) ? 1 : 0;
			outBytes.assign(os.str());
			if (mode == 7) { status = runLpconvert(in, opts, outBytes, g_errs, g_line); }
		}
		catch (const std::exception&) { status = 2; }
		catch (...) { status = 3; }
		int leak = 0;
		if (g_live > live0) { leak = __lsan_do_recoverable_leak_check() ? 1 : 0; }
		if (leak) { g_leakReported = true; }
		o.add(status); o.add(g_errs); o.add(g_line); o.add(leak ? 1 : 0);
		if (mode <= 2) { if (!rec.s.empty()) { o.s += ' '; o.s += rec.s; } }
		else { o.add((ll)outBytes.size()); o.addBytes(outBytes.data(), outBytes.size()); }
		o.flush();
	}
	// A leak that was attributed to ITS case above (leak flag in that case's observation) would be reported once more by LeakSanitizer when
	// the process ends, and the driver blames a report at exit on the LAST case of the batch - an unrelated input as replay. So when a
	// case has carried the flag the at-exit check is skipped; when none has, the process ends normally and the at-exit check remains the
	// backstop for blocks the operator new/delete counter does not see (malloc'ed by the library).
	if (g_leakReported) { std::fflush(stdout); _exit(0); }
	return 0;
}
