// C06: feed a call sequence to a real AspifTextOutput; observation = status, then the emitted bytes.
// Case: encoded calls (coq/Lib/Calls.v).  status: 0 = all calls played, 1 = std::logic_error,
// 2 = other std::exception, 3 = unknown exception (playing stops at the first exception).
#include "common.h"
#include "rec.h"
#include "reuse.h"
#include <potassco/aspif_text.h>
// Writer REUSE: initProgram() starts a new program on the same AspifTextOutput object, which must then render like a fresh writer.
// For every other case that starts with an initProgram call (same hash as reuse::primed, so deterministic and replayable) an earlier
// program is rendered through the writer first and its text thrown away: names for atoms 1..8, a conditional #show, a theory atom with a
// conditional element on atom 7, a directive-level theory atom, and (variant by hash bit 18) a second, ABANDONED step whose buffered
// directives were never written. Invisible for a correct writer, so neither the model nor the oracle depends on it.
static void primeWriter(Potassco::AspifTextOutput& out, bool abandon) {
	using namespace Potassco;
	out.initProgram(abandon);
	out.beginStep();
	static const char* names[] = {"pa", "pb", "pc(1)", "pd", "pe", "pf", "pg", "ph"};
	for (int i = 0; i != 8; ++i) { Lit_t l = i + 1; out.output(toSpan(names[i], std::strlen(names[i])), toSpan(&l, 1)); }
	Lit_t c2[] = {1, -2}; out.output(toSpan("sh", 2), toSpan(c2, 2));
	out.theoryTerm(0, toSpan("t", 1)); out.theoryTerm(1, 7); out.theoryTerm(2, toSpan("u", 1));
	Id_t ts[] = {1, 2}; Lit_t ec[] = {3, -4};
	out.theoryElement(0, toSpan(ts, 2), toSpan(ec, 2));
	Id_t es[] = {0};
	out.theoryAtom(9, 0, toSpan(es, 1));
	out.theoryAtom(0, 2, toSpan(es, 1));
	Atom_t h[] = {10}; Lit_t b[] = {9, -1};
	out.rule(Head_t::Choice, toSpan(h, 1), toSpan(b, 2));
	out.endStep();
	if (abandon) {
		out.beginStep();
		Lit_t l = 11; out.output(toSpan("late", 4), toSpan(&l, 1));
		out.theoryTerm(3, 42); Id_t t3[] = {3};
		out.theoryElement(1, toSpan(t3, 1), toSpan(ec, 2));
		Id_t e1[] = {1}; out.theoryAtom(12, 0, toSpan(e1, 1));
		out.rule(Head_t::Disjunctive, toSpan(h, 1), toSpan(b, 2));
		out.external(13, Value_t::True);
	}
}
static unsigned long long caseHash(const Case& c) {
	unsigned long long h = 1469598103934665603ull;
	for (size_t i = 0; i != c.v.size(); ++i) { h = (h ^ static_cast<unsigned long long>(c.v[i])) * 1099511628211ull; }
	return h;
}
int main() {
	Case c; Obs o;
	while (readCase(c)) {
		std::ostringstream os;
		int status = 0;
		{
			Potassco::AspifTextOutput out(os);
			if (!c.v.empty() && c.v[0] == 1 && reuse::primed(c)) {
				try { primeWriter(out, ((caseHash(c) >> 18) & 1u) != 0); } catch (...) { }
				os.str(std::string());
			}
			try { while (playCall(c, out)) { ; } }
			catch (const std::logic_error&) { status = 1; }
			catch (const std::exception&)   { status = 2; }
			catch (...)                     { status = 3; }
		}
		std::string s = os.str();
		o.add(status); o.add((ll)s.size()); o.addBytes(s.data(), s.size());
		o.flush();
	}
	return 0;
}
