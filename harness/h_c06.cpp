// C06: feed a call sequence to a real AspifTextOutput; observation = status, then the emitted bytes.
// Case: encoded calls (coq/Lib/Calls.v).  status: 0 = all calls played, 1 = std::logic_error,
// 2 = other std::exception, 3 = unknown exception (playing stops at the first exception).
#include "common.h"
#include "rec.h"
#include <potassco/aspif_text.h>
int main() {
	Case c; Obs o;
	while (readCase(c)) {
		std::ostringstream os;
		int status = 0;
		{
			Potassco::AspifTextOutput out(os);
			try { while (playCall(c, out)) { ; } }
			catch (const std::logic_error&) { status = 1; }
			catch (const std::exception&)   { status = 2; }
			catch (...)                     { status = 3; }
		}
		std::string s = os.str();
		o.add(status); o.add((ll)s.size()); o.addBytes(s.data(), s.size());
		o.flush();
	}
	return 0;
}
