// Reader REUSE (C01, C03, C07, C08, C10; additive in C04): ProgramReader::accept "associates the reader with the given input stream" and
// reset() exists, so one reader OBJECT may read several texts in a row and must treat each like a fresh reader would - whatever the
// earlier text was and however reading it ended (accepted, or REFUSED at any point: "state left behind by a refused input").
// For every other case - decided by a hash of ALL integers of the case, so it is deterministic and replayable - the harness first runs a
// PRIMER text of the same format through the reader object (its calls and its result are thrown away) and then accept()s + parses the
// case's text on that SAME object with exactly the error handling / observation of the unprimed path. Which primer is used is decided by
// further bits of the same hash (pick): accepted ones (empty incremental; rich multi-step programs with symbol tables / theory data) and
// refused ones (cut off inside a rule / statement, inside and after the symbol table, inside the compute statement, in the trailer, in a
// later step, "invalid extra input"). The smodels symbol tables bind the names the C08 generator uses (props/C08.py GOOD_NAMES, _atom(k)) to
// OTHER atoms (RU_SYM_A: small atoms in rotated order, RU_SYM_B: atoms no generated case uses) and carry _edge / _acyc_ / _heuristic
// predicates, so a table that survives the primer binds a later `_heuristic(name,..)` to the wrong atom / renumbers edge nodes.
// For a correct implementation every primer is invisible, so the models (coq/Cnn/Model.v) and the oracles are unchanged.
// props/reuse.py reads the primer tables FROM THIS FILE (one entry per line: {"tag", literal-or-macro ...}; keep that shape) and computes
// the same hash / choice; describe() of the plugins prints the primer.
#pragma once
#include "common.h"
#include <potassco/match_basic_types.h>
namespace reuse {
// FNV-1a (64 bit) over the case's integers; bit 17 decides "primed", bits 20.. choose the primer.
inline unsigned long long hash(const Case& c) {
	unsigned long long h = 1469598103934665603ull;
	for (size_t i = 0; i != c.v.size(); ++i) { h = (h ^ static_cast<unsigned long long>(c.v[i])) * 1099511628211ull; }
	return h;
}
inline bool primed(const Case& c) { return ((hash(c) >> 17) & 1u) != 0; }
inline unsigned pick(const Case& c, unsigned n) { return static_cast<unsigned>((hash(c) >> 20) % n); }
struct Primer { const char* tag; const char* text; };
#define RU_RULES "1 2 1 0 3\n3 2 2 3 1 1 4\n2 4 2 1 1 2 3\n5 5 3 2 1 2 3 1 2\n6 0 2 1 2 3 1 2\n8 2 6 7 0 0\n"
#define RU_TAIL "0\nB+\n0\nB-\n0\n1\n"
#define RU_SYM_A "5 a\n6 b\n7 c\n8 p(1)\n9 p(\"a,b\",f(1,2))\n10 q(\"x\\\"y\")\n2 \"str\"\n3 f(a,g(b))\n4 x y\n5 _atom(2)\n6 -1\n7 p(\")\")\n8 p(\"(\")\n9 q(\"\\\\\")\n10 n(-3,\"\")\n2 _x\n3 A(b)\n4 _atom(3)\n5 _atom(4)\n6 _atom(5)\n7 _atom(6)\n8 _atom(7)\n9 _atom(8)\n10 d\n2 zz\n12 _edge(0,1)\n13 _edge(7,1000000)\n14 _edge(2147483647,-1)\n15 _edge(-2147483648,3)\n16 _edge(2,2)\n17 _acyc_1_5_6\n18 _heuristic(a,level,1,1)\n19 _heuristic(zz,sign,-1,2)\n20 _heuristic(_atom(2),init,7,0)\n"
#define RU_SYM_B "125 a\n124 b\n123 c\n122 p(1)\n121 p(\"a,b\",f(1,2))\n120 q(\"x\\\"y\")\n119 \"str\"\n118 f(a,g(b))\n117 x y\n116 _atom(2)\n115 -1\n114 p(\")\")\n113 p(\"(\")\n112 q(\"\\\\\")\n111 n(-3,\"\")\n110 _x\n109 A(b)\n108 _atom(3)\n107 _atom(4)\n106 _atom(5)\n105 _atom(6)\n104 _atom(7)\n103 _atom(8)\n102 d\n101 zz\n200 _edge(0,1)\n201 _edge(7,1000000)\n202 _edge(2147483647,-1)\n203 _edge(-2147483648,3)\n204 _edge(2,2)\n205 _acyc_1_5_6\n206 _heuristic(a,level,1,1)\n207 _heuristic(zz,sign,-1,2)\n208 _heuristic(_atom(2),init,7,0)\n"
static const Primer ASPIF_PRIMERS[] = {
	{"accepted-incremental-empty", "asp 1 0 0 incremental\n0\n"},
	{"accepted-incremental-two-steps-all-directives", "asp 1 0 0 incremental\n1 0 1 1 0 1 -2\n1 1 2 2 3 1 2 2 1 1 -4 2\n2 1 2 1 3 -2 1\n3 1 1\n4 1 a 1 1\n5 2 2\n6 1 -1\n7 0 1 2 3 1 2\n8 0 1 1 1\n9 0 1 5\n9 1 2 1 x\n9 2 3 2 1 1\n9 4 0 1 3 1 1\n9 5 4 2 1 0\n9 6 5 2 1 0 2 1\n10 c\n0\n1 0 1 5 0 0\n0\n"},
	{"refused-inside-rule", "asp 1 0 0\n1 0 1 1 0 3 1 -2"},
	{"refused-inside-theory-atom", "asp 1 0 0\n9 0 1 5\n9 1 2 1 x\n9 4 0 1 1 0\n9 5 3 2 2 0"},
	{"refused-in-second-step", "asp 1 0 0 incremental\n1 0 1 1 0 0\n4 1 a 1 1\n0\n1 0 1 2 0 0\n99\n"},
	{"refused-extra-input", "asp 1 0 0\n1 0 1 1 0 0\n0\nasp 1 0 0\n"},
	{"refused-in-problem-line", "asp 1 0 0 incremental x\n"},
	{"refused-inside-string", "asp 1 0 0\n4 10 abc"},
};
static const Primer SMODELS_PRIMERS[] = { // need no option
	{"accepted-empty", "0\n" RU_TAIL},
	{"accepted-with-symbols", RU_RULES "0\n" RU_SYM_A "0\nB+\n2\n0\nB-\n3\n0\nE\n4\n0\n1\n"},
	{"refused-inside-rules", "1 2 1 0 3\n5 5 3 2 1 2 3 1"},
	{"refused-after-symbol-table", RU_RULES "0\n" RU_SYM_A "0\n"},
	{"refused-inside-compute", RU_RULES "0\n" RU_SYM_B "0\nB+\n2\nx\n"},
	{"refused-in-trailer", RU_RULES "0\n" RU_SYM_A "0\nB+\n0\nB-\n0\nE\n4\n0\nx\n"},
	{"refused-extra-input", "1 2 0 0\n0\n" RU_SYM_B RU_TAIL "1 3 0 0\n"},
	{"refused-inside-symbol-table-name", RU_RULES "0\n" RU_SYM_A "40 zzz"},
	{"refused-inside-symbol-table-atom", "0\n" RU_SYM_B "x\n"},
};
static const Primer SMODELS_EXT_PRIMERS[] = { // need claspExt (rule types 90, 91, 92); used in addition to SMODELS_PRIMERS when the case enables it
	{"accepted-incremental-empty", "90 0\n0\n" RU_TAIL},
	{"accepted-incremental-two-steps-with-symbols", "90 0\n" RU_RULES "0\n" RU_SYM_A RU_TAIL "90 0\n91 2 1\n92 3\n0\n41 e\n" RU_TAIL},
	{"refused-in-second-step", "90 0\n0\n" RU_SYM_B RU_TAIL "90 0\n91 2 3\n"},
	{"refused-increment-rule", "1 2 0 0\n90 1\n"},
};
static const Primer TEXT_PRIMERS[] = {
	{"accepted-incremental-empty", "#incremental.\n"},
	{"accepted-incremental-two-steps-all-directives", "#incremental.\n{a;b} :- not c.\nd :- 2 {a=1, not b=3}.\n#output p(\"x\",1) : a, not b.\n#project {a,b}.\n#assume {a, not b}.\n#step.\n#external e. [true]\n#heuristic a : b. [1@2, level]\n#edge (0,1) : a.\n#minimize {a=2, b}@1.\n"},
	{"refused-inside-rule-body", "a :- b, not"},
	{"refused-inside-aggregate", "{a;b} :- c.\nd :- 2 {a=1, \n"},
	{"refused-inside-string", "#output p(\"x : a.\n"},
	{"refused-in-second-step", "#incremental.\na.\n#step.\n#heuristic a : b. [1@-2, level]\n"},
	{"refused-step-without-incremental", "a.\n#step.\n"},
};
template <unsigned N> inline unsigned count(const Primer (&)[N]) { return N; }
inline const Primer& aspifPrimer(const Case& c) { return ASPIF_PRIMERS[pick(c, count(ASPIF_PRIMERS))]; }
inline const Primer& textPrimer(const Case& c)  { return TEXT_PRIMERS[pick(c, count(TEXT_PRIMERS))]; }
inline const Primer& smodelsPrimer(const Case& c, bool claspExt) {
	const unsigned n = count(SMODELS_PRIMERS), k = pick(c, n + (claspExt ? count(SMODELS_EXT_PRIMERS) : 0u));
	return k < n ? SMODELS_PRIMERS[k] : SMODELS_EXT_PRIMERS[k - n];
}
// Runs the primer through reader (accept + parse(Complete)); whatever it delivers goes to the reader's output object, which the caller discards.
// The stream is kept by the caller until the reader is gone. Returns whether the primer was accepted (only for self-tests of the harness).
inline bool prime(Potassco::ProgramReader& reader, std::istream& primer) {
	try { return Potassco::readProgram(primer, reader, 0) == 0; }
	catch (...) { return false; }
}
}

#include <potassco/smodels.h>
#include <algorithm>
namespace reuse {
// The four builder calls of SmodelsInput::Options are independent: the option set must not depend on the ORDER in which they are made
// (seeded C08-r12: dropConverted() only took effect when a conversion had been requested BEFORE it). The order is a permutation derived
// from the case (hash bits 40..), so it is deterministic and replayable.
inline Potassco::SmodelsInput::Options smodelsOptions(const Case& c, bool ext, bool cE, bool cH, bool flt) {
	unsigned long long h = 1469598103934665603ull;
	for (size_t i = 0; i != c.v.size(); ++i) { h = (h ^ static_cast<unsigned long long>(c.v[i])) * 1099511628211ull; }
	int order[4] = {0, 1, 2, 3};
	unsigned k = static_cast<unsigned>((h >> 40) % 24u);
	for (unsigned i = 0; i != k; ++i) { std::next_permutation(order, order + 4); }
	Potassco::SmodelsInput::Options o;
	for (int i = 0; i != 4; ++i) {
		switch (order[i]) {
			case 0: if (ext) o.enableClaspExt();   break;
			case 1: if (cE)  o.convertEdges();     break;
			case 2: if (cH)  o.convertHeuristic(); break;
			default: if (flt) o.dropConverted();   break;
		}
	}
	return o;
}
}
