// Reader REUSE (C01, C03, C07, C10; additive in C04): ProgramReader::accept "associates the reader with the given input stream" and
// reset() exists, so one reader OBJECT may read several texts in a row and must treat each like a fresh reader would.
// For every other case - decided by a hash of ALL integers of the case, so it is deterministic and replayable - the harness first runs a
// fixed, accepted, INCREMENTAL primer text of the same format through the reader object (its calls and its result are thrown away) and then
// accept()s + parses the case's text on that SAME object with exactly the error handling / observation of the unprimed path.
// For a correct implementation the primer is invisible, so the model (coq/Cnn/Model.v) and the oracles are unchanged.
// props/C03.py `primed` computes the same hash (shown by describe()).
#pragma once
#include "common.h"
#include <potassco/match_basic_types.h>
namespace reuse {
// FNV-1a (64 bit) over the case's integers; bit 17 decides.
inline bool primed(const Case& c) {
	unsigned long long h = 1469598103934665603ull;
	for (size_t i = 0; i != c.v.size(); ++i) { h = (h ^ static_cast<unsigned long long>(c.v[i])) * 1099511628211ull; }
	return ((h >> 17) & 1u) != 0;
}
static const char* const ASPIF_PRIMER       = "asp 1 0 0 incremental\n0\n";
static const char* const SMODELS_PRIMER_EXT = "90 0\n0\n0\nB+\n0\nB-\n0\n1\n"; // rule type 90 (clasp extension): incremental
static const char* const SMODELS_PRIMER     = "0\n0\nB+\n0\nB-\n0\n1\n";       // without claspExt no incremental text exists
static const char* const TEXT_PRIMER        = "#incremental.\n";
// Runs the primer through reader (accept + parse(Complete)); whatever it delivers goes to the reader's output object, which the caller discards.
// The stream is kept by the caller until the reader is gone. Returns whether the primer was accepted (only for self-tests of the harness).
inline bool prime(Potassco::ProgramReader& reader, std::istream& primer) {
	try { return Potassco::readProgram(primer, reader, 0) == 0; }
	catch (...) { return false; }
}
}
