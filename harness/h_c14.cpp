// C14: build a real OptionContext from generated groups / alias names / merged contexts and look keys up.
// Case (see coq/C14/Model.v run_ops):
//   1 <cap> n (<name> alias)*                add(group)               -> 0 | 1 <key>
//   2 <name> i                               addAlias(name, begin()+min(i,size)) -> 0 | 1 <key>
//   3 g (<cap> n (<name> alias)*)*           add(other context)       -> 2 (other refused) | 0 | 1 <key>
//   4 <key> t                                find(key, t)             -> 0 id | 1 | 2 k <cand>* | 3
//   5 <key> t                                tryFind(key, t)          -> id | -1
//   6 <key> t m                              findImpl(key, t, m)      -> 0 k id* | 1 | 2 k <cand>*
// <str> = len bytes.  At the end the context is dumped: size, groups (caption, option names), index entries.
#include "common.h"
#include <map>
#include <set>
#define private public
#define protected public
#include <potassco/program_opts/program_options.h>
#undef private
#undef protected
#include <potassco/program_opts/typed_value.h>
#include <potassco/program_opts/errors.h>
namespace Po = Potassco::ProgramOptions;
static int sink;

static std::string getStr(Case& c) { size_t n = (size_t)c.next(); return c.bytes(n); }
static void addStr(Obs& o, const std::string& s) { o.add((ll)s.size()); o.addBytes(s.data(), s.size()); }
static void getGroup(Case& c, Po::OptionGroup& g) {
	g.caption_ = getStr(c);
	size_t n = (size_t)c.next();
	for (size_t i = 0; i != n && c.more(); ++i) {
		std::string nm = getStr(c);
		char a = (char)c.next();
		g.addOption(Po::SharedOptPtr(new Po::Option(nm, a, "", Po::storeTo(sink))));
	}
}
// candidates as listed in the AmbiguousOption message:  "... could be:\n  <name>\n  <name>\n"
static void addCands(Obs& o, const std::string& what) {
	std::vector<std::string> cs;
	std::string::size_type p = what.find(" could be:\n");
	if (p != std::string::npos) {
		p += 11;
		while (p < what.size()) {
			std::string::size_type e = what.find('\n', p);
			if (e == std::string::npos) e = what.size();
			if (e >= p + 2) cs.push_back(what.substr(p + 2, e - p - 2));
			p = e + 1;
		}
	}
	o.add((ll)cs.size());
	for (size_t i = 0; i != cs.size(); ++i) addStr(o, cs[i]);
}
template <class F>
static void guardedAdd(Obs& o, F f) {
	try { f(); o.add(0); }
	catch (const Po::DuplicateOption& e) { o.add(1); addStr(o, e.key()); }
	catch (const std::exception&) { o.add(9); }
}
int main() {
	Case c; Obs o;
	while (readCase(c)) {
		Po::OptionContext ctx("ctx");
		bool stop = false;
		while (c.more() && !stop) {
			ll op = c.next();
			if (op == 1) {
				Po::OptionGroup g; getGroup(c, g);
				guardedAdd(o, [&] { ctx.add(g); });
			}
			else if (op == 2) {
				std::string nm = getStr(c);
				if (!c.more()) break;
				size_t i = (size_t)c.next();
				Po::OptionContext::option_iterator it = ctx.begin() + std::min(i, ctx.size());
				guardedAdd(o, [&] { ctx.addAlias(nm, it); });
			}
			else if (op == 3) {
				size_t n = (size_t)c.next();
				Po::OptionContext other("other");
				bool ok = true;
				for (size_t i = 0; i != n; ++i) {
					Po::OptionGroup g; getGroup(c, g);
					if (ok) { try { other.add(g); } catch (const Po::DuplicateOption&) { ok = false; } }
				}
				if (!ok) { o.add(2); }
				else { guardedAdd(o, [&] { ctx.add(other); }); }
			}
			else if (op == 4 || op == 5 || op == 6) {
				std::string key = getStr(c);
				if (!c.more()) break;
				Po::OptionContext::FindType t = (Po::OptionContext::FindType)c.next();
				try {
					if (op == 4) {
						Po::OptionContext::option_iterator it = ctx.find(key.c_str(), t);
						o.add(0); o.add((ll)(it - ctx.begin()));
					}
					else if (op == 5) {
						Po::OptionContext::option_iterator it = ctx.tryFind(key.c_str(), t);
						o.add(it == ctx.end() ? -1 : (ll)(it - ctx.begin()));
					}
					else {
						if (!c.more()) break;
						unsigned m = (unsigned)c.next();
						Po::OptionContext::OptionRange r = ctx.findImpl(key.c_str(), t, m);
						o.add(0); o.add((ll)std::distance(r.first, r.second));
						for (; r.first != r.second; ++r.first) o.add((ll)r.first->second);
					}
				}
				catch (const Po::UnknownOption&) { o.add(1); }
				catch (const Po::AmbiguousOption& e) { o.add(2); addCands(o, e.what()); }
				catch (const std::exception&) { o.add(9); }
			}
			else stop = true;
		}
		o.add((ll)ctx.size()); o.add((ll)ctx.groups());
		for (size_t g = 0; g != ctx.groups_.size(); ++g) {
			addStr(o, ctx.groups_[g].caption());
			o.add((ll)ctx.groups_[g].size());
			for (Po::OptionGroup::option_iterator it = ctx.groups_[g].begin(); it != ctx.groups_[g].end(); ++it) addStr(o, (*it)->name());
		}
		o.add((ll)ctx.index_.size());
		for (Po::OptionContext::index_iterator it = ctx.index_.begin(); it != ctx.index_.end(); ++it) { addStr(o, it->first); o.add((ll)it->second); }
		o.flush();
	}
	return 0;
}
