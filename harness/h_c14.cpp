// C14: build a real OptionContext from generated groups / alias names / merged contexts and look keys up.
// Case (see coq/C14/Model.v run_ops):
//   1 <cap> n (<name> alias)*                add(group)               -> 0 | 1 <key>
//   2 <name> i                               addAlias(name, begin()+min(i,size)) -> 0 | 1 <key>
//   3 g (<cap> n (<name> alias)*)*           add(other context)       -> 2 (other refused) | 0 | 1 <key>
//   4 <key> t                                find(key, t)             -> 0 id | 1 | 2 k <cand>* | 3
//   5 <key> t                                tryFind(key, t)          -> id | -1
//   6 <key> t m                              findImpl(key, t, m)      -> 0 k id* | 1 | 2 k <cand>*
//   7 <key> short allow entry                a lookup made by a PARSER (DefaultContext::getOption): entry%4 = 0 parseCommandLine,
//                                            1 parseCommandArray, 2 parseCommandString, 3 parseCfgFile; long spelling "--key=1" /
//                                            "key = 1" (find_name_or_prefix), short spelling "-c1" (find_alias; not for config files);
//                                            allow = allowUnregistered      -> 0 id | 1 | 2 k <cand>* | 3 (nothing parsed, no error) | 7 (key not spellable)
//   8 n (<key> short)^n allow entry         n names resolved in ONE parser run (one DefaultContext): token j = "--key=j" / "-cj" / line "key = j" (j = 1..n)
//                                            -> 0 k (j id)^k (the parsed values: token number, option) | 1 | 2 k <cand>* | 7 (some key not spellable)
//   9 k                                      add(group "N" of k GENERATED options named 'o' + the four base-36 digits (0-9 a-z) of 0 .. k-1, no alias characters);
//                                            k is cut to 70000 on a context without options and keys, to 300 otherwise (evaluation budget)  -> 0 | 1 <key>
//                                            (a context of more than 65536 options: the option NUMBER stored in the index must still be exact - seeded C14-r15)
// <str> = len bytes.  At the end the context is dumped: size, groups (caption, option names), index entries; a context of more than 4096 options
// (op 9 only) is dumped in short: size, groups (caption, size), number of index entries.
#include "common.h"
#include <memory>
#include <map>
#include <set>
#include <sstream>
#define private public
#define protected public
#include <potassco/program_opts/program_options.h>
#undef private
#undef protected
#include <potassco/program_opts/typed_value.h>
#include <potassco/program_opts/errors.h>
namespace Po = Potassco::ProgramOptions;
static int sink;

static std::string getStr(Case& c) { size_t n = (size_t)c.next(); return c.bytes(n); }
static void addStr(Obs& o, const std::string& s) { o.add((ll)s.size()); o.addBytes(s.data(), s.size()); }
static void getGroup(Case& c, Po::OptionGroup& g) {
	g.caption_ = getStr(c);
	size_t n = (size_t)c.next();
	for (size_t i = 0; i != n && c.more(); ++i) {
		std::string nm = getStr(c);
		char a = (char)c.next();
		g.addOption(Po::SharedOptPtr(new Po::Option(nm, a, "", Po::storeTo(sink))));
	}
}
// candidates as listed in the AmbiguousOption message:  "... could be:\n  <name>\n  <name>\n"
static void addCands(Obs& o, const std::string& what) {
	std::vector<std::string> cs;
	std::string::size_type p = what.find(" could be:\n");
	if (p != std::string::npos) {
		p += 11;
		while (p < what.size()) {
			std::string::size_type e = what.find('\n', p);
			if (e == std::string::npos) e = what.size();
			if (e >= p + 2) cs.push_back(what.substr(p + 2, e - p - 2));
			p = e + 1;
		}
	}
	o.add((ll)cs.size());
	for (size_t i = 0; i != cs.size(); ++i) addStr(o, cs[i]);
}
// name of the j-th generated option: 'o' + the four base-36 digits of j
static std::string genName(ll j) {
	static const char* D = "0123456789abcdefghijklmnopqrstuvwxyz";
	std::string s(5, 'o');
	for (int p = 4; p >= 1; --p) { s[p] = D[j % 36]; j /= 36; }
	return s;
}
template <class F>
static void guardedAdd(Obs& o, F f) {
	try { f(); o.add(0); }
	catch (const Po::DuplicateOption& e) { o.add(1); addStr(o, e.key()); }
	catch (const std::exception&) { o.add(9); }
}
static bool plainKey(const std::string& k) {
	if (k.empty() || k[0] == '-' || k[0] == '#') return false;
	for (size_t i = 0; i != k.size(); ++i) {
		unsigned char b = (unsigned char)k[i];
		if (b < 33 || b > 126 || b == '"' || b == '\'' || b == '=' || b == '\\') return false;
	}
	return true;
}
// one name resolved by a real parser entry point
static void parserLookup(Obs& o, const Po::OptionContext& ctx, const std::string& key, bool shortSpelling, bool allow, int entry) {
	std::string tok = shortSpelling ? "-" + key + "1" : "--" + key + "=1";
	try {
		Po::ParsedValues pv(ctx);
		if (entry == 0) {
			std::string prog = "prog";
			std::vector<char> a0(prog.c_str(), prog.c_str() + prog.size() + 1), a1(tok.c_str(), tok.c_str() + tok.size() + 1);
			char* argv[] = { &a0[0], &a1[0], 0 };
			int argc = 2;
			pv = Po::parseCommandLine(argc, argv, ctx, allow);
		}
		else if (entry == 1) {
			const char* argv[] = { tok.c_str() };
			pv = Po::parseCommandArray(argv, 1, ctx, allow);
		}
		else if (entry == 2) {
			pv = Po::parseCommandString(tok, ctx, allow);
		}
		else {
			std::istringstream in(key + " = 1\n");
			pv = Po::parseCfgFile(in, ctx, allow);
		}
		size_t n = 0; ll id = -1;
		for (Po::ParsedValues::iterator it = pv.begin(); it != pv.end(); ++it, ++n) {
			for (size_t k = 0; k != ctx.size(); ++k) if ((ctx.begin() + k)->get() == it->first.get()) id = (ll)k;
		}
		if (n == 0) { o.add(3); }
		else if (n == 1) { o.add(0); o.add(id); }
		else { o.add(8); o.add((ll)n); }
	}
	catch (const Po::UnknownOption&) { o.add(1); }
	catch (const Po::AmbiguousOption& e) { o.add(2); addCands(o, e.what()); }
	catch (const std::exception&) { o.add(9); }
}
// several names resolved by ONE run of a real parser entry point; the value of token j is the decimal number j
static void parserSequence(Obs& o, const Po::OptionContext& ctx, const std::vector<std::pair<std::string, bool> >& toks, bool allow, int entry) {
	std::vector<std::string> words;
	std::string cmd, cfg;
	for (size_t j = 0; j != toks.size(); ++j) {
		std::string num = std::to_string(j + 1);
		words.push_back(toks[j].second ? "-" + toks[j].first + num : "--" + toks[j].first + "=" + num);
		if (j) cmd += ' ';
		cmd += words.back();
		cfg += toks[j].first + " = " + num + "\n";
	}
	try {
		Po::ParsedValues pv(ctx);
		if (entry == 0) {
			std::vector<std::vector<char> > store;
			std::string prog = "prog";
			store.push_back(std::vector<char>(prog.c_str(), prog.c_str() + prog.size() + 1));
			for (size_t j = 0; j != words.size(); ++j) store.push_back(std::vector<char>(words[j].c_str(), words[j].c_str() + words[j].size() + 1));
			std::vector<char*> argv;
			for (size_t j = 0; j != store.size(); ++j) argv.push_back(&store[j][0]);
			argv.push_back(0);
			int argc = (int)store.size();
			pv = Po::parseCommandLine(argc, &argv[0], ctx, allow);
		}
		else if (entry == 1) {
			std::vector<const char*> argv;
			for (size_t j = 0; j != words.size(); ++j) argv.push_back(words[j].c_str());
			argv.push_back(0);
			pv = Po::parseCommandArray(&argv[0], (unsigned)words.size(), ctx, allow);
		}
		else if (entry == 2) {
			pv = Po::parseCommandString(cmd, ctx, allow);
		}
		else {
			std::istringstream in(cfg);
			pv = Po::parseCfgFile(in, ctx, allow);
		}
		std::vector<ll> out;
		for (Po::ParsedValues::iterator it = pv.begin(); it != pv.end(); ++it) {
			ll id = -1;
			for (size_t k = 0; k != ctx.size(); ++k) if ((ctx.begin() + k)->get() == it->first.get()) id = (ll)k;
			ll num = -1;
			try { num = (ll)std::stoll(it->second); } catch (const std::exception&) {}
			out.push_back(num); out.push_back(id);
		}
		o.add(0); o.add((ll)(out.size() / 2));
		for (size_t k = 0; k != out.size(); ++k) o.add(out[k]);
	}
	catch (const Po::UnknownOption&) { o.add(1); }
	catch (const Po::AmbiguousOption& e) { o.add(2); addCands(o, e.what()); }
	catch (const std::exception&) { o.add(9); }
}
int main() {
	Case c; Obs o;
	while (readCase(c)) {
		// The context lives behind a pointer so that it can be replaced by a COPY of itself in the middle of a history: a copy (copy
		// constructor, or copy assignment into another context) must answer every look-up like the original - long names, alias
		// names added with addAlias, one-character aliases, order of the options (seeded C14-r12: a hand-written copy constructor
		// that re-adds the groups and so loses the addAlias names). Which operations are preceded by a copy is derived from the case.
		std::unique_ptr<Po::OptionContext> ctxp(new Po::OptionContext("ctx"));
#define ctx (*ctxp)
		unsigned long long ch = 1469598103934665603ull;
		for (size_t i = 0; i != c.v.size(); ++i) { ch = (ch ^ static_cast<unsigned long long>(c.v[i])) * 1099511628211ull; }
		unsigned opNo = 0;
		bool stop = false;
		while (c.more() && !stop) {
			ll op = c.next();
			if (((ch >> (20 + (opNo++ % 24))) & 3u) == 3u && op >= 4) {
				if ((ch >> 50) & 1u) { std::unique_ptr<Po::OptionContext> cp(new Po::OptionContext(*ctxp)); ctxp.swap(cp); }
				else                 { std::unique_ptr<Po::OptionContext> cp(new Po::OptionContext("other caption")); *cp = *ctxp; ctxp.swap(cp); }
			}
			if (op == 1) {
				Po::OptionGroup g; getGroup(c, g);
				guardedAdd(o, [&] { ctx.add(g); });
			}
			else if (op == 2) {
				std::string nm = getStr(c);
				if (!c.more()) break;
				size_t i = (size_t)c.next();
				Po::OptionContext::option_iterator it = ctx.begin() + std::min(i, ctx.size());
				guardedAdd(o, [&] { ctx.addAlias(nm, it); });
			}
			else if (op == 3) {
				size_t n = (size_t)c.next();
				Po::OptionContext other("other");
				bool ok = true;
				for (size_t i = 0; i != n; ++i) {
					Po::OptionGroup g; getGroup(c, g);
					if (ok) { try { other.add(g); } catch (const Po::DuplicateOption&) { ok = false; } }
				}
				if (!ok) { o.add(2); }
				else { guardedAdd(o, [&] { ctx.add(other); }); }
			}
			else if (op == 4 || op == 5 || op == 6) {
				std::string key = getStr(c);
				if (!c.more()) break;
				Po::OptionContext::FindType t = (Po::OptionContext::FindType)c.next();
				try {
					if (op == 4) {
						Po::OptionContext::option_iterator it = ctx.find(key.c_str(), t);
						o.add(0); o.add((ll)(it - ctx.begin()));
					}
					else if (op == 5) {
						Po::OptionContext::option_iterator it = ctx.tryFind(key.c_str(), t);
						o.add(it == ctx.end() ? -1 : (ll)(it - ctx.begin()));
					}
					else {
						if (!c.more()) break;
						unsigned m = (unsigned)c.next();
						Po::OptionContext::OptionRange r = ctx.findImpl(key.c_str(), t, m);
						o.add(0); o.add((ll)std::distance(r.first, r.second));
						for (; r.first != r.second; ++r.first) o.add((ll)r.first->second);
					}
				}
				catch (const Po::UnknownOption&) { o.add(1); }
				catch (const Po::AmbiguousOption& e) { o.add(2); addCands(o, e.what()); }
				catch (const std::exception&) { o.add(9); }
			}
			else if (op == 7) {
				std::string key = getStr(c);
				if (!c.more()) break;
				ll sh = c.next();
				if (!c.more()) break;
				ll allow = c.next();
				if (!c.more()) break;
				ll e = c.next();
				int entry = (int)(((e % 4) + 4) % 4);
				bool shortSpelling = sh != 0 && entry != 3;
				if (!plainKey(key) || (shortSpelling && key.size() != 1)) { o.add(7); }
				else { parserLookup(o, ctx, key, shortSpelling, allow != 0, entry); }
			}
			else if (op == 8) {
				if (!c.more()) break;
				size_t n = (size_t)c.next();
				std::vector<std::pair<std::string, ll> > raw;
				for (size_t j = 0; j != n && c.more(); ++j) {
					std::string key = getStr(c);
					ll sh = c.more() ? c.next() : 0;
					raw.push_back(std::make_pair(key, sh));
				}
				if (!c.more()) break;
				ll allow = c.next();
				if (!c.more()) break;
				ll e = c.next();
				int entry = (int)(((e % 4) + 4) % 4);
				std::vector<std::pair<std::string, bool> > toks;
				bool ok = true;
				for (size_t j = 0; j != raw.size(); ++j) {
					bool shortSpelling = raw[j].second != 0 && entry != 3;
					if (!plainKey(raw[j].first) || (shortSpelling && raw[j].first.size() != 1)) ok = false;
					toks.push_back(std::make_pair(raw[j].first, shortSpelling));
				}
				if (!ok) { o.add(7); }
				else { parserSequence(o, ctx, toks, allow != 0, entry); }
			}
			else if (op == 9) {
				if (!c.more()) break;
				ll k = c.next();
				ll cap = (ctx.size() == 0 && ctx.index_.empty()) ? 70000 : 300;
				if (k < 0) k = 0;
				if (k > cap) k = cap;
				Po::OptionGroup g; g.caption_ = "N";
				for (ll j = 0; j != k; ++j) g.addOption(Po::SharedOptPtr(new Po::Option(genName(j), 0, "", Po::storeTo(sink))));
				guardedAdd(o, [&] { ctx.add(g); });
			}
			else stop = true;
		}
		o.add((ll)ctx.size()); o.add((ll)ctx.groups());
		if (ctx.size() > 4096) {
			for (size_t g = 0; g != ctx.groups_.size(); ++g) { addStr(o, ctx.groups_[g].caption()); o.add((ll)ctx.groups_[g].size()); }
			o.add((ll)ctx.index_.size());
			o.flush();
			continue;
		}
		for (size_t g = 0; g != ctx.groups_.size(); ++g) {
			addStr(o, ctx.groups_[g].caption());
			o.add((ll)ctx.groups_[g].size());
			for (Po::OptionGroup::option_iterator it = ctx.groups_[g].begin(); it != ctx.groups_[g].end(); ++it) addStr(o, (*it)->name());
		}
		o.add((ll)ctx.index_.size());
		if ((ch >> 51) & 1u) { std::unique_ptr<Po::OptionContext> cp(new Po::OptionContext(*ctxp)); ctxp.swap(cp); } // the final dump is taken from a copy
		for (Po::OptionContext::index_iterator it = ctx.index_.begin(); it != ctx.index_.end(); ++it) { addStr(o, it->first); o.add((ll)it->second); }
		o.flush();
	}
	return 0;
}
