// C05: feed a call sequence to a real SmodelsOutput, then read the written bytes back with SmodelsInput + Recorder.
// Case: N e falseAtom <encoded calls>      e = 0/1: ext off/on, feeding stops at the first refusal (exception)
//                                           e = 2/3: ext off/on, the caller CATCHES every refusal and continues with the same writer
// Every other case that starts with initProgram is played on a writer object that has written another program before (primeWriter).
// Observation: len bytes... ok  [continue mode: ncalls flag...]  <reader calls> status line nerr   (ok = 0 when the writer threw)
// Reader OPTION: for every other case (bit 21 of the same hash) whose written text contains no `_heuristic(` the text is read back with
// SmodelsInput::Options::convertHeuristic() set as well (bit 22: dropConverted() too). Then every symbol goes through the reader's private
// name table (SmodelsInput::SymTab::add, shared by all steps of an incremental program) instead of straight to output(); as no name is a
// heuristic predicate nothing is converted or filtered, so for a correct reader the option is INVISIBLE: model and oracle do not depend on it.
#include "rec.h"
#include "reuse.h"
#include <potassco/smodels.h>
// Writer REUSE: initProgram() starts a new program on the same SmodelsOutput object, which must then write like a new writer (same
// extensions flag / false atom). For every other case that starts with an initProgram call (reuse::primed = bit 17 of the FNV-1a hash of
// the whole case, so deterministic and replayable) the SAME writer object first writes another program whose text is thrown away; bits
// 18..20 of the hash choose it: bit 18 = incremental (accepted only with the extensions; without them the refused initProgram(true) is
// the "after a refused call" start), bits 19-20 = 0 complete (two steps when incremental) / 1 abandoned in the rule section (false atom
// marked as used) / 2 abandoned behind the symbol table / 3 abandoned behind the compute statement and a refused output call.
// Invisible for a correct writer (inc_ is assigned by initProgram, sec_ / fHead_ by beginStep), so model and oracle do not depend on it.
static void primeWriter(Potassco::SmodelsOutput& out, bool ext, unsigned variant) {
	using namespace Potassco;
	const bool inc = (variant & 1u) != 0;
	const unsigned stage = (variant >> 1) & 3u;
	try { out.initProgram(inc); } catch (const std::exception&) { } // refused without the extensions
	out.beginStep();
	Atom_t h[] = {1}; Lit_t b[] = {2, -3};
	out.rule(Head_t::Disjunctive, toSpan(h, 1), toSpan(b, 2));
	try { out.rule(Head_t::Disjunctive, toSpan<Atom_t>(), toSpan(b, 2)); } catch (const std::exception&) { } // uses the false atom; refused without one
	WeightLit_t w[] = {{1, 2}, {-2, 1}};
	out.minimize(0, toSpan(w, 2));
	if (ext) { out.external(4, Value_t::True); }
	if (stage == 1) { return; }
	Lit_t l1 = 1, l2 = 2, l3 = 3;
	out.output(toSpan("pa", 2), toSpan(&l1, 1));
	out.output(toSpan("pb", 2), toSpan(&l2, 1));
	if (stage == 2) { return; }
	Lit_t as[] = {1, -2};
	out.assume(toSpan(as, 2));
	try { out.output(toSpan("late", 4), toSpan(&l3, 1)); } catch (const std::exception&) { } // refused: symbol behind the compute statement
	if (stage == 3) { return; }
	out.endStep();
	if (inc && ext) {
		out.beginStep();
		out.rule(Head_t::Choice, toSpan(h, 1), toSpan(b, 2));
		out.external(4, Value_t::Release);
		out.endStep();
	}
}
static int g_line = 0, g_nerr = 0;
static int onError(int line, const char*) { g_line = line; ++g_nerr; return 1000 + line; }
int main() {
	Case c; Obs o;
	while (readCase(c)) {
		ll n = c.next();
		if (n != Potassco::BufferedStream::BUF_SIZE) { o.add(-999); o.flush(); continue; }
		ll e = c.next();
		bool cont = e == 2 || e == 3;
		bool ext = cont ? e == 3 : e != 0;
		std::vector<int> flags;
		Potassco::Atom_t fAtom = (Potassco::Atom_t)c.next();
		std::ostringstream os;
		int ok = 1;
		{
			Potassco::SmodelsOutput out(os, ext, fAtom);
			if (c.more() && c.v[c.p] == 1 && reuse::primed(c)) {
				try { primeWriter(out, ext, static_cast<unsigned>((reuse::hash(c) >> 18) & 7u)); } catch (...) { }
				os.str(std::string());
			}
			if (!cont) {
				try { while (playCall(c, out)) { ; } }
				catch (const std::exception&) { ok = 0; }
			}
			else {
				// playCall consumes all arguments of a call before it invokes it, so after an exception the case is positioned at the next call
				for (bool more = true; more;) {
					try { more = playCall(c, out); if (more) flags.push_back(1); }
					catch (const std::exception&) { flags.push_back(0); ok = 0; }
				}
			}
		}
		std::string text = os.str();
		o.add((ll)text.size()); o.addBytes(text.data(), text.size()); o.add(ok);
		if (cont) { o.add((ll)flags.size()); for (size_t i = 0; i != flags.size(); ++i) o.add(flags[i]); }
		Potassco::SmodelsInput::Options op;
		if (ext) op.enableClaspExt();
		if (((reuse::hash(c) >> 21) & 1u) != 0 && text.find("_heuristic(") == std::string::npos) {
			op.convertHeuristic(); // symbols through SymTab::add; nothing to convert, so invisible
			if (((reuse::hash(c) >> 22) & 1u) != 0) { op.dropConverted(); }
		}
		std::istringstream is(text);
		g_line = 0; g_nerr = 0;
		int status = 7;
		try {
			Recorder rec(o);
			int r = Potassco::readSmodels(is, rec, &onError, op);
			status = r == 0 ? 1 : 0;
		}
		catch (const std::exception&) { status = 7; }
		o.add(status); o.add(g_line); o.add(g_nerr);
		o.flush();
	}
	return 0;
}
