// C05: feed a call sequence to a real SmodelsOutput, then read the written bytes back with SmodelsInput + Recorder.
// Case: N e falseAtom <encoded calls>      e = 0/1: ext off/on, feeding stops at the first refusal (exception)
//                                           e = 2/3: ext off/on, the caller CATCHES every refusal and continues with the same writer
// Observation: len bytes... ok  [continue mode: ncalls flag...]  <reader calls> status line nerr   (ok = 0 when the writer threw)
#include "rec.h"
#include <potassco/smodels.h>
static int g_line = 0, g_nerr = 0;
static int onError(int line, const char*) { g_line = line; ++g_nerr; return 1000 + line; }
int main() {
	Case c; Obs o;
	while (readCase(c)) {
		ll n = c.next();
		if (n != Potassco::BufferedStream::BUF_SIZE) { o.add(-999); o.flush(); continue; }
		ll e = c.next();
		bool cont = e == 2 || e == 3;
		bool ext = cont ? e == 3 : e != 0;
		std::vector<int> flags;
		Potassco::Atom_t fAtom = (Potassco::Atom_t)c.next();
		std::ostringstream os;
		int ok = 1;
		{
			Potassco::SmodelsOutput out(os, ext, fAtom);
			if (!cont) {
				try { while (playCall(c, out)) { ; } }
				catch (const std::exception&) { ok = 0; }
			}
			else {
				// playCall consumes all arguments of a call before it invokes it, so after an exception the case is positioned at the next call
				for (bool more = true; more;) {
					try { more = playCall(c, out); if (more) flags.push_back(1); }
					catch (const std::exception&) { flags.push_back(0); ok = 0; }
				}
			}
		}
		std::string text = os.str();
		o.add((ll)text.size()); o.addBytes(text.data(), text.size()); o.add(ok);
		if (cont) { o.add((ll)flags.size()); for (size_t i = 0; i != flags.size(); ++i) o.add(flags[i]); }
		Potassco::SmodelsInput::Options op;
		if (ext) op.enableClaspExt();
		std::istringstream is(text);
		g_line = 0; g_nerr = 0;
		int status = 7;
		try {
			Recorder rec(o);
			int r = Potassco::readSmodels(is, rec, &onError, op);
			status = r == 0 ? 1 : 0;
		}
		catch (const std::exception&) { status = 7; }
		o.add(status); o.add(g_line); o.add(g_nerr);
		o.flush();
	}
	return 0;
}
