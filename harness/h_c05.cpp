// C05: feed a call sequence to a real SmodelsOutput, then read the written bytes back with SmodelsInput + Recorder.
// Case: N ext falseAtom <encoded calls>
// Observation: len bytes... ok  <reader calls> status line nerr      (ok = 0 when the writer threw; feeding stops there)
#include "rec.h"
#include <potassco/smodels.h>
static int g_line = 0, g_nerr = 0;
static int onError(int line, const char*) { g_line = line; ++g_nerr; return 1000 + line; }
int main() {
	Case c; Obs o;
	while (readCase(c)) {
		ll n = c.next();
		if (n != Potassco::BufferedStream::BUF_SIZE) { o.add(-999); o.flush(); continue; }
		bool ext = c.next() != 0;
		Potassco::Atom_t fAtom = (Potassco::Atom_t)c.next();
		std::ostringstream os;
		int ok = 1;
		{
			Potassco::SmodelsOutput out(os, ext, fAtom);
			try { while (playCall(c, out)) { ; } }
			catch (const std::exception&) { ok = 0; }
		}
		std::string text = os.str();
		o.add((ll)text.size()); o.addBytes(text.data(), text.size()); o.add(ok);
		Potassco::SmodelsInput::Options op;
		if (ext) op.enableClaspExt();
		std::istringstream is(text);
		g_line = 0; g_nerr = 0;
		int status = 7;
		try {
			Recorder rec(o);
			int r = Potassco::readSmodels(is, rec, &onError, op);
			status = r == 0 ? 1 : 0;
		}
		catch (const std::exception&) { status = 7; }
		o.add(status); o.add(g_line); o.add(g_nerr);
		o.flush();
	}
	return 0;
}
