// C15: drive the real ParsedOptions::assign / OptionContext::assignDefaults with typed targets.
// Case (see coq/C15/Model.v run_case):
//   nopts { kind comp impl? dflt? }*   ops*
//   kind 0 flag(store_true) 1 flag(store_false) 2 int 3 string 4 vector<int> 5 ValueMap store<int> 6 custom notifier
//        7 ValueMap flag(store_true) 8 ValueMap flag(store_false)  (mapped_value.h factory flag(ValueMap&, FlagAction))
//        9 ValueMap store<std::vector<int> >
//        TYPED NOTIFIERS (typed_value.h notify<T>(obj, fn, parser) / flag(obj, fn, action)): the option's parser fills a freshly created
//        object, the notification function gets it, copies it into its LOG, and its return value only says who owns the object:
//        false = "I copied what I need, delete it" (declined), true = "I keep it" (the value then parses in place into that object):
//        10 int / 11 std::string / 12 flag(store_true) / 13 std::vector<int> : the function always DECLINES
//        14 int / 15 std::string / 16 flag(store_true) / 17 std::vector<int> : the function always KEEPS
//        18 int, keeps an even value and declines an odd one        19 flag(store_false), declines
//        (any other kind: the custom, UNTYPED notifier 6, whose return value means valid / invalid)
//   impl?/dflt? : 0 | 1 len bytes
//   op  1 hasExcl [nExcl ids..] nPairs { optId len bytes }*  |  2 (assignDefaults)  |  3 (fresh ParsedOptions)
//       4 k ids..   parsed.add(name of id) for each id - any name: an option of the context or a FOREIGN name (id >= nopts); no observation
//       5 nPairs { optId len bytes }*   parsed.assign(source of a SECOND OptionContext) on the SAME ParsedOptions object: the second context
//         ("one ParsedOptions shared by two contexts reading the same command line") holds 6 plain std::string options o<nopts>..o<nopts+5>;
//         pairs naming other ids are dropped. Afterwards the ParsedOptions holds names that are not options of the first context.
//       7 hasExcl [nExcl ids..] nPairs { 0 optId len bytes | 1 klen key.. len bytes }*   as op 1, but every pair is added either through the
//         option pointer (0) or BY NAME (1): ParsedValues::add(const std::string& name, const std::string& value) with an arbitrary key -
//         an exact name, a strict prefix of one / several names, an extension of a name, an alias character, "-a", unknown, empty.
//         Option names: id 0..3 = limit (alias l), level, length, lim (alias m); any other id = o<id>.
//       6   NEW RUN: the option group, the context and every Value object of the first context are destroyed and built again from the same
//         descriptors (fresh `storeTo(x)` / `store<T>(vm)` / `flag(vm)` / `notify(..)` values: state unassigned), and a fresh ParsedOptions
//         is used; what SURVIVES is what the application keeps for the results: the bound variables, the ValueMap, the notifier's log.
//         ("an application re-reads its configuration: new option set for every run, one ValueMap for the results"); no observation
// Observation per op 1/2/5/7: err(0 | 1+type key len bytes) fault(0) parsed.size { state count varLen var.. }*
//   var of a typed notifier (kinds 10..19):  made libFreed ctxFreed held clen content..  { len elems.. }*  where made = objects the library
//   created for this option, libFreed = objects the library deleted itself (declined ones, and those of refused strings), ctxFreed = objects
//   the context deleted when it was handed a newer one, held = the context owns an object (content), then the log: EVERY delivered value in
//   order.  (made / libFreed are 0 for the flag kinds: a plain bool cannot be counted.)
#include "common.h"
#include <memory>
#include <deque>
#include <map>
#include <potassco/program_opts/program_options.h>
#include <potassco/program_opts/typed_value.h>
#include <potassco/program_opts/mapped_value.h>
#include <potassco/program_opts/value_store.h>
#include <potassco/program_opts/errors.h>
namespace Po = Potassco::ProgramOptions;

struct Log { std::map<std::string, std::vector<std::string> > seen; };
static bool customNotify(Log* l, const std::string& name, const std::string& value) {
	if (!value.empty() && value[0] == '!') return false;
	l->seen[name].push_back(value);
	return true;
}
// ---- typed notifiers: tracked objects, one type per (element type, option slot) so that constructions / destructions can be attributed
template <class T, int S> struct Tr {
	Tr() : v() { ++made; }
	Tr(const Tr& o) : v(o.v) { ++made; }
	~Tr() { ++dead; }
	T v;
	static int made, dead;
};
template <class T, int S> int Tr<T, S>::made = 0;
template <class T, int S> int Tr<T, S>::dead = 0;
static void encVal(int x, std::vector<ll>& out) { out.push_back(x); }
static void encVal(bool x, std::vector<ll>& out) { out.push_back(x ? 1 : 0); }
static void encVal(const std::string& x, std::vector<ll>& out) { for (size_t i = 0; i != x.size(); ++i) out.push_back((unsigned char)x[i]); }
static void encVal(const std::vector<int>& x, std::vector<ll>& out) { for (size_t i = 0; i != x.size(); ++i) out.push_back(x[i]); }
// the notified context: it COPIES every delivered value into its log; the kind of the option decides whether it also takes the object
struct TCtx {
	struct Ent {
		Ent() : kind(0), held(0), del(0), enc(0), cfreed(0) {}
		int kind; std::vector<ll> log; const void* held; void (*del)(const void*); void (*enc)(const void*, std::vector<ll>&); int cfreed;
	};
	std::map<std::string, Ent> ent;
	bool onValue(const std::string& name, const void* p, const std::vector<ll>& val, void (*del)(const void*), void (*enc)(const void*, std::vector<ll>&)) {
		Ent& e = ent[name];
		e.log.push_back((ll)val.size()); e.log.insert(e.log.end(), val.begin(), val.end());
		bool keep = (e.kind >= 14 && e.kind <= 17) || (e.kind == 18 && !val.empty() && val[0] % 2 == 0);
		if (keep && e.held != p) {                       // a NEW object is handed over: the one held so far is the context's to delete
			if (e.held) { e.del(e.held); ++e.cfreed; }
			e.held = p; e.del = del; e.enc = enc;
		}
		return keep;
	}
	~TCtx() { for (std::map<std::string, Ent>::iterator it = ent.begin(); it != ent.end(); ++it) if (it->second.held) it->second.del(it->second.held); }
};
template <class T, int S> static void delTr(const void* p) { delete static_cast<const Tr<T, S>*>(p); }
template <class T, int S> static void encTr(const void* p, std::vector<ll>& out) { encVal(static_cast<const Tr<T, S>*>(p)->v, out); }
template <class T, int S> static bool notifyTr(TCtx* c, const std::string& name, const Tr<T, S>* p) {
	std::vector<ll> val; encVal(p->v, val);
	return c->onValue(name, p, val, &delTr<T, S>, &encTr<T, S>);
}
template <class T, int S> static bool parseTr(const std::string& s, Tr<T, S>& out) { return Potassco::string_cast<T>(s, out.v); }
static void delBool(const void* p) { delete static_cast<const bool*>(p); }
static void encBool(const void* p, std::vector<ll>& out) { encVal(*static_cast<const bool*>(p), out); }
static bool notifyFlag(TCtx* c, const std::string& name, const bool* p) {
	std::vector<ll> val; encVal(*p, val);
	return c->onValue(name, p, val, &delBool, &encBool);
}
struct SlotOps { Po::Value* (*mk)(TCtx*); int* made; int* dead; };
template <class T, int S> struct Ops { static Po::Value* mk(TCtx* c) { return Po::notify<Tr<T, S> >(c, &notifyTr<T, S>, &parseTr<T, S>); } };
#define SLOT(T, S) { &Ops<T, S>::mk, &Tr<T, S>::made, &Tr<T, S>::dead }
#define SLOTS(T) { SLOT(T, 0), SLOT(T, 1), SLOT(T, 2), SLOT(T, 3), SLOT(T, 4), SLOT(T, 5), SLOT(T, 6), SLOT(T, 7) }
static const size_t NSLOTS = 8;
static const SlotOps INT_OPS[NSLOTS] = SLOTS(int);
static const SlotOps STR_OPS[NSLOTS] = SLOTS(std::string);
static const SlotOps VEC_OPS[NSLOTS] = SLOTS(std::vector<int>);
static const SlotOps* slotOps(int kind, size_t k) {
	if (k >= NSLOTS) return 0;
	switch (kind) {
		case 10: case 14: case 18: return &INT_OPS[k];
		case 11: case 15:          return &STR_OPS[k];
		case 13: case 17:          return &VEC_OPS[k];
		default:                   return 0;
	}
}
static void resetCounters() {
	for (size_t k = 0; k != NSLOTS; ++k) { *INT_OPS[k].made = *INT_OPS[k].dead = *STR_OPS[k].made = *STR_OPS[k].dead = *VEC_OPS[k].made = *VEC_OPS[k].dead = 0; }
}

struct Target {
	int kind; bool comp; bool b; int i; std::string s; std::vector<int> v;
	std::string impl, dflt; bool hasImpl, hasDflt;
	Target() : kind(0), comp(false), b(false), i(-777), hasImpl(false), hasDflt(false) {}
};
// option NAMES (coq/C15/Model.v opt_name / opt_alias): names in a prefix relation for the first ids, two of them with an alias character
static std::string optName(ll id) {
	static const char* const first[4] = {"limit", "level", "length", "lim"};
	return (id >= 0 && id < 4) ? std::string(first[id]) : "o" + std::to_string(id);
}
static char optAlias(ll id) { return id == 0 ? 'l' : id == 3 ? 'm' : 0; }
// the key handed to OptionInitHelper: "name" or "name,a"
static std::string optKey(ll id) { std::string k = optName(id); if (optAlias(id)) { k += ','; k += optAlias(id); } return k; }

struct OptSet {
	std::unique_ptr<Po::OptionGroup>   g;
	std::unique_ptr<Po::OptionContext> ctx;
	// (re)builds group, context and Value objects from the descriptors in T; variables / map / log are the caller's and survive
	void build(std::deque<Target>& T, Po::ValueMap& vm, Log& log, TCtx& tc) {
		ctx.reset(); g.reset();             // the old option set dies first (its values do not own mapped objects)
		g.reset(new Po::OptionGroup());
		ctx.reset(new Po::OptionContext("ctx"));
		const size_t n = T.size();
		for (size_t k = 0; k != n; ++k) {
			Target& t = T[k];
			Po::Value* v = 0;
			switch (t.kind) {
				case 0: v = Po::flag(t.b); break;
				case 1: v = Po::flag(t.b, Po::store_false); break;
				case 2: v = Po::storeTo(t.i); break;
				case 3: v = Po::storeTo(t.s); break;
				case 4: v = Po::storeTo(t.v); break;
				case 5: v = Po::store<int>(vm); break;
				case 7: v = Po::flag(vm); break;
				case 8: v = Po::flag(vm, Po::store_false); break;
				case 9: v = Po::store<std::vector<int> >(vm); break;
				case 10: case 11: case 13: case 14: case 15: case 17: case 18: {
					const SlotOps* so = slotOps(t.kind, k);
					if (!so) throw std::runtime_error("no slot");
					tc.ent[optName((ll)k)].kind = t.kind;
					v = so->mk(&tc);
					break; }
				case 12: case 16: tc.ent[optName((ll)k)].kind = t.kind; v = Po::flag(&tc, &notifyFlag); break;
				case 19:          tc.ent[optName((ll)k)].kind = t.kind; v = Po::flag(&tc, &notifyFlag, Po::store_false); break;
				default: v = Po::notify(&log, &customNotify); break;
			}
			if (t.comp)      v->composing();
			// implicit value, default and (for two thirds of the options) an argument name go through one setter (Value::desc) whose
			// storage depends on how many were set before: attach them in an order chosen from the case (all six orders occur)
			{
				static const int perm[6][3] = {{0,1,2},{0,2,1},{1,0,2},{1,2,0},{2,0,1},{2,1,0}};
				size_t sel = k * 5 + n + (size_t)t.kind + t.impl.size() * 3 + t.dflt.size();
				const int* pm = perm[sel % 6];
				for (int j = 0; j != 3; ++j) {
					if (pm[j] == 0 && (sel / 6) % 3 != 0) v->arg("<x>");
					if (pm[j] == 1 && t.hasImpl) v->implicit(t.impl.c_str());
					if (pm[j] == 2 && t.hasDflt) v->defaultsTo(t.dflt.c_str());
				}
			}
			g->addOptions()(optKey((ll)k).c_str(), v, "");
		}
		ctx->add(*g);
	}
};

int main() {
	Case c; Obs o;
	while (readCase(c)) {
		size_t n = (size_t)c.next();
		std::deque<Target> T(n);
		resetCounters();
		Po::ValueMap vm; Log log; TCtx tc;     // tc outlives the option sets (it is what the application keeps), and dies after them
		OptSet os;
		try {
			for (size_t k = 0; k != n; ++k) {
				Target& t = T[k];
				t.kind = (int)c.next();
				t.comp = c.next() != 0;
				if (c.next() != 0) { t.hasImpl = true; t.impl = c.bytes((size_t)c.next()); }
				if (c.next() != 0) { t.hasDflt = true; t.dflt = c.bytes((size_t)c.next()); }
			}
			os.build(T, vm, log, tc);
		}
		catch (const std::exception&) { o.add(-998); o.flush(); continue; }
		// the second context: FOREIGN plain string options (names continue the numbering of the first context)
		const size_t nForeign = 6;
		std::deque<std::string> F(nForeign);
		Po::OptionGroup g2;
		Po::OptionContext ctx2("other");
		try {
			for (size_t k = 0; k != nForeign; ++k) { g2.addOptions()(optName((ll)(n + k)).c_str(), Po::storeTo(F[k]), ""); }
			ctx2.add(g2);
		}
		catch (const std::exception&) { o.add(-998); o.flush(); continue; }
		std::unique_ptr<Po::ParsedOptions> parsed(new Po::ParsedOptions());
		while (c.more()) {
			ll op = c.next();
			int et = 0; std::string ek, ev;
			if (op == 1 || op == 7) {
				bool hasEx = c.next() != 0;
				Po::ParsedOptions ex;
				if (hasEx) { size_t ne = (size_t)c.next(); for (size_t k = 0; k != ne; ++k) ex.add(optName(c.next())); }
				size_t np = (size_t)c.next();
				Po::ParsedValues pv(*os.ctx);
				for (size_t k = 0; k != np; ++k) {
					if (op == 7 && c.next() != 0) {           // BY NAME: any key; what it denotes is the library's business
						std::string key = c.bytes((size_t)c.next()); std::string val = c.bytes((size_t)c.next());
						pv.add(key, val);
						continue;
					}
					size_t id = (size_t)c.next(); std::string val = c.bytes((size_t)c.next());
					if (id < n) pv.add(*(os.ctx->begin() + id), val);
				}
				try { parsed->assign(pv, hasEx ? &ex : 0); }
				catch (const Po::ValueError& e) { et = 1 + (int)e.type(); ek = e.key(); ev = e.value(); }
				catch (const std::exception&) { et = 9; }
			}
			else if (op == 2) {
				try { os.ctx->assignDefaults(*parsed); }
				catch (const Po::ValueError& e) { et = 1 + (int)e.type(); ek = e.key(); ev = e.value(); }
				catch (const std::exception&) { et = 9; }
			}
			else if (op == 3) { parsed.reset(new Po::ParsedOptions()); continue; }
			else if (op == 4) { size_t k = (size_t)c.next(); for (size_t j = 0; j != k; ++j) parsed->add(optName(c.next())); continue; }
			else if (op == 5) {
				size_t np = (size_t)c.next();
				Po::ParsedValues pv(ctx2);
				for (size_t k = 0; k != np; ++k) {
					size_t id = (size_t)c.next(); std::string val = c.bytes((size_t)c.next());
					if (id >= n && id < n + nForeign) pv.add(*(ctx2.begin() + (id - n)), val);
				}
				try { parsed->assign(pv, 0); }
				catch (const Po::ValueError& e) { et = 1 + (int)e.type(); ek = e.key(); ev = e.value(); }
				catch (const std::exception&) { et = 9; }
			}
			else if (op == 6) {
				bool ok = true;
				try { os.build(T, vm, log, tc); }
				catch (const std::exception&) { ok = false; }
				if (!ok) { o.add(-998); break; }
				parsed.reset(new Po::ParsedOptions());
				continue;
			}
			else break;
			o.add(et);
			if (et) {
				ll id = -1;
				for (size_t k = 0; k != n + nForeign; ++k) if (optName((ll)k) == ek) id = (ll)k;
				o.add(id); o.add((ll)ev.size()); o.addBytes(ev.data(), ev.size());
			}
			o.add(0);
			o.add((ll)parsed->size());
			for (size_t k = 0; k != n; ++k) {
				const Po::Option& opt = **(os.ctx->begin() + k);
				Target& t = T[k];
				o.add((ll)opt.value()->state());
				o.add((ll)parsed->count(opt.name()));
				switch (t.kind) {
					case 0: case 1: o.add(1); o.add(t.b ? 1 : 0); break;
					case 2: o.add(1); o.add(t.i); break;
					case 3: o.add((ll)t.s.size()); o.addBytes(t.s.data(), t.s.size()); break;
					case 4: o.add((ll)t.v.size()); for (size_t j = 0; j != t.v.size(); ++j) o.add(t.v[j]); break;
					case 5:
						if (vm.count(opt.name())) { o.add(1); o.add(Po::value_cast<int>(vm[opt.name()])); }
						else o.add(0);
						break;
					case 7: case 8:
						if (vm.count(opt.name())) { o.add(1); o.add(Po::value_cast<bool>(vm[opt.name()]) ? 1 : 0); }
						else o.add(0);
						break;
					case 9:
						if (vm.count(opt.name())) {
							const std::vector<int>& mv = Po::value_cast<std::vector<int> >(vm[opt.name()]);
							o.add((ll)mv.size()); for (size_t j = 0; j != mv.size(); ++j) o.add(mv[j]);
						}
						else o.add(0);
						break;
					case 10: case 11: case 12: case 13: case 14: case 15: case 16: case 17: case 18: case 19: {
						TCtx::Ent& e = tc.ent[opt.name()];
						const SlotOps* so = slotOps(t.kind, k);
						std::vector<ll> out;
						out.push_back(so ? *so->made : 0);
						out.push_back(so ? *so->dead - e.cfreed : 0);
						out.push_back(e.cfreed);
						out.push_back(e.held ? 1 : 0);
						std::vector<ll> content; if (e.held) e.enc(e.held, content);
						out.push_back((ll)content.size()); out.insert(out.end(), content.begin(), content.end());
						out.insert(out.end(), e.log.begin(), e.log.end());
						o.add((ll)out.size()); for (size_t j = 0; j != out.size(); ++j) o.add(out[j]);
						break; }
					default: {
						const std::vector<std::string>& l = log.seen[opt.name()];
						size_t tot = 0; for (size_t j = 0; j != l.size(); ++j) tot += 1 + l[j].size();
						o.add((ll)tot);
						for (size_t j = 0; j != l.size(); ++j) { o.add((ll)l[j].size()); o.addBytes(l[j].data(), l[j].size()); }
						break; }
				}
			}
		}
		o.flush();
	}
	return 0;
}
