// C12: drive a real Potassco::TheoryData with an operation list (see coq/C12/Model.v, run_case).
// Case: np probe_1..probe_np  ops...      Observation per op: exception class (0 = none), [visit output],
// then for every probe id has/isNew/get of term and element, the atoms, currBegin offset, the number of
// allocations the LIBRARY made through operator new/new[] that are still live, and the mask of the walks over the public
// iterator adaptors (TheoryElementIterator / TheoryTermIterator) that differed from the direct view (0 = all agree).
// The global operator new/delete are replaced here (no hook in /repo): allocations made while g_lib is set
// are recorded with their kind; a delete of the wrong kind aborts. malloc/free below stay ASan-instrumented.
#include "common.h"
#include <new>
#include <set>
#include <algorithm>
#include <cstring>
#include <iterator>
#include <potassco/theory_data.h>
#include "rec.h"

static bool  g_lib = false;
enum { CAP = 1 << 16 };
static void* g_ptr[CAP]; static char g_kind[CAP]; static int g_n = 0;
static void die(const char* m) { std::fprintf(stderr, "SUMMARY: harness: %s\n", m); std::fflush(stderr); std::abort(); }
static void* alloc(std::size_t n, char k) {
	void* p = std::malloc(n ? n : 1);
	if (!p) throw std::bad_alloc();
	if (g_lib) { if (g_n == CAP) die("allocation table full"); g_ptr[g_n] = p; g_kind[g_n++] = k; }
	return p;
}
static void release(void* p, char k) {
	if (!p) return;
	for (int i = g_n; i--;) {
		if (g_ptr[i] == p) {
			if (g_kind[i] != k) die("operator new/delete kind mismatch in the library");
			g_ptr[i] = g_ptr[--g_n]; g_kind[i] = g_kind[g_n]; break;
		}
	}
	std::free(p);
}
void* operator new(std::size_t n) { return alloc(n, 's'); }
void* operator new[](std::size_t n) { return alloc(n, 'a'); }
void operator delete(void* p) noexcept { release(p, 's'); }
void operator delete[](void* p) noexcept { release(p, 'a'); }
void operator delete(void* p, std::size_t) noexcept { release(p, 's'); }
void operator delete[](void* p, std::size_t) noexcept { release(p, 'a'); }

struct Lib { bool old; Lib() : old(g_lib) { g_lib = true; } ~Lib() { g_lib = old; } };
struct Off { bool old; Off() : old(g_lib) { g_lib = false; } ~Off() { g_lib = old; } };

using namespace Potassco;
typedef std::vector<Id_t> IdVec;

// exception class codes = tools/consts/C12.py CLASS
template <class F> static int guarded(F f) {
	try { Lib on; f(); return 0; }
	catch (const std::invalid_argument&) { return 4; }
	catch (const std::domain_error&) { return 5; }
	catch (const std::logic_error&) { return 1; }
	catch (const std::range_error&) { return 6; }
	catch (const std::overflow_error&) { return 7; }
	catch (const std::runtime_error&) { return 2; }
	catch (const std::bad_alloc&) { return 3; }
	catch (...) { return 9; }
}
static void idList(Obs& o, const IdSpan& s) { o.add((ll)size(s)); for (const Id_t* it = begin(s); it != end(s); ++it) o.add((ll)*it); }

// accessor consistency that print() does not exercise
static void checkTerm(const TheoryTerm& t) {
	Theory_t ty = t.type();
	bool numThrows = false, symThrows = false, cmpThrows = false;
	try { (void)t.number(); } catch (const std::logic_error&) { numThrows = true; }
	try { (void)t.symbol(); } catch (const std::logic_error&) { symThrows = true; }
	try { (void)t.compound(); } catch (const std::logic_error&) { cmpThrows = true; }
	if (numThrows != (ty != Theory_t::Number) || symThrows != (ty != Theory_t::Symbol) || cmpThrows != (ty != Theory_t::Compound)) die("term cast check inconsistent");
	if (ty == Theory_t::Compound) {
		if (t.isFunction() == t.isTuple()) die("isFunction/isTuple inconsistent");
		if (t.isFunction() && (ll)t.function() != (ll)t.compound()) die("function() differs from compound()");
		if (t.isTuple() && (ll)static_cast<int>(t.tuple()) != (ll)t.compound()) die("tuple() differs from compound()");
		if (t.size() != size(t.terms()) || t.end() - t.begin() != (std::ptrdiff_t)t.size()) die("size()/begin()/end() inconsistent");
	}
	else if (t.size() != 0 || t.begin() != t.end()) { die("non-compound term with arguments"); }
}
static void termInfo(Obs& o, const TheoryTerm& t) {
	o.add((ll)(unsigned)t.type()); o.add((ll)t.size());
	o.add(t.isFunction() ? 1 : 0); o.add(t.isTuple() ? 1 : 0);
}
static void elemRec(Obs& o, Id_t id, const TheoryElement& e) {
	o.add(16); o.add(id); idList(o, e.terms()); o.add(1); o.add((ll)e.condition());
	if (e.end() - e.begin() != (std::ptrdiff_t)e.size()) die("element size inconsistent");
}

// ---- the public iterator adaptors -----------------------------------------------------------------------------------
// IteratorAdaptor<T, get> (TheoryElementIterator over an atom's elements, TheoryTermIterator over an element's terms and - through
// the public constructor - over a compound term's arguments) is walked in every way the class offers over every item the harness
// reads back or is handed by accept(); each walk is compared with the direct begin()/size() view of the same item.  The position
// (raw()) is checked BEFORE anything is dereferenced, so that a walk that runs off the list is reported, not followed.
// g_walk collects the mask of the walks that differed since the last dump (0 for a correct library: constant in the model;
// props/C12.py WALK_BITS names the bits).
enum { W_PREINC = 1, W_POSTINC = 2, W_PREDEC = 4, W_POSTDEC = 8, W_DEREF = 16, W_CMP = 32, W_COPY = 64, W_STD = 128 };
static unsigned g_walk = 0;
static const TheoryData* g_foreign = 0;   // a second (empty) store: iterators of different stores never compare equal

struct ElemAcc {
	static bool has(const TheoryData& d, Id_t id) { return d.hasElement(id); }
	static const TheoryElement& get(const TheoryData& d, Id_t id) { return d.getElement(id); }
};
struct TermAcc {
	static bool has(const TheoryData& d, Id_t id) { return d.hasTerm(id); }
	static const TheoryTerm& get(const TheoryData& d, Id_t id) { return d.getTerm(id); }
};
// *it / it-> give the very object getElement / getTerm gives for the id under the iterator - or fail the same way (logic_error)
template <class Acc, class It> static bool derefOk(const TheoryData& d, const It& it, Id_t id) {
	if (*it.raw() != id || &it.theory() != &d) return false;
	if (Acc::has(d, id)) {
		try {
			const typename It::value_type& x = *it;
			return &x == &Acc::get(d, id) && it.operator->() == &x && it->size() == Acc::get(d, id).size() && it->begin() == x.begin();
		}
		catch (...) { return false; }
	}
	int threw = 0;
	try { (void)*it; } catch (const std::logic_error&) { ++threw; } catch (...) {}
	try { (void)it.operator->(); } catch (const std::logic_error&) { ++threw; } catch (...) {}
	return threw == 2;
}
template <class Acc, class It> static unsigned walkAdaptor(const TheoryData& d, const It B, const It E, const Id_t* rb, std::size_t n) {
	unsigned bad = 0;
	const Id_t* re = rb + n;
	if (B.raw() != rb || E.raw() != re || &B.theory() != &d || &E.theory() != &d) return W_COPY;   // begin()/end() themselves
	auto cmp = [&](const It& it, const It& other, bool same) { if ((it == other) != same || (it != other) == same || (other == it) != same || (other != it) == same) bad |= W_CMP; };
	// forwards, prefix ++
	{ It it = B; std::size_t k = 0;
		for (;; ++k) {
			cmp(it, E, k == n); cmp(it, B, k == 0);
			if (k == n) break;
			if (!derefOk<Acc>(d, it, rb[k])) bad |= W_DEREF;
			It& r = ++it;
			if (&r != &it || it.raw() != rb + k + 1) { bad |= W_PREINC; break; }
		}
	}
	// forwards, postfix ++
	{ It it = B;
		for (std::size_t k = 0; k != n; ++k) {
			It old = it++;
			if (old.raw() != rb + k || it.raw() != rb + k + 1 || &old.theory() != &d || &it.theory() != &d) { bad |= W_POSTINC; break; }
			if (!derefOk<Acc>(d, old, rb[k])) bad |= W_DEREF;
			cmp(old, it, false); cmp(it, E, k + 1 == n);
		}
	}
	// backwards from end(), prefix --
	{ It it = E;
		for (std::size_t k = n; k != 0;) {
			It& r = --it; --k;
			if (&r != &it || it.raw() != rb + k) { bad |= W_PREDEC; break; }
			if (!derefOk<Acc>(d, it, rb[k])) bad |= W_DEREF;
			cmp(it, B, k == 0); cmp(it, E, false);
		}
	}
	// backwards from end(), postfix --
	{ It it = E;
		for (std::size_t k = n; k != 0; --k) {
			It old = it--;
			if (old.raw() != rb + k || it.raw() != rb + k - 1 || &old.theory() != &d || &it.theory() != &d) { bad |= W_POSTDEC; break; }
			if (!derefOk<Acc>(d, it, rb[k - 1])) bad |= W_DEREF;
			cmp(old, it, false); cmp(it, B, k == 1); cmp(old, E, k == n);
		}
	}
	// there and back again with the postfix forms (each step judged from where the iterator actually was)
	if (n != 0) {
		It it = B; const Id_t* at = it.raw(); It a = it++;
		if (a.raw() != at || it.raw() != at + 1) bad |= W_POSTINC;
		at = it.raw(); It b = it--;
		if (b.raw() != at || it.raw() != at - 1) bad |= W_POSTDEC;
		It jt = E; at = jt.raw(); It c = jt--;
		if (c.raw() != at || jt.raw() != at - 1) bad |= W_POSTDEC;
		at = jt.raw(); It e = jt++;
		if (e.raw() != at || jt.raw() != at + 1) bad |= W_POSTINC;
	}
	// copy, assignment, swap, default construction, construction from the raw position
	{ It a = B, b = E; It c(a); bool ok = c.raw() == rb && &c.theory() == &d;
		c = b; ok = ok && c.raw() == re && &c.theory() == &d;
		swap(a, b); ok = ok && a.raw() == re && b.raw() == rb && &a.theory() == &d && &b.theory() == &d;
		It made(d, rb + n / 2); ok = ok && made.raw() == rb + n / 2 && &made.theory() == &d;
		cmp(made, B, n / 2 == 0); cmp(made, E, n == 0);
		if (g_foreign) { It f(*g_foreign, rb); ok = ok && f.raw() == rb && &f.theory() == g_foreign; cmp(f, B, false); It g(*g_foreign, re); cmp(g, E, false); cmp(f, g, n == 0);
			It h(d, re); swap(f, h); ok = ok && f.raw() == re && &f.theory() == &d && h.raw() == rb && &h.theory() == g_foreign; cmp(f, E, true); cmp(h, B, false); }
		It x, y; ok = ok && x.raw() == 0 && y.raw() == 0;
		cmp(x, y, true); cmp(x, B, false); cmp(x, E, false);
		y = B; cmp(y, B, true); ok = ok && y.raw() == rb;
		if (ok) {   // (theory() of an iterator that wrongly kept the null store of a default-constructed one is not a reference to look at)
			swap(x, y); ok = ok && x.raw() == rb && y.raw() == 0; cmp(x, B, true); cmp(y, B, false); cmp(y, It(), true);
			if (x == B) ok = ok && &x.theory() == &d;
		}
		if (!ok) bad |= W_COPY;
	}
	// as a standard bidirectional iterator (only when the four steps above are sound: the algorithms would follow a bad walk)
	if (!(bad & (W_PREINC | W_POSTINC | W_PREDEC | W_POSTDEC | W_CMP))) {
		static_assert(std::is_same<typename std::iterator_traits<It>::iterator_category, std::bidirectional_iterator_tag>::value, "bidirectional");
		bool ok = (std::size_t)std::distance(B, E) == n && std::next(B, (std::ptrdiff_t)n) == E && std::prev(E, (std::ptrdiff_t)n) == B;
		It adv = B; std::advance(adv, (std::ptrdiff_t)n); ok = ok && adv == E; std::advance(adv, -(std::ptrdiff_t)n); ok = ok && adv == B;
		std::reverse_iterator<It> rit(E), rend(B); std::size_t k = n;
		for (; rit != rend && k != 0; ++rit) {
			--k;
			if (rit.base().raw() != rb + k + 1) { ok = false; break; }
			if (Acc::has(d, rb[k])) { try { if (&*rit != &Acc::get(d, rb[k])) ok = false; } catch (...) { ok = false; } }
		}
		ok = ok && k == 0 && rit == rend;
		std::size_t cnt = 0; for (It it = B; it != E && cnt <= n; it++) { ++cnt; } ok = ok && cnt == n;
		cnt = 0; for (It it = E; it != B && cnt <= n; it--) { ++cnt; } ok = ok && cnt == n;
		if (!ok) bad |= W_STD;
	}
	return bad;
}
static void walkAtom(const TheoryData& d, const TheoryAtom& a) {
	g_walk |= walkAdaptor<ElemAcc, TheoryElementIterator>(d, Potassco::begin(d, a), Potassco::end(d, a), a.begin(), a.size());
}
static void walkElem(const TheoryData& d, const TheoryElement& e) {
	g_walk |= walkAdaptor<TermAcc, TheoryTermIterator>(d, Potassco::begin(d, e), Potassco::end(d, e), e.begin(), e.size());
}
static void walkArgs(const TheoryData& d, const TheoryTerm& t) {
	if (t.type() != Theory_t::Compound) return;
	g_walk |= walkAdaptor<TermAcc, TheoryTermIterator>(d, TheoryTermIterator(d, t.begin()), TheoryTermIterator(d, t.end()), t.begin(), t.size());
}

struct Vis : TheoryData::Visitor {
	Obs& o; Recorder rec; std::set<Id_t> seenT, seenE; TheoryData::VisitMode m;
	Vis(Obs& out, TheoryData::VisitMode mode) : o(out), rec(out), m(mode) {}
	void visit(const TheoryData& d, Id_t id, const TheoryTerm& t) override {
		Off off;
		if (!seenT.insert(id).second) return;
		{ Lib on; d.accept(t, *this, m); }
		print(rec, id, t); walkArgs(d, t);
	}
	void visit(const TheoryData& d, Id_t id, const TheoryElement& e) override {
		Off off;
		if (!seenE.insert(id).second) return;
		{ Lib on; d.accept(e, *this, m); }
		elemRec(o, id, e); walkElem(d, e);
	}
	void visit(const TheoryData& d, const TheoryAtom& a) override {
		Off off;
		{ Lib on; d.accept(a, *this, m); }
		print(rec, a); walkAtom(d, a);
	}
};

static void dump(Obs& o, const TheoryData& d, const IdVec& probes) {
	Recorder rec(o);
	for (Id_t p : probes) {
		o.add(d.hasTerm(p) ? 1 : 0); o.add(d.isNewTerm(p) ? 1 : 0);
		const TheoryTerm* t = 0;
		int e = guarded([&] { t = &d.getTerm(p); });
		if (e) { o.add(-e); } else { print(rec, p, *t); termInfo(o, *t); checkTerm(*t); walkArgs(d, *t); }
		o.add(d.hasElement(p) ? 1 : 0); o.add(d.isNewElement(p) ? 1 : 0);
		const TheoryElement* x = 0;
		e = guarded([&] { x = &d.getElement(p); });
		if (e) { o.add(-e); } else { elemRec(o, p, *x); walkElem(d, *x); }
	}
	o.add((ll)d.numAtoms());
	if (d.end() - d.begin() != (std::ptrdiff_t)d.numAtoms()) die("begin()/end()/numAtoms() inconsistent");
	for (TheoryData::atom_iterator it = d.begin(); it != d.end(); ++it) {
		print(rec, **it); walkAtom(d, **it);
		if ((*it)->end() - (*it)->begin() != (std::ptrdiff_t)(*it)->size()) die("atom size inconsistent");
	}
	o.add((ll)(d.currBegin() - d.begin()));
	o.add(g_n);
	o.add((ll)g_walk); g_walk = 0;   // which walks over the public iterator adaptors differed from the direct view (0 = none)
}

// ---- provenance of arguments -------------------------------------------------------------------------------------
// An id list / a symbol handed to the store is a VALUE.  Whenever the requested list (symbol) EQUALS what the store itself
// currently holds for some item, the harness passes the store's own memory instead of a caller-owned copy:
// getTerm(i).begin() / getElement(i).begin() / (*atom)->begin() / getTerm(i).symbol() - in particular for the SAME id that
// the call re-defines (td.addTerm(id, newName, td.getTerm(id).terms()) after update()).  Same list, other provenance: the
// Coq model and the python oracle are not concerned.  Decided per case by a hash of the case (props/C12.py alias_mode):
//   0 never (caller-owned arrays only)   1, 3 the item being re-defined first, then any other stored item
//   2 another stored item first (a term's arguments, an element's terms, an atom's elements), then the item itself
struct Own {
	const TheoryData& d; int mode; std::vector<Id_t> kT, kE;
	Own(const TheoryData& data, int m) : d(data), mode(m) {}
	static void note(std::vector<Id_t>& k, Id_t id) { if (std::find(k.begin(), k.end(), id) == k.end()) k.push_back(id); }
	static bool same(const Id_t* b, size_t n, const IdVec& I) { return n == I.size() && std::equal(I.begin(), I.end(), b); }
	const Id_t* ofTerm(Id_t i, const IdVec& I) const {
		if (!d.hasTerm(i)) return 0;
		const TheoryTerm& t = d.getTerm(i);
		return t.type() == Theory_t::Compound && same(t.begin(), t.size(), I) ? t.begin() : 0;
	}
	const Id_t* ofElem(Id_t i, const IdVec& I) const {
		if (!d.hasElement(i)) return 0;
		const TheoryElement& e = d.getElement(i);
		return same(e.begin(), e.size(), I) ? e.begin() : 0;
	}
	const Id_t* other(const IdVec& I, int selfKind, Id_t self) const {
		for (size_t k = kT.size(); k--;) { if (selfKind == 1 && kT[k] == self) continue; if (const Id_t* p = ofTerm(kT[k], I)) return p; }
		for (size_t k = kE.size(); k--;) { if (selfKind == 2 && kE[k] == self) continue; if (const Id_t* p = ofElem(kE[k], I)) return p; }
		for (TheoryData::atom_iterator it = d.end(); it != d.begin();) { --it; if (same((*it)->begin(), (*it)->size(), I)) return (*it)->begin(); }
		return 0;
	}
	// selfKind: 1 the call (re-)defines term `self`, 2 element `self`, 0 neither (atoms)
	IdSpan span(const IdVec& I, int selfKind, Id_t self) const {
		const Id_t* p = 0;
		if (mode != 0 && !I.empty()) {
			const Id_t* mine = selfKind == 1 ? ofTerm(self, I) : selfKind == 2 ? ofElem(self, I) : 0;
			p = mode == 2 ? other(I, selfKind, self) : mine;
			if (!p) p = mode == 2 ? mine : other(I, selfKind, self);
		}
		return p ? Potassco::toSpan(p, I.size()) : Potassco::toSpan(I);
	}
	// a stored symbol with exactly the bytes of S (cstr: as a C string), the term being re-defined first
	const char* symbol(const std::string& S, bool cstr, Id_t self) const {
		if (mode == 0) return 0;
		auto of = [&](Id_t i) -> const char* {
			if (!d.hasTerm(i)) return 0;
			const TheoryTerm& t = d.getTerm(i);
			if (t.type() != Theory_t::Symbol) return 0;
			const char* y = t.symbol();
			if (cstr) return std::strcmp(y, S.c_str()) == 0 ? y : 0;
			return std::strlen(y) == S.size() && std::memcmp(y, S.data(), S.size()) == 0 ? y : 0;
		};
		const char* mine = of(self);
		if (mine && mode != 2) return mine;
		for (size_t k = kT.size(); k--;) { if (kT[k] != self) { if (const char* y = of(kT[k])) return y; } }
		return mine;
	}
};
static int aliasMode(const Case& c) {
	unsigned long long h = 0;
	for (size_t i = 0; i != c.v.size(); ++i) h += ((unsigned long long)c.v[i] & 0xffffffffull) * (i + 1);
	return (int)((h & 0xffffffffull) % 4);
}

int main() {
	Case c; Obs o;
	g_foreign = new TheoryData();   // g_lib is off
	while (readCase(c)) {
		IdVec probes;
		{ size_t np = (size_t)c.next(); for (size_t i = 0; i != np; ++i) probes.push_back((Id_t)c.next()); }
		g_n = 0; g_walk = 0;
		TheoryData* d = new TheoryData();   // g_lib is off: the Data block itself is not counted
		Own own(*d, aliasMode(c));
		auto ids = [&](IdVec& v) { size_t n = (size_t)c.next(); v.clear(); for (size_t i = 0; i != n && c.more(); ++i) v.push_back((Id_t)c.next()); };
		bool stop = false;
		while (c.more() && !stop) {
			ll op = c.next();
			IdVec I; std::string S; int e = 0; Obs extra;
			switch (op) {
				case 1: { Id_t id = (Id_t)c.next(); int n = (int)c.next(); e = guarded([&] { d->addTerm(id, n); }); Own::note(own.kT, id); break; }
				case 2: { Id_t id = (Id_t)c.next(); size_t n = (size_t)c.next(); S = c.bytes(n); const char* y = own.symbol(S, false, id);
					e = guarded([&] { if (y) d->addTerm(id, toSpan(y, S.size())); else d->addTerm(id, toSpan(S)); }); Own::note(own.kT, id); break; }
				case 3: { Id_t id = (Id_t)c.next(); size_t n = (size_t)c.next(); S = c.bytes(n); const char* y = own.symbol(S, true, id);
					e = guarded([&] { d->addTerm(id, y ? y : S.c_str()); }); Own::note(own.kT, id); break; }
				case 4: { Id_t id = (Id_t)c.next(); Id_t f = (Id_t)c.next(); ids(I); IdSpan A = own.span(I, 1, id);
					e = guarded([&] { d->addTerm(id, f, A); }); Own::note(own.kT, id); break; }
				case 5: { Id_t id = (Id_t)c.next(); int ty = (int)c.next(); ids(I); IdSpan A = own.span(I, 1, id);
					e = guarded([&] { d->addTerm(id, Tuple_t(ty), A); }); Own::note(own.kT, id); break; }
				case 6: { Id_t id = (Id_t)c.next(); e = guarded([&] { d->removeTerm(id); }); break; }
				case 7: { Id_t id = (Id_t)c.next(); ids(I); Id_t cond = (Id_t)c.next(); IdSpan A = own.span(I, 2, id);
					if (cond == TheoryData::COND_DEFERRED) e = guarded([&] { d->addElement(id, A); });   // default argument
					else e = guarded([&] { d->addElement(id, A, cond); });
					Own::note(own.kE, id); break; }
				case 8: { Id_t id = (Id_t)c.next(); Id_t cond = (Id_t)c.next(); e = guarded([&] { d->setCondition(id, cond); }); break; }
				case 9: { Id_t a = (Id_t)c.next(); Id_t t = (Id_t)c.next(); ids(I); IdSpan A = own.span(I, 0, 0);
					e = guarded([&] { d->addAtom(a, t, A); }); break; }
				case 10: { Id_t a = (Id_t)c.next(); Id_t t = (Id_t)c.next(); ids(I); Id_t g = (Id_t)c.next(); Id_t r = (Id_t)c.next(); IdSpan A = own.span(I, 0, 0);
					e = guarded([&] { d->addAtom(a, t, A, g, r); }); break; }
				case 11: e = guarded([&] { d->update(); }); break;
				case 12: e = guarded([&] { d->reset(); }); break;
				case 13: { ll m = c.next(), r = c.next(); if (m < 1) m = 1;
					e = guarded([&] { d->filter([&](const TheoryAtom& a) { return (ll)a.atom() % m == r; }); }); break; }
				case 14: { TheoryData::VisitMode m = c.next() != 0 ? TheoryData::visit_current : TheoryData::visit_all;
					{ Vis v(extra, m); e = guarded([&] { d->accept(v, m); }); }
					extra.add(0); break; }
				default: stop = true; break;
			}
			if (stop) break;
			o.add(e);
			if (!extra.s.empty()) { if (!o.s.empty()) o.s += ' '; o.s += extra.s; }
			dump(o, *d, probes);
		}
		int e = guarded([&] { delete d; });
		o.add(e); o.add(g_n);
		o.flush();
	}
	return 0;
}
