// C12: drive a real Potassco::TheoryData with an operation list (see coq/C12/Model.v, run_case).
// Case: np probe_1..probe_np  ops...      Observation per op: exception class (0 = none), [visit output],
// then for every probe id has/isNew/get of term and element, the atoms, currBegin offset and the number of
// allocations the LIBRARY made through operator new/new[] that are still live.
// The global operator new/delete are replaced here (no hook in /repo): allocations made while g_lib is set
// are recorded with their kind; a delete of the wrong kind aborts. malloc/free below stay ASan-instrumented.
#include "common.h"
#include <new>
#include <set>
#include <algorithm>
#include <cstring>
#include <potassco/theory_data.h>
#include "rec.h"

static bool  g_lib = false;
enum { CAP = 1 << 16 };
static void* g_ptr[CAP]; static char g_kind[CAP]; static int g_n = 0;
static void die(const char* m) { std::fprintf(stderr, "SUMMARY: harness: %s\n", m); std::fflush(stderr); std::abort(); }
static void* alloc(std::size_t n, char k) {
	void* p = std::malloc(n ? n : 1);
	if (!p) throw std::bad_alloc();
	if (g_lib) { if (g_n == CAP) die("allocation table full"); g_ptr[g_n] = p; g_kind[g_n++] = k; }
	return p;
}
static void release(void* p, char k) {
	if (!p) return;
	for (int i = g_n; i--;) {
		if (g_ptr[i] == p) {
			if (g_kind[i] != k) die("operator new/delete kind mismatch in the library");
			g_ptr[i] = g_ptr[--g_n]; g_kind[i] = g_kind[g_n]; break;
		}
	}
	std::free(p);
}
void* operator new(std::size_t n) { return alloc(n, 's'); }
void* operator new[](std::size_t n) { return alloc(n, 'a'); }
void operator delete(void* p) noexcept { release(p, 's'); }
void operator delete[](void* p) noexcept { release(p, 'a'); }
void operator delete(void* p, std::size_t) noexcept { release(p, 's'); }
void operator delete[](void* p, std::size_t) noexcept { release(p, 'a'); }

struct Lib { bool old; Lib() : old(g_lib) { g_lib = true; } ~Lib() { g_lib = old; } };
struct Off { bool old; Off() : old(g_lib) { g_lib = false; } ~Off() { g_lib = old; } };

using namespace Potassco;
typedef std::vector<Id_t> IdVec;

// exception class codes = tools/consts/C12.py CLASS
template <class F> static int guarded(F f) {
	try { Lib on; f(); return 0; }
	catch (const std::invalid_argument&) { return 4; }
	catch (const std::domain_error&) { return 5; }
	catch (const std::logic_error&) { return 1; }
	catch (const std::range_error&) { return 6; }
	catch (const std::overflow_error&) { return 7; }
	catch (const std::runtime_error&) { return 2; }
	catch (const std::bad_alloc&) { return 3; }
	catch (...) { return 9; }
}
static void idList(Obs& o, const IdSpan& s) { o.add((ll)size(s)); for (const Id_t* it = begin(s); it != end(s); ++it) o.add((ll)*it); }

// accessor consistency that print() does not exercise
static void checkTerm(const TheoryTerm& t) {
	Theory_t ty = t.type();
	bool numThrows = false, symThrows = false, cmpThrows = false;
	try { (void)t.number(); } catch (const std::logic_error&) { numThrows = true; }
	try { (void)t.symbol(); } catch (const std::logic_error&) { symThrows = true; }
	try { (void)t.compound(); } catch (const std::logic_error&) { cmpThrows = true; }
	if (numThrows != (ty != Theory_t::Number) || symThrows != (ty != Theory_t::Symbol) || cmpThrows != (ty != Theory_t::Compound)) die("term cast check inconsistent");
	if (ty == Theory_t::Compound) {
		if (t.isFunction() == t.isTuple()) die("isFunction/isTuple inconsistent");
		if (t.isFunction() && (ll)t.function() != (ll)t.compound()) die("function() differs from compound()");
		if (t.isTuple() && (ll)static_cast<int>(t.tuple()) != (ll)t.compound()) die("tuple() differs from compound()");
		if (t.size() != size(t.terms()) || t.end() - t.begin() != (std::ptrdiff_t)t.size()) die("size()/begin()/end() inconsistent");
	}
	else if (t.size() != 0 || t.begin() != t.end()) { die("non-compound term with arguments"); }
}
static void termInfo(Obs& o, const TheoryTerm& t) {
	o.add((ll)(unsigned)t.type()); o.add((ll)t.size());
	o.add(t.isFunction() ? 1 : 0); o.add(t.isTuple() ? 1 : 0);
}
static void elemRec(Obs& o, Id_t id, const TheoryElement& e) {
	o.add(16); o.add(id); idList(o, e.terms()); o.add(1); o.add((ll)e.condition());
	if (e.end() - e.begin() != (std::ptrdiff_t)e.size()) die("element size inconsistent");
}

struct Vis : TheoryData::Visitor {
	Obs& o; Recorder rec; std::set<Id_t> seenT, seenE; TheoryData::VisitMode m;
	Vis(Obs& out, TheoryData::VisitMode mode) : o(out), rec(out), m(mode) {}
	void visit(const TheoryData& d, Id_t id, const TheoryTerm& t) override {
		Off off;
		if (!seenT.insert(id).second) return;
		{ Lib on; d.accept(t, *this, m); }
		print(rec, id, t);
	}
	void visit(const TheoryData& d, Id_t id, const TheoryElement& e) override {
		Off off;
		if (!seenE.insert(id).second) return;
		{ Lib on; d.accept(e, *this, m); }
		elemRec(o, id, e);
	}
	void visit(const TheoryData& d, const TheoryAtom& a) override {
		Off off;
		{ Lib on; d.accept(a, *this, m); }
		print(rec, a);
	}
};

static void dump(Obs& o, const TheoryData& d, const IdVec& probes) {
	Recorder rec(o);
	for (Id_t p : probes) {
		o.add(d.hasTerm(p) ? 1 : 0); o.add(d.isNewTerm(p) ? 1 : 0);
		const TheoryTerm* t = 0;
		int e = guarded([&] { t = &d.getTerm(p); });
		if (e) { o.add(-e); } else { print(rec, p, *t); termInfo(o, *t); checkTerm(*t); }
		o.add(d.hasElement(p) ? 1 : 0); o.add(d.isNewElement(p) ? 1 : 0);
		const TheoryElement* x = 0;
		e = guarded([&] { x = &d.getElement(p); });
		if (e) { o.add(-e); } else { elemRec(o, p, *x); }
	}
	o.add((ll)d.numAtoms());
	if (d.end() - d.begin() != (std::ptrdiff_t)d.numAtoms()) die("begin()/end()/numAtoms() inconsistent");
	for (TheoryData::atom_iterator it = d.begin(); it != d.end(); ++it) {
		print(rec, **it);
		if ((*it)->end() - (*it)->begin() != (std::ptrdiff_t)(*it)->size()) die("atom size inconsistent");
	}
	o.add((ll)(d.currBegin() - d.begin()));
	o.add(g_n);
}

// ---- provenance of arguments -------------------------------------------------------------------------------------
// An id list / a symbol handed to the store is a VALUE.  Whenever the requested list (symbol) EQUALS what the store itself
// currently holds for some item, the harness passes the store's own memory instead of a caller-owned copy:
// getTerm(i).begin() / getElement(i).begin() / (*atom)->begin() / getTerm(i).symbol() - in particular for the SAME id that
// the call re-defines (td.addTerm(id, newName, td.getTerm(id).terms()) after update()).  Same list, other provenance: the
// Coq model and the python oracle are not concerned.  Decided per case by a hash of the case (props/C12.py alias_mode):
//   0 never (caller-owned arrays only)   1, 3 the item being re-defined first, then any other stored item
//   2 another stored item first (a term's arguments, an element's terms, an atom's elements), then the item itself
struct Own {
	const TheoryData& d; int mode; std::vector<Id_t> kT, kE;
	Own(const TheoryData& data, int m) : d(data), mode(m) {}
	static void note(std::vector<Id_t>& k, Id_t id) { if (std::find(k.begin(), k.end(), id) == k.end()) k.push_back(id); }
	static bool same(const Id_t* b, size_t n, const IdVec& I) { return n == I.size() && std::equal(I.begin(), I.end(), b); }
	const Id_t* ofTerm(Id_t i, const IdVec& I) const {
		if (!d.hasTerm(i)) return 0;
		const TheoryTerm& t = d.getTerm(i);
		return t.type() == Theory_t::Compound && same(t.begin(), t.size(), I) ? t.begin() : 0;
	}
	const Id_t* ofElem(Id_t i, const IdVec& I) const {
		if (!d.hasElement(i)) return 0;
		const TheoryElement& e = d.getElement(i);
		return same(e.begin(), e.size(), I) ? e.begin() : 0;
	}
	const Id_t* other(const IdVec& I, int selfKind, Id_t self) const {
		for (size_t k = kT.size(); k--;) { if (selfKind == 1 && kT[k] == self) continue; if (const Id_t* p = ofTerm(kT[k], I)) return p; }
		for (size_t k = kE.size(); k--;) { if (selfKind == 2 && kE[k] == self) continue; if (const Id_t* p = ofElem(kE[k], I)) return p; }
		for (TheoryData::atom_iterator it = d.end(); it != d.begin();) { --it; if (same((*it)->begin(), (*it)->size(), I)) return (*it)->begin(); }
		return 0;
	}
	// selfKind: 1 the call (re-)defines term `self`, 2 element `self`, 0 neither (atoms)
	IdSpan span(const IdVec& I, int selfKind, Id_t self) const {
		const Id_t* p = 0;
		if (mode != 0 && !I.empty()) {
			const Id_t* mine = selfKind == 1 ? ofTerm(self, I) : selfKind == 2 ? ofElem(self, I) : 0;
			p = mode == 2 ? other(I, selfKind, self) : mine;
			if (!p) p = mode == 2 ? mine : other(I, selfKind, self);
		}
		return p ? Potassco::toSpan(p, I.size()) : Potassco::toSpan(I);
	}
	// a stored symbol with exactly the bytes of S (cstr: as a C string), the term being re-defined first
	const char* symbol(const std::string& S, bool cstr, Id_t self) const {
		if (mode == 0) return 0;
		auto of = [&](Id_t i) -> const char* {
			if (!d.hasTerm(i)) return 0;
			const TheoryTerm& t = d.getTerm(i);
			if (t.type() != Theory_t::Symbol) return 0;
			const char* y = t.symbol();
			if (cstr) return std::strcmp(y, S.c_str()) == 0 ? y : 0;
			return std::strlen(y) == S.size() && std::memcmp(y, S.data(), S.size()) == 0 ? y : 0;
		};
		const char* mine = of(self);
		if (mine && mode != 2) return mine;
		for (size_t k = kT.size(); k--;) { if (kT[k] != self) { if (const char* y = of(kT[k])) return y; } }
		return mine;
	}
};
static int aliasMode(const Case& c) {
	unsigned long long h = 0;
	for (size_t i = 0; i != c.v.size(); ++i) h += ((unsigned long long)c.v[i] & 0xffffffffull) * (i + 1);
	return (int)((h & 0xffffffffull) % 4);
}

int main() {
	Case c; Obs o;
	while (readCase(c)) {
		IdVec probes;
		{ size_t np = (size_t)c.next(); for (size_t i = 0; i != np; ++i) probes.push_back((Id_t)c.next()); }
		g_n = 0;
		TheoryData* d = new TheoryData();   // g_lib is off: the Data block itself is not counted
		Own own(*d, aliasMode(c));
		auto ids = [&](IdVec& v) { size_t n = (size_t)c.next(); v.clear(); for (size_t i = 0; i != n && c.more(); ++i) v.push_back((Id_t)c.next()); };
		bool stop = false;
		while (c.more() && !stop) {
			ll op = c.next();
			IdVec I; std::string S; int e = 0; Obs extra;
			switch (op) {
				case 1: { Id_t id = (Id_t)c.next(); int n = (int)c.next(); e = guarded([&] { d->addTerm(id, n); }); Own::note(own.kT, id); break; }
				case 2: { Id_t id = (Id_t)c.next(); size_t n = (size_t)c.next(); S = c.bytes(n); const char* y = own.symbol(S, false, id);
					e = guarded([&] { if (y) d->addTerm(id, toSpan(y, S.size())); else d->addTerm(id, toSpan(S)); }); Own::note(own.kT, id); break; }
				case 3: { Id_t id = (Id_t)c.next(); size_t n = (size_t)c.next(); S = c.bytes(n); const char* y = own.symbol(S, true, id);
					e = guarded([&] { d->addTerm(id, y ? y : S.c_str()); }); Own::note(own.kT, id); break; }
				case 4: { Id_t id = (Id_t)c.next(); Id_t f = (Id_t)c.next(); ids(I); IdSpan A = own.span(I, 1, id);
					e = guarded([&] { d->addTerm(id, f, A); }); Own::note(own.kT, id); break; }
				case 5: { Id_t id = (Id_t)c.next(); int ty = (int)c.next(); ids(I); IdSpan A = own.span(I, 1, id);
					e = guarded([&] { d->addTerm(id, Tuple_t(ty), A); }); Own::note(own.kT, id); break; }
				case 6: { Id_t id = (Id_t)c.next(); e = guarded([&] { d->removeTerm(id); }); break; }
				case 7: { Id_t id = (Id_t)c.next(); ids(I); Id_t cond = (Id_t)c.next(); IdSpan A = own.span(I, 2, id);
					if (cond == TheoryData::COND_DEFERRED) e = guarded([&] { d->addElement(id, A); });   // default argument
					else e = guarded([&] { d->addElement(id, A, cond); });
					Own::note(own.kE, id); break; }
				case 8: { Id_t id = (Id_t)c.next(); Id_t cond = (Id_t)c.next(); e = guarded([&] { d->setCondition(id, cond); }); break; }
				case 9: { Id_t a = (Id_t)c.next(); Id_t t = (Id_t)c.next(); ids(I); IdSpan A = own.span(I, 0, 0);
					e = guarded([&] { d->addAtom(a, t, A); }); break; }
				case 10: { Id_t a = (Id_t)c.next(); Id_t t = (Id_t)c.next(); ids(I); Id_t g = (Id_t)c.next(); Id_t r = (Id_t)c.next(); IdSpan A = own.span(I, 0, 0);
					e = guarded([&] { d->addAtom(a, t, A, g, r); }); break; }
				case 11: e = guarded([&] { d->update(); }); break;
				case 12: e = guarded([&] { d->reset(); }); break;
				case 13: { ll m = c.next(), r = c.next(); if (m < 1) m = 1;
					e = guarded([&] { d->filter([&](const TheoryAtom& a) { return (ll)a.atom() % m == r; }); }); break; }
				case 14: { TheoryData::VisitMode m = c.next() != 0 ? TheoryData::visit_current : TheoryData::visit_all;
					{ Vis v(extra, m); e = guarded([&] { d->accept(v, m); }); }
					extra.add(0); break; }
				default: stop = true; break;
			}
			if (stop) break;
			o.add(e);
			if (!extra.s.empty()) { if (!o.s.empty()) o.s += ' '; o.s += extra.s; }
			dump(o, *d, probes);
		}
		int e = guarded([&] { delete d; });
		o.add(e); o.add(g_n);
		o.flush();
	}
	return 0;
}
