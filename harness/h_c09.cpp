// C09: drive a real BufferedStream with an operation list.  Case: N len bytes... ops...
#include "common.h"
#include <potassco/match_basic_types.h>
// line() is an unsigned counter; the model's is an integer. They are compared modulo 2^32 through the signed representative, so a
// put-back of '\n' that the client never extracted (outside the specified use; it can take the counter below 0) reads -1 on both sides.
static long long lineNo(const Potassco::BufferedStream& s) { return static_cast<long long>(static_cast<int>(s.line())); }
int main() {
	Case c; Obs o;
	while (readCase(c)) {
		ll n = c.next(); (void)n;
		if (n != Potassco::BufferedStream::BUF_SIZE) { o.add(-999); o.flush(); continue; }
		size_t len = (size_t)c.next();
		std::string in = c.bytes(len);
		std::istringstream is(in);
		Potassco::BufferedStream str(is);
		while (c.more()) {
			ll op = c.next();
			if      (op == 0) { o.add((unsigned char)str.peek()); }
			else if (op == 1) { o.add((unsigned char)str.get()); }
			else if (op == 2) { o.add(str.unget((char)c.next()) ? 1 : 0); }
			else if (op == 3) { str.skipWs(); }
			else if (op == 4) {
				size_t k = (size_t)c.next(); std::string w = c.bytes(k);
				try { o.add(str.match(w.c_str()) ? 1 : 0); } catch (const std::exception&) { o.add(2); }
			}
			else if (op == 5) {
				bool noSkip = c.next() != 0; int64_t v = 0;
				if (str.match(v, noSkip)) { o.add(1); o.add(v); } else { o.add(0); }
			}
			else if (op == 6) {
				ll k = c.next();
				// canaries around the output buffer: copy must not write more than it reports
				// the destination holds line feeds beforehand (a re-used buffer): bytes that copy() does not write must not be counted as
				// extracted newlines (seeded C09-r12: the newline count taken over the requested range instead of the copied bytes)
				std::vector<char> buf((k > 0 ? (size_t)k : 0) + 16, (char)0x5a);
				for (size_t q = 8; q + 8 < buf.size(); ++q) { buf[q] = '\n'; }
				int r = str.copy(buf.data() + 8, (int)k);
				o.add(r);
				if (r > 0) o.addBytes(buf.data() + 8, (size_t)r);
			}
			else if (op == 7) { o.add(lineNo(str)); }
			else if (op == 8) { o.add(str.end() ? 1 : 0); }
			else break;
		}
		o.add(lineNo(str)); o.add(str.end() ? 1 : 0); o.add(0);
		o.flush();
	}
	return 0;
}
