// C01: feed a call sequence to the real AspifOutput, print the bytes, read them back with the real AspifInput
// (modes 0/1), or read a given text, write what was delivered with AspifOutput and read that again (modes 2/3).
// See coq/C01/Model.v for the case / observation layout.
// Every other case (reuse::primed, a hash of the case) does each read with a reader OBJECT that has read (or refused) a primer text before, see reuse.h.
#include "common.h"
#include "c01_read.h"
#include <potassco/match_basic_types.h>
static int writeCalls(Case& c, std::string& text) {
	std::ostringstream os;
	try {
		Potassco::AspifOutput out(os);
		while (playCall(c, out)) { ; }
	}
	catch (const std::exception&) { return 7; }
	catch (...) { return 8; }
	text = os.str();
	return 0;
}
int main() {
	Case c; Obs o;
	while (readCase(c)) {
		const reuse::Primer* primed = reuse::primed(c) ? &reuse::aspifPrimer(c) : 0;
		int mode = (int)c.next(); ll n = c.next();
		if (n != Potassco::BufferedStream::BUF_SIZE) { o.add(-999); o.flush(); continue; }
		std::string text;
		if (mode < 2) {
			if (int cls = writeCalls(c, text)) { o.add(-cls); o.flush(); continue; }
			o.add((ll)text.size()); o.addBytes(text.data(), text.size());
			c01::readText(text, mode, o, 0, primed);
		}
		else {
			size_t len = (size_t)c.next();
			text = c.bytes(len);
			Obs rec;
			bool ok = c01::readText(text, mode - 2, o, &rec, primed);
			Case cc; c01::parseInts(rec.s, cc);
			o.add((ll)cc.v.size());
			if (!rec.s.empty()) { o.s += ' '; o.s += rec.s; }
			if (ok) {
				std::string t2;
				if (int cls = writeCalls(cc, t2)) { o.add(-cls); o.flush(); continue; }
				o.add((ll)t2.size()); o.addBytes(t2.data(), t2.size());
				c01::readText(t2, mode - 2, o, 0, primed);
			}
		}
		o.flush();
	}
	return 0;
}
