// C01: feed a call sequence to the real AspifOutput, print the bytes, read them back with the real AspifInput
// (modes 0/1), or read a given text, write what was delivered with AspifOutput and read that again (modes 2/3).
// See coq/C01/Model.v for the case / observation layout.
// In the same (primed) cases every AspifOutput object has written another program before the case's calls (writer reuse, see writeCalls).
// Every other case (reuse::primed, a hash of the case) does each read with a reader OBJECT that has read (or refused) a primer text before, see reuse.h.
#include "common.h"
#include "c01_read.h"
#include <potassco/match_basic_types.h>
// Writer REUSE: in the primed cases the AspifOutput OBJECT has written another program before (incremental, one complete step and one
// abandoned inside a step); that text is thrown away. AspifOutput keeps nothing but the stream, so this must be invisible.
static int writeCalls(Case& c, std::string& text, bool reused) {
	std::ostringstream os;
	try {
		Potassco::AspifOutput out(os);
		if (reused) {
			Potassco::Atom_t h = 1; Potassco::Lit_t b = -2;
			out.initProgram(true); out.beginStep(); out.rule(Potassco::Head_t::Choice, Potassco::toSpan(&h, 1), Potassco::toSpan(&b, 1)); out.endStep();
			out.beginStep(); out.output(Potassco::toSpan("pa", 2), Potassco::toSpan(&b, 1)); out.external(h, Potassco::Value_t::True);
			os.str(std::string());
		}
		while (playCall(c, out)) { ; }
	}
	catch (const std::exception&) { return 7; }
	catch (...) { return 8; }
	text = os.str();
	return 0;
}
int main() {
	Case c; Obs o;
	while (readCase(c)) {
		const reuse::Primer* primed = reuse::primed(c) ? &reuse::aspifPrimer(c) : 0;
		int mode = (int)c.next(); ll n = c.next();
		if (n != Potassco::BufferedStream::BUF_SIZE) { o.add(-999); o.flush(); continue; }
		std::string text;
		if (mode < 2) {
			if (int cls = writeCalls(c, text, primed != 0)) { o.add(-cls); o.flush(); continue; }
			o.add((ll)text.size()); o.addBytes(text.data(), text.size());
			c01::readText(text, mode, o, 0, primed);
		}
		else {
			size_t len = (size_t)c.next();
			text = c.bytes(len);
			Obs rec;
			bool ok = c01::readText(text, mode - 2, o, &rec, primed);
			Case cc; c01::parseInts(rec.s, cc);
			o.add((ll)cc.v.size());
			if (!rec.s.empty()) { o.s += ' '; o.s += rec.s; }
			if (ok) {
				std::string t2;
				if (int cls = writeCalls(cc, t2, primed != 0)) { o.add(-cls); o.flush(); continue; }
				o.add((ll)t2.size()); o.addBytes(t2.data(), t2.size());
				c01::readText(t2, mode - 2, o, 0, primed);
			}
		}
		o.flush();
	}
	return 0;
}
