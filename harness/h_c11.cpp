// C11: drive three real RuleBuilders with an operation list (see coq/C11/Model.v for the encoding).
//   1 i ht | 2 i prio | 3 i | 4 i b | 5 i b | 6 i a | 7 i l w | 17 i l | 8 i out | 9 i | 10 i | 11 i | 12 i to w
//   13 i full (query; full != 0: also rule()) | 14 i j (b[j] = new copy of b[i]) | 15 i j (b[j] = b[i]) | 16 i j (swap)
// Every mutating op prints a status (0 ok, 1 std::logic_error = POTASSCO_ASSERT, 9 other exception); the case stops
// at the first exception.  end(out): out = 0 no receiver, out = 2 a receiver that records the call and then THROWS
// (Refused, a std::logic_error) from rule()/minimize(), any other value a recording receiver that accepts.  Printed: the
// status (0; 3 = the receiver threw and the exception propagated out of end(); 4 = the receiver threw but end() swallowed
// it; 5 = the throwing receiver was never called) followed by the call the receiver got.  After a refused end the history
// CONTINUES on the same builder (it must be frozen, keep the finished rule, and start the next rule from nothing).  A query prints
// head(), bodyType(), bound(), body()/sum() and (full) rule().  An op whose arguments are missing ends the case.
#include "common.h"
#include "rec.h"
#include <potassco/rule_utils.h>
#include <memory>
using namespace Potassco;
// A receiver that records what it is given (same encoding as Recorder) and then refuses it.
struct Refused : std::logic_error { Refused() : std::logic_error("refused by receiver") {} };
struct Thrower : Recorder {
	unsigned calls;
	explicit Thrower(Obs& out) : Recorder(out), calls(0) {}
	void rule(Head_t ht, const AtomSpan& head, const LitSpan& body) override { ++calls; Recorder::rule(ht, head, body); throw Refused(); }
	void rule(Head_t ht, const AtomSpan& head, Weight_t bound, const WeightLitSpan& body) override { ++calls; Recorder::rule(ht, head, bound, body); throw Refused(); }
	void minimize(Weight_t prio, const WeightLitSpan& lits) override { ++calls; Recorder::minimize(prio, lits); throw Refused(); }
};
static size_t idx(ll v) { return static_cast<size_t>(((v % 3) + 3) % 3); }
static int arity(ll op) {
	switch (op) {
		case 3: case 9: case 10: case 11: return 1;
		case 1: case 2: case 4: case 5: case 6: case 8: case 13: case 14: case 15: case 16: case 17: return 2;
		case 7: case 12: return 3;
		default: return -1;
	}
}
static void query(const RuleBuilder& rb, Obs& o, bool full) {
	AtomSpan h = rb.head();
	o.add((ll)size(h));
	for (const Atom_t* it = begin(h); it != end(h); ++it) o.add((ll)*it);
	o.add((ll)(rb.head_end() - rb.head_begin()));
	unsigned bt = static_cast<unsigned>(rb.bodyType());
	o.add(bt);
	o.add(rb.bound());
	if (bt == Body_t::Normal) {
		LitSpan b = rb.body();
		o.add((ll)size(b));
		for (const Lit_t* it = begin(b); it != end(b); ++it) o.add(*it);
		o.add((ll)(rb.lits_end() - rb.lits_begin()));
	}
	else {
		Sum_t s = rb.sum();
		o.add(s.bound);
		o.add((ll)size(s.lits));
		for (const WeightLit_t* it = begin(s.lits); it != end(s.lits); ++it) { o.add(it->lit); o.add(it->weight); }
		o.add((ll)(rb.wlits_end() - rb.wlits_begin()));
	}
	if (!full) return;
	Rule_t r = rb.rule();
	o.add((ll)static_cast<unsigned>(r.ht));
	o.add((ll)size(r.head));
	for (const Atom_t* it = begin(r.head); it != end(r.head); ++it) o.add((ll)*it);
	o.add((ll)static_cast<unsigned>(r.bt));
	if (r.normal()) {
		o.add((ll)size(r.cond));
		for (const Lit_t* it = begin(r.cond); it != end(r.cond); ++it) o.add(*it);
	}
	else {
		o.add(r.agg.bound);
		o.add((ll)size(r.agg.lits));
		for (const WeightLit_t* it = begin(r.agg.lits); it != end(r.agg.lits); ++it) { o.add(it->lit); o.add(it->weight); }
	}
}
int main() {
	Case c; Obs o;
	while (readCase(c)) {
		std::unique_ptr<RuleBuilder> b[3];
		for (int i = 0; i != 3; ++i) b[i].reset(new RuleBuilder());
		Recorder rec(o);
		bool stopped = false;
		while (c.more() && !stopped) {
			ll op = c.next();
			int ar = arity(op);
			if (ar < 0 || c.v.size() - c.p < (size_t)ar) break;
			size_t i = idx(c.next());
			if (op == 13) { bool full = c.next() != 0; query(*b[i], o, full); continue; }
			try {
				switch (op) {
					case 1:  { ll ht = c.next(); b[i]->start(ht == 1 ? Head_t::Choice : Head_t::Disjunctive); o.add(0); break; }
					case 2:  { Weight_t p = (Weight_t)c.next(); b[i]->startMinimize(p); o.add(0); break; }
					case 3:  { b[i]->startBody(); o.add(0); break; }
					case 4:  { Weight_t w = (Weight_t)c.next(); b[i]->startSum(w); o.add(0); break; }
					case 5:  { Weight_t w = (Weight_t)c.next(); b[i]->setBound(w); o.add(0); break; }
					case 6:  { Atom_t a = (Atom_t)c.next(); b[i]->addHead(a); o.add(0); break; }
					case 7:  { Lit_t l = (Lit_t)c.next(); Weight_t w = (Weight_t)c.next(); WeightLit_t wl = {l, w}; b[i]->addGoal(wl); o.add(0); break; }
					case 17: { Lit_t l = (Lit_t)c.next(); b[i]->addGoal(l); o.add(0); break; }
					case 8:  {
						ll out = c.next();
						// the status is printed before the call so that the call follows it
						std::string keep = o.s;
						if (out != 2) {
							o.add(0);
							try { b[i]->end(out != 0 ? &rec : 0); }
							catch (...) { o.s = keep; throw; }
							break;
						}
						Thrower thr(o);
						bool propagated = false;
						o.add(3);
						try { b[i]->end(&thr); }
						catch (const Refused&) { propagated = true; }
						catch (...) { o.s = keep; throw; }
						if (!propagated) { o.s = keep; o.add(thr.calls ? 4 : 5); stopped = true; }
						break;
					}
					case 9:  { b[i]->clear(); o.add(0); break; }
					case 10: { b[i]->clearBody(); o.add(0); break; }
					case 11: { b[i]->clearHead(); o.add(0); break; }
					case 12: {
						ll to = c.next(); bool w = c.next() != 0;
						b[i]->weaken(to == 0 ? Body_t::Normal : (to == 1 ? Body_t::Sum : Body_t::Count), w); o.add(0); break;
					}
					case 14: { size_t j = idx(c.next()); std::unique_ptr<RuleBuilder> t(new RuleBuilder(*b[i])); b[j].swap(t); o.add(0); break; }
					case 15: { size_t j = idx(c.next()); *b[j] = *b[i]; o.add(0); break; }
					case 16: { size_t j = idx(c.next()); b[i]->swap(*b[j]); o.add(0); break; }
					default: stopped = true; break;
				}
			}
			catch (const std::logic_error&) { o.add(1); stopped = true; }
			catch (const std::exception&)   { o.add(9); stopped = true; }
		}
		o.flush();
	}
	return 0;
}
