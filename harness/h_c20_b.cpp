// C20: second translation unit of the harness.  Its unnamed namespace declares Setting / Triple / Record - spelled exactly like three
// types of h_c20.cpp's unnamed namespace, but DIFFERENT types (internal linkage: one per unit) with different layouts and value
// encodings.  Their std::type_info objects differ while type_info::name() yields the same string in both units (checked by the
// self-test in h_c20.cpp's main), so a typed access that compares type NAMES instead of type identities confuses them.
// Everything that has to name these types lives here (see h_c20_b.h).
#include "h_c20_b.h"
#include <string>
#include <cstdlib>
#include <cstring>
#include <type_traits>
namespace Po = Potassco::ProgramOptions;

namespace {
// same size as the first unit's types of the same name (8 / 12 / 40), other members in another order, other encodings
struct Setting { short check; short salt; int level; };
struct Triple  { unsigned char c[12]; };
struct Record  { long level; std::string name; };
static_assert(sizeof(Setting) == 8 && sizeof(Triple) == 12 && sizeof(Record) == 40, "model: size_of 21..23 (coq/C20/Model.v)");

inline unsigned char tb(long v, size_t k) { return (unsigned char)(((unsigned long)v * 37u + (unsigned long)k * 101u + 11u) % 249u + 3u); }
inline std::string bname(long v) { return "unit-B:" + std::string(27, (char)('A' + (v % 26))) + std::to_string(v); }

template <class T> struct BT;
template <> struct BT<Setting> {
	static Setting make(long v) { Setting x; x.level = (int)v; x.check = (short)(v * 3 + 1); x.salt = (short)(0x1234 ^ v); return x; }
	static long value(const Setting& x) { return x.check == (short)((long)x.level * 3 + 1) && x.salt == (short)(0x1234 ^ (long)x.level) ? x.level : -887; }
};
template <> struct BT<Triple> {
	static Triple make(long v) { Triple x; x.c[0] = (unsigned char)(v & 0xff); x.c[1] = (unsigned char)((v >> 8) & 0xff); for (size_t k = 2; k != 12; ++k) x.c[k] = tb(v, k); return x; }
	static long value(const Triple& x) { long v = x.c[0] + 256 * (long)x.c[1]; for (size_t k = 2; k != 12; ++k) { if (x.c[k] != tb(v, k)) return -887; } return v; }
};
template <> struct BT<Record> {
	static Record make(long v) { Record x; x.level = v; x.name = bname(v); return x; }
	static long value(const Record& x) { return x.name == bname(x.level) ? x.level : -887; }
};
template <class T> bool parseB(const std::string& s, T& out) {
	if (s == "bad") return false;
	out = BT<T>::make(std::atoll(s.c_str()));
	return true;
}
template <class F> void pick(int k, F f) {
	switch (k) {
		case 0: f((Setting*)0); break;
		case 1: f((Triple*)0); break;
		case 2: f((Record*)0); break;
		default: break;
	}
}
template <class T> bool holds(const Po::ValueStore& s) { return !s.empty() && s.type() == typeid(T); }
} // namespace
#define B_TYPE(tag) typename std::remove_pointer<decltype(tag)>::type

const char* b_type_name(int k) { const char* r = ""; pick(k, [&](auto* t) { r = typeid(B_TYPE(t)).name(); }); return r; }
bool b_same_typeinfo(int k, const std::type_info& ti) { bool r = false; pick(k, [&](auto* t) { r = typeid(B_TYPE(t)) == ti; }); return r; }
std::size_t b_sizeof(int k) { std::size_t r = 0; pick(k, [&](auto* t) { r = sizeof(B_TYPE(t)); }); return r; }
bool b_holds(const Po::ValueStore& s, int k) { bool r = false; pick(k, [&](auto* t) { r = holds<B_TYPE(t)>(s); }); return r; }

void b_store(Po::ValueStore& s, int k, long v) {
	pick(k, [&](auto* t) { typedef B_TYPE(t) T;
		T arg(BT<T>::make(v));
		// alias of the holder's own current value when it already is T(v) (the argument of operator= then lives inside the value about to be released)
		const T* own = holds<T>(s) ? Po::value_cast<T>(&s) : 0;
		if (own && BT<T>::value(*own) == v) { s = *own; }
		else                                { s = arg; }
	});
}
Po::ValueStore* b_construct(int k, long v) {
	Po::ValueStore* r = 0;
	pick(k, [&](auto* t) { typedef B_TYPE(t) T; r = new Po::ValueStore(BT<T>::make(v)); });
	return r;
}
void* b_new(int k, long v) { void* r = 0; pick(k, [&](auto* t) { typedef B_TYPE(t) T; r = new T(BT<T>::make(v)); }); return r; }
void  b_delete(int k, void* p) { pick(k, [&](auto* t) { typedef B_TYPE(t) T; delete static_cast<T*>(p); }); }
void  b_adopt(Po::ValueStore& s, int k, void* p) { pick(k, [&](auto* t) { typedef B_TYPE(t) T; s.assimilate(static_cast<T*>(p)); }); }
void  b_destroy_in_place(int k, void* p) { pick(k, [&](auto* t) { typedef B_TYPE(t) T; static_cast<T*>(p)->~T(); }); }
long  b_value(int k, const void* p) { long r = -887; pick(k, [&](auto* t) { typedef B_TYPE(t) T; r = BT<T>::value(*static_cast<const T*>(p)); }); return r; }
void  b_set_through(Po::ValueStore& s, int k, long v) { pick(k, [&](auto* t) { typedef B_TYPE(t) T; Po::value_cast<T>(s) = BT<T>::make(v); }); }
long  b_read(const Po::ValueStore& s, int k) { long r = -887; pick(k, [&](auto* t) { typedef B_TYPE(t) T; r = BT<T>::value(Po::value_cast<T>(s)); }); return r; }

int b_probe(const Po::ValueStore& s, int k, long* read, int* agree) {
	int res = 0;
	*read = 0; *agree = 1;
	pick(k, [&](auto* t) { typedef B_TYPE(t) T;
		const T* p = Po::value_cast<T>(&s);
		bool thrown = false; const T* q = 0;
		try { q = &Po::value_cast<T>(s); } catch (const Po::bad_value_cast&) { thrown = true; }
		if ((p == 0) != thrown || (p != 0 && p != q)) *agree = 0;
		if (p != 0 && Po::unsafe_value_cast<T>(&s) != p) *agree = 0;
		Po::ValueStore& m = const_cast<Po::ValueStore&>(s);
		if (Po::value_cast<T>(&m) != p) *agree = 0;
		if (p != 0 || !thrown) {
			res = 1;
			// the object is read as a T only if the holder says it IS a T (type_info identity); otherwise it is some other type's bytes
			*read = (p != 0 && holds<T>(s)) ? BT<T>::value(*p) : (long)B_FOREIGN;
		}
	});
	return res;
}
bool b_map_add(Po::ValueMap* m, const std::string& name, int k, const void* p) {
	bool r = false;
	pick(k, [&](auto* t) { typedef B_TYPE(t) T; r = Po::ValueMap::add<T>(m, name, static_cast<const T*>(p)); });
	return r;
}
Po::Value* b_make_nv(Po::ValueMap& m, int k) {
	Po::Value* r = 0;
	pick(k, [&](auto* t) { typedef B_TYPE(t) T; r = Po::store<T>(m, &parseB<T>); });
	return r;
}
