// C20: drive real ValueStore / ValueMap / NotifiedValue objects (part A) and real Option / SharedOptPtr /
// OptionGroup / ParsedValues / OptionContext objects (part B) with an operation list.
//   part A case: 0 H M t_0..t_{M-1} ops...        part B case: 1 S C ops...        (see coq/C20/Model.v)
// Payload types 0..5 are instrumented: every object carries a unique id (allocated in construction order) and a
// registry counts constructor / destructor runs per id; the value lives in the registry, so a bitwise relocated
// in-place object (ValueStore::swap) keeps its identity.  Types 6..10 are bool, int, const void*, std::string,
// std::vector<int> (checked by ASan/LSan only).
// Types 11..13 are instrumented payloads of sizeof 9, 12, 15 - bigger than the holder's one word, not a multiple of it - and
// 14..17 plain aggregates of sizeof 12 (three ints), 9 (nine chars), 16 and 8 (controls).  In all of them EVERY byte is
// significant: besides the id each byte is a non-zero function of (value, position) that every read checks, so an object
// whose tail did not travel with a swap / assignment / copy, or was overwritten by a neighbour, is noticed (integrity 3 for
// the instrumented ones, value -888 for the plain ones).  Every ValueStore the harness owns is a separate, exactly-sized heap
// block (new Po::ValueStore: two words; map entries only ever adopt, i.e. use the heap table), operator='s temporaries live on
// the instrumented stack - so AddressSanitizer sees any write / read beyond a holder's word.
// Types 18..20 are Setting (8 bytes, in place), Triple (12 bytes), Record (40 bytes, non-trivial) declared in THIS unit's unnamed
// namespace; types 21..23 are the types of the SAME SPELLING that the second translation unit h_c20_b.cpp declares in ITS unnamed
// namespace: distinct types (typeid objects differ) whose type_info::name() strings are equal (self-test in main, printed once on
// stderr).  The second unit's types cannot be named here: every typed operation on them is a function of h_c20_b.h; in this file
// they are represented by the proxy tags BX<0..2> and `Y<T>` is the one place that says how an operation is done for a type.
// Typed access to a holder with the other unit's type of the same name must be refused exactly like any other wrong type.
// Types 24, 25 are a POLYMORPHIC pair: PBase (virtual destructor, 16 bytes) and PDerived : PBase (24 bytes), instrumented like the
// payloads (one registry id per object, counted construction / destruction; the derived part's destruction is recorded separately).
// Pseudo-tag 26 (op `new` and as a map name's type only) = "a PDerived object owned through a PBase*": the client's pointer is a
// PBase*, so every adoption of it (assimilate, ValueMap::add, NotifiedValue<PBase> with a creator that returns a new PDerived) is an
// adoption AS PBase - the holder's type is PBase (the type it was adopted as), value_cast<PBase> yields the object, value_cast<PDerived>
// is refused, a copy of the holder is a (sliced) PBase, and clear / ~ValueStore destroy the whole PDerived through the virtual destructor.
#include "common.h"
#include <map>
#include <set>
#include <vector>
#include <string>
#include <typeinfo>
#include <new>
#include <memory>
#include <algorithm>
#include <utility>
#include <iterator>
#include <istream>
#include <sstream>
#include <ostream>
#include <climits>
#include <cstdarg>
#include <cstddef>
#include <cstdint>
#include <cassert>
#include <cerrno>
#include <strings.h>
#include <inttypes.h>
#include <type_traits>
#define private public
#define protected public
#include <potassco/program_opts/value_store.h>
#include <potassco/program_opts/typed_value.h>
#include <potassco/program_opts/mapped_value.h>
#include <potassco/program_opts/program_options.h>
#undef private
#undef protected
#include "h_c20_b.h"
namespace Po = Potassco::ProgramOptions;

// ------------------------------------------------------------------------------------------------------------
// registry of instrumented objects
// ------------------------------------------------------------------------------------------------------------
struct Info { int ty; ll val; int ctor; int dtor; int dpart; };   // dpart: 0 no derived part, 1 derived part alive, 2 derived part destroyed
static std::vector<Info> reg;
static int integrity = 0;   // 1: dead / foreign object touched or destroyed twice, 2: id space exhausted, 3: bytes of a live object's value changed behind its back,
                            // 4: checked typed access handed out an object although the holder's type() is another type, 5: the forms of value_cast disagree,
                            // 6: the base part of a PDerived object was destroyed without its derived part (destroyed as its static type only)
static size_t regNew(int ty, ll v) {
	Info i = {ty, v, 1, 0, 0};
	reg.push_back(i);
	if (reg.size() > 255) integrity = 2;
	return reg.size() - 1;
}
static bool usable(int ty, size_t id) { return id < reg.size() && reg[id].dtor == 0 && reg[id].ty == ty; }
static size_t regCopy(int ty, size_t src) {
	if (!usable(ty, src)) { integrity = 1; return regNew(ty, 0); }
	return regNew(ty, reg[src].val);
}
static void regDestroy(int ty, size_t id) {
	if (id >= reg.size()) { integrity = 1; return; }
	if (reg[id].dtor != 0 || reg[id].ty != ty) integrity = 1;
	++reg[id].dtor;
}
static std::string sval(ll v) { return std::string(24, (char)('a' + (v % 26))) + std::to_string(v); }

struct B1  { uint8_t  id; void fill(ll) {} bool good(ll) const { return true; } };
struct B4  { uint32_t id; void fill(ll) {} bool good(ll) const { return true; } };
struct B8  { uint64_t id; void fill(ll) {} bool good(ll) const { return true; } };
struct B16 { uint64_t id; uint64_t shadow; void fill(ll v) { shadow = (uint64_t)v * 3 + 1; } bool good(ll v) const { return shadow == (uint64_t)v * 3 + 1; } };
struct BS  { std::string s; uint32_t id; void fill(ll v) { s = sval(v); } bool good(ll v) const { return s == sval(v); } };
// every byte of the body is a non-zero function of (value, position)
static inline uint8_t shb(ll v, size_t k) { return (uint8_t)(((uint64_t)v * 131u + (uint64_t)k * 29u + 7u) % 251u + 1u); }
template <class ID, size_t N> struct BOdd {
	ID id; uint8_t b[N];
	void fill(ll v) { for (size_t k = 0; k != N; ++k) b[k] = shb(v, k); }
	bool good(ll v) const { for (size_t k = 0; k != N; ++k) { if (b[k] != shb(v, k)) return false; } return true; }
};
typedef BOdd<uint8_t, 8> B9; typedef BOdd<uint32_t, 8> B12; typedef BOdd<uint8_t, 14> B15;
struct BV  { std::vector<int> v; uint32_t id; void fill(ll x) { v.assign(3 + (size_t)(x % 5), (int)x); } bool good(ll x) const { return v.size() == 3 + (size_t)(x % 5) && v[0] == (int)x && v.back() == (int)x; } };

template <int TY, class Body>
struct Pay : Body {
	Pay() { this->id = (decltype(this->id))regNew(TY, 0); this->fill(0); }
	explicit Pay(ll v) { this->id = (decltype(this->id))regNew(TY, v); this->fill(v); }
	Pay(const Pay& o) : Body() { size_t n = regCopy(TY, o.id); this->id = (decltype(this->id))n; this->fill(reg[n].val); }
	~Pay() { regDestroy(TY, this->id); }
	ll   get() const { if (!usable(TY, this->id)) { integrity = 1; return -777; } if (!this->good(reg[this->id].val)) { if (integrity == 0) integrity = 3; } return reg[this->id].val; }
	void set(ll v) { if (!usable(TY, this->id)) { integrity = 1; return; } reg[this->id].val = v; this->fill(v); }
private:
	Pay& operator=(const Pay&);
};
typedef Pay<0, B1> P1; typedef Pay<1, B4> P4; typedef Pay<2, B8> P8; typedef Pay<3, B16> P16; typedef Pay<4, BS> PS; typedef Pay<5, BV> PV;
typedef Pay<11, B9> P9; typedef Pay<12, B12> P12; typedef Pay<13, B15> P15;
// polymorphic pair (tags 24, 25): one registry entry per object, registered by the PBase constructor; reg[id].ty is the DYNAMIC type
// (24 for a PBase, 25 for a PDerived), so members of PBase accept both and members of PDerived only 25.  Every byte of the value
// fields is a function of the value (checked at every read: integrity 3); the refill after a write goes through a virtual function,
// so a write through a PBase& to a PDerived object keeps the derived field consistent.
static inline uint32_t pchk(ll v) { return (uint32_t)((uint64_t)v * 2654435761u + 17u); }
static inline uint64_t pext(ll v) { return (uint64_t)v * 0x9E3779B97F4A7C15ull + 5u; }
struct PBase {
	uint32_t id; uint32_t chk;
	explicit PBase(ll v = 0) : id((uint32_t)regNew(24, v)), chk(pchk(v)) {}
	PBase(const PBase& o) {                // also the slicing copy of a PDerived: the new object is a PBase
		size_t n = o.alive() ? regNew(24, reg[o.id].val) : (integrity = 1, regNew(24, 0));
		id = (uint32_t)n; chk = pchk(reg[n].val);
	}
	virtual ~PBase() {
		if (id < reg.size() && reg[id].dtor == 0 && reg[id].dpart == 1 && integrity == 0) integrity = 6;
		regDestroy(id < reg.size() && reg[id].ty == 25 ? 25 : 24, id);
	}
	bool alive() const { return id < reg.size() && reg[id].dtor == 0 && (reg[id].ty == 24 || reg[id].ty == 25); }
	virtual void fill(ll v) { chk = pchk(v); }
	virtual bool good(ll v) const { return chk == pchk(v); }
	ll   get() const { if (!alive()) { integrity = 1; return -777; } if (!good(reg[id].val)) { if (integrity == 0) integrity = 3; } return reg[id].val; }
	void set(ll v) { if (!alive()) { integrity = 1; return; } reg[id].val = v; fill(v); }
private:
	PBase& operator=(const PBase&);
};
struct PDerived : PBase {
	uint64_t extra;
	explicit PDerived(ll v = 0) : PBase(v), extra(pext(v)) { reg[id].ty = 25; reg[id].dpart = 1; }
	PDerived(const PDerived& o) : PBase(o), extra(0) { reg[id].ty = 25; reg[id].dpart = 1; extra = pext(reg[id].val); if (!o.aliveD()) integrity = 1; }
	~PDerived() { if (aliveD() && reg[id].dpart == 1) reg[id].dpart = 2; else integrity = 1; }
	bool aliveD() const { return id < reg.size() && reg[id].dtor == 0 && reg[id].ty == 25; }
	void fill(ll v) { PBase::fill(v); extra = pext(v); }
	bool good(ll v) const { return PBase::good(v) && extra == pext(v); }
	ll   getD() const { if (!aliveD()) { integrity = 1; return -777; } return get(); }
	void setD(ll v) { if (!aliveD()) { integrity = 1; return; } set(v); }
};
static PBase* createDerivedAsBase() { return new PDerived(); }      // creator of the NotifiedValue<PBase> of a name of pseudo-type 26
// plain aggregates (trivially copyable): value v <-> all bytes
struct T12 { int a, b, c; };               // the "struct of three ints"
struct T9  { unsigned char c[9]; };
struct T16 { int a, b, c, d; };
struct T8  { int a, b; };
// internal linkage: the second translation unit declares its own, unrelated Setting / Triple / Record
namespace {
struct Setting { int level; int check; };
struct Triple  { int a, b, c; };
struct Record  { std::string name; long level; };
}
template <int K> struct BX {};             // proxy tag for the second unit's type k (h_c20_b.h)
static_assert(sizeof(void*) == 8, "model: PTR_SIZE = 8");
static_assert(sizeof(Setting) == 8 && sizeof(Triple) == 12 && sizeof(Record) == 40, "model: size_of 18..20 (and 21..23: static_assert in h_c20_b.cpp)");
static_assert(sizeof(P1) == 1 && sizeof(P4) == 4 && sizeof(P8) == 8 && sizeof(P16) == 16 && sizeof(PS) == 40 && sizeof(PV) == 32, "model: size_of 0..5");
static_assert(sizeof(bool) == 1 && sizeof(int) == 4 && sizeof(const void*) == 8 && sizeof(std::string) == 32 && sizeof(std::vector<int>) == 24, "model: size_of 6..10");
static_assert(sizeof(P9) == 9 && sizeof(P12) == 12 && sizeof(P15) == 15 && sizeof(T12) == 12 && sizeof(T9) == 9 && sizeof(T16) == 16 && sizeof(T8) == 8, "model: size_of 11..17");
static_assert(sizeof(PBase) == 16 && sizeof(PDerived) == 24, "model: size_of 24, 25");
static_assert(std::has_virtual_destructor<PBase>::value && std::is_base_of<PBase, PDerived>::value && std::is_polymorphic<PDerived>::value, "tags 24 / 25: polymorphic base and derived class");
static_assert(sizeof(Po::ValueStore) == 2 * sizeof(void*), "a holder is its vtable pointer and ONE word of storage (coq/C20/Fits.v)");

static char pool[1000];
template <class T> struct TT;
template <int TY, class B> struct TT<Pay<TY, B> > {
	typedef Pay<TY, B> T; enum { code = TY };
	static T    make(ll v) { return T(v); }
	static ll   value(const T& x) { return x.get(); }
	static void set(T& x, ll v) { x.set(v); }
	static ll   oid(const T& x) { return (ll)x.id; }
};
template <> struct TT<PBase> { typedef PBase T; enum { code = 24 };
	static T make(ll v) { return T(v); } static ll value(const T& x) { return x.get(); } static void set(T& x, ll v) { x.set(v); } static ll oid(const T& x) { return (ll)x.id; } };
template <> struct TT<PDerived> { typedef PDerived T; enum { code = 25 };
	static T make(ll v) { return T(v); } static ll value(const T& x) { return x.getD(); } static void set(T& x, ll v) { x.setD(v); } static ll oid(const T& x) { return (ll)x.id; } };
template <> struct TT<bool> { enum { code = 6 };
	static bool make(ll v) { return v != 0; } static ll value(const bool& x) { return x ? 1 : 0; } static void set(bool& x, ll v) { x = v != 0; } static ll oid(const bool&) { return -1; } };
template <> struct TT<int> { enum { code = 7 };
	static int make(ll v) { return (int)v; } static ll value(const int& x) { return x; } static void set(int& x, ll v) { x = (int)v; } static ll oid(const int&) { return -1; } };
template <> struct TT<const void*> { enum { code = 8 }; typedef const void* T;
	static T make(ll v) { return pool + v; } static ll value(const T& x) { return x ? (const char*)x - pool : 0; } static void set(T& x, ll v) { x = pool + v; } static ll oid(const T&) { return -1; } };
template <> struct TT<std::string> { enum { code = 9 }; typedef std::string T;
	static T make(ll v) { return sval(v); } static ll value(const T& x) { return x.size() > 24 ? std::atoll(x.c_str() + 24) : 0; } static void set(T& x, ll v) { x = sval(v); } static ll oid(const T&) { return -1; } };
template <> struct TT<std::vector<int> > { enum { code = 10 }; typedef std::vector<int> T;
	static T make(ll v) { return T(3 + (size_t)(v % 5), (int)v); } static ll value(const T& x) { return x.empty() ? 0 : x[0]; } static void set(T& x, ll v) { x = make(v); } static ll oid(const T&) { return -1; } };

template <> struct TT<T12> { enum { code = 14 }; typedef T12 T;
	static T make(ll v) { T x = {(int)v, (int)(v * 7 + 1), (int)~v}; return x; }
	static ll value(const T& x) { return x.b == (int)((ll)x.a * 7 + 1) && x.c == ~x.a ? x.a : -888; }
	static void set(T& x, ll v) { x = make(v); } static ll oid(const T&) { return -1; } };
template <> struct TT<T9> { enum { code = 15 }; typedef T9 T;
	static T make(ll v) { T x; x.c[0] = (unsigned char)(v & 0xff); x.c[1] = (unsigned char)((v >> 8) & 0xff); for (size_t k = 2; k != 9; ++k) x.c[k] = shb(v, k); return x; }
	static ll value(const T& x) { ll v = x.c[0] + 256 * (ll)x.c[1]; for (size_t k = 2; k != 9; ++k) { if (x.c[k] != shb(v, k)) return -888; } return v; }
	static void set(T& x, ll v) { x = make(v); } static ll oid(const T&) { return -1; } };
template <> struct TT<T16> { enum { code = 16 }; typedef T16 T;
	static T make(ll v) { T x = {(int)v, (int)(v * 7 + 1), (int)~v, (int)(v * 13 + 5)}; return x; }
	static ll value(const T& x) { return x.b == (int)((ll)x.a * 7 + 1) && x.c == ~x.a && x.d == (int)((ll)x.a * 13 + 5) ? x.a : -888; }
	static void set(T& x, ll v) { x = make(v); } static ll oid(const T&) { return -1; } };
template <> struct TT<T8> { enum { code = 17 }; typedef T8 T;
	static T make(ll v) { T x = {(int)v, (int)~v}; return x; }
	static ll value(const T& x) { return x.b == ~x.a ? x.a : -888; }
	static void set(T& x, ll v) { x = make(v); } static ll oid(const T&) { return -1; } };

template <> struct TT<Setting> { enum { code = 18 }; typedef Setting T;
	static T make(ll v) { T x = {(int)v, (int)(v * 5 + 3)}; return x; }
	static ll value(const T& x) { return x.check == (int)((ll)x.level * 5 + 3) ? x.level : -888; }
	static void set(T& x, ll v) { x = make(v); } static ll oid(const T&) { return -1; } };
template <> struct TT<Triple> { enum { code = 19 }; typedef Triple T;
	static T make(ll v) { T x = {(int)v, (int)(v * 11 + 2), (int)(v ^ 0x5a5a)}; return x; }
	static ll value(const T& x) { return x.b == (int)((ll)x.a * 11 + 2) && x.c == (int)((ll)x.a ^ 0x5a5a) ? x.a : -888; }
	static void set(T& x, ll v) { x = make(v); } static ll oid(const T&) { return -1; } };
template <> struct TT<Record> { enum { code = 20 }; typedef Record T;
	static T make(ll v) { T x; x.name = sval(v); x.level = (long)v; return x; }
	static ll value(const T& x) { return x.name == sval(x.level) ? x.level : -888; }
	static void set(T& x, ll v) { x = make(v); } static ll oid(const T&) { return -1; } };

enum { NTY = 26, FIRST_B = 21, P_BASE = 24, P_DERIVED = 25, ADOPT_DERIVED = 26 };
// the type a client object / a map name of (pseudo-)type ty is owned, adopted and registered AS
static ll staticTy(ll ty) { return ty == ADOPT_DERIVED ? (ll)P_BASE : ty; }
// the other class of the polymorphic pair (-1: none)
static int kin(ll ty) { return ty == P_BASE ? (int)P_DERIVED : ty == P_DERIVED ? (int)P_BASE : -1; }
// the type of the same spelling in the other translation unit (-1: none)
static int twin(ll ty) { return ty >= 18 && ty <= 20 ? (int)ty + 3 : ty >= 21 && ty <= 23 ? (int)ty - 3 : -1; }
template <class F> static void dispatch(ll ty, F f) {
	switch (ty) {
		case 0: f((P1*)0); break; case 1: f((P4*)0); break; case 2: f((P8*)0); break; case 3: f((P16*)0); break;
		case 4: f((PS*)0); break; case 5: f((PV*)0); break; case 6: f((bool*)0); break; case 7: f((int*)0); break;
		case 8: f((const void**)0); break; case 9: f((std::string*)0); break; case 10: f((std::vector<int>*)0); break;
		case 11: f((P9*)0); break; case 12: f((P12*)0); break; case 13: f((P15*)0); break;
		case 14: f((T12*)0); break; case 15: f((T9*)0); break; case 16: f((T16*)0); break; case 17: f((T8*)0); break;
		case 18: f((Setting*)0); break; case 19: f((Triple*)0); break; case 20: f((Record*)0); break;
		case 21: f((BX<0>*)0); break; case 22: f((BX<1>*)0); break; case 23: f((BX<2>*)0); break;
		case 24: f((PBase*)0); break; case 25: f((PDerived*)0); break;
		default: break;
	}
}
#define TYPE_OF(tag) typename std::remove_pointer<decltype(tag)>::type
static ll norm(ll ty, ll v) { ll m = ty == 6 ? 2 : 1000; ll r = v % m; return r < 0 ? r + m : r; }
static bool okty(ll ty) { return ty >= 0 && ty < NTY; }
static bool inplace(const Po::ValueStore& s) { return !s.empty() && s.extract_raw() == (void*)&s.value_; }

template <class T> static bool parseT(const std::string& s, T& out) {
	if (s == "bad") return false;
	TT<T>::set(out, std::atoll(s.c_str()));
	return true;
}
static std::string mname(ll n) { return "name" + std::to_string(n); }

// ------------------------------------------------------------------------------------------------------------
// `h = T(v)` through ValueStore::operator=(const T&) (op 3, assign_val).
// Value semantics make the origin of the assigned object invisible, so the model op assign_val(i, ty, v) specifies the
// result wherever the argument lives.  Whenever the holder's CURRENT value already contains an object equal to T(v),
// the harness passes an ALIAS of that object - the argument then lives inside the very value operator= is about to
// release (an implementation that releases the old value before it has copied the new one reads a dead object):
//   T(v) held                          h = value_cast<T>(h)                         (every type, in place and heap)
//   PS(v) held, std::string asked      h = value_cast<PS>(h).s                      (heap record -> its heap member)
//   PV(v) held, vector<int> asked      h = value_cast<PV>(h).v                      (heap record -> its heap member)
//   vector<int>(v) held, int asked     h = value_cast<std::vector<int> >(h)[0]      (heap container -> in-place element)
// otherwise an independent object is passed.  The model's assign_val constructs the argument T(v) first and destroys it
// last (one more instrumented object): the harness keeps exactly that object alive around the assignment in both
// forms, so that ids and constructor / destructor counts stay those of the model.
// ------------------------------------------------------------------------------------------------------------
template <class T> static const T* partOf(const Po::ValueStore&, ll, T*) { return 0; }
static const std::string* partOf(const Po::ValueStore& s, ll v, std::string*) {
	const PS* p = Po::value_cast<PS>(&s);
	return p && p->get() == v && p->s == sval(v) ? &p->s : 0;
}
static const std::vector<int>* partOf(const Po::ValueStore& s, ll v, std::vector<int>*) {
	const PV* p = Po::value_cast<PV>(&s);
	return p && p->get() == v && p->v == TT<std::vector<int> >::make(v) ? &p->v : 0;
}
static const int* partOf(const Po::ValueStore& s, ll v, int*) {
	const std::vector<int>* p = Po::value_cast<std::vector<int> >(&s);
	return p && !p->empty() && (*p)[0] == (int)v ? &(*p)[0] : 0;
}
template <class T> static const T* aliasOf(const Po::ValueStore& s, ll v) {
	if (s.empty()) return 0;
	if (const T* p = Po::value_cast<T>(&s)) {
		// handed out although the holder holds another type (type_info identity): never read as a T
		if (s.type() != typeid(T)) { if (integrity == 0) integrity = 4; return 0; }
		return TT<T>::value(*p) == v ? p : 0;
	}
	return partOf(s, v, (T*)0);
}
template <class T> static void assignVal(Po::ValueStore& s, ll v) {
	T arg(TT<T>::make(v));                 // the T(v) of the model (guaranteed elision: one object)
	if (const T* a = aliasOf<T>(s, v)) { s = *a; }
	else                               { s = arg; }
}

// ------------------------------------------------------------------------------------------------------------
// Y<T>: how each typed operation of the case alphabet is done for type T - generic for the types this unit can name,
// forwarded to the second translation unit for its types (proxy BX<k>).
// `cast` is the whole value_cast family on one holder: pointer form, reference form, non-const forms and the unchecked form
// must agree (integrity 5 otherwise); an access that is ACCEPTED although the holder's type() is not T (type_info identity)
// sets integrity 4 and reports the value B_FOREIGN - the object is never read through the wrong type.
// ------------------------------------------------------------------------------------------------------------
template <class T> struct Y {
	static bool holds(const Po::ValueStore& s) { return !s.empty() && s.type() == typeid(T); }
	static Po::ValueStore* construct(ll v) { return new Po::ValueStore(TT<T>::make(v)); }
	static void  assign(Po::ValueStore& s, ll v) { assignVal<T>(s, v); }
	static void* cnew(ll v) { return new T(TT<T>::make(v)); }
	static void  cdel(void* p) { delete static_cast<T*>(p); }
	static void  adopt(Po::ValueStore& s, void* p) { s.assimilate(static_cast<T*>(p)); }
	static void  destroyInPlace(void* p) { static_cast<T*>(p)->~T(); }
	static ll    objValue(const void* p) { return TT<T>::value(*static_cast<const T*>(p)); }
	static ll    objId(const void* p) { return TT<T>::oid(*static_cast<const T*>(p)); }
	static void  setThrough(Po::ValueStore& s, ll v) { TT<T>::set(Po::value_cast<T>(s), v); }
	static void  read(const Po::ValueStore& s, ll& val, ll& id) { const T& x = Po::value_cast<T>(s); val = TT<T>::value(x); id = TT<T>::oid(x); }
	static bool  cast(const Po::ValueStore& s, ll& val) {
		const T* p = Po::value_cast<T>(&s);
		bool thrown = false; const T* q = 0;
		try { q = &Po::value_cast<T>(s); } catch (const Po::bad_value_cast&) { thrown = true; }
		bool agree = true;
		if ((p == 0) != thrown || (p != 0 && p != q)) agree = false;
		if (p != 0 && Po::unsafe_value_cast<T>(&s) != p) agree = false;
		Po::ValueStore& m = const_cast<Po::ValueStore&>(s);
		if (Po::value_cast<T>(&m) != p) agree = false;
		if (!agree && integrity == 0) integrity = 5;
		val = 0;
		if (p == 0 && thrown) return false;
		if (p != 0 && holds(s)) { val = TT<T>::value(*p); }
		else { val = B_FOREIGN; if (integrity == 0) integrity = 4; }
		return true;
	}
	static void  mapAdd(Po::ValueMap* m, const std::string& name, const void* p) { Po::ValueMap::add<T>(m, name, static_cast<const T*>(p)); }
	static Po::Value* makeNV(Po::ValueMap& m) { return Po::store<T>(m, &parseT<T>); }
};
template <int K> struct Y<BX<K> > {
	static bool holds(const Po::ValueStore& s) { return b_holds(s, K); }
	static Po::ValueStore* construct(ll v) { return b_construct(K, (long)v); }
	static void  assign(Po::ValueStore& s, ll v) { b_store(s, K, (long)v); }
	static void* cnew(ll v) { return b_new(K, (long)v); }
	static void  cdel(void* p) { b_delete(K, p); }
	static void  adopt(Po::ValueStore& s, void* p) { b_adopt(s, K, p); }
	static void  destroyInPlace(void* p) { b_destroy_in_place(K, p); }
	static ll    objValue(const void* p) { return b_value(K, p); }
	static ll    objId(const void*) { return -1; }
	static void  setThrough(Po::ValueStore& s, ll v) { b_set_through(s, K, (long)v); }
	static void  read(const Po::ValueStore& s, ll& val, ll& id) { val = b_read(s, K); id = -1; }
	static bool  cast(const Po::ValueStore& s, ll& val) {
		long r = 0; int agree = 1;
		int acc = b_probe(s, K, &r, &agree);
		if (!agree && integrity == 0) integrity = 5;
		val = r;
		if (acc && r == B_FOREIGN && integrity == 0) integrity = 4;
		return acc != 0;
	}
	static void  mapAdd(Po::ValueMap* m, const std::string& name, const void* p) { b_map_add(m, name, K, p); }
	static Po::Value* makeNV(Po::ValueMap& m) { return b_make_nv(m, K); }
};
static int tcode(const Po::ValueStore& s) {
	if (s.empty()) return -1;
	int r = -2, n = 0;
	for (int t = 0; t != NTY; ++t) dispatch(t, [&](auto* tag) { typedef TYPE_OF(tag) T; if (Y<T>::holds(s)) { r = t; ++n; } });
	if (n > 1) integrity = 1;       // type() answers for two different types of the table
	return r;
}

// ------------------------------------------------------------------------------------------------------------
// part A
// ------------------------------------------------------------------------------------------------------------
struct CObj { int ty; void* p; };
struct A {
	std::vector<Po::ValueStore*> h;
	Po::ValueMap* vm;
	std::vector<Po::Value*> nv;
	std::vector<ll> tys;
	std::vector<CObj> cl;
	ll H, M;
	Obs& o;
	A(Obs& out) : vm(0), H(0), M(0), o(out) {}
	bool okh(ll i) const { return i >= 0 && i < H; }
	bool okm(ll n) const { return n >= 0 && n < M; }
	Po::Value* makeNV(ll n) {
		Po::Value* r = 0;
		// pseudo-type 26: what store<PBase>(map, parser) builds, but with a creator that returns a new PDerived as PBase*
		if (tys[(size_t)n] == ADOPT_DERIVED) return new Po::NotifiedValue<PBase>(&createDerivedAsBase, Po::detail::Notifier<const PBase*>(vm, &Po::ValueMap::add<PBase>), &parseT<PBase>);
		dispatch(tys[(size_t)n], [&](auto* tag) { typedef TYPE_OF(tag) T; r = Y<T>::makeNV(*vm); });
		return r;
	}
	void resetNV(ll n) { delete nv[(size_t)n]; nv[(size_t)n] = makeNV(n); }
	const Po::ValueStore* src(ll j) {
		if (okh(j)) return h[(size_t)j];
		ll n = j - H;
		if (okm(n) && vm->count(mname(n)) != 0) return &(*vm)[mname(n)];
		return 0;
	}
	void dumpHolder(const Po::ValueStore& s) {
		int t = tcode(s);
		if (t < 0) { o.add(t); o.add(0); o.add(0); o.add(-1); return; }
		// a typed holder without an object (an adopted null pointer that outlived its op 18): report the type, never dereference
		if (s.extract_raw() == 0) { o.add(t); o.add(0); o.add(0); o.add(-2); return; }
		dispatch(t, [&](auto* tag) { typedef TYPE_OF(tag) T;
			ll val = 0, id = -1;
			Y<T>::read(s, val, id);
			o.add(t); o.add(val); o.add(inplace(s) ? 1 : 0); o.add(id);
		});
		// the type of the same spelling in the other translation unit is another type: access through it must be refused
		// (nothing is printed; an accepted access sets integrity 4)
		if (twin(t) >= 0) dispatch(twin(t), [&](auto* tag) { typedef TYPE_OF(tag) T; ll val = 0; if (Y<T>::cast(s, val) && integrity == 0) integrity = 4; });
		// the other class of the polymorphic pair is another type as well - whatever the dynamic type of the held object is
		if (kin(t) >= 0) dispatch(kin(t), [&](auto* tag) { typedef TYPE_OF(tag) T; ll val = 0; if (Y<T>::cast(s, val) && integrity == 0) integrity = 4; });
	}
	static void dumpLive(Obs& o) {
		size_t n = 0; ll d = 0;
		for (size_t i = 0; i != reg.size(); ++i) { n += reg[i].dtor == 0; d += reg[i].dtor; }
		o.add((ll)n);
		for (size_t i = 0; i != reg.size(); ++i) { if (reg[i].dtor == 0) o.add((ll)i); }
		o.add(d);
		o.add((ll)reg.size());
	}
	void dump() {
		for (ll i = 0; i != H; ++i) dumpHolder(*h[(size_t)i]);
		static const Po::ValueStore none;
		for (ll n = 0; n != M; ++n) {
			bool pres = vm->count(mname(n)) != 0;
			o.add(pres ? 1 : 0);
			o.add(nv[(size_t)n]->hasProperty(Po::Value::property_location) ? 1 : 0);
			dumpHolder(pres ? (*vm)[mname(n)] : none);
		}
		o.add((ll)cl.size());
		for (size_t k = 0; k != cl.size(); ++k) {
			dispatch(cl[k].ty, [&](auto* tag) { typedef TYPE_OF(tag) T;
				o.add(cl[k].ty); o.add(Y<T>::objValue(cl[k].p)); o.add(Y<T>::objId(cl[k].p));
			});
		}
		dumpLive(o);
		o.add(integrity);
	}
	// value_cast family on one holder: pointer form, reference form and the unchecked form must agree
	void castObs(const Po::ValueStore& s, ll ty) {
		if (!okty(ty)) { o.add(0); o.add(0); return; }
		dispatch(ty, [&](auto* tag) { typedef TYPE_OF(tag) T;
			ll val = 0;
			if (Y<T>::cast(s, val)) { o.add(1); o.add(val); } else { o.add(0); o.add(0); }
		});
	}
	void run(Case& c) {
		H = c.next(); M = c.next();
		if (H < 0 || H > 8 || M < 0 || M > 8) { o.add(-999); return; }
		for (ll n = 0; n != M; ++n) { ll t = c.next() % (NTY + 1); if (t < 0) t += NTY + 1; tys.push_back(t); }
		for (ll i = 0; i != H; ++i) h.push_back(new Po::ValueStore());
		vm = new Po::ValueMap();
		for (ll n = 0; n != M; ++n) nv.push_back(makeNV(n));
		int nops = 0;
		while (c.more() && nops++ < 120) {
			ll op = c.next();
			if (op == 1 || op == 3) {
				if (c.v.size() - c.p < 3) break;
				ll i = c.next(), ty = c.next(), v = c.next();
				if (okh(i) && okty(ty)) dispatch(ty, [&](auto* tag) { typedef TYPE_OF(tag) T;
					if (op == 1) { Po::ValueStore* n = Y<T>::construct(norm(ty, v)); delete h[(size_t)i]; h[(size_t)i] = n; }
					else         { Y<T>::assign(*h[(size_t)i], norm(ty, v)); }
				});
			}
			else if (op == 2 || op == 4) {
				if (c.v.size() - c.p < 2) break;
				ll i = c.next(), j = c.next();
				const Po::ValueStore* s = okh(i) ? src(j) : 0;
				if (s) {
					if (op == 2) { Po::ValueStore* n = new Po::ValueStore(*s); delete h[(size_t)i]; h[(size_t)i] = n; }
					else         { *h[(size_t)i] = *s; }
				}
			}
			else if (op == 5) {
				if (c.v.size() - c.p < 2) break;
				ll i = c.next(), j = c.next();
				if (okh(i) && okh(j)) h[(size_t)i]->swap(*h[(size_t)j]);
			}
			else if (op == 6) {
				if (c.v.size() - c.p < 1) break;
				ll i = c.next();
				if (okh(i)) h[(size_t)i]->clear();
			}
			else if (op == 7) {
				if (c.v.size() - c.p < 2) break;
				ll ty = c.next(), v = c.next();
				if (ty == ADOPT_DERIVED) {
					// PBase* p = new PDerived(v): from here on the client's object is a PBase (tag 24) for every operation
					PBase* p = new PDerived(norm(P_BASE, v));
					CObj x = {(int)P_BASE, p}; cl.push_back(x);
				}
				else if (okty(ty)) dispatch(ty, [&](auto* tag) { typedef TYPE_OF(tag) T;
					CObj x = {(int)ty, Y<T>::cnew(norm(ty, v))}; cl.push_back(x);
				});
			}
			else if (op == 8) {
				if (c.v.size() - c.p < 1) break;
				ll k = c.next();
				if (k >= 0 && (size_t)k < cl.size()) {
					dispatch(cl[(size_t)k].ty, [&](auto* tag) { typedef TYPE_OF(tag) T; Y<T>::cdel(cl[(size_t)k].p); });
					cl.erase(cl.begin() + k);
				}
			}
			else if (op == 9) {
				if (c.v.size() - c.p < 2) break;
				ll i = c.next(), k = c.next();
				if (okh(i) && k >= 0 && (size_t)k < cl.size()) {
					dispatch(cl[(size_t)k].ty, [&](auto* tag) { typedef TYPE_OF(tag) T; Y<T>::adopt(*h[(size_t)i], cl[(size_t)k].p); });
					cl.erase(cl.begin() + k);
				}
			}
			else if (op == 10) {
				if (c.v.size() - c.p < 1) break;
				ll i = c.next();
				if (okh(i) && !h[(size_t)i]->empty()) {
					Po::ValueStore& s = *h[(size_t)i];
					int t = tcode(s); bool inp = inplace(s); void* p = s.extract_raw();
					s.surrender();
					dispatch(t, [&](auto* tag) { typedef TYPE_OF(tag) T;
						if (inp) { Y<T>::destroyInPlace(p); }
						else     { CObj x = {t, p}; cl.push_back(x); }
					});
				}
			}
			else if (op == 11) {
				if (c.v.size() - c.p < 2) break;
				ll i = c.next(), v = c.next();
				if (okh(i) && !h[(size_t)i]->empty()) {
					int t = tcode(*h[(size_t)i]);
					dispatch(t, [&](auto* tag) { typedef TYPE_OF(tag) T; Y<T>::setThrough(*h[(size_t)i], norm(t, v)); });
				}
			}
			else if (op == 12) {
				if (c.v.size() - c.p < 2) break;
				ll i = c.next(), ty = c.next();
				if (okh(i)) castObs(*h[(size_t)i], ty);
			}
			else if (op == 13) {
				if (c.v.size() - c.p < 2) break;
				ll n = c.next(), k = c.next();
				if (okm(n) && k >= 0 && (size_t)k < cl.size()) {
					dispatch(cl[(size_t)k].ty, [&](auto* tag) { typedef TYPE_OF(tag) T;
						Y<T>::mapAdd(vm, mname(n), cl[(size_t)k].p);
					});
					cl.erase(cl.begin() + k);
					resetNV(n);
				}
			}
			else if (op == 14) {
				if (c.v.size() - c.p < 1) break;
				ll n = c.next();
				if (okm(n) && vm->count(mname(n)) != 0) {
					const Po::ValueStore& e = (*vm)[mname(n)];
					if (!e.empty() && !inplace(e)) {
						dispatch(tcode(e), [&](auto* tag) { typedef TYPE_OF(tag) T;
							Y<T>::mapAdd(vm, mname(n), e.extract_raw());
						});
					}
				}
			}
			else if (op == 15) {
				vm->clear();
				for (ll n = 0; n != M; ++n) resetNV(n);
			}
			else if (op == 16) {
				if (c.v.size() - c.p < 2) break;
				ll n = c.next(), ty = c.next();
				if (okm(n)) {
					bool pres = vm->count(mname(n)) != 0, thrown = false;
					const Po::ValueStore* e = 0;
					try { e = &(*vm)[mname(n)]; } catch (const Po::UnknownOption&) { thrown = true; }
					if (pres == thrown) integrity = 1;
					if (e) { o.add(1); castObs(*e, ty); } else { o.add(0); o.add(0); o.add(0); }
				}
			}
			else if (op == 17) {
				if (c.v.size() - c.p < 3) break;
				ll n = c.next(), v = c.next(), ok = c.next();
				if (okm(n)) {
					std::string text = ok == 0 ? std::string("bad") : std::to_string(norm(staticTy(tys[(size_t)n]), v));
					o.add(nv[(size_t)n]->parse(mname(n), text) ? 1 : 0);
				}
			}
			else if (op == 18) {
				// h[i]->assimilate((T*)0): legal (delete (T*)0 is valid).  The holder is then non-empty, of type T, and holds no object;
				// printed: !empty(), the type code type() answers, extract_raw() == 0.  Then one of four ways out, each leaving it empty.
				if (c.v.size() - c.p < 3) break;
				ll i = c.next(), ty = staticTy(c.next()), how = c.next();
				if (okh(i) && okty(ty)) {
					dispatch(ty, [&](auto* tag) { typedef TYPE_OF(tag) T; Y<T>::adopt(*h[(size_t)i], static_cast<void*>(0)); });
					Po::ValueStore& s = *h[(size_t)i];
					o.add(s.empty() ? 0 : 1); o.add(tcode(s)); o.add(!s.empty() && s.extract_raw() == 0 ? 1 : 0);
					switch (((how % 4) + 4) % 4) {
						case 0: s.clear(); break;
						case 1: s.surrender(); break;
						case 2: delete h[(size_t)i]; h[(size_t)i] = new Po::ValueStore(); break;
						default: s = Po::ValueStore(); break;
					}
				}
			}
			else break;
			dump();
		}
	}
	void finish() {
		for (size_t i = 0; i != h.size(); ++i) delete h[i];
		delete vm;
		for (size_t i = 0; i != nv.size(); ++i) delete nv[i];
		dumpLive(o);
		o.add(integrity);
		for (size_t k = 0; k != cl.size(); ++k) dispatch(cl[k].ty, [&](auto* tag) { typedef TYPE_OF(tag) T; Y<T>::cdel(cl[k].p); });
	}
};

// ------------------------------------------------------------------------------------------------------------
// part B
// ------------------------------------------------------------------------------------------------------------
// the integer ranges tools/consts/C20.py assigns to the declared type of RefCountable::refCount_ (LP64, two's complement)
static_assert(sizeof(short) == 2 && sizeof(int) == 4 && sizeof(long) == 8 && sizeof(long long) == 8 && sizeof(void*) == 8 && CHAR_BIT == 8, "tools/consts/C20.py INT_TYPES assumes LP64");
static_assert(sizeof(Po::SharedOptPtr) == sizeof(void*), "a holder is one pointer (coq/C20/Refcount.v: refcount_range_sufficient)");
static std::vector<int> odead;
struct TrackedValue : Po::Value {
	explicit TrackedValue(size_t k) : Po::Value(0), id(k) {}
	~TrackedValue() { ++odead[id]; }
	bool doParse(const std::string&, const std::string&) { return true; }
	size_t id;
};
// A "ParsedValues" container of part B: the object the client fills through ParsedValues::add plus the RESULTS of real parser runs it keeps
// (each result is a ParsedValues built inside the library: its handles were made by CommandLineParser / DefaultContext::addValue).
struct PVBox {
	Po::ParsedValues base;
	std::vector<Po::ParsedValues*> kept;
	explicit PVBox(const Po::OptionContext& d) : base(d) {}
	~PVBox() {
		// results go away in an order that depends on their number (both directions occur)
		if (kept.size() % 2) { for (size_t i = kept.size(); i--;) delete kept[i]; }
		else                 { for (size_t i = 0; i != kept.size(); ++i) delete kept[i]; }
	}
	ll size() const {
		ll n = (ll)std::distance(base.begin(), base.end());
		for (size_t i = 0; i != kept.size(); ++i) n += (ll)std::distance(kept[i]->begin(), kept[i]->end());
		return n;
	}
};
struct B {
	std::vector<Po::Option*> raw;
	std::vector<Po::SharedOptPtr*> p;
	std::vector<void*> cont;
	std::vector<Po::SharedOptPtr> pool;   // the client's own handle copies (model: container index C), newest at the back
	Po::OptionContext dummy;
	ll S, C;
	Obs& o;
	B(Obs& out) : S(0), C(0), o(out) {}
	bool okp(ll i) const { return i >= 0 && i < S; }
	bool okc(ll c) const { return c >= 0 && c < C; }
	void* makeCont(ll c) {
		switch (c % 3) {
			case 0: return new Po::OptionGroup("grp");
			case 1: return new PVBox(dummy);
			default: return new Po::OptionContext("ctx");
		}
	}
	void dropCont(ll c) {
		switch (c % 3) {
			case 0: delete static_cast<Po::OptionGroup*>(cont[(size_t)c]); break;
			case 1: delete static_cast<PVBox*>(cont[(size_t)c]); break;
			default: delete static_cast<Po::OptionContext*>(cont[(size_t)c]); break;
		}
	}
	ll contSize(ll c) {
		switch (c % 3) {
			case 0: return (ll)static_cast<Po::OptionGroup*>(cont[(size_t)c])->size();
			case 1: return static_cast<PVBox*>(cont[(size_t)c])->size();
			default: {
				Po::OptionContext* x = static_cast<Po::OptionContext*>(cont[(size_t)c]);
				ll n = (ll)x->options_.size();
				for (size_t g = 0; g != x->groups_.size(); ++g) n += (ll)x->groups_[g].size();
				return n;
			}
		}
	}
	// Model op RPush(c, i) on a ParsedValues container = "the container holds one more handle of option *p[i]".  Besides the direct
	// ParsedValues::add(sp, value) the harness obtains that handle the way an application does: it PARSES a command line that mentions
	// the option once over a context that has registered it (a context container of the case, or a temporary one) and keeps the
	// resulting ParsedValues.  Around that parse it runs command lines that must not leave any handle behind: `--no-<name>` for
	// negatable and non-negatable options, unknown names, ambiguous / unique prefixes, strict (UnknownOption is caught) and with
	// unregistered options allowed.  Everything temporary is destroyed before the state is dumped, so for a correct library the net
	// effect is exactly one more holder - the variant is chosen from the case (`sel`), the model does not see it.
	static void runLine(const std::vector<std::string>& toks, const Po::OptionContext& over, bool allowUnreg, bool asString, Po::ParsedValues** keep) {
		if (asString) {
			std::string cmd;
			for (size_t i = 0; i != toks.size(); ++i) { if (i) cmd += ' '; cmd += toks[i]; }
			if (keep) *keep = new Po::ParsedValues(Po::parseCommandString(cmd, over, allowUnreg));
			else { Po::ParsedValues r = Po::parseCommandString(cmd, over, allowUnreg); (void)r; }
		}
		else {
			std::vector<const char*> args;
			for (size_t i = 0; i != toks.size(); ++i) args.push_back(toks[i].c_str());
			args.push_back(0);
			if (keep) *keep = new Po::ParsedValues(Po::parseCommandArray(args.data(), (unsigned)toks.size(), over, allowUnreg));
			else { Po::ParsedValues r = Po::parseCommandArray(args.data(), (unsigned)toks.size(), over, allowUnreg); (void)r; }
		}
	}
	static void noise(const std::vector<std::string>& toks, const Po::OptionContext& over, bool allowUnreg, bool asString) {
		try { runLine(toks, over, allowUnreg, asString, 0); }
		catch (const std::exception&) {}
	}
	void pushParsed(PVBox* box, const Po::SharedOptPtr& sp, unsigned sel) {
		if (sel % 8 == 0) { box->base.add(sp, "v"); return; }
		const Po::OptionContext* over = 0;
		if (((sel >> 3) & 1) == 0) {
			for (ll k = 2; k < C && !over; k += 3) {
				const Po::OptionContext* x = static_cast<Po::OptionContext*>(cont[(size_t)k]);
				for (Po::OptionContext::option_iterator it = x->begin(); it != x->end(); ++it) { if (it->get() == sp.get()) over = x; }
			}
		}
		std::unique_ptr<Po::OptionContext> tmp;
		if (!over) {
			tmp.reset(new Po::OptionContext("tmp"));
			Po::OptionGroup g("grp");
			g.addOption(sp);
			tmp->add(g);
			over = tmp.get();
		}
		const std::string nm = sp->name();
		const bool asString = (sel & 2) != 0;
		std::vector<std::string> one(1);
		// strict: --no-<name> for this option and up to three others of the context (non-negatable: UnknownOption; negatable: a discarded result)
		one[0] = "--no-" + nm; noise(one, *over, false, asString);
		size_t others = 0;
		for (Po::OptionContext::option_iterator it = over->begin(); it != over->end() && others != 3; ++it) {
			if (it->get() != sp.get()) { one[0] = "--no-" + (*it)->name(); noise(one, *over, false, !asString); ++others; }
		}
		one[0] = "--no-zzz"; noise(one, *over, false, asString);
		one[0] = "--no-" + nm.substr(0, 1); noise(one, *over, false, asString);     // prefix: unique or ambiguous
		if (sel & 1) {
			std::vector<std::string> l;
			l.push_back("--no-" + nm); l.push_back("--no-zzz"); l.push_back("--zzz=1"); l.push_back("--no-" + nm.substr(0, 1)); l.push_back("--no-" + nm + "=x");
			noise(l, *over, true, asString);
		}
		// the line whose result is kept: mentions the option exactly once
		std::vector<std::string> line;
		if (sp->value()->isNegatable() && (sel & 1)) { line.push_back("--no-" + nm); }
		else if (sel & 4) { line.push_back("--" + nm + "=v"); }
		else { line.push_back("--" + nm); line.push_back("v"); }
		Po::ParsedValues* res = 0;
		try { runLine(line, *over, false, asString, &res); } catch (const std::exception&) { res = 0; }
		if (res && std::distance(res->begin(), res->end()) == 1 && res->begin()->first.get() == sp.get()) {
			res->ctx = &dummy;            // the context parsed over may go away before the result does
			box->kept.push_back(res);
		}
		else {
			integrity = 1;                // the parser did not return exactly the one mentioned option
			delete res;
			box->base.add(sp, "v");
		}
	}
	// Model op RPushN(c, i, k) on a ParsedValues container = "the container holds k more handles of option *p[i]": one parse of a generated
	// config text / command line in which the option occurs k times (the way a composing option is given), result kept; or k direct adds.
	void pushParsedN(PVBox* box, const Po::SharedOptPtr& sp, ll k, unsigned sel) {
		if (k == 0) return;
		if (sel % 3 == 0) { for (ll n = 0; n != k; ++n) box->base.add(sp, "v"); return; }
		const Po::OptionContext* over = 0;
		for (ll c = 2; c < C && !over; c += 3) {
			const Po::OptionContext* x = static_cast<Po::OptionContext*>(cont[(size_t)c]);
			for (Po::OptionContext::option_iterator it = x->begin(); it != x->end(); ++it) { if (it->get() == sp.get()) over = x; }
		}
		std::unique_ptr<Po::OptionContext> tmp;
		if (!over) {
			tmp.reset(new Po::OptionContext("tmp"));
			Po::OptionGroup g("grp");
			g.addOption(sp);
			tmp->add(g);
			over = tmp.get();
		}
		const std::string nm = sp->name();
		Po::ParsedValues* res = 0;
		try {
			if (sel % 3 == 1) {
				std::string cfg;
				for (ll n = 0; n != k; ++n) { cfg += nm; cfg += " = 1\n"; }
				std::istringstream in(cfg);
				res = new Po::ParsedValues(Po::parseCfgFile(in, *over, false));
			}
			else {
				const std::string tok = "--" + nm + "=v";
				std::vector<const char*> args((size_t)k, tok.c_str());
				args.push_back(0);
				res = new Po::ParsedValues(Po::parseCommandArray(args.data(), (unsigned)k, *over, false));
			}
		}
		catch (const std::exception&) { res = 0; }
		bool good = res && std::distance(res->begin(), res->end()) == k;
		if (good) { for (Po::ParsedValues::iterator it = res->begin(); it != res->end(); ++it) good = good && it->first.get() == sp.get(); }
		if (good) {
			res->ctx = &dummy;
			box->kept.push_back(res);
		}
		else {
			integrity = 1;                // the parser did not return exactly k entries for the option
			delete res;
			for (ll n = 0; n != k; ++n) box->base.add(sp, "v");
		}
	}
	ll idOf(const Po::Option* x) const { for (size_t k = 0; k != raw.size(); ++k) { if (raw[k] == x) return (ll)k; } return -2; }
	void dump(bool gone) {
		for (size_t k = 0; k != raw.size(); ++k) {
			bool alive = odead[k] == 0;
			o.add(alive ? 1 : 0); o.add(alive ? raw[k]->refCount() : -1); o.add(odead[k]);
		}
		for (ll i = 0; i != S; ++i) {
			if (gone) { o.add(-1); o.add(0); continue; }
			const Po::Option* x = p[(size_t)i]->get();
			if (!x) {
				if (p[(size_t)i]->count() != 0 || !p[(size_t)i]->unique()) integrity = 1;
				o.add(-1); o.add(0);
				continue;
			}
			ll id = idOf(x);
			o.add(id);
			if (id >= 0 && odead[(size_t)id] == 0) {
				// what the handle reports: count() in full, consistent with refCount() / unique()
				if (p[(size_t)i]->count() != x->refCount() || p[(size_t)i]->unique() != (x->refCount() == 1)) integrity = 1;
				o.add(p[(size_t)i]->count());
			}
			else o.add(-1);                 // the option is gone although this handle still refers to it: not dereferenced
		}
		for (ll c = 0; c != C; ++c) o.add(gone ? 0 : contSize(c));
		o.add(gone ? 0 : (ll)pool.size());
		o.add(integrity);
	}
	bool run(Case& c) {
		S = c.next(); C = c.next();
		if (S < 0 || S > 8 || C < 0 || C > 9) { o.add(-999); return false; }
		for (ll i = 0; i != S; ++i) p.push_back(new Po::SharedOptPtr());
		for (ll k = 0; k != C; ++k) cont.push_back(makeCont(k));
		int nops = 0;
		while (c.more() && nops++ < 120) {
			ll op = c.next();
			if (op == 1) {
				if (c.v.size() - c.p < 1) break;
				ll i = c.next();
				if (okp(i)) {
					size_t k = raw.size();
					odead.push_back(0);
					TrackedValue* tv = new TrackedValue(k);
					if (k % 3 == 1) tv->negatable();       // every third option accepts --no-<name>
					Po::Option* x = new Po::Option("o" + std::to_string(k), 0, "", tv);
					raw.push_back(x);
					*p[(size_t)i] = Po::SharedOptPtr(x);
				}
			}
			else if (op == 2 || op == 3) {
				if (c.v.size() - c.p < 2) break;
				ll i = c.next(), j = c.next();
				if (okp(i) && okp(j)) {
					if (op == 2) { *p[(size_t)i] = *p[(size_t)j]; }
					else { Po::SharedOptPtr* n = new Po::SharedOptPtr(*p[(size_t)j]); delete p[(size_t)i]; p[(size_t)i] = n; }
				}
			}
			else if (op == 4) {
				if (c.v.size() - c.p < 1) break;
				ll i = c.next();
				if (okp(i)) p[(size_t)i]->reset();
			}
			else if (op == 5) {
				if (c.v.size() - c.p < 2) break;
				ll i = c.next(), j = c.next();
				if (okp(i) && okp(j)) p[(size_t)i]->swap(*p[(size_t)j]);
			}
			else if (op == 6) {
				if (c.v.size() - c.p < 2) break;
				ll k = c.next(), i = c.next();
				if (okc(k) && okp(i) && p[(size_t)i]->get() != 0) {
					const Po::SharedOptPtr& sp = *p[(size_t)i];
					switch (k % 3) {
						case 0: static_cast<Po::OptionGroup*>(cont[(size_t)k])->addOption(sp); break;
						case 1: pushParsed(static_cast<PVBox*>(cont[(size_t)k]), sp, (unsigned)(nops * 5 + i * 3 + k + (ll)raw.size())); break;
						default: {
							Po::OptionGroup g("grp");
							g.addOption(sp);
							try { static_cast<Po::OptionContext*>(cont[(size_t)k])->add(g); } catch (const Po::DuplicateOption&) {}
						}
					}
				}
			}
			else if (op == 7) {
				if (c.v.size() - c.p < 1) break;
				ll k = c.next();
				if (okc(k)) { dropCont(k); cont[(size_t)k] = makeCont(k); }
			}
			else if (op == 8) {
				// k further holders of *p[i] at once: real handle copies in the pool (k == C) or in container k
				if (c.v.size() - c.p < 3) break;
				ll k = c.next(), i = c.next(), n = c.next();
				if ((okc(k) || k == C) && okp(i) && n >= 0 && n <= 100000 && p[(size_t)i]->get() != 0) {
					const Po::SharedOptPtr& sp = *p[(size_t)i];
					unsigned sel = (unsigned)(nops * 5 + i * 3 + k + n + (ll)raw.size());
					if (k == C) {
						if (sel & 1) pool.reserve(pool.size() + (size_t)n);      // with / without reallocation copies
						for (ll x = 0; x != n; ++x) pool.push_back(sp);
					}
					else switch (k % 3) {
						case 0: for (ll x = 0; x != n; ++x) static_cast<Po::OptionGroup*>(cont[(size_t)k])->addOption(sp); break;
						case 1: pushParsedN(static_cast<PVBox*>(cont[(size_t)k]), sp, n, sel); break;
						default:
							for (ll x = 0; x != n; ++x) {
								Po::OptionGroup g("grp");
								g.addOption(sp);
								try { static_cast<Po::OptionContext*>(cont[(size_t)k])->add(g); } catch (const Po::DuplicateOption&) {}
							}
					}
				}
			}
			else if (op == 9) {
				// the newest n handle copies of the pool are destroyed one by one
				if (c.v.size() - c.p < 1) break;
				ll n = c.next();
				if (n >= 0 && n <= 100000) { for (ll x = 0; x != n && !pool.empty(); ++x) pool.pop_back(); }
			}
			else break;
			dump(false);
		}
		return true;
	}
	void finish(bool) {
		for (size_t i = 0; i != p.size(); ++i) delete p[i];
		for (size_t k = 0; k != cont.size(); ++k) dropCont((ll)k);
		p.clear(); cont.clear();
		pool.clear();
		dump(true);
	}
	~B() { for (size_t i = 0; i != p.size(); ++i) delete p[i]; for (size_t k = 0; k != cont.size(); ++k) dropCont((ll)k); }
};

// LeakSanitizer's recoverable check reports a leaked block again at every later check: after the first report
// the process cannot attribute leaks any more and prints 2 ("not judged") for the remaining cases of the batch.
// A block leaked by the case just run can still look reachable through a stale copy of its address in a dead stack
// frame or in a scratch register (seen: the upper half of xmm3, left there by a 16-byte move of {vptr_, value_});
// LeakSanitizer scans both and would then report the block only after a LATER (innocent) case has overwritten them.
// Dead stack and the caller-saved vector / integer registers are therefore wiped before every check, so that a leak is
// attributed to the case that made it.
static void __attribute__((noinline)) scrubStack() {
	volatile char pad[1 << 18];
	for (size_t i = 0; i != sizeof(pad); ++i) pad[i] = 0;
}
static inline void scrubRegs() {
#if defined(__x86_64__)
	if (__builtin_cpu_supports("avx")) {
		__asm__ volatile("vzeroall" ::: "xmm0", "xmm1", "xmm2", "xmm3", "xmm4", "xmm5", "xmm6", "xmm7", "xmm8", "xmm9", "xmm10", "xmm11", "xmm12", "xmm13", "xmm14", "xmm15");
	}
	else {
		__asm__ volatile("pxor %%xmm0,%%xmm0\n\tpxor %%xmm1,%%xmm1\n\tpxor %%xmm2,%%xmm2\n\tpxor %%xmm3,%%xmm3\n\tpxor %%xmm4,%%xmm4\n\tpxor %%xmm5,%%xmm5\n\t"
		                 "pxor %%xmm6,%%xmm6\n\tpxor %%xmm7,%%xmm7\n\tpxor %%xmm8,%%xmm8\n\tpxor %%xmm9,%%xmm9\n\tpxor %%xmm10,%%xmm10\n\tpxor %%xmm11,%%xmm11\n\t"
		                 "pxor %%xmm12,%%xmm12\n\tpxor %%xmm13,%%xmm13\n\tpxor %%xmm14,%%xmm14\n\tpxor %%xmm15,%%xmm15"
		                 ::: "xmm0", "xmm1", "xmm2", "xmm3", "xmm4", "xmm5", "xmm6", "xmm7", "xmm8", "xmm9", "xmm10", "xmm11", "xmm12", "xmm13", "xmm14", "xmm15");
	}
	__asm__ volatile("xor %%ecx,%%ecx\n\txor %%edx,%%edx\n\txor %%esi,%%esi\n\txor %%edi,%%edi\n\txor %%r8d,%%r8d\n\txor %%r9d,%%r9d\n\txor %%r10d,%%r10d\n\txor %%r11d,%%r11d"
	                 ::: "rcx", "rdx", "rsi", "rdi", "r8", "r9", "r10", "r11", "cc");
#endif
}
static bool tainted = false;
static int leakFlag() {
	if (tainted) return 2;
	scrubStack();
	scrubRegs();
	if (__lsan_do_recoverable_leak_check() != 0) { tainted = true; return 1; }
	return 0;
}
// the second translation unit's Setting / Triple / Record must be types DIFFERENT from this unit's types of the same spelling whose
// type_info::name() strings are nevertheless equal - otherwise tags 21..23 do not test what they claim; printed once on stderr
static void selfTestSecondUnit() {
	const std::type_info* mine[B_NTYPES] = { &typeid(Setting), &typeid(Triple), &typeid(Record) };
	const size_t size[B_NTYPES] = { sizeof(Setting), sizeof(Triple), sizeof(Record) };
	bool ok = true;
	for (int k = 0; k != B_NTYPES; ++k) {
		bool sameName = std::strcmp(mine[k]->name(), b_type_name(k)) == 0;
		bool sameType = b_same_typeinfo(k, *mine[k]);
		std::fprintf(stderr, "h_c20 self-test: unit A typeid name '%s', unit B typeid name '%s': names %s, type_info objects %s, sizeof %zu / %zu\n",
			mine[k]->name(), b_type_name(k), sameName ? "equal" : "DIFFER", sameType ? "EQUAL" : "differ", size[k], b_sizeof(k));
		ok = ok && sameName && !sameType && size[k] == b_sizeof(k);
	}
	if (!ok) {
		std::fprintf(stderr, "SUMMARY: harness: h_c20 self-test failed: the two translation units do not have distinct types with equal type names\n");
		std::abort();
	}
}
int main() {
	Case c; Obs o;
	selfTestSecondUnit();
	while (readCase(c)) {
		reg.clear(); odead.clear(); integrity = 0;
		ll part = c.next();
		try {
			if (part == 0 && c.v.size() >= 3) {
				bool ran = false;
				{
					A a(o);
					a.run(c);
					if (a.vm) { a.finish(); ran = true; }
				}
				if (ran) o.add(leakFlag());
			}
			else if (part == 1 && c.v.size() >= 3) {
				bool ok;
				{
					B b(o);
					ok = b.run(c);
					if (ok) b.finish(false);
				}
				if (ok) {
					bool dead = true;
					for (size_t k = 0; k != odead.size(); ++k) dead = dead && odead[k] != 0;
					int lk = leakFlag();
					o.add(!dead ? 1 : lk);
				}
			}
			else { o.add(-999); }
		}
		catch (const std::exception& e) { o.add(-998); }
		catch (...) { o.add(-997); }
		o.flush();
	}
	return 0;
}
