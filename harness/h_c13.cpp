// C13: run the real parse entry points on a generated option set.  Case layout: see coq/C13/Model.v (run_case).
//   nopts (<name> alias kind neg)*  nalias (<name> idx)*  allowUnreg flags posmode <posname> mode payload [intent...] [REFUSED]
//   intent  = 0 | 1 class npairs (id <value>)* nrem <tok>*        (the generator's intent: skipped here, read by the oracle)
//   REFUSED = nref (pos npiece (<name> alias kind neg)^npiece)*   adds the context must REFUSE (DuplicateOption; the caller catches it and
//             carries on): piece j is handed to OptionContext::add after `pos` of the case's options have been accepted; its first option
//             clashes with an accepted one (long name, alias, or both), so nothing of the piece may become an option.  The case's own options
//             are handed over in the pieces between those adds.  The model (coq/C13/Model.v) ignores everything behind the payload: the
//             refused names are simply not options of the context.
// Observation: 0 npairs (id <value>)* [nrem <tok>*]  |  error class 1 Unknown 2 Ambiguous 3 missing 4 extra 5 format | 8 context refused
//              | 7 an add that had to be refused was accepted / changed the option list
#include "common.h"
#include <potassco/program_opts/program_options.h>
#include <potassco/program_opts/typed_value.h>
#include <potassco/program_opts/errors.h>
namespace Po = Potassco::ProgramOptions;
static int  sinkI[256];
static bool sinkB[256];
static int  g_posMode;
static std::string g_posName;
static bool posHandler(const std::string& tok, std::string& out) {
	if (g_posMode == 1) { out = g_posName; return true; }
	if (g_posMode == 3 && !tok.empty() && tok[0] >= '0' && tok[0] <= '9') { out = g_posName; return true; }
	return false;
}
static std::string getStr(Case& c) { size_t n = (size_t)c.next(); return c.bytes(n); }
static void addStr(Obs& o, const std::string& s) { o.add((ll)s.size()); o.addBytes(s.data(), s.size()); }
static void addPairs(Obs& o, const Po::OptionContext& ctx, const Po::ParsedValues& pv) {
	o.add(0);
	o.add((ll)std::distance(pv.begin(), pv.end()));
	for (Po::ParsedValues::iterator it = pv.begin(); it != pv.end(); ++it) {
		ll id = -1;
		for (Po::OptionContext::option_iterator x = ctx.begin(); x != ctx.end(); ++x) { if (x->get() == it->first.get()) { id = (ll)(x - ctx.begin()); break; } }
		o.add(id); addStr(o, it->second);
	}
}
// kind 1 (implicit value): sel%8 = 0..5 the six orders of {arg, defaultsTo, implicit}, 6 = implicit only, 7 = implicit + arg;
// kind 2 (required) and kind 0 (flag): sel%5 = none / arg / default / arg+default / default+arg (no implicit text: a flag is implicit by
// construction, a required option must stay required).  The texts are string literals (Value keeps the pointers).
static void describe(Po::Value* v, ll kind, unsigned sel) {
	static const int perm[6][3] = {{0,1,2},{0,2,1},{1,0,2},{1,2,0},{2,0,1},{2,1,0}};
	if (kind == 1) {
		unsigned k = sel % 8;
		if (k == 6) { v->implicit("1"); return; }
		if (k == 7) { v->implicit("1"); v->arg("<n>"); return; }
		for (int j = 0; j != 3; ++j) {
			switch (perm[k][j]) {
				case 0: v->arg("<n>"); break;
				case 1: v->defaultsTo("0"); break;
				default: v->implicit("1"); break;
			}
		}
		return;
	}
	switch (sel % 5) {
		case 1: v->arg("<x>"); break;
		case 2: v->defaultsTo("0"); break;
		case 3: v->arg("<x>"); v->defaultsTo("0"); break;
		case 4: v->defaultsTo("0"); v->arg("<x>"); break;
		default: break;
	}
}
// position of the REFUSED trailer (behind payload and intent), or v.size() if there is none / the case is cut short
static size_t findTrailer(const std::vector<ll>& v) {
	size_t p = 0; bool ok = true;
	auto num = [&]() -> ll { if (p < v.size()) return v[p++]; ok = false; return 0; };
	auto str = [&]() { ll n = num(); if (n < 0 || (size_t)n > v.size() - p) { ok = false; return; } p += (size_t)n; };
	ll n = num(); for (ll i = 0; ok && i < n; ++i) { str(); num(); num(); num(); }
	ll na = num(); for (ll i = 0; ok && i < na; ++i) { str(); num(); }
	num(); num(); num(); str();
	ll mode = num();
	if (mode == 0 || mode == 1) { ll nt = num(); for (ll i = 0; ok && i < nt; ++i) str(); }
	else str();
	if (!ok || p >= v.size()) return v.size();
	if (num() == 1) {
		num(); ll np = num(); for (ll i = 0; ok && i < np; ++i) { num(); str(); }
		ll nr = num(); for (ll i = 0; ok && i < nr; ++i) str();
	}
	return ok ? p : v.size();
}
struct RefusedPiece { size_t pos; std::vector<Po::SharedOptPtr> opts; bool newGroup; };
static int  sinkRI[64];
static bool sinkRB[64];
int main() {
	Case c; Obs o;
	while (readCase(c)) {
		// the adds that must be refused (trailer)
		std::vector<RefusedPiece> refused;
		{
			Case t; t.v = c.v; t.p = findTrailer(c.v);
			size_t nref = t.more() ? (size_t)t.next() : 0;
			for (size_t r = 0; r != nref && t.more(); ++r) {
				RefusedPiece rp; rp.pos = (size_t)t.next(); rp.newGroup = (r % 2) == 1;
				size_t np = (size_t)t.next();
				for (size_t j = 0; j != np && t.more(); ++j) {
					std::string nm = getStr(t);
					char a = (char)t.next(); ll kind = t.next(); ll neg = t.next();
					size_t sk = (r * 7 + j) & 63;
					Po::Value* v = kind == 0 ? static_cast<Po::Value*>(Po::flag(sinkRB[sk])) : static_cast<Po::Value*>(Po::storeTo(sinkRI[sk]));
					if (kind == 1) v->implicit("1");
					if (neg) v->negatable();
					rp.opts.push_back(Po::SharedOptPtr(new Po::Option(nm, a, "refused", v)));
				}
				refused.push_back(rp);
			}
		}
		Po::OptionContext ctx("ctx");
		std::vector<Po::SharedOptPtr> mainOpts;
		size_t n = (size_t)c.next();
		for (size_t i = 0; i != n && c.more(); ++i) {
			std::string nm = getStr(c);
			char a = (char)c.next(); ll kind = c.next(); ll neg = c.next();
			Po::Value* v = kind == 0 ? static_cast<Po::Value*>(Po::flag(sinkB[i & 255])) : static_cast<Po::Value*>(Po::storeTo(sinkI[i & 255]));
			// The three descriptions of a value (arg name, default text, implicit text) share one setter whose storage switches from a
			// single slot to a 3-slot pack with the second description: attach them in every order / subset (chosen from the case,
			// so a replay is deterministic).  Only implicit() may change how the option is parsed; arg()/defaultsTo() must not.
			describe(v, kind, (unsigned)(i * 7 + nm.size() * 3 + (unsigned char)a + n + (neg ? 5 : 0)));
			if (neg) v->negatable();
			mainOpts.push_back(Po::SharedOptPtr(new Po::Option(nm, a, "", v)));
		}
		// Build the context: the case's options in pieces (one OptionContext::add per stretch between two refused adds; without a trailer
		// exactly one add of one group, as before), the refused pieces in between.
		bool built = true, anomaly = false;
		{
			size_t done = 0;
			for (size_t stop = 0; built && stop <= mainOpts.size(); ++stop) {
				bool any = false;
				for (size_t r = 0; r != refused.size(); ++r) { if (std::min(refused[r].pos, mainOpts.size()) == stop) any = true; }
				if (!any && stop != mainOpts.size()) continue;
				if (done != stop || refused.empty()) {
					Po::OptionGroup g;
					for (; done != stop; ++done) g.addOption(mainOpts[done]);
					try { ctx.add(g); } catch (const Po::DuplicateOption&) { built = false; break; }
				}
				for (size_t r = 0; r != refused.size(); ++r) {
					if (std::min(refused[r].pos, mainOpts.size()) != stop) continue;
					Po::OptionGroup piece(refused[r].newGroup ? "Refused" : "");
					for (size_t j = 0; j != refused[r].opts.size(); ++j) piece.addOption(refused[r].opts[j]);
					size_t before = ctx.size();
					bool thrown = false;
					try { ctx.add(piece); } catch (const Po::DuplicateOption&) { thrown = true; }
					if (!thrown || ctx.size() != before) anomaly = true;
				}
			}
		}
		size_t na = (size_t)c.next();
		for (size_t i = 0; i != na && c.more(); ++i) {
			std::string nm = getStr(c); size_t idx = (size_t)c.next();
			if (built) { try { ctx.addAlias(nm, ctx.begin() + std::min(idx, ctx.size())); } catch (const Po::DuplicateOption&) { built = false; } }
		}
		bool allow = c.next() != 0; unsigned flags = (unsigned)c.next();
		g_posMode = (int)c.next(); g_posName = getStr(c);
		Po::PosOption po = g_posMode == 0 ? 0 : &posHandler;
		ll mode = c.next();
		if (!built) { o.add(8); o.flush(); continue; }
		if (anomaly) { o.add(7); o.flush(); continue; }
		try {
			if (mode == 0 || mode == 1) {
				size_t nt = (size_t)c.next();
				std::vector<std::string> toks;
				for (size_t i = 0; i != nt; ++i) toks.push_back(getStr(c));
				if (mode == 0) {
					// argv[0] = program name, argv[argc] = 0, one canary slot behind it that must stay untouched
					std::string prog("prog");
					std::vector<char*> argv;
					argv.push_back(const_cast<char*>(prog.c_str()));
					for (size_t i = 0; i != nt; ++i) argv.push_back(const_cast<char*>(toks[i].c_str()));
					argv.push_back(0);
					char canary = 'c';
					argv.push_back(&canary);
					int argc = (int)nt + 1;
					Po::ParsedValues pv = Po::parseCommandLine(argc, argv.data(), ctx, allow, po, flags);
					addPairs(o, ctx, pv);
					bool ok = argc >= 1 && argc <= (int)nt + 1 && argv[argc] == 0 && argv[0] == prog.c_str() && argv[nt + 2] == &canary;
					if (!ok) { o.add(-1); }
					else {
						o.add(argc - 1);
						for (int i = 1; i < argc; ++i) addStr(o, argv[i]);
					}
				}
				else {
					std::vector<const char*> args;
					for (size_t i = 0; i != nt; ++i) args.push_back(toks[i].c_str());
					args.push_back(0);
					Po::ParsedValues pv = Po::parseCommandArray(args.data(), (unsigned)nt, ctx, allow, po, flags);
					addPairs(o, ctx, pv);
				}
			}
			else if (mode == 2) {
				std::string cmd = getStr(c);
				Po::ParsedValues pv = Po::parseCommandString(cmd, ctx, allow, po, flags);
				addPairs(o, ctx, pv);
			}
			else {
				std::string text = getStr(c);
				std::istringstream is(text);
				Po::ParsedValues pv = Po::parseCfgFile(is, ctx, allow);
				addPairs(o, ctx, pv);
			}
		}
		catch (const Po::UnknownOption&)   { o.s.clear(); o.add(1); }
		catch (const Po::AmbiguousOption&) { o.s.clear(); o.add(2); }
		catch (const Po::SyntaxError& e)   { o.s.clear(); o.add(e.type() == Po::SyntaxError::missing_value ? 3 : e.type() == Po::SyntaxError::extra_value ? 4 : 5); }
		catch (const std::exception&)      { o.s.clear(); o.add(9); }
		o.flush();
	}
	return 0;
}
