// C10: run a real AspifTextInput over the case's bytes with a Recorder attached.
// Case: len b1..bn.  Observation: status (1 accepted, 0 parse error), error line (0 if none), the calls delivered.
// Every other case (reuse::primed, a hash of the case) reads the text with an AspifTextInput OBJECT that has read - or REFUSED, in the middle of a
// statement / aggregate / string / later step - a primer text before (chosen by the case's hash; the primer's calls are discarded). See reuse.h.
#include "common.h"
#include "rec.h"
#include "reuse.h"
#include <potassco/aspif_text.h>
static unsigned g_line = 0;
static int onError(int line, const char*) { g_line = (unsigned)line; return 1; }
int main() {
	Case c; Obs o;
	while (readCase(c)) {
		const bool primed = reuse::primed(c);
		size_t len = (size_t)c.next();
		std::string in = c.bytes(len);
		std::istringstream is(in);
		std::istringstream primer(std::string(primed ? reuse::textPrimer(c).text : ""));
		Obs calls; Recorder rec(calls);
		int status = 1; g_line = 0;
		try {
			Potassco::AspifTextInput reader(&rec);
			if (primed) { reuse::prime(reader, primer); calls.s.clear(); }
			if (Potassco::readProgram(is, reader, &onError) != 0) { status = 0; }
		}
		catch (const std::exception&) { status = 2; }
		o.add(status); o.add(g_line);
		if (!calls.s.empty()) { o.s += ' '; o.s += calls.s; }
		o.flush();
	}
	return 0;
}
