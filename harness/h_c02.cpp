// C02: a real SmodelsConvert in front of a Recorder (mode 0) or of a Recorder + a real SmodelsOutput (mode 1).
// Case: mode ext items...   item = encoded call (rec.h) | 30 lit (get) | 31 atom (getName)
// Observation: the calls received on out_, `20 maxAtom` after every input call, `30 x` / `31 len bytes|-1` for
// probes, `21 class` when an exception ends the case; in mode 1 finally `22 len bytes` = the text SmodelsOutput wrote
// (bytes as integers; not produced by the model: compared after stripping, see props/C02.py obs_equal; the oracle reads it back with
// its own smodels reader and judges the WRITTEN program semantically against the input, props/C02.py written_check).
#include "rec.h"
#include <potassco/convert.h>
#include <potassco/smodels.h>
#include <new>
struct Tee : Recorder {
	Potassco::AbstractProgram* w;
	Tee(Obs& o, Potassco::AbstractProgram* second) : Recorder(o), w(second) {}
	typedef Recorder R;
	void initProgram(bool inc) override { R::initProgram(inc); if (w) w->initProgram(inc); }
	void beginStep() override { R::beginStep(); if (w) w->beginStep(); }
	void endStep() override { R::endStep(); if (w) w->endStep(); }
	void rule(Potassco::Head_t ht, const Potassco::AtomSpan& head, const Potassco::LitSpan& body) override { R::rule(ht, head, body); if (w) w->rule(ht, head, body); }
	void rule(Potassco::Head_t ht, const Potassco::AtomSpan& head, Potassco::Weight_t bound, const Potassco::WeightLitSpan& body) override { R::rule(ht, head, bound, body); if (w) w->rule(ht, head, bound, body); }
	void minimize(Potassco::Weight_t prio, const Potassco::WeightLitSpan& lits) override { R::minimize(prio, lits); if (w) w->minimize(prio, lits); }
	void project(const Potassco::AtomSpan& atoms) override { R::project(atoms); if (w) w->project(atoms); }
	void output(const Potassco::StringSpan& s, const Potassco::LitSpan& cond) override { R::output(s, cond); if (w) w->output(s, cond); }
	void external(Potassco::Atom_t a, Potassco::Value_t v) override { R::external(a, v); if (w) w->external(a, v); }
	void assume(const Potassco::LitSpan& lits) override { R::assume(lits); if (w) w->assume(lits); }
	void heuristic(Potassco::Atom_t a, Potassco::Heuristic_t t, int bias, unsigned prio, const Potassco::LitSpan& cond) override { R::heuristic(a, t, bias, prio, cond); if (w) w->heuristic(a, t, bias, prio, cond); }
	void acycEdge(int s, int t, const Potassco::LitSpan& cond) override { R::acycEdge(s, t, cond); if (w) w->acycEdge(s, t, cond); }
};
int main() {
	Case c; Obs o;
	while (readCase(c)) {
		bool tee = c.next() != 0;
		bool ext = c.next() != 0;
		std::ostringstream text;
		{
			Potassco::SmodelsOutput writer(text, ext, 0);
			Tee out(o, tee ? &writer : 0);
			Potassco::SmodelsConvert conv(out, ext);
			try {
				while (c.more()) {
					ll tag = c.v[c.p];
					if (tag == 30) { c.next(); o.add(30); o.add(conv.get((Potassco::Lit_t)c.next())); }
					else if (tag == 31) {
						c.next();
						const char* n = conv.getName((Potassco::Atom_t)c.next());
						o.add(31);
						if (n) { o.add((ll)std::strlen(n)); o.addBytes(n, std::strlen(n)); } else { o.add(-1); }
					}
					else {
						if (!playCall(c, conv)) break;
						o.add(20); o.add(conv.maxAtom());
					}
				}
			}
			catch (const std::bad_alloc&) { o.add(21); o.add(3); }
			catch (const std::logic_error&) { o.add(21); o.add(1); }
			catch (const std::exception&) { o.add(21); o.add(2); }
		}
		if (tee) { std::string t = text.str(); o.add(22); o.add((ll)t.size()); o.addBytes(t.data(), t.size()); }
		o.flush();
	}
	return 0;
}
