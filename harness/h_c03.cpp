// C03: run the real aspif reader on an arbitrary text.
// Case: mode N len byte...      Observation: accepted line reports delivered-calls...
// Every other case (reuse::primed, a hash of the case) reads the text with a reader OBJECT that has read (or refused) a primer text before, see reuse.h.
#include "common.h"
#include "c01_read.h"
#include <potassco/match_basic_types.h>
int main() {
	Case c; Obs o;
	while (readCase(c)) {
		const reuse::Primer* primed = reuse::primed(c) ? &reuse::aspifPrimer(c) : 0;
		int mode = (int)c.next(); ll n = c.next();
		if (n != Potassco::BufferedStream::BUF_SIZE) { o.add(-999); o.flush(); continue; }
		size_t len = (size_t)c.next();
		std::string text = c.bytes(len);
		c01::readText(text, mode, o, 0, primed);
		o.flush();
	}
	return 0;
}
