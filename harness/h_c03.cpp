// C03: run the real aspif reader on an arbitrary text.
// Case: mode N len byte...      Observation: accepted line reports delivered-calls...
#include "common.h"
#include "c01_read.h"
#include <potassco/match_basic_types.h>
int main() {
	Case c; Obs o;
	while (readCase(c)) {
		int mode = (int)c.next(); ll n = c.next();
		if (n != Potassco::BufferedStream::BUF_SIZE) { o.add(-999); o.flush(); continue; }
		size_t len = (size_t)c.next();
		std::string text = c.bytes(len);
		c01::readText(text, mode, o);
		o.flush();
	}
	return 0;
}
