// C17: drive a real Potassco::StringBuilder with an operation list.
// Case: kind cap ilen ini... ops...   (see coq/C17/Model.v decode_ops, props/C17.py)
//   kind 0 StringBuilder(), 1 StringBuilder(std::string&), 2 (buf, cap, Fixed), 3 (buf, cap, Dynamic)
//   op 9 m off n: append a slice of the builder's own current text (pointer from c_str() / toSpan() / the caller's string)
//   op 10 m bits n text..: append(double) [m = 0], append(float) [1], xconvert(std::string&, double) [2], toString(double) [3]
//                  of the double with the 64-bit pattern `bits`; text (its "%g" rendering) is for the model only
// After the constructor and after every operation one record is printed:
//   exc size bytes[0..size) c_str()[size] maxSize(-1 = unbounded) errno==ERANGE canaries-intact
// Every case is run TWICE on fresh builders:
//   pass 1 ("clean"):  errno = 0 before the constructor and before every operation; the errno field says whether
//                      THIS operation signalled a truncation.  These records are what the Coq model predicts.
//   marker STALE_MARK
//   pass 2 ("stale"):  errno = ERANGE before the constructor and before every operation - the state a caller is in
//                      who never resets errno after an earlier, legitimately signalled truncation (of this or of any
//                      other builder).  A correct builder's text never depends on that; the errno field of these
//                      records carries no information (printed, ignored by props/C17.py).
// The caller's array lies between two canary blocks inside one allocation (a write next to the array is
// observed, not just crashed on); everything runs under ASan/UBSan as well.
#include "common.h"
#include <climits>
#include <cerrno>
#include <cmath>
#include <cfloat>
#include <cstring>
#include <potassco/string_convert.h>
using Potassco::StringBuilder;
static const size_t GUARD = 32;
static const unsigned char CANARY = 0x5a, FILL = 0xaa;
static const ll STALE_MARK = -99;

struct Arena {
	std::vector<unsigned char> mem; size_t cap;
	explicit Arena(size_t c) : mem(c + 2 * GUARD, CANARY), cap(c) { std::memset(mem.data() + GUARD, FILL, c); }
	char* buf() { return reinterpret_cast<char*>(mem.data() + GUARD); }
	bool intact() const {
		for (size_t i = 0; i != GUARD; ++i) { if (mem[i] != CANARY || mem[GUARD + cap + i] != CANARY) return false; }
		return true;
	}
};

static void record(Obs& o, int exc, const StringBuilder& b, bool er, const Arena& a, const std::string* ext) {
	o.add(exc);
	size_t n = b.size();
	o.add((ll)n);
	const char* p = b.c_str();
	o.addBytes(p, n);
	o.add((unsigned char)p[n]);
	size_t m = b.maxSize();
	o.add(m == std::size_t(-1) - sizeof(void*) ? -1 : (ll)m);
	o.add(er ? 1 : 0);
	bool ok = a.intact();
	// a builder on a caller's std::string must show exactly that string
	if (ext && (ext->size() != n || std::memcmp(ext->data(), p, n) != 0)) ok = false;
	o.add(ok ? 1 : 0);
}

static void runCase(Case& c, Obs& o, bool stale) {
	c.p = 0;
	const int e0 = stale ? ERANGE : 0;   // errno as the caller left it
	{
		ll kind = c.next();
		ll capl = c.next(); size_t cap = capl > 0 ? (size_t)capl : 0;
		size_t ilen = (size_t)c.next();
		std::string ini = c.bytes(ilen);
		Arena arena(kind >= 2 ? cap : 0);
		std::string ext = ini;
		StringBuilder* bp = 0;
		errno = e0;
		if      (kind == 0) bp = new StringBuilder();
		else if (kind == 1) bp = new StringBuilder(ext);
		else if (kind == 2) bp = new StringBuilder(arena.buf(), cap, StringBuilder::Fixed);
		else                bp = new StringBuilder(arena.buf(), cap, StringBuilder::Dynamic);
		StringBuilder& b = *bp;
		const std::string* extp = kind == 1 ? &ext : 0;
		record(o, 0, b, errno == ERANGE, arena, extp);
		while (c.more()) {
			ll op = c.next();
			int exc = 0; bool er = false;
			errno = e0;
			try {
				if (op == 1) { size_t n = (size_t)c.next(); std::string d = c.bytes(n); b.append(d.data(), d.size()); }
				else if (op == 2) { size_t n = (size_t)c.next(); std::string d = c.bytes(n); b.append(d.c_str()); }
				else if (op == 3) { ll n = c.next(); char ch = (char)c.next(); b.append((std::size_t)(unsigned long long)n, ch); }
				else if (op == 4) {
					// every signed overload that can hold the value, chosen by the value (seeded C17-r12: one inline overload in the header forwards through the wrong type)
					long long v = c.next(); unsigned sel = (unsigned)((unsigned long long)v % 3u);
					if      (sel == 1 && v >= INT_MIN && v <= INT_MAX) { b.append((int)v); }
					else if (sel == 2)                                  { b.append((long)v); }
					else                                                { b.append(v); }
				}
				else if (op == 5) {
					unsigned long long v = (unsigned long long)c.next(); unsigned sel = (unsigned)(v % 3u);
					if      (sel == 1 && v <= UINT_MAX) { b.append((unsigned)v); }
					else if (sel == 2)                  { b.append((unsigned long)v); }
					else                                { b.append(v); }
				}
				else if (op == 6) {
					size_t pl = (size_t)c.next(); std::string pre = c.bytes(pl);
					ll spec = c.next();
					if (spec == 0) { b.appendFormat(pre.c_str()); }
					else if (spec == 1) {
						size_t al = (size_t)c.next(); std::string a = c.bytes(al);
						size_t sl = (size_t)c.next(); std::string suf = c.bytes(sl);
						b.appendFormat((pre + "%s" + suf).c_str(), a.c_str());
					}
					else if (spec == 2) {
						int v = (int)c.next();
						size_t sl = (size_t)c.next(); std::string suf = c.bytes(sl);
						b.appendFormat((pre + "%d" + suf).c_str(), v);
					}
					else if (spec == 3) {
						size_t sl = (size_t)c.next(); std::string suf = c.bytes(sl);
						b.appendFormat((pre + "%%" + suf).c_str());
					}
					else if (spec == 4) {
						int ch = (int)(unsigned char)c.next();
						size_t sl = (size_t)c.next(); std::string suf = c.bytes(sl);
						b.appendFormat((pre + "%c" + suf).c_str(), ch);
					}
					else break;
				}
				else if (op == 7) { ll n = c.next(); char ch = (char)c.next(); b.resize((std::size_t)(unsigned long long)n, ch); }
				else if (op == 8) { b.clear(); }
				else if (op == 9) {
					// append from the builder's OWN current text: the argument points into the storage the builder reports
					// (inline buffer / caller's array / caller's or owned std::string), off and n clamped to the text
					ll m = c.next(), off = c.next(), n = c.next();
					size_t sz = b.size();
					size_t o2 = off < 0 ? 0 : ((unsigned long long)off > sz ? sz : (size_t)off);
					size_t n2 = n < 0 ? 0 : ((unsigned long long)n > sz - o2 ? sz - o2 : (size_t)n);
					if      (m == 2) { b.append(b.c_str() + o2); }                                             // up to the terminator
					else if (m == 1) { Potassco::Span<char> sp = b.toSpan(); b.append(sp.first + o2, n2); }
					else if (m == 3 && kind == 1) { b.append(ext.data() + o2, n2); }                           // the caller's view of its string
					else             { b.append(b.c_str() + o2, n2); }
				}
				else if (op == 10) {
					// append(double) and what forwards to it: the value is the double whose 64-bit pattern is `bits`; the "%g" text
					// that follows in the case is the MODEL's input (it has no floating point) and is skipped here
					ll m = c.next(); long long bits = c.next();
					size_t tl = (size_t)c.next(); (void)c.bytes(tl);
					double d; std::memcpy(&d, &bits, sizeof d);
					if      (m == 1 && (d != d || std::fabs(d) <= FLT_MAX || std::isinf(d))) { b.append(static_cast<float>(d)); }
					else if (m == 2) { std::string t("#"); Potassco::xconvert(t, d); b.append(t.data() + 1, t.size() - 1); }
					else if (m == 3) { std::string t = Potassco::toString(d); b.append(t.data(), t.size()); }
					else             { b.append(d); }
				}
				else break;
				er = errno == ERANGE;
			}
			catch (const std::length_error&) { exc = 2; }
			catch (const std::logic_error&) { exc = 1; }
			catch (const std::bad_alloc&)   { exc = 3; }
			catch (const std::exception&)   { exc = 2; }
			record(o, exc, b, er, arena, extp);
		}
		delete bp;
	}
}

int main() {
	Case c; Obs o;
	while (readCase(c)) {
		runCase(c, o, false);
		o.add(STALE_MARK);
		runCase(c, o, true);
		o.flush();
	}
	return 0;
}
