// Shared helpers for the correspondence harnesses: one case per stdin line (decimal integers),
// one observation line per case on stdout.
#pragma once
#include <cstdio>
#include <cstdlib>
#include <cstring>
#include <string>
#include <vector>
#include <iostream>
#include <sstream>
#include <stdexcept>
typedef long long ll;
struct Case {
	std::vector<ll> v; size_t p;
	Case() : p(0) {}
	bool more() const { return p < v.size(); }
	ll   next() { return p < v.size() ? v[p++] : 0; }
	std::string bytes(size_t n) { std::string s; for (size_t i = 0; i != n && more(); ++i) s += static_cast<char>(next()); return s; }
};
struct Obs {
	std::string s;
	void add(ll x) { if (!s.empty()) s += ' '; s += std::to_string(x); }
	void addBytes(const char* b, size_t n) { for (size_t i = 0; i != n; ++i) add(static_cast<unsigned char>(b[i])); }
	void flush() { std::puts(s.c_str()); std::fflush(stdout); s.clear(); }
};
inline bool readCase(Case& c) {
	std::string line;
	if (!std::getline(std::cin, line)) return false;
	c.v.clear(); c.p = 0;
	const char* p = line.c_str(); char* e;
	for (;;) {
		while (*p == ' ') ++p;
		if (!*p) break;
		ll x = std::strtoll(p, &e, 10);
		if (e == p) break;
		c.v.push_back(x); p = e;
	}
	return true;
}
extern "C" int __lsan_do_recoverable_leak_check(void);
