// C08: the real trip  calls -> SmodelsConvert(ext) -> SmodelsOutput(ext, false atom 0) -> text -> readSmodels(options) -> Recorder,
// and direct calls of matchDomHeuPred / matchEdgePred.
// Cases:  0 cEdge cHeuristic filter nprobes probe.. calls..   |   1 len bytes..   |   2 len bytes..   |   3 cEdge cHeuristic filter calls..
// kind 3 (direct): the calls are made on SmodelsOutput(ext, 0) itself, no converter in front - symbol tables that use one name for several
//   atoms and list the same (atom, name) line again (same table / table of a later step), which SmodelsConvert never writes. Observation as
//   kind 0 without probes (model: coq/C08/Direct.v).
// Observation kind 0: the calls the reader delivers (weight rules and minimize statements left out), `21 class` when the
//   reader fails, then `30 a get(a)` for every probe; just `21 class` when converter / writer fail (nothing is read then).
// kind 1: code consumed [len name.. type bias prio]     kind 2: code consumed [len n0.. len n1..]
// kind 0, every other case (reuse::primed, a hash of the case): the text is read by a SmodelsInput OBJECT (same options) that has read - or
// REFUSED inside its rules / inside or after its symbol table / inside its compute statement / in its trailer / in a later step - a primer
// text before, whose symbol table binds the generator's names to other atoms and has _edge / _acyc_ / _heuristic predicates of its own
// (reuse.h; chosen by the hash; its calls are discarded). Unprimed cases use readSmodels (a fresh reader) as before.
#include "rec.h"
#include "reuse.h"
#include <potassco/convert.h>
#include <potassco/smodels.h>
#include <potassco/match_basic_types.h>
#include <new>
struct Rec8 : Recorder {
	explicit Rec8(Obs& o) : Recorder(o) {}
	void rule(Potassco::Head_t ht, const Potassco::AtomSpan& head, const Potassco::LitSpan& body) override { Recorder::rule(ht, head, body); }
	void rule(Potassco::Head_t, const Potassco::AtomSpan&, Potassco::Weight_t, const Potassco::WeightLitSpan&) override {}
	void minimize(Potassco::Weight_t, const Potassco::WeightLitSpan&) override {}
};
static void trip(Case& c, Obs& o, bool direct) {
	const reuse::Primer* pr = reuse::primed(c) ? &reuse::smodelsPrimer(c, true) : 0;
	bool cE = c.next() != 0, cH = c.next() != 0, flt = c.next() != 0;
	std::vector<ll> probes;
	if (!direct) { for (ll n = c.next(); n > 0 && c.more(); --n) { probes.push_back(c.next()); } }
	std::stringstream text;
	Potassco::SmodelsOutput writer(text, true, 0);
	Potassco::SmodelsConvert conv(writer, true);
	Potassco::AbstractProgram& front = direct ? static_cast<Potassco::AbstractProgram&>(writer) : conv;
	try {
		while (c.more()) { if (!playCall(c, front)) break; }
	}
	catch (const std::bad_alloc&) { o.add(21); o.add(3); return; }
	catch (const std::logic_error&) { o.add(21); o.add(1); return; }
	catch (const std::exception&) { o.add(21); o.add(2); return; }
	Potassco::SmodelsInput::Options opts = reuse::smodelsOptions(c, true, cE != 0, cH != 0, flt != 0); // builder calls in a case-derived order
	Rec8 rec(o);
	std::istringstream primer(std::string(pr ? pr->text : ""));
	try {
		if (pr) {
			Potassco::SmodelsInput reader(rec, opts);
			const std::string keep = o.s;                       // (empty here) the primer's calls are dropped
			reuse::prime(reader, primer); o.s = keep;
			Potassco::readProgram(text, reader, 0);             // = readSmodels on an existing reader object
		}
		else { Potassco::readSmodels(text, rec, 0, opts); }
	}
	catch (const std::bad_alloc&) { o.add(21); o.add(3); }
	catch (const std::logic_error&) { o.add(21); o.add(1); }
	catch (const std::exception&) { o.add(21); o.add(2); }
	for (size_t i = 0; i != probes.size(); ++i) {
		o.add(30); o.add(probes[i]); o.add(conv.get((Potassco::Lit_t)probes[i]));
	}
}
int main() {
	Case c; Obs o;
	while (readCase(c)) {
		ll kind = c.next();
		if (kind == 0 || kind == 3) { trip(c, o, kind == 3); }
		else if (kind == 1 || kind == 2) {
			size_t n = (size_t)c.next();
			std::string s = c.bytes(n);
			const char* start = s.c_str();
			const char* in = start;
			if (kind == 1) {
				Potassco::StringSpan a = Potassco::toSpan("", 0);
				Potassco::Heuristic_t t = Potassco::Heuristic_t::Level;
				int bias = 0; unsigned prio = 0;
				int r = Potassco::matchDomHeuPred(in, a, t, bias, prio);
				o.add(r); o.add((ll)(in - start));
				if (r > 0) { o.add((ll)a.size); o.addBytes(a.first, a.size); o.add((ll)(unsigned)t); o.add(bias); o.add(prio); }
			}
			else {
				Potassco::StringSpan n0 = Potassco::toSpan("", 0), n1 = Potassco::toSpan("", 0);
				int r = Potassco::matchEdgePred(in, n0, n1);
				o.add(r); o.add((ll)(in - start));
				if (r > 0) { o.add((ll)n0.size); o.addBytes(n0.first, n0.size); o.add((ll)n1.size); o.addBytes(n1.first, n1.size); }
			}
		}
		o.flush();
	}
	return 0;
}
