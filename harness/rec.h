// Recorder / player for the AbstractProgram call alphabet (same integer encoding as coq/Lib/Calls.v).
#pragma once
#include "common.h"
#include <potassco/basic_types.h>
struct Recorder : Potassco::AbstractProgram {
	Obs& o;
	explicit Recorder(Obs& out) : o(out) {}
	template <class S> void list(const S& s) { o.add((ll)Potassco::size(s)); for (auto it = Potassco::begin(s); it != Potassco::end(s); ++it) o.add((ll)*it); }
	void wlist(const Potassco::WeightLitSpan& s) { o.add((ll)Potassco::size(s)); for (auto it = Potassco::begin(s); it != Potassco::end(s); ++it) { o.add(it->lit); o.add(it->weight); } }
	void str(const Potassco::StringSpan& s) { o.add((ll)Potassco::size(s)); o.addBytes(Potassco::begin(s), Potassco::size(s)); }
	void initProgram(bool inc) override { o.add(1); o.add(inc ? 1 : 0); }
	void beginStep() override { o.add(2); }
	void endStep() override { o.add(3); }
	void rule(Potassco::Head_t ht, const Potassco::AtomSpan& head, const Potassco::LitSpan& body) override { o.add(4); o.add((ll)(unsigned)ht); list(head); list(body); }
	void rule(Potassco::Head_t ht, const Potassco::AtomSpan& head, Potassco::Weight_t bound, const Potassco::WeightLitSpan& body) override { o.add(5); o.add((ll)(unsigned)ht); list(head); o.add(bound); wlist(body); }
	void minimize(Potassco::Weight_t prio, const Potassco::WeightLitSpan& lits) override { o.add(6); o.add(prio); wlist(lits); }
	void project(const Potassco::AtomSpan& atoms) override { o.add(7); list(atoms); }
	void output(const Potassco::StringSpan& s, const Potassco::LitSpan& cond) override { o.add(8); str(s); list(cond); }
	void external(Potassco::Atom_t a, Potassco::Value_t v) override { o.add(9); o.add(a); o.add((ll)(unsigned)v); }
	void assume(const Potassco::LitSpan& lits) override { o.add(10); list(lits); }
	void heuristic(Potassco::Atom_t a, Potassco::Heuristic_t t, int bias, unsigned prio, const Potassco::LitSpan& cond) override { o.add(11); o.add(a); o.add((ll)(unsigned)t); o.add(bias); o.add(prio); list(cond); }
	void acycEdge(int s, int t, const Potassco::LitSpan& cond) override { o.add(12); o.add(s); o.add(t); list(cond); }
	void theoryTerm(Potassco::Id_t id, int n) override { o.add(13); o.add(id); o.add(n); }
	void theoryTerm(Potassco::Id_t id, const Potassco::StringSpan& s) override { o.add(14); o.add(id); str(s); }
	void theoryTerm(Potassco::Id_t id, int c, const Potassco::IdSpan& args) override { o.add(15); o.add(id); o.add(c); list(args); }
	void theoryElement(Potassco::Id_t id, const Potassco::IdSpan& terms, const Potassco::LitSpan& cond) override { o.add(16); o.add(id); list(terms); list(cond); }
	void theoryAtom(Potassco::Id_t a, Potassco::Id_t t, const Potassco::IdSpan& e) override { o.add(17); o.add(a); o.add(t); list(e); }
	void theoryAtom(Potassco::Id_t a, Potassco::Id_t t, const Potassco::IdSpan& e, Potassco::Id_t op, Potassco::Id_t rhs) override { o.add(18); o.add(a); o.add(t); list(e); o.add(op); o.add(rhs); }
};
// Strings are handed over as spans that are NOT followed by a NUL (three other bytes follow in the same buffer): a StringSpan is pointer +
// length, and a callee that treats it as a C string reads bytes that are not part of the name (seeded C01-r10, C05-r8).
// Decodes one call from the case and invokes it on out. Returns false if no (valid) call follows.
inline bool playCall(Case& c, Potassco::AbstractProgram& out) {
	using namespace Potassco;
	if (!c.more()) return false;
	ll tag = c.next();
	auto atoms = [&](std::vector<Atom_t>& v) { size_t n = (size_t)c.next(); v.clear(); for (size_t i = 0; i != n; ++i) v.push_back((Atom_t)c.next()); };
	auto ids   = [&](std::vector<Id_t>& v) { size_t n = (size_t)c.next(); v.clear(); for (size_t i = 0; i != n; ++i) v.push_back((Id_t)c.next()); };
	auto lits  = [&](std::vector<Lit_t>& v) { size_t n = (size_t)c.next(); v.clear(); for (size_t i = 0; i != n; ++i) v.push_back((Lit_t)c.next()); };
	auto wlits = [&](std::vector<WeightLit_t>& v) { size_t n = (size_t)c.next(); v.clear(); for (size_t i = 0; i != n; ++i) { WeightLit_t w; w.lit = (Lit_t)c.next(); w.weight = (Weight_t)c.next(); v.push_back(w); } };
	std::vector<Atom_t> A; std::vector<Lit_t> L; std::vector<WeightLit_t> W; std::vector<Id_t> I; std::string S;
	switch (tag) {
		case 1: out.initProgram(c.next() != 0); return true;
		case 2: out.beginStep(); return true;
		case 3: out.endStep(); return true;
		case 4: { Head_t ht = static_cast<Head_t>((unsigned)c.next()); atoms(A); lits(L); out.rule(ht, toSpan(A), toSpan(L)); return true; }
		case 5: { Head_t ht = static_cast<Head_t>((unsigned)c.next()); atoms(A); Weight_t b = (Weight_t)c.next(); wlits(W); out.rule(ht, toSpan(A), b, toSpan(W)); return true; }
		case 6: { Weight_t p = (Weight_t)c.next(); wlits(W); out.minimize(p, toSpan(W)); return true; }
		case 7: { atoms(A); out.project(toSpan(A)); return true; }
		case 8: { size_t n = (size_t)c.next(); S = c.bytes(n); S.append("#!x", 3); lits(L); out.output(toSpan(S.data(), n), toSpan(L)); return true; }
		case 9: { Atom_t a = (Atom_t)c.next(); Value_t v = static_cast<Value_t>((unsigned)c.next()); out.external(a, v); return true; }
		case 10: { lits(L); out.assume(toSpan(L)); return true; }
		case 11: { Atom_t a = (Atom_t)c.next(); Heuristic_t t = static_cast<Heuristic_t>((unsigned)c.next()); int b = (int)c.next(); unsigned p = (unsigned)c.next(); lits(L); out.heuristic(a, t, b, p, toSpan(L)); return true; }
		case 12: { int s = (int)c.next(); int t = (int)c.next(); lits(L); out.acycEdge(s, t, toSpan(L)); return true; }
		case 13: { Id_t id = (Id_t)c.next(); int n = (int)c.next(); out.theoryTerm(id, n); return true; }
		case 14: { Id_t id = (Id_t)c.next(); size_t n = (size_t)c.next(); S = c.bytes(n); S.append("#!x", 3); out.theoryTerm(id, toSpan(S.data(), n)); return true; }
		case 15: { Id_t id = (Id_t)c.next(); int cc = (int)c.next(); ids(I); out.theoryTerm(id, cc, toSpan(I)); return true; }
		case 16: { Id_t id = (Id_t)c.next(); ids(I); lits(L); out.theoryElement(id, toSpan(I), toSpan(L)); return true; }
		case 17: { Id_t a = (Id_t)c.next(); Id_t t = (Id_t)c.next(); ids(I); out.theoryAtom(a, t, toSpan(I)); return true; }
		case 18: { Id_t a = (Id_t)c.next(); Id_t t = (Id_t)c.next(); ids(I); Id_t op = (Id_t)c.next(); Id_t rhs = (Id_t)c.next(); out.theoryAtom(a, t, toSpan(I), op, rhs); return true; }
		default: return false;
	}
}
