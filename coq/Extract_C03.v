Require Import ExtrOcamlBasic.
Require Import V.C03.Model.
Extraction "model.ml" run_case.
