(* C08 - statement-side definitions of the multi-step trip theorem (DEFINITIONS ONLY, no proofs).  They use the relations between
   input calls and converter state of ProofsConv.v (heu_rel, edge_rel, out_rel, call_ok, in_step, AM) and heu_call of ProofsTrip.v. *)
Require Import V.Lib.Base V.Lib.Calls V.Lib.Dec V.Gen.Consts V.Gen.Consts_C02 V.Gen.Consts_C08 V.C02.Model V.C02.Spec V.C08.Model V.C08.Spec
               V.C02.ProofsMap V.C08.ProofsSym V.C08.ProofsConv V.C08.ProofsTrip.
Require Import Permutation.
Local Open Scope Z_scope.

(* ---------- statement-side definitions ---------- *)
Definition step_calls (b : list call) : list call := CBegin :: b ++ [CEnd].
(* initProgram(i); then for every body: beginStep; body; endStep *)
Definition prog (i : bool) (bodies : list (list call)) : list call := CInit i :: flat_map step_calls bodies.
(* a step body: no protocol call inside, names / heuristic fields in the property's domain (call_ok, hypothesis B) *)
Definition body_ok (b : list call) : Prop := forallb in_step b = true /\ Forall call_ok b.
(* the `inc` flag of the reader for the written calls `out` (doAttach) *)
Definition reader_inc (out : list call) : bool := prog_inc out || starts_with_9 (prog_inc out) out.

(* What ONE step delivers.  s = converter state at beginStep, T = cumulative table (name, atom) of all symbols written in
   earlier steps, nodes = the reader's node table before the step; body = the step's input calls, seg = the calls the
   reader delivers for the step; s', T', nodes' = the same three after the step. *)
Definition step_trip (o : ropts) (s : cv) (T : list (list Z * Z)) (nodes : list (list Z)) (body seg : list call)
                     (s' : cv) (T' : list (list Z * Z)) (nodes' : list (list Z)) : Prop :=
  exists (sb : cv) (ob : list call) (names : list (list Z)) (tabk : list (list Z * Z))
         (es_in es : list (Z * Z * Z)) (shown_in gen : list (Z * list Z)) (mid : list call),
    let s2 := fst (flushExternal true (fst (flushMinimize sb (mins sb)))) in
    let hm := filter (fun h => mapped s2 (h_atom h)) (heus sb) in
    (* the converter at endStep: its pending heuristics are exactly this step's heuristic calls, in order *)
    cv_run true s body = Ok (sb, ob) /\ s' = fst (flush true sb) /\
    Forall2 heu_rel (filter is_heu_call body) (heus sb) /\ length names = length hm /\
    (* tabk = the symbols written by this endStep; T' = everything written so far; all atoms non-zero *)
    map (fun e => COutput (fst e) [snd e]) tabk = filter is_out_call (snd (flush true sb)) /\
    T' = T ++ tabk /\ (forall k a, In (k, a) T' -> a <> 0) /\
    (* delivered segment: beginStep .. endStep, no protocol call inside *)
    seg = CBegin :: mid ++ [CEnd] /\ forallb in_step mid = true /\
    (* heuristics: exactly one per pending heuristic whose atom is mapped, found in the CUMULATIVE table *)
    (cH o = true -> filter is_heu_call seg = map (heu_call T') (combine hm names)) /\
    (cH o = false -> filter is_heu_call seg = []) /\
    Forall (fun hn => tab_find (snd hn) T' <> 0 /\ In (snd hn, tab_find (snd hn) T') T' /\
                      In (snd hn, img s2 (h_atom (fst hn)) mod AM) T') (combine hm names) /\
    (* edges: one per input edge, renamed by node_of nodes'; the node table only grows, earlier numbers are kept *)
    Forall2 edge_rel (filter is_edge_call body) es_in /\ Permutation es es_in /\
    (exists e, nodes' = nodes ++ e) /\
    (cE o = true ->
       filter is_edge_call seg = map (fun e => match e with (c, s, t) => CEdge (node_of nodes' s) (node_of nodes' t) [c] end) es /\
       (forall c s t, In (c, s, t) es -> In (print_Z s) nodes' /\ In (print_Z t) nodes')) /\
    (forall z z', In (print_Z z) nodes' -> node_of nodes' z = node_of nodes' z' -> z = z') /\
    (forall z k, node_idx (print_Z z) nodes 0 = Some k -> node_of nodes' z = k) /\
    (cE o = false -> filter is_edge_call seg = [] /\ nodes' = nodes) /\
    (* shown symbols *)
    Forall2 out_rel (filter is_out_call body) shown_in /\ Forall (fun e => exists k, 0 <= k /\ snd e = fmt_atom_s k) gen /\
    (flt o = false -> filter is_out_call seg = map (fun e => COutput (fst e) [snd e]) tabk) /\
    (cE o = true -> cH o = true -> flt o = true ->
       (forall c, In c (filter is_out_call seg) <-> exists a n, c = COutput n [a] /\ In (a, n) (shown_in ++ gen)) /\
       (forall n a, In (COutput n [a]) (filter is_out_call seg) -> no_helper_prefix n)) /\
    (* externals: what the converter writes in this step (ob: none during the step; the flush: one per pending external, value v mod 4)
       comes back unchanged, same atoms, same values, same order *)
    filter is_ext_call seg = filter is_ext_call (ob ++ snd (flush true sb)).

(* all steps, the three states threaded through *)
Fixpoint trip_steps (o : ropts) (s : cv) (T : list (list Z * Z)) (nodes : list (list Z))
                    (bodies segs : list (list call)) : Prop :=
  match bodies, segs with
  | [], [] => True
  | body :: bodies', seg :: segs' =>
      exists s1 T1 nodes1, step_trip o s T nodes body seg s1 T1 nodes1 /\ trip_steps o s1 T1 nodes1 bodies' segs'
  | _, _ => False
  end.

(* ONE renaming of the graph nodes for all steps *)
Definition rename_edge (nodes : list (list Z)) (e : Z * Z * Z) : call :=
  match e with (c, s, t) => CEdge (node_of nodes s) (node_of nodes t) [c] end.

