(* C08: the case decoder of the correspondence run (definitions only) = V.C08.Model.run_case plus one more kind of case:

     3 cEdge cHeuristic filter calls..    the calls are made DIRECTLY on SmodelsOutput(ext, false atom 0) - no converter in front - and the
                                          text is read back with the given options (harness/h_c08.cpp).

   SmodelsConvert never writes the same (atom, name) symbol twice (a second output on a shown atom gets an auxiliary atom), but a symbol
   table is free to do so, and in an incremental program the table of a later step may list a symbol of an earlier step again.  The
   reader's name table (SmodelsInput::SymTab::add, read_syms of V.C08.Model: `tab1 := r_tab st ++ [(name, atom)]`, lookups from the front)
   keeps the FIRST binding of a name for lookups but ALWAYS forwards the symbol (`c2`) unless it is a converted and filtered predicate -
   so every written symbol comes back, however often its name or its line occurred before.  Writer side: C02's acceptance automaton
   (sw_calls); reader side: read_back, unchanged. *)
Require Import ZArith List Bool.
Require Import V.Lib.Base V.Lib.Calls V.C02.Model V.C08.Model.
Import ListNotations.
Local Open Scope Z_scope.

Definition trip_direct (o : ropts) (p : list call) : list Z :=
  let '(_, _, ok) := sw_calls true sw0 p in
  if ok then
    let '(d, rok) := read_back o p in
    enc_calls (filter is_observed d) ++ (if rok then [] else [21; E_READ])
  else [21; E_LOGIC].

Definition run_case (c : list Z) : list Z :=
  match c with
  | 0 :: e :: h :: f :: r =>
      let '(ps, r1) := take_list r in
      trip (mkO (negb (e =? 0)) (negb (h =? 0)) (negb (f =? 0))) ps (dec_calls (length r1) r1)
  | 1 :: r => run_heu (fst (take_list r))
  | 2 :: r => run_edge (fst (take_list r))
  | 3 :: e :: h :: f :: r => trip_direct (mkO (negb (e =? 0)) (negb (h =? 0)) (negb (f =? 0))) (dec_calls (length r) r)
  | _ => []
  end.
