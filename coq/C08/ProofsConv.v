(* C08 - invariants of the converter model (C02's SmodelsConvert) over whole runs, as far as symbols are concerned:
   (A) every (output atom, name) entry of symTab_ is a symbol that was written in an earlier step (E) or is pending in
       output_ and written by the flushSymbols of this step;
   (B) made explicit: the names the user hands in are good names without helper prefix, heuristic modifiers / bias /
       priority are in range (call_ok);
   the pending symbols are, item by item, `_edge(s,t)` symbols or plain names (ghost list of sitem);
   and what one endStep (flush) writes: the `_heuristic(..)` symbols of exactly the pending heuristics whose atom is mapped,
   each naming a symbol that is in E or written by this very flush, followed by the pending symbols sorted by atom. *)
Require Import V.Lib.Base V.Lib.Calls V.Lib.Dec V.Gen.Consts V.Gen.Consts_C02 V.Gen.Consts_C08 V.C02.Model V.C02.Spec V.C08.Model V.C08.Spec
               V.C02.ProofsMap V.C08.ProofsStr V.C08.ProofsSym V.C08.ProofsFlush.
Require Import Permutation.
Local Open Scope Z_scope.

(* ---------- frame: operations that leave output_, symTab_ and heuristic_ alone ---------- *)
Definition teq (s s' : cv) : Prop := outs s' = outs s /\ symtab s' = symtab s /\ heus s' = heus s.
Lemma teq_refl s : teq s s. Proof. repeat split. Qed.
Lemma teq_trans a b c : teq a b -> teq b c -> teq a c.
Proof. intros (H1 & H2 & H3) (H4 & H5 & H6). repeat split; congruence. Qed.

Lemma teq_mapAtom s a : teq s (fst (mapAtom s a)).
Proof. unfold mapAtom. destruct (negb _); repeat split. Qed.
Lemma teq_mapLit s l : teq s (fst (mapLit s l)).
Proof. unfold mapLit. pose proof (teq_mapAtom s (Z.abs l)). destruct (mapAtom s (Z.abs l)). exact H. Qed.
Lemma teq_mapLits ls : forall s, teq s (fst (mapLits s ls)).
Proof.
  induction ls as [|l r IH]; intros s; simpl; [apply teq_refl|].
  pose proof (teq_mapLit s l) as H1. destruct (mapLit s l) as [s1 x]. pose proof (IH s1) as H2.
  destruct (mapLits s1 r) as [s2 xs]. simpl in *. eapply teq_trans; eassumption.
Qed.
Lemma teq_mapWLits ls : forall s, teq s (fst (mapWLits s ls)).
Proof.
  induction ls as [|[l w] r IH]; intros s; simpl; [apply teq_refl|].
  pose proof (teq_mapLit s l) as H1. destruct (mapLit s l) as [s1 x]. pose proof (IH s1) as H2.
  destruct (mapWLits s1 r) as [s2 xs]. simpl in *. eapply teq_trans; eassumption.
Qed.
Lemma teq_mapHeadAtom s a : teq s (fst (mapHeadAtom s a)).
Proof.
  unfold mapHeadAtom. pose proof (teq_mapAtom s a) as H. destruct (mapAtom s a) as [s1 r]. simpl in *.
  destruct H as (H1 & H2 & H3). repeat split; simpl; assumption.
Qed.
Lemma teq_mapHeadAtoms h : forall s, teq s (fst (mapHeadAtoms s h)).
Proof.
  induction h as [|a r IH]; intros s; simpl; [apply teq_refl|].
  pose proof (teq_mapHeadAtom s a) as H1. destruct (mapHeadAtom s a) as [s1 x]. pose proof (IH s1) as H2.
  destruct (mapHeadAtoms s1 r) as [s2 xs]. simpl in *. eapply teq_trans; eassumption.
Qed.
Lemma teq_mapHead s h : teq s (fst (mapHead s h)).
Proof. unfold mapHead. pose proof (teq_mapHeadAtoms h s). destruct (mapHeadAtoms s h). exact H. Qed.
Lemma teq_makeAux s cond : teq s (fst (fst (makeAux s cond))).
Proof.
  unfold makeAux. unfold newAtom. simpl.
  match goal with |- context [mapLits ?s0 cond] => pose proof (teq_mapLits cond s0) as H; destruct (mapLits s0 cond) end.
  simpl in *. exact H.
Qed.
Lemma teq_makeAtom s cond named : teq s (fst (fst (makeAtom s cond named))).
Proof.
  unfold makeAtom. destruct cond as [|c [|c2 r]]; try apply teq_makeAux.
  destruct (c <? 0); [apply teq_makeAux|].
  pose proof (teq_mapAtom s (Z.abs c)) as H. destruct (mapAtom s (Z.abs c)) as [s1 r]. simpl in H.
  destruct (ashow r && named).
  - eapply teq_trans; [exact H | apply teq_makeAux].
  - simpl. destruct H as (H1 & H2 & H3). repeat split; simpl; assumption.
Qed.
Lemma teq_flushMinimize m : forall s, teq s (fst (flushMinimize s m)).
Proof.
  induction m as [|[p ls] r IH]; intros s; simpl; [apply teq_refl|].
  pose proof (teq_mapWLits ls s) as H1. destruct (mapWLits s ls) as [s1 ml]. pose proof (IH s1) as H2.
  destruct (flushMinimize s1 r) as [s2 cs]. simpl in *. eapply teq_trans; eassumption.
Qed.
Lemma teq_flushExternal_f es : forall s hd, teq s (fst (fst (flushExternal_f true s es hd))).
Proof.
  induction es as [|a r IH]; intros s hd; simpl; [apply teq_refl|].
  pose proof (teq_mapAtom s a) as H1. destruct (mapAtom s a) as [s1 ar]. simpl in H1.
  pose proof (IH s1 hd) as H2. destruct (flushExternal_f true s1 r hd) as [[s2 cs] hd2]. simpl in *.
  eapply teq_trans; eassumption.
Qed.
Lemma teq_flushExternal s : teq s (fst (flushExternal true s)).
Proof.
  unfold flushExternal. pose proof (teq_flushExternal_f (exts s) s []) as H.
  destruct (flushExternal_f true s (exts s) []) as [[s1 cs] hd]. exact H.
Qed.

(* ---------- what the calls made before the symbols look like ---------- *)
Definition is_pre (c : call) : bool :=
  match c with CRule _ _ _ | CWRule _ _ _ _ | CMin _ _ | CExternal _ _ => true | _ => false end.

Lemma pre_makeAux s cond : forallb is_pre (snd (makeAux s cond)) = true.
Proof. unfold makeAux, newAtom. destruct (mapLits _ cond). reflexivity. Qed.
Lemma pre_makeAtom s cond named : forallb is_pre (snd (makeAtom s cond named)) = true.
Proof.
  unfold makeAtom. destruct cond as [|c [|c2 r]]; try apply pre_makeAux.
  destruct (c <? 0); [apply pre_makeAux|]. destruct (mapAtom s (Z.abs c)) as [s1 r].
  destruct (ashow r && named); [apply pre_makeAux | reflexivity].
Qed.
Lemma pre_flushMinimize m : forall s, forallb is_pre (snd (flushMinimize s m)) = true.
Proof.
  induction m as [|[p ls] r IH]; intros s; simpl; [reflexivity|].
  destruct (mapWLits s ls) as [s1 ml]. pose proof (IH s1) as H. destruct (flushMinimize s1 r). simpl in *. exact H.
Qed.
Lemma pre_flushExternal_f es : forall s hd, forallb is_pre (snd (fst (flushExternal_f true s es hd))) = true.
Proof.
  induction es as [|a r IH]; intros s hd; simpl; [reflexivity|].
  destruct (mapAtom s a) as [s1 ar]. pose proof (IH s1 hd) as H.
  destruct (flushExternal_f true s1 r hd) as [[s2 cs] hd2]. simpl in *. exact H.
Qed.
Lemma hd_flushExternal_f es : forall s hd, snd (flushExternal_f true s es hd) = hd.
Proof.
  induction es as [|a r IH]; intros s hd; simpl; [reflexivity|].
  destruct (mapAtom s a) as [s1 ar]. pose proof (IH s1 hd) as H.
  destruct (flushExternal_f true s1 r hd) as [[s2 cs] hd2]. simpl in *. exact H.
Qed.
Lemma pre_flushExternal s : forallb is_pre (snd (flushExternal true s)) = true.
Proof.
  unfold flushExternal. pose proof (pre_flushExternal_f (exts s) s []) as H.
  pose proof (hd_flushExternal_f (exts s) s []) as Hh.
  destruct (flushExternal_f true s (exts s) []) as [[s1 cs] hd]. simpl in *. subst hd. rewrite app_nil_r. exact H.
Qed.

(* ---------- (B) the hypothesis on the input, explicit ---------- *)
(* a name the user attaches to an atom: as a C string it is a good name and starts with none of the helper texts *)
Definition user_name_ok (n : list Z) : Prop := good_name (cut0 n) /\ no_helper_prefix (cut0 n).
Definition call_ok (c : call) : Prop :=
  match c with
  | COutput n _ => user_name_ok n
  | CHeuristic _ t b p _ => 0 <= t <= heu_emax /\ C_INT_MIN <= b <= C_INT_MAX /\ 0 <= p <= C_INT_MAX
  | _ => True
  end.
Definition in_step (c : call) : bool := match c with CInit _ | CBegin | CEnd => false | _ => true end.

(* ---------- the generated name `_atom(k)` ---------- *)
Definition atom_pre : list Z := [95; 97; 116; 111; 109; 40].
Lemma fmt_atom_eq k : fmt_atom_s k = atom_pre ++ print_nat k ++ [CH_RPAR].
Proof. reflexivity. Qed.

Lemma walk_app : forall a b p q p' q', walk a p q = Some (p', q') -> walk (a ++ b) p q = walk b p' q'.
Proof.
  induction a as [|c a IH]; intros b p q p' q' H; cbn [walk app] in *.
  - injection H as <- <-. reflexivity.
  - destruct q as [quoted|].
    + destruct ((c =? CH_QUOTE) && negb quoted); eapply IH; exact H.
    + destruct (c =? CH_LPAR); [eapply IH; exact H|].
      destruct (c =? CH_RPAR); [destruct (p - 1 <? 0); [discriminate | eapply IH; exact H]|].
      destruct (c =? CH_COMMA); [destruct (p =? 0); [discriminate | eapply IH; exact H]|].
      destruct (c =? CH_QUOTE); eapply IH; exact H.
Qed.

Lemma fmt_atom_good k : 0 <= k -> good_name (fmt_atom_s k).
Proof.
  intros Hk. rewrite fmt_atom_eq. pose proof (print_nat_digits k Hk) as D.
  split; [discriminate|]. split.
  - apply nul_free_app; [apply nul_free_list_check; reflexivity|].
    apply nul_free_app; [now apply all_digits_nul_free | apply nul_free_cons; [discriminate | constructor]].
  - rewrite (walk_app atom_pre _ 0 None 1 None) by reflexivity.
    rewrite (walk_app (print_nat k) _ 1 None 1 None) by (apply walk_plain, digits_plain, D). reflexivity.
Qed.

Lemma starts_incompat w pre r : incompat w pre = true -> starts w (pre ++ r) = false.
Proof. intros H. unfold starts. now rewrite (incompat_no_match w pre r H). Qed.

Lemma fmt_atom_no_helper k : no_helper_prefix (fmt_atom_s k).
Proof. rewrite fmt_atom_eq. repeat split; apply starts_incompat; vm_compute; reflexivity. Qed.

(* ---------- the step invariant ---------- *)
Definition sym_ent (x : sym) : Z * list Z := (s_atom x, s_name x).
Definition not_heu (it : sitem) : Prop := match it with IHeu _ => False | _ => True end.
Definition heu_ok (h : heu) : Prop :=
  0 <= h_type h <= heu_emax /\ C_INT_MIN <= h_bias h <= C_INT_MAX /\ 0 <= h_prio h <= C_INT_MAX.
Definition AM : Z := 2 ^ sym_atom_bits.

(* E: the symbols (atom, name) written in earlier steps; its: what the pending symbols of output_ are, item by item *)
Record SI (E : list (Z * list Z)) (s : cv) (its : list sitem) : Prop := mkSI {
  si_its : map sym_of its = map sym_ent (outs s);
  si_ok : Forall ok_item its;
  si_nh : Forall not_heu its;
  si_tab : forall a n, In (a, n) (symtab s) -> good_name n /\ In (a mod AM, n) (E ++ map sym_ent (outs s));
  si_heus : Forall heu_ok (heus s) }.

Lemma SI_teq E s s' its : teq s s' -> SI E s its -> SI E s' its.
Proof. intros (H1 & H2 & H3) [A B C D F]. constructor; rewrite ?H1, ?H2, ?H3; assumption. Qed.

Lemma SI_cv0 : SI [] cv0 [].
Proof. constructor; cbn; [reflexivity | constructor | constructor | intros x n H; contradiction | constructor]. Qed.

(* the relations between the calls of a step and what the converter keeps of them *)
Definition heu_rel (c : call) (h : heu) : Prop :=
  exists cond, c = CHeuristic (h_atom h) (h_type h) (h_bias h) (h_prio h) cond.
Definition edge_rel (c : call) (e : Z * Z * Z) : Prop :=
  exists cond, c = CEdge (snd (fst e)) (snd e) cond.
Definition plains_of (items : list sitem) : list (Z * list Z) :=
  flat_map (fun it => match it with IPlain a n => [(a, n)] | _ => [] end) items.
Definition out_rel (c : call) (e : Z * list Z) : Prop := exists n cond, c = COutput n cond /\ snd e = cut0 n.

Lemma edges_of_app a b : edges_of (a ++ b) = edges_of a ++ edges_of b.
Proof. unfold edges_of. apply flat_map_app. Qed.
Lemma plains_of_app a b : plains_of (a ++ b) = plains_of a ++ plains_of b.
Proof. unfold plains_of. apply flat_map_app. Qed.
Lemma heus_of_app a b : heus_of (a ++ b) = heus_of a ++ heus_of b.
Proof. unfold heus_of. apply flat_map_app. Qed.

(* adding one symbol to output_ (and, with addHash, to symTab_) *)
Lemma SI_addOutput E s its atom str hash it :
  SI E s its -> sym_of it = (atom mod AM, cut0 str) -> ok_item it -> not_heu it ->
  (hash = true -> good_name (cut0 str)) ->
  SI E (fst (addOutput s atom str hash)) (its ++ [it]).
Proof.
  intros [A B C D F] Hit Hok Hnh Hg. unfold addOutput. cbn [fst].
  constructor; cbn [outs symtab heus].
  - rewrite !map_app, A. cbn [map]. rewrite Hit. reflexivity.
  - apply Forall_app. split; [exact B | constructor; [exact Hok | constructor]].
  - apply Forall_app. split; [exact C | constructor; [exact Hnh | constructor]].
  - intros a n Hin.
    assert (Hold : In (a, n) (symtab s) -> good_name n /\ In (a mod AM, n) (E ++ map sym_ent (outs s ++ [mkS (atom mod 2 ^ sym_atom_bits) (hash && match sym_find atom (symtab s) with None => true | Some _ => false end) (cut0 str)]))).
    { intros H. destruct (D a n H) as (G & I). split; [exact G|]. rewrite map_app, app_assoc. apply in_or_app. now left. }
    destruct (hash && match sym_find atom (symtab s) with None => true | Some _ => false end) eqn:Eins; [|now apply Hold].
    apply in_app_or in Hin. destruct Hin as [Hin|[Hin|[]]]; [now apply Hold|]. injection Hin as <- <-.
    apply andb_true_iff in Eins. destruct Eins as [-> _]. split; [now apply Hg|].
    rewrite map_app. apply in_or_app. right. apply in_or_app. right. left. reflexivity.
  - exact F.
Qed.

(* one call inside a step *)
Lemma call_step E s its c s1 out : in_step c = true -> call_ok c -> cv_call true s c = Ok (s1, out) -> SI E s its ->
  exists its' hs',
    SI E s1 (its ++ its') /\ forallb is_pre out = true /\
    heus s1 = heus s ++ hs' /\ Forall2 heu_rel (filter is_heu_call [c]) hs' /\
    Forall2 edge_rel (filter is_edge_call [c]) (edges_of its') /\
    Forall2 out_rel (filter is_out_call [c]) (plains_of its').
Proof.
  intros Hin Hok Hc HSI.
  assert (Triv : forall s', teq s s' -> filter is_heu_call [c] = [] -> filter is_edge_call [c] = [] -> filter is_out_call [c] = [] ->
            forallb is_pre out = true -> s1 = s' ->
            exists its' hs', SI E s1 (its ++ its') /\ forallb is_pre out = true /\ heus s1 = heus s ++ hs' /\
              Forall2 heu_rel (filter is_heu_call [c]) hs' /\ Forall2 edge_rel (filter is_edge_call [c]) (edges_of its') /\
              Forall2 out_rel (filter is_out_call [c]) (plains_of its')).
  { intros s' T H1 H2 H3 H4 ->. exists [], []. rewrite !app_nil_r, H1, H2, H3.
    split; [eapply SI_teq; eassumption|]. split; [exact H4|]. split; [exact (proj2 (proj2 T))|]. repeat split; constructor. }
  destruct c as [i| | |ht head body|ht head bound wbody|prio lits|atoms|name cond|atom v|lits|atom type bias prio cond|from to cond|? ?|? ?|? ? ?|? ? ?|? ? ?|? ? ? ? ?];
    try discriminate Hin; cbn [cv_call] in Hc; try discriminate Hc.
  - (* rule *)
    destruct (negb _ || _).
    + pose proof (teq_mapHead s head) as T1. destruct (mapHead s head) as [sa mh].
      pose proof (teq_mapLits body sa) as T2. destruct (mapLits sa body) as [sb mb]. injection Hc as <- <-.
      eapply Triv; try reflexivity. eapply teq_trans; eassumption.
    + injection Hc as <- <-. eapply Triv; try reflexivity. apply teq_refl.
  - (* weight rule *)
    destruct (negb _ || _).
    + pose proof (teq_mapHead s head) as T1. destruct (mapHead s head) as [sa mh].
      pose proof (teq_mapWLits wbody sa) as T2. destruct (mapWLits sa wbody) as [sb mb]. cbn [fst] in *.
      destruct (negb (ht =? Head_t_Choice) && (length mh =? 1)%nat && (0 <=? bound)).
      * injection Hc as <- <-. eapply Triv; try reflexivity. eapply teq_trans; eassumption.
      * injection Hc as <- <-. eapply Triv; try reflexivity.
        eapply teq_trans; [eapply teq_trans; eassumption | repeat split].
    + injection Hc as <- <-. eapply Triv; try reflexivity. apply teq_refl.
  - (* minimize *)
    destruct (norm_min lits) as [ls'|]; [|discriminate]. injection Hc as <- <-.
    eapply Triv; try reflexivity. repeat split.
  - (* output *)
    pose proof (teq_makeAtom s cond true) as T1. pose proof (pre_makeAtom s cond true) as P1.
    destruct (makeAtom s cond true) as [[sa a] cs]. cbn [fst snd] in *.
    destruct (addOutput sa a name true) as [sb nm] eqn:Ea. injection Hc as <- <-.
    destruct Hok as (Hg & Hnp).
    assert (Hnf : nul_free (cut0 name)) by (apply Hg).
    exists [IPlain (a mod AM) (cut0 name)], []. rewrite app_nil_r.
    split.
    { replace sb with (fst (addOutput sa a name true)) by (rewrite Ea; reflexivity).
      apply SI_addOutput; [eapply SI_teq; eassumption | reflexivity | split; assumption | exact I | intros _; exact Hg]. }
    split; [exact P1|].
    split; [replace sb with (fst (addOutput sa a name true)) by (rewrite Ea; reflexivity); unfold addOutput; cbn [fst heus]; apply T1|].
    split; [constructor|]. split; [constructor|]. cbn. constructor; [|constructor]. exists name, cond. split; reflexivity.
  - (* external *)
    pose proof (teq_mapAtom s atom) as T1. destruct (mapAtom s atom) as [sa r]. cbn [fst] in T1.
    destruct (ahead r); injection Hc as <- <-; eapply Triv; try reflexivity; [exact T1|].
    destruct T1 as (H1 & H2 & H3). repeat split; cbn; assumption.
  - (* heuristic *)
    pose proof (teq_makeAtom s cond true) as T1. pose proof (pre_makeAtom s cond true) as P1.
    destruct (makeAtom s cond true) as [[sa hp] cs]. cbn [fst snd] in *. injection Hc as <- <-.
    exists [], [mkH atom type bias prio hp]. rewrite app_nil_r. destruct T1 as (H1 & H2 & H3).
    split.
    { destruct HSI as [A B C D F]. constructor; cbn [set_heus outs symtab heus]; rewrite ?H1, ?H2, ?H3; try assumption.
      apply Forall_app. split; [exact F | constructor; [exact Hok | constructor]]. }
    split; [exact P1|]. split; [cbn [set_heus heus]; rewrite H3; reflexivity|].
    split; [cbn; constructor; [exists cond; reflexivity | constructor]|]. split; constructor.
  - (* edge *)
    pose proof (teq_makeAtom s cond true) as T1. pose proof (pre_makeAtom s cond true) as P1.
    destruct (makeAtom s cond true) as [[sa a] cs]. cbn [fst snd] in *.
    destruct (addOutput sa a (format fmt_edge [FD from; FD to]) false) as [sb nm] eqn:Ea. injection Hc as <- <-.
    assert (Hcut : cut0 (format fmt_edge [FD from; FD to]) = fmt_edge_s from to) by (apply cut0_nul_free, fmt_edge_nul_free).
    exists [IEdge (a mod AM) from to], []. rewrite app_nil_r.
    split.
    { replace sb with (fst (addOutput sa a (format fmt_edge [FD from; FD to]) false)) by (rewrite Ea; reflexivity).
      apply SI_addOutput; [eapply SI_teq; eassumption | cbn [sym_of]; now rewrite Hcut | exact I | exact I | discriminate]. }
    split; [exact P1|].
    split; [replace sb with (fst (addOutput sa a (format fmt_edge [FD from; FD to]) false)) by (rewrite Ea; reflexivity);
            unfold addOutput; cbn [fst heus]; apply T1|].
    split; [constructor|]. split; [|constructor]. cbn. constructor; [|constructor]. exists cond. reflexivity.
Qed.

Lemma filter_cons1 {A} (f : A -> bool) c r : filter f (c :: r) = filter f [c] ++ filter f r.
Proof. cbn. destruct (f c); reflexivity. Qed.

(* all the calls of a step before endStep *)
Lemma body_run E : forall body s its s1 out, forallb in_step body = true -> Forall call_ok body ->
  cv_run true s body = Ok (s1, out) -> SI E s its ->
  exists its' hs',
    SI E s1 (its ++ its') /\ forallb is_pre out = true /\
    heus s1 = heus s ++ hs' /\ Forall2 heu_rel (filter is_heu_call body) hs' /\
    Forall2 edge_rel (filter is_edge_call body) (edges_of its') /\
    Forall2 out_rel (filter is_out_call body) (plains_of its').
Proof.
  induction body as [|c r IH]; intros s its s1 out Hin Hok Hrun HSI; cbn [cv_run] in Hrun.
  - injection Hrun as <- <-. exists [], []. rewrite !app_nil_r. cbn [filter edges_of plains_of flat_map forallb].
    split; [exact HSI|]. split; [reflexivity|]. split; [reflexivity|]. repeat split; constructor.
  - cbn [forallb] in Hin. apply andb_true_iff in Hin. destruct Hin as [Hc Hr]. inversion Hok as [|? ? Okc Okr]; subst.
    destruct (cv_call true s c) as [[sa oa]|] eqn:E1; [|discriminate].
    destruct (cv_run true sa r) as [[sb ob]|] eqn:E2; [|discriminate]. injection Hrun as <- <-.
    destruct (call_step E s its c sa oa Hc Okc E1 HSI) as (i1 & h1 & S1 & P1 & Hh1 & R1 & R2 & R3).
    destruct (IH sa (its ++ i1) sb ob Hr Okr E2 S1) as (i2 & h2 & S2 & P2 & Hh2 & Q1 & Q2 & Q3).
    exists (i1 ++ i2), (h1 ++ h2). rewrite app_assoc.
    split; [exact S2|]. split; [rewrite forallb_app, P1, P2; reflexivity|].
    split; [rewrite Hh2, Hh1, app_assoc; reflexivity|].
    rewrite (filter_cons1 is_heu_call), (filter_cons1 is_edge_call), (filter_cons1 is_out_call), edges_of_app, plains_of_app.
    repeat split; apply Forall2_app; assumption.
Qed.

(* ---------- flushHeuristic: exactly the mapped heuristics, each naming a written symbol of the atom's image ---------- *)
Lemma mapped_mapAtom s a : mapped s a = true -> mapAtom s a = (s, find a (amap s)).
Proof. unfold mapped, mapAtom. intros ->. reflexivity. Qed.

Lemma mapped_upd_flags s a r b : smId r = smId (find a (amap s)) ->
  mapped (set_amap s (upd a r (amap s))) b = mapped s b.
Proof.
  intros H. unfold mapped, set_amap, set_core. cbn [amap]. destruct (Z.eq_dec a b) as [->|N].
  - now rewrite find_upd_same, H.
  - now rewrite find_upd_other.
Qed.

Definition dom_of (h : heu) (n : list Z) : dom := mkDom n (h_type h) (h_bias h) (h_prio h) (h_cond h).

Lemma sym_find_In k : forall tab n, sym_find k tab = Some n -> In (k, n) tab.
Proof.
  induction tab as [|[k' n'] tab IH]; intros n H; [discriminate|]. cbn [sym_find] in H.
  destruct (Z.eqb_spec k' k) as [->|]; [injection H as ->; now left | right; now apply IH].
Qed.

(* mapped atoms have a non-negative image (from C02's invariant: next_start <= image) *)
Definition NN (s : cv) : Prop := forall a, mapped s a = true -> 0 <= smId (find a (amap s)).

Lemma flush_heu E : forall hs s its s' cs, SI E s its -> NN s -> Forall heu_ok hs -> flushHeuristic_f s hs = (s', cs) ->
  exists (names : list (list Z)) (its' : list sitem),
    let hm := filter (fun h => mapped s (h_atom h)) hs in
    length names = length hm /\
    cs = map (fun hn => out_of (IHeu (dom_of (fst hn) (snd hn)))) (combine hm names) /\
    SI E s' (its ++ its') /\ edges_of its' = [] /\
    Forall (fun e => exists k, 0 <= k /\ snd e = fmt_atom_s k) (plains_of its') /\
    Forall (fun hn => good_name (snd hn) /\
                      In (smId (find (h_atom (fst hn)) (amap s)) mod AM, snd hn) (E ++ map sym_ent (outs s'))) (combine hm names) /\
    (forall a, mapped s' a = mapped s a) /\ (forall a, smId (find a (amap s')) = smId (find a (amap s))) /\
    heus s' = heus s.
Proof.
  induction hs as [|h r IH]; intros s its s' cs HSI HNN Hhs H; cbn [flushHeuristic_f] in H.
  - injection H as <- <-. exists [], []. cbn [filter length combine map plains_of edges_of flat_map]. rewrite app_nil_r.
    split; [reflexivity|]. split; [reflexivity|]. split; [exact HSI|]. split; [reflexivity|]. split; [constructor|].
    split; [constructor|]. repeat split.
  - inversion Hhs as [|? ? Hh Hr]; subst. cbn [filter].
    destruct (mapped s (h_atom h)) eqn:Em; cbn [negb] in H.
    2:{ exact (IH _ _ _ _ HSI HNN Hr H). }
    rewrite (mapped_mapAtom s _ Em) in H. set (ma := find (h_atom h) (amap s)) in *.
    assert (Step : forall s2 name i2, SI E s2 (its ++ i2) -> edges_of i2 = [] ->
              Forall (fun e => exists k, 0 <= k /\ snd e = fmt_atom_s k) (plains_of i2) ->
              good_name name -> In (smId ma mod AM, name) (E ++ map sym_ent (outs s2)) ->
              (forall a, mapped s2 a = mapped s a) -> (forall a, smId (find a (amap s2)) = smId (find a (amap s))) ->
              heus s2 = heus s ->
              (let '(s3, cs3) := flushHeuristic_f s2 r in
               (s3, COutput (format fmt_heuristic [FS name; FS (heu_name (h_type h) heu_names); FD (h_bias h); FU (h_prio h)]) [h_cond h] :: cs3)) = (s', cs) ->
              exists names its', let hm := h :: filter (fun h0 => mapped s (h_atom h0)) r in
                length names = length hm /\
                cs = map (fun hn => out_of (IHeu (dom_of (fst hn) (snd hn)))) (combine hm names) /\
                SI E s' (its ++ its') /\ edges_of its' = [] /\
                Forall (fun e => exists k, 0 <= k /\ snd e = fmt_atom_s k) (plains_of its') /\
                Forall (fun hn => good_name (snd hn) /\
                   In (smId (find (h_atom (fst hn)) (amap s)) mod AM, snd hn) (E ++ map sym_ent (outs s'))) (combine hm names) /\
                (forall a, mapped s' a = mapped s a) /\ (forall a, smId (find a (amap s')) = smId (find a (amap s))) /\
                heus s' = heus s).
    { intros s2 name i2 S2 Ed Pl Gn Inn Mp Sm Hu H2.
      destruct (flushHeuristic_f s2 r) as [s3 cs3] eqn:E3. injection H2 as <- <-.
      assert (NN2 : NN s2) by (intros a Ha; rewrite Sm; apply HNN; now rewrite <- Mp).
      destruct (IH _ _ _ _ S2 NN2 Hr E3) as (names & i3 & Ln & Ecs & S3 & Ed3 & Pl3 & Fn & Mp3 & Sm3 & Hu3). cbn zeta in *.
      assert (Efil : filter (fun h0 => mapped s2 (h_atom h0)) r = filter (fun h0 => mapped s (h_atom h0)) r).
      { apply filter_ext. intros h0. apply Mp. }
      rewrite Efil in *.
      exists (name :: names), (i2 ++ i3). cbn [length combine map fst snd].
      split; [now rewrite Ln|]. split; [rewrite Ecs; reflexivity|].
      split; [rewrite app_assoc; exact S3|]. split; [rewrite edges_of_app, Ed, Ed3; reflexivity|].
      split; [rewrite plains_of_app; apply Forall_app; split; assumption|].
      split.
      { constructor.
        - cbn [fst snd]. split; [exact Gn|]. fold ma.
          apply in_app_or in Inn. apply in_or_app. destruct Inn as [I1|I1]; [now left | right].
          destruct S3 as [A3 _ _ _ _]. destruct S2 as [A2 _ _ _ _].
          rewrite <- A3. rewrite <- A2 in I1. rewrite map_app. apply in_or_app. now left.
        - eapply Forall_impl; [|exact Fn]. intros [h0 n0] (G0 & I0). cbn [fst snd] in *. split; [exact G0|]. now rewrite <- Sm. }
      split; [intros a; now rewrite Mp3, Mp|]. split; [intros a; now rewrite Sm3, Sm | now rewrite Hu3, Hu]. }
    destruct (if ashow ma then sym_find (smId ma) (symtab s) else None) as [n|] eqn:En.
    + (* the atom has a name in symTab_ *)
      assert (Hf : sym_find (smId ma) (symtab s) = Some n) by (destruct (ashow ma); [exact En | discriminate]).
      apply sym_find_In in Hf. destruct (si_tab _ _ _ HSI _ _ Hf) as (Gn & Inn).
      apply (Step s n []); try rewrite app_nil_r; try assumption; try reflexivity; try constructor.
    + (* generate `_atom(k)` *)
      set (s1' := set_amap s (upd (h_atom h) (mkA (smId ma) (ahead ma) true (aextn ma)) (amap s))) in *.
      destruct (addOutput s1' (smId ma) (format fmt_atom [FU (smId ma)]) true) as [s2 name] eqn:Ea.
      assert (Hk : 0 <= smId ma) by (apply HNN; exact Em).
      assert (Hcut : cut0 (format fmt_atom [FU (smId ma)]) = fmt_atom_s (smId ma)) by (apply cut0_nul_free, (fmt_atom_good _ Hk)).
      assert (Es2 : s2 = fst (addOutput s1' (smId ma) (format fmt_atom [FU (smId ma)]) true)) by (rewrite Ea; reflexivity).
      assert (En2 : name = fmt_atom_s (smId ma)) by (unfold addOutput in Ea; injection Ea as _ <-; exact Hcut).
      assert (S1' : SI E s1' its) by (eapply SI_teq; [|exact HSI]; repeat split).
      apply (Step s2 name [IPlain (smId ma mod AM) (fmt_atom_s (smId ma))]).
      * rewrite Es2. apply SI_addOutput; [exact S1' | cbn [sym_of]; now rewrite Hcut | | exact I | intros _; rewrite Hcut; now apply fmt_atom_good].
        split; [apply (fmt_atom_good _ Hk) | apply fmt_atom_no_helper].
      * reflexivity.
      * cbn. constructor; [|constructor]. exists (smId ma). split; [exact Hk | reflexivity].
      * rewrite En2. now apply fmt_atom_good.
      * rewrite Es2, En2. unfold addOutput. cbn [fst outs]. rewrite map_app. apply in_or_app. right. apply in_or_app. right.
        left. unfold sym_ent. cbn [s_atom s_name]. now rewrite Hcut.
      * intros a. rewrite Es2. unfold addOutput, mapped. cbn [fst amap]. apply (mapped_upd_flags s (h_atom h)). reflexivity.
      * intros a. rewrite Es2. unfold addOutput. cbn [fst amap]. unfold s1', set_amap, set_core. cbn [amap].
        destruct (Z.eq_dec (h_atom h) a) as [<-|N]; [now rewrite find_upd_same | now rewrite find_upd_other].
      * rewrite Es2. reflexivity.
      * exact H.
Qed.

(* ---------- flushSymbols: the pending symbols, sorted by atom (a permutation, item by item) ---------- *)
Lemma ins_items : forall acc iacc x it, sym_of it = sym_ent x -> map sym_of iacc = map sym_ent acc ->
  exists ia', Permutation ia' (it :: iacc) /\ map sym_of ia' = map sym_ent (sym_ins x acc).
Proof.
  induction acc as [|y acc IH]; intros iacc x it Hx Hacc.
  - destruct iacc; [|discriminate]. exists [it]. split; [apply Permutation_refl | cbn; now rewrite Hx].
  - destruct iacc as [|iy iacc]; [discriminate|]. cbn [map] in Hacc. injection Hacc as Hy Hacc. cbn [sym_ins].
    destruct (s_atom x <? s_atom y).
    + exists (it :: iy :: iacc). split; [apply Permutation_refl | cbn [map]; now rewrite Hx, Hy, Hacc].
    + destruct (IH iacc x it Hx Hacc) as (ia' & P & M). exists (iy :: ia').
      split; [|cbn [map]; now rewrite Hy, M].
      eapply Permutation_trans; [apply perm_skip; exact P | apply perm_swap].
Qed.

Lemma sort_items xs : forall its, map sym_of its = map sym_ent xs ->
  exists sorted, Permutation sorted its /\ map sym_of sorted = map sym_ent (sym_sort xs).
Proof.
  unfold sym_sort.
  assert (G : forall xs its acc iacc, map sym_of its = map sym_ent xs -> map sym_of iacc = map sym_ent acc ->
            exists sorted, Permutation sorted (its ++ iacc) /\
                           map sym_of sorted = map sym_ent (fold_left (fun acc x => sym_ins x acc) xs acc)).
  { clear xs. induction xs as [|x xs IH]; intros its acc iacc H1 H2.
    - destruct its; [|discriminate]. exists iacc. split; [apply Permutation_refl | exact H2].
    - destruct its as [|it its]; [discriminate|]. cbn [map] in H1. injection H1 as Hx H1. cbn [fold_left].
      destruct (ins_items acc iacc x it Hx H2) as (ia' & P & M).
      destruct (IH its (sym_ins x acc) ia' H1 M) as (sorted & P2 & M2). exists sorted. split; [|exact M2].
      eapply Permutation_trans; [exact P2|]. cbn [app].
      eapply Permutation_trans; [apply Permutation_app_head; exact P|]. apply Permutation_sym, Permutation_middle. }
  intros its H. destruct (G xs its [] [] H eq_refl) as (sorted & P & M). exists sorted. rewrite app_nil_r in P. auto.
Qed.

Lemma flushSymbols_items s sorted : map sym_of sorted = map sym_ent (sym_sort (outs s)) -> flushSymbols s = map out_of sorted.
Proof.
  unfold flushSymbols. generalize (sym_sort (outs s)). intros l. revert sorted.
  induction l as [|x l IH]; intros [|it sorted] H; try discriminate; [reflexivity|].
  cbn [map] in *. injection H as Hx H. unfold out_of at 1. rewrite Hx. cbn [sym_ent fst snd]. now rewrite (IH sorted H).
Qed.

(* ---------- one endStep ---------- *)
Definition heu_syms (hm : list heu) (names : list (list Z)) : list sitem :=
  map (fun hn => IHeu (dom_of (fst hn) (snd hn))) (combine hm names).

Lemma flush_shape E s its s' cs : SI E s its -> Inv s -> next s' <= SMID_MOD -> flush true s = (s', cs) ->
  let s2 := fst (flushExternal true (fst (flushMinimize s (mins s)))) in
  let hm := filter (fun h => mapped s2 (h_atom h)) (heus s) in
  exists pre names its' sorted,
    cs = pre ++ map out_of (heu_syms hm names ++ sorted) ++ [CAssume [- false_atom]] /\
    forallb is_pre pre = true /\ length names = length hm /\
    Permutation sorted (its ++ its') /\
    edges_of its' = [] /\ Forall (fun e => exists k, 0 <= k /\ snd e = fmt_atom_s k) (plains_of its') /\
    Forall ok_item (heu_syms hm names ++ sorted) /\ Forall not_heu sorted /\
    Forall (fun hn => In (img s2 (h_atom (fst hn)) mod AM, snd hn) (E ++ map sym_of sorted)) (combine hm names) /\
    SI (E ++ map sym_of sorted) s' [] /\ Inv s' /\ good s s'.
Proof.
  intros HSI HI HB H. unfold flush in H.
  pose proof (teq_flushMinimize (mins s) s) as T1. pose proof (pre_flushMinimize (mins s) s) as P1.
  pose proof (good_flushMinimize (mins s) s) as G1.
  destruct (flushMinimize s (mins s)) as [s1 c1]. cbn [fst snd] in *.
  pose proof (teq_flushExternal s1) as T2. pose proof (pre_flushExternal s1) as P2. pose proof (good_flushExternal true s1) as G2.
  destruct (flushExternal true s1) as [s2 c2]. cbn [fst snd] in *.
  pose proof (good_flushHeuristic_f (heus s2) s2) as G3.
  destruct (flushHeuristic_f s2 (heus s2)) as [s3 c3] eqn:E3. cbn [fst] in G3. injection H as <- <-.
  assert (T12 : teq s s2) by (eapply teq_trans; eassumption).
  assert (S2 : SI E s2 its) by (eapply SI_teq; eassumption).
  assert (G12 : good s s2) by (eapply good_trans; eassumption).
  assert (G13 : good s s3) by (eapply good_trans; eassumption).
  assert (B3 : next s3 <= SMID_MOD) by exact HB.
  assert (B2 : next s2 <= SMID_MOD) by (pose proof (proj1 G3); lia).
  assert (I2 : Inv s2) by (destruct G12 as [_ K]; now apply K).
  assert (I3 : Inv s3) by (destruct G13 as [_ K]; now apply K).
  assert (NN2 : NN s2).
  { intros a Ha. unfold mapped in Ha. pose proof (inv_rng s2 I2 a) as R. unfold img in R.
    destruct (Z.eqb_spec (smId (find a (amap s2))) 0) as [Z0|NZ]; [discriminate|]. specialize (R NZ). pose proof consts_ok. lia. }
  destruct T12 as (_ & _ & Hh). rewrite Hh in E3.
  destruct (flush_heu E (heus s) s2 its s3 c3 S2 NN2 (si_heus _ _ _ HSI) E3)
    as (names & its' & Ln & Ecs & S3 & Ed & Pl & Fn & _ & _ & Hu). cbn zeta in *.
  destruct (sort_items (outs s3) (its ++ its') (si_its _ _ _ S3)) as (sorted & Perm & Msort).
  assert (Hent : forall e, In e (map sym_ent (outs s3)) <-> In e (map sym_of sorted)).
  { intros e. rewrite <- (si_its _ _ _ S3). split; intros Hin; apply in_map_iff in Hin; destruct Hin as (it & <- & Hit); apply in_map;
      [eapply Permutation_in; [apply Permutation_sym; exact Perm | exact Hit] | eapply Permutation_in; [exact Perm | exact Hit]]. }
  assert (HinE : forall e, In e (E ++ map sym_ent (outs s3)) -> In e (E ++ map sym_of sorted)).
  { intros e Hin. apply in_app_or in Hin. apply in_or_app. destruct Hin as [Hin|Hin]; [now left | right; now apply Hent]. }
  exists (c1 ++ c2), names, its', sorted.
  split.
  { rewrite <- !app_assoc. f_equal. f_equal. rewrite map_app, <- app_assoc. f_equal.
    - rewrite Ecs. unfold heu_syms. now rewrite map_map.
    - f_equal. apply flushSymbols_items. exact Msort. }
  split; [rewrite forallb_app, P1, P2; reflexivity|]. split; [exact Ln|]. split; [exact Perm|]. split; [exact Ed|]. split; [exact Pl|].
  assert (Oks : Forall ok_item sorted).
  { rewrite Forall_forall. intros it Hit. pose proof (si_ok _ _ _ S3) as F. rewrite Forall_forall in F. apply F.
    eapply Permutation_in; [exact Perm | exact Hit]. }
  split.
  { apply Forall_app. split; [|exact Oks]. unfold heu_syms. rewrite Forall_map. rewrite Forall_forall. intros [h n] Hin.
    rewrite Forall_forall in Fn. destruct (Fn _ Hin) as (Gn & _). cbn [fst snd ok_item ok_dom dom_of d_name d_type d_bias d_prio] in *.
    split; [exact Gn|]. apply in_combine_l in Hin. apply filter_In in Hin. destruct Hin as [Hin _].
    pose proof (si_heus _ _ _ HSI) as Fh. rewrite Forall_forall in Fh. exact (Fh _ Hin). }
  split.
  { rewrite Forall_forall. intros it Hit. pose proof (si_nh _ _ _ S3) as F. rewrite Forall_forall in F. apply F.
    eapply Permutation_in; [exact Perm | exact Hit]. }
  split.
  { eapply Forall_impl; [|exact Fn]. intros [h n] (_ & Hin). cbn [fst snd] in *. unfold img. now apply HinE. }
  split.
  { constructor; cbn [flushStep outs symtab heus map]; [reflexivity | constructor | constructor | | constructor].
    intros xa xn Hin. destruct (si_tab _ _ _ S3 xa xn Hin) as (Gn & I). split; [exact Gn|]. rewrite app_nil_r. now apply HinE. }
  split; [|].
  - assert (Gc : good s3 (flushStep s3)) by (apply good_core_eq; reflexivity). destruct Gc as [_ K]. now apply K.
  - eapply good_trans; [exact G13 | apply good_core_eq; reflexivity].
Qed.

(* ---------- (A) over WHOLE runs (any number of steps, any interleaving of initProgram / beginStep / endStep) ---------- *)
Definition emitted (out : list call) (e : Z * list Z) : Prop := In (COutput (snd e) [fst e]) out.

Lemma run_inv : forall p s its E s' out, SI E s its -> Inv s -> Forall call_ok p ->
  cv_run true s p = Ok (s', out) -> next s' <= SMID_MOD ->
  exists E' its', SI E' s' its' /\ Inv s' /\ (forall e, In e E' -> In e E \/ emitted out e).
Proof.
  induction p as [|c r IH]; intros s its E s' out HSI HI Hok Hrun HB; cbn [cv_run] in Hrun.
  - injection Hrun as <- <-. exists E, its. split; [exact HSI|]. split; [exact HI|]. auto.
  - inversion Hok as [|? ? Okc Okr]; subst.
    destruct (cv_call true s c) as [[s1 o1]|] eqn:E1; [|discriminate].
    destruct (cv_run true s1 r) as [[s2 o2]|] eqn:E2; [|discriminate]. injection Hrun as <- <-.
    pose proof (good_cv_call _ _ _ _ _ E1) as G1. pose proof (good_cv_run _ _ _ _ _ E2) as G2.
    assert (B1 : next s1 <= SMID_MOD) by (pose proof (proj1 G2); lia).
    assert (I1 : Inv s1) by (destruct G1 as [_ K]; now apply K).
    assert (Later : forall E1' its1, SI E1' s1 its1 -> (forall e, In e E1' -> In e E \/ emitted o1 e) ->
              exists E' its', SI E' s2 its' /\ Inv s2 /\ (forall e, In e E' -> In e E \/ emitted (o1 ++ o2) e)).
    { intros E1' its1 S1 Hsub. destruct (IH s1 its1 E1' s2 o2 S1 I1 Okr E2 HB) as (E' & its' & S2 & I2 & Hsub2).
      exists E', its'. split; [exact S2|]. split; [exact I2|]. intros e He. unfold emitted.
      destruct (Hsub2 e He) as [H|H]; [destruct (Hsub e H) as [H'|H']; [now left | right; apply in_or_app; now left]
                                      | right; apply in_or_app; now right]. }
    destruct (in_step c) eqn:Hst.
    + destruct (call_step E s its c s1 o1 Hst Okc E1 HSI) as (i1 & h1 & S1 & _). apply (Later E (its ++ i1) S1). auto.
    + destruct c; try discriminate Hst; cbn [cv_call] in E1.
      * injection E1 as <- <-. apply (Later E its HSI). auto.
      * injection E1 as <- <-. apply (Later E its HSI). auto.
      * destruct (flush true s) as [sf cs] eqn:Ef. injection E1 as <- <-.
        destruct (flush_shape E s its sf cs HSI HI B1 Ef) as (pre & names & its' & sorted & Ecs & _ & _ & _ & _ & _ & _ & _ & _ & S1 & _ & _).
        apply (Later _ [] S1). intros e He. apply in_app_or in He. destruct He as [He|He]; [now left | right].
        unfold emitted. apply in_or_app. left. rewrite Ecs. apply in_or_app. right. apply in_or_app. left.
        apply in_map_iff in He. destruct He as (it & <- & Hit). apply in_map_iff. exists it. split; [reflexivity|].
        apply in_or_app. now right.
Qed.

(* every entry of symTab_ is a good name and a symbol that was written, or is pending and written by the next endStep *)
Theorem symtab_emitted p s out : Forall call_ok p -> cv_run true cv0 p = Ok (s, out) -> next s <= SMID_MOD ->
  forall a n, In (a, n) (symtab s) ->
    good_name n /\ (In (COutput n [a mod AM]) out \/ In (a mod AM, n) (map sym_ent (outs s))).
Proof.
  intros Hok Hrun HB a n Hin.
  destruct (run_inv p cv0 [] [] s out SI_cv0 Inv_cv0 Hok Hrun HB) as (E' & its' & S & _ & Hsub).
  destruct (si_tab _ _ _ S a n Hin) as (G & I). split; [exact G|]. apply in_app_or in I. destruct I as [I|I]; [|now right].
  destruct (Hsub _ I) as [[]|H]. left. exact H.
Qed.

(* ---------- every symbol ever written is an ok_item, and the target name of every `_heuristic` symbol is a written symbol ---------- *)
Definition sym_call_ok (E : list (Z * list Z)) (allout : list call) (c : call) : Prop :=
  match c with
  | COutput _ _ => exists it, c = out_of it /\ ok_item it /\
       (forall d, it = IHeu d -> exists x, In (x, d_name d) E \/ In (COutput (d_name d) [x]) allout)
  | _ => True
  end.

Lemma sym_call_ok_pre E allout c : is_pre c = true -> sym_call_ok E allout c.
Proof. destruct c; cbn; intros H; try exact I; discriminate H. Qed.

Lemma sym_call_ok_mono E E0 o o0 c : sym_call_ok E o c -> (forall e, In e E -> In e E0 \/ emitted o0 e) ->
  sym_call_ok E0 (o0 ++ o) c.
Proof.
  destruct c; cbn; auto. intros (it & Eit & Hok & Hd) Hsub. exists it. split; [exact Eit|]. split; [exact Hok|].
  intros d Ed. destruct (Hd d Ed) as (x & [H|H]).
  - destruct (Hsub _ H) as [H'|H']; exists x; [now left | right; apply in_or_app; left; exact H'].
  - exists x. right. apply in_or_app. now right.
Qed.

Lemma sym_call_ok_ext E o1 o2 c : sym_call_ok E o1 c -> sym_call_ok E (o1 ++ o2) c.
Proof.
  destruct c; cbn; auto. intros (it & Eit & Hok & Hd). exists it. split; [exact Eit|]. split; [exact Hok|].
  intros d Ed. destruct (Hd d Ed) as (x & [H|H]); exists x; [now left | right; apply in_or_app; now left].
Qed.

Lemma run_syms : forall p s its E s' out, SI E s its -> Inv s -> Forall call_ok p ->
  cv_run true s p = Ok (s', out) -> next s' <= SMID_MOD -> Forall (sym_call_ok E out) out.
Proof.
  induction p as [|c r IH]; intros s its E s' out HSI HI Hok Hrun HB; cbn [cv_run] in Hrun.
  - injection Hrun as _ <-. constructor.
  - inversion Hok as [|? ? Okc Okr]; subst.
    destruct (cv_call true s c) as [[s1 o1]|] eqn:E1; [|discriminate].
    destruct (cv_run true s1 r) as [[s2 o2]|] eqn:E2; [|discriminate]. injection Hrun as <- <-.
    pose proof (good_cv_call _ _ _ _ _ E1) as G1. pose proof (good_cv_run _ _ _ _ _ E2) as G2.
    assert (B1 : next s1 <= SMID_MOD) by (pose proof (proj1 G2); lia).
    assert (I1 : Inv s1) by (destruct G1 as [_ K]; now apply K).
    assert (Later : forall E1' its1, SI E1' s1 its1 -> (forall e, In e E1' -> In e E \/ emitted o1 e) ->
              Forall (sym_call_ok E o1) o1 -> Forall (sym_call_ok E (o1 ++ o2)) (o1 ++ o2)).
    { intros E1' its1 S1 Hsub F1. apply Forall_app. split.
      - eapply Forall_impl; [|exact F1]. intros c0. apply sym_call_ok_ext.
      - eapply Forall_impl; [|exact (IH s1 its1 E1' s2 o2 S1 I1 Okr E2 HB)]. intros c0 H0. eapply sym_call_ok_mono; eassumption. }
    destruct (in_step c) eqn:Hst.
    + destruct (call_step E s its c s1 o1 Hst Okc E1 HSI) as (i1 & h1 & S1 & P1 & _). apply (Later E (its ++ i1) S1); [auto|].
      rewrite Forall_forall. intros c0 Hc0. apply sym_call_ok_pre. rewrite forallb_forall in P1. now apply P1.
    + destruct c; try discriminate Hst; cbn [cv_call] in E1.
      * injection E1 as <- <-. apply (Later E its HSI); [auto | repeat constructor].
      * injection E1 as <- <-. apply (Later E its HSI); [auto | repeat constructor].
      * destruct (flush true s) as [sf cs] eqn:Ef. injection E1 as <- <-.
        destruct (flush_shape E s its sf cs HSI HI B1 Ef) as (pre & names & its' & sorted & Ecs & Ppre & _ & _ & _ & _ & Oki & Nh & Fn & S1 & _ & _).
        cbn zeta in *.
        assert (Hsorted : forall e, In e (map sym_of sorted) -> emitted (cs ++ [CEnd]) e).
        { intros e He. unfold emitted. apply in_or_app. left. rewrite Ecs. apply in_or_app. right. apply in_or_app. left.
          apply in_map_iff in He. destruct He as (it & <- & Hit). apply in_map_iff. exists it. split; [reflexivity|].
          apply in_or_app. now right. }
        apply (Later _ [] S1).
        { intros e He. apply in_app_or in He. destruct He as [He|He]; [now left | right; now apply Hsorted]. }
        apply Forall_app. split; [|repeat constructor]. rewrite Ecs.
        apply Forall_app. split.
        { rewrite Forall_forall. intros c0 Hc0. apply sym_call_ok_pre. rewrite forallb_forall in Ppre. now apply Ppre. }
        apply Forall_app. split; [|repeat constructor].
        rewrite Forall_map, Forall_forall. intros it Hit. cbn [sym_call_ok out_of]. exists it. split; [reflexivity|].
        rewrite Forall_forall in Oki. split; [exact (Oki it Hit)|]. intros d ->.
        apply in_app_or in Hit. destruct Hit as [Hit|Hit].
        -- unfold heu_syms in Hit. apply in_map_iff in Hit. destruct Hit as ([h n] & Ed & Hhn). injection Ed as <-.
           rewrite Forall_forall in Fn. specialize (Fn _ Hhn). cbn [fst snd dom_of d_name] in *.
           eexists. apply in_app_or in Fn. destruct Fn as [Fn|Fn]; [left; exact Fn | right; pose proof (Hsorted _ Fn) as Hs; unfold emitted in Hs; cbn [fst snd] in Hs; rewrite Ecs in Hs; exact Hs].
        -- rewrite Forall_forall in Nh. destruct (Nh _ Hit).
Qed.

Theorem symbols_written p s out : Forall call_ok p -> cv_run true cv0 p = Ok (s, out) -> next s <= SMID_MOD ->
  forall n cond, In (COutput n cond) out ->
    exists it, COutput n cond = out_of it /\ ok_item it /\
      (forall d, it = IHeu d -> exists x, In (COutput (d_name d) [x]) out).
Proof.
  intros Hok Hrun HB n cond Hin.
  pose proof (run_syms p cv0 [] [] s out SI_cv0 Inv_cv0 Hok Hrun HB) as F. rewrite Forall_forall in F.
  destruct (F _ Hin) as (it & Eit & Oki & Hd). exists it. split; [exact Eit|]. split; [exact Oki|].
  intros d Ed. destruct (Hd d Ed) as (x & [[]|H]). exists x. exact H.
Qed.
