(* C08 - the shape of what SmodelsConvert::flushHeuristic (C02's model) emits. *)
Require Import V.Lib.Base V.Lib.Calls V.Lib.Dec V.Gen.Consts V.Gen.Consts_C02 V.Gen.Consts_C08 V.C02.Model V.C08.Model V.C08.Spec.
Local Open Scope Z_scope.

Lemma mapAtom_keeps s a s1 ma : mapAtom s a = (s1, ma) -> symtab s1 = symtab s /\ outs s1 = outs s.
Proof.
  unfold mapAtom. destruct (negb (smId (find a (amap s)) =? 0)); intros H; inversion H; subst; split; reflexivity.
Qed.

Lemma sym_find_in k : forall tab n, sym_find k tab = Some n -> In n (map snd tab).
Proof.
  induction tab as [|[k' n'] tab IH]; intros n H; [discriminate|]. cbn [sym_find] in H. cbn [map snd].
  destruct (k' =? k); [inversion H; left; reflexivity | right; apply IH; assumption].
Qed.

Lemma addOutput_grows s atom str hash s2 n : addOutput s atom str hash = (s2, n) ->
  incl (map snd (symtab s)) (map snd (symtab s2)) /\ incl (map s_name (outs s)) (map s_name (outs s2)) /\
  In n (map s_name (outs s2)).
Proof.
  unfold addOutput. intros H. inversion H; subst; clear H. cbn [symtab outs]. split; [|split].
  - destruct (hash && match sym_find atom (symtab s) with None => true | Some _ => false end);
      [rewrite map_app; apply incl_appl, incl_refl | apply incl_refl].
  - rewrite map_app. apply incl_appl, incl_refl.
  - rewrite map_app. apply in_or_app. right. left. reflexivity.
Qed.

Definition known (name : list Z) (s : cv) : Prop := In name (map snd (symtab s)) \/ In name (map s_name (outs s)).

Lemma fh_mono : forall hs s s' cs, flushHeuristic_f s hs = (s', cs) ->
  incl (map snd (symtab s)) (map snd (symtab s')) /\ incl (map s_name (outs s)) (map s_name (outs s')).
Proof.
  induction hs as [|h r IH]; intros s s' cs H; cbn [flushHeuristic_f] in H.
  - inversion H; subst. split; apply incl_refl.
  - destruct (negb (mapped s (h_atom h))); [apply IH in H; exact H|].
    destruct (mapAtom s (h_atom h)) as [s1 ma] eqn:E1. destruct (mapAtom_keeps _ _ _ _ E1) as [K1 K2].
    destruct (if ashow ma then sym_find (smId ma) (symtab s1) else None) as [n|] eqn:En.
    + destruct (flushHeuristic_f s1 r) as [s3 cs3] eqn:E3. inversion H; subst. apply IH in E3. rewrite K1, K2 in E3. exact E3.
    + destruct (addOutput (set_amap s1 (upd (h_atom h) (mkA (smId ma) (ahead ma) true (aextn ma)) (amap s1))) (smId ma)
                  (format fmt_atom [FU (smId ma)]) true) as [s2 name] eqn:E2.
      destruct (flushHeuristic_f s2 r) as [s3 cs3] eqn:E3. inversion H; subst.
      apply addOutput_grows in E2. cbn [set_amap set_core symtab outs] in E2. rewrite K1, K2 in E2.
      destruct E2 as (G1 & G2 & _). apply IH in E3. destruct E3 as [G3 G4].
      split; eapply incl_tran; eassumption.
Qed.

Lemma flush_heuristic_shape : forall hs s s' cs, flushHeuristic_f s hs = (s', cs) ->
  exists ds : list (dom * heu),
    cs = map (fun x => out_of (IHeu (fst x))) ds /\
    sublist (map snd ds) hs /\
    Forall (fun x => let d := fst x in let h := snd x in
              d_type d = h_type h /\ d_bias d = h_bias h /\ d_prio d = h_prio h /\ d_cond d = h_cond h /\
              (In (d_name d) (map snd (symtab s')) \/ In (d_name d) (map s_name (outs s')))) ds.
Proof.
  induction hs as [|h r IH]; intros s s' cs H; cbn [flushHeuristic_f] in H.
  - inversion H; subst. exists []. split; [reflexivity|]. split; [constructor | constructor].
  - destruct (negb (mapped s (h_atom h))).
    { destruct (IH _ _ _ H) as (ds & E & S & F). exists ds. split; [exact E|]. split; [constructor; exact S | exact F]. }
    destruct (mapAtom s (h_atom h)) as [s1 ma] eqn:E1.
    destruct (if ashow ma then sym_find (smId ma) (symtab s1) else None) as [n|] eqn:En.
    + destruct (flushHeuristic_f s1 r) as [s3 cs3] eqn:E3. inversion H; subst.
      destruct (IH _ _ _ E3) as (ds & E & S & F). destruct (fh_mono _ _ _ _ E3) as [M1 M2].
      exists ((mkDom n (h_type h) (h_bias h) (h_prio h) (h_cond h), h) :: ds).
      split; [cbn [map fst]; rewrite <- E; reflexivity|]. split; [cbn [map snd]; constructor; exact S|].
      constructor; [|exact F]. cbn [fst snd d_type d_bias d_prio d_cond d_name]. repeat split.
      left. apply M1. destruct (ashow ma); [eapply sym_find_in; eassumption | discriminate].
    + destruct (addOutput (set_amap s1 (upd (h_atom h) (mkA (smId ma) (ahead ma) true (aextn ma)) (amap s1))) (smId ma)
                  (format fmt_atom [FU (smId ma)]) true) as [s2 name] eqn:E2.
      destruct (flushHeuristic_f s2 r) as [s3 cs3] eqn:E3. inversion H; subst.
      destruct (IH _ _ _ E3) as (ds & E & S & F). destruct (fh_mono _ _ _ _ E3) as [M1 M2].
      apply addOutput_grows in E2. destruct E2 as (_ & _ & G).
      exists ((mkDom name (h_type h) (h_bias h) (h_prio h) (h_cond h), h) :: ds).
      split; [cbn [map fst]; rewrite <- E; reflexivity|]. split; [cbn [map snd]; constructor; exact S|].
      constructor; [|exact F]. cbn [fst snd d_type d_bias d_prio d_cond d_name]. repeat split.
      right. apply M2. exact G.
Qed.
