(* C08 - every external value the converter (C02's model, ext = true) hands to the writer is in 0..3: SmData::Atom::extn is a two-bit
   field (`v mod 2^extn_bits`), copied by every operation on the atom map.  Invariant XV over whole runs; consequence: the hypothesis
   `Forall ext_val_ok out` of read_back_externals holds for everything cv_run / conv_write emit. *)
Require Import V.Lib.Base V.Lib.Calls V.Lib.Dec V.Gen.Consts V.Gen.Consts_C02 V.Gen.Consts_C08 V.C02.Model V.C02.Spec V.C08.Model V.C08.Spec
               V.C02.ProofsMap V.C08.ProofsSym V.C08.ProofsTrip.
Local Open Scope Z_scope.

Definition XVm (m : list (Z * arec)) : Prop := forall a, 0 <= aextn (find a m) <= 3.
Definition XV (s : cv) : Prop := XVm (amap s).

Lemma XV_cv0 : XV cv0.
Proof. intros a. cbn. lia. Qed.

Lemma XVm_upd m a r : XVm m -> 0 <= aextn r <= 3 -> XVm (upd a r m).
Proof.
  intros H Hr b. destruct (Z.eq_dec a b) as [<-|N]; [now rewrite find_upd_same | rewrite find_upd_other by exact N; apply H].
Qed.

Lemma XV_mapAtom s a : XV s -> XV (fst (mapAtom s a)) /\ 0 <= aextn (snd (mapAtom s a)) <= 3.
Proof.
  intros H. unfold mapAtom. destruct (negb (smId (find a (amap s)) =? 0)); cbn [fst snd].
  - split; [exact H | apply H].
  - split; [|cbn [aextn]; apply H]. unfold XV, set_core. cbn [amap]. apply XVm_upd; [exact H | cbn [aextn]; apply H].
Qed.
Lemma XV_mapLit s l : XV s -> XV (fst (mapLit s l)).
Proof. intros H. unfold mapLit. pose proof (XV_mapAtom s (Z.abs l) H) as [H1 _]. destruct (mapAtom s (Z.abs l)). exact H1. Qed.
Lemma XV_mapLits ls : forall s, XV s -> XV (fst (mapLits s ls)).
Proof.
  induction ls as [|l r IH]; intros s H; cbn [mapLits]; [exact H|].
  pose proof (XV_mapLit s l H) as H1. destruct (mapLit s l) as [s1 x]. pose proof (IH s1 H1) as H2.
  destruct (mapLits s1 r) as [s2 xs]. exact H2.
Qed.
Lemma XV_mapWLits ls : forall s, XV s -> XV (fst (mapWLits s ls)).
Proof.
  induction ls as [|[l w] r IH]; intros s H; cbn [mapWLits]; [exact H|].
  pose proof (XV_mapLit s l H) as H1. destruct (mapLit s l) as [s1 x]. pose proof (IH s1 H1) as H2.
  destruct (mapWLits s1 r) as [s2 xs]. exact H2.
Qed.
Lemma XV_mapHeadAtom s a : XV s -> XV (fst (mapHeadAtom s a)).
Proof.
  intros H. unfold mapHeadAtom. pose proof (XV_mapAtom s a H) as [H1 H2]. destruct (mapAtom s a) as [s1 r]. cbn [fst snd] in *.
  unfold XV, set_amap, set_core. cbn [amap]. apply XVm_upd; [exact H1 | exact H2].
Qed.
Lemma XV_mapHeadAtoms h : forall s, XV s -> XV (fst (mapHeadAtoms s h)).
Proof.
  induction h as [|a r IH]; intros s H; cbn [mapHeadAtoms]; [exact H|].
  pose proof (XV_mapHeadAtom s a H) as H1. destruct (mapHeadAtom s a) as [s1 x]. pose proof (IH s1 H1) as H2.
  destruct (mapHeadAtoms s1 r) as [s2 xs]. exact H2.
Qed.
Lemma XV_mapHead s h : XV s -> XV (fst (mapHead s h)).
Proof. intros H. unfold mapHead. pose proof (XV_mapHeadAtoms h s H) as H1. destruct (mapHeadAtoms s h). exact H1. Qed.

Lemma ext_ok_rule ht h b : Forall ext_val_ok [CRule ht h b].
Proof. constructor; [exact I | constructor]. Qed.

Lemma XV_makeAux s cond : XV s -> XV (fst (fst (makeAux s cond))) /\ Forall ext_val_ok (snd (makeAux s cond)).
Proof.
  intros H. unfold makeAux, newAtom.
  match goal with |- context [mapLits ?s0 cond] => pose proof (XV_mapLits cond s0 H) as H1; destruct (mapLits s0 cond) end.
  cbn [fst snd] in *. split; [exact H1 | apply ext_ok_rule].
Qed.
Lemma XV_makeAtom s cond named : XV s -> XV (fst (fst (makeAtom s cond named))) /\ Forall ext_val_ok (snd (makeAtom s cond named)).
Proof.
  intros H. unfold makeAtom. destruct cond as [|c [|c2 r]]; try (apply XV_makeAux; exact H).
  destruct (c <? 0); [apply XV_makeAux; exact H|].
  pose proof (XV_mapAtom s (Z.abs c) H) as [H1 H2]. destruct (mapAtom s (Z.abs c)) as [s1 r]. cbn [fst snd] in *.
  destruct (ashow r && named); [apply XV_makeAux; exact H1|]. cbn [fst snd]. split; [|constructor].
  unfold XV, set_amap, set_core. cbn [amap]. apply XVm_upd; [exact H1 | exact H2].
Qed.

Lemma XV_flushMinimize m : forall s, XV s -> XV (fst (flushMinimize s m)) /\ Forall ext_val_ok (snd (flushMinimize s m)).
Proof.
  induction m as [|[p ls] r IH]; intros s H; cbn [flushMinimize]; [split; [exact H | constructor]|].
  pose proof (XV_mapWLits ls s H) as H1. destruct (mapWLits s ls) as [s1 ml]. destruct (IH s1 H1) as [H2 H3].
  destruct (flushMinimize s1 r) as [s2 cs]. cbn [fst snd] in *. split; [exact H2 | constructor; [exact I | exact H3]].
Qed.
Lemma XV_flushExternal_f es : forall s hd, XV s ->
  XV (fst (fst (flushExternal_f true s es hd))) /\ Forall ext_val_ok (snd (fst (flushExternal_f true s es hd))).
Proof.
  induction es as [|a r IH]; intros s hd H; cbn [flushExternal_f]; [split; [exact H | constructor]|].
  pose proof (XV_mapAtom s a H) as [H1 H2]. destruct (mapAtom s a) as [s1 ar]. cbn [fst snd] in *.
  destruct (IH s1 hd H1) as [H3 H4]. destruct (flushExternal_f true s1 r hd) as [[s2 cs] hd2]. cbn [fst snd] in *.
  split; [exact H3 | constructor; [exact H2 | exact H4]].
Qed.
Lemma XV_flushExternal s : XV s -> XV (fst (flushExternal true s)) /\ Forall ext_val_ok (snd (flushExternal true s)).
Proof.
  intros H. unfold flushExternal. destruct (XV_flushExternal_f (exts s) s [] H) as [H1 H2].
  destruct (flushExternal_f true s (exts s) []) as [[s1 cs] hd]. cbn [fst snd] in *. split; [exact H1|].
  apply Forall_app. split; [exact H2|]. destruct hd; [constructor | apply ext_ok_rule].
Qed.
Lemma XV_flushHeuristic_f hs : forall s, XV s -> XV (fst (flushHeuristic_f s hs)) /\ Forall ext_val_ok (snd (flushHeuristic_f s hs)).
Proof.
  induction hs as [|h r IH]; intros s H; cbn [flushHeuristic_f]; [split; [exact H | constructor]|].
  destruct (negb (mapped s (h_atom h))); [apply IH; exact H|].
  pose proof (XV_mapAtom s (h_atom h) H) as [H1 H2]. destruct (mapAtom s (h_atom h)) as [s1 ma]. cbn [fst snd] in *.
  destruct (if ashow ma then sym_find (smId ma) (symtab s1) else None) as [n|].
  - destruct (IH s1 H1) as [H3 H4]. destruct (flushHeuristic_f s1 r) as [s3 cs]. cbn [fst snd] in *.
    split; [exact H3 | constructor; [exact I | exact H4]].
  - unfold addOutput. cbn [fst snd].
    match goal with |- context [flushHeuristic_f ?s2 r] => assert (H2' : XV s2); [|destruct (IH s2 H2') as [H3 H4]; destruct (flushHeuristic_f s2 r) as [s3 cs]] end.
    { unfold XV, set_amap, set_core. cbn [amap]. apply XVm_upd; [exact H1 | exact H2]. }
    cbn [fst snd] in *. split; [exact H3 | constructor; [exact I | exact H4]].
Qed.
Lemma ext_ok_flushSymbols s : Forall ext_val_ok (flushSymbols s).
Proof. unfold flushSymbols. induction (sym_sort (outs s)) as [|x l IH]; [constructor | constructor; [exact I | exact IH]]. Qed.

Lemma XV_flush s : XV s -> XV (fst (flush true s)) /\ Forall ext_val_ok (snd (flush true s)).
Proof.
  intros H. unfold flush. destruct (XV_flushMinimize (mins s) s H) as [H1 F1]. destruct (flushMinimize s (mins s)) as [s1 c1].
  cbn [fst snd] in *. destruct (XV_flushExternal s1 H1) as [H2 F2]. destruct (flushExternal true s1) as [s2 c2]. cbn [fst snd] in *.
  destruct (XV_flushHeuristic_f (heus s2) s2 H2) as [H3 F3]. destruct (flushHeuristic_f s2 (heus s2)) as [s3 c3]. cbn [fst snd] in *.
  split; [exact H3|]. repeat (apply Forall_app; split); try assumption; [apply ext_ok_flushSymbols | constructor; [exact I | constructor]].
Qed.

Lemma mod4_range v : 0 <= v mod 2 ^ extn_bits <= 3.
Proof. unfold extn_bits. change (2 ^ 2) with 4. pose proof (Z.mod_pos_bound v 4 ltac:(lia)). lia. Qed.

Lemma XV_cv_call s c s1 out : XV s -> cv_call true s c = Ok (s1, out) -> XV s1 /\ Forall ext_val_ok out.
Proof.
  intros H Hc.
  destruct c as [i| | |ht head body|ht head bound wbody|prio lits|atoms|name cond|atom v|lits|atom type bias prio cond|from to cond|? ?|? ?|? ? ?|? ? ?|? ? ?|? ? ? ? ?];
    cbn [cv_call] in Hc; try discriminate Hc.
  - injection Hc as <- <-. split; [exact H | constructor; [exact I | constructor]].
  - injection Hc as <- <-. split; [exact H | constructor; [exact I | constructor]].
  - destruct (XV_flush s H) as [H1 F1]. destruct (flush true s) as [sf cs]. cbn [fst snd] in *. injection Hc as <- <-.
    split; [exact H1 | apply Forall_app; split; [exact F1 | constructor; [exact I | constructor]]].
  - destruct (negb _ || _).
    + pose proof (XV_mapHead s head H) as H1. destruct (mapHead s head) as [sa mh]. cbn [fst] in H1.
      pose proof (XV_mapLits body sa H1) as H2. destruct (mapLits sa body) as [sb mb]. injection Hc as <- <-.
      split; [exact H2 | apply ext_ok_rule].
    + injection Hc as <- <-. split; [exact H | constructor].
  - destruct (negb _ || _).
    + pose proof (XV_mapHead s head H) as H1. destruct (mapHead s head) as [sa mh]. cbn [fst] in H1.
      pose proof (XV_mapWLits wbody sa H1) as H2. destruct (mapWLits sa wbody) as [sb mb]. cbn [fst] in H2.
      destruct (negb (ht =? Head_t_Choice) && (length mh =? 1)%nat && (0 <=? bound)); injection Hc as <- <-.
      * split; [exact H2 | constructor; [exact I | constructor]].
      * split; [exact H2 | constructor; [exact I | apply ext_ok_rule]].
    + injection Hc as <- <-. split; [exact H | constructor].
  - destruct (norm_min lits) as [ls'|]; [|discriminate]. injection Hc as <- <-. split; [exact H | constructor].
  - destruct (XV_makeAtom s cond true H) as [H1 F1]. destruct (makeAtom s cond true) as [[sa a] cs]. cbn [fst snd] in *.
    unfold addOutput in Hc. injection Hc as <- <-. split; [exact H1 | exact F1].
  - pose proof (XV_mapAtom s atom H) as [H1 H2]. destruct (mapAtom s atom) as [sa r]. cbn [fst snd] in *.
    destruct (ahead r); injection Hc as <- <-; (split; [|constructor]); [exact H1|].
    unfold XV, set_exts, set_amap, set_core. cbn [amap]. apply XVm_upd; [exact H1 | cbn [aextn]; apply mod4_range].
  - destruct (XV_makeAtom s cond true H) as [H1 F1]. destruct (makeAtom s cond true) as [[sa hp] cs]. cbn [fst snd] in *.
    injection Hc as <- <-. split; [exact H1 | exact F1].
  - destruct (XV_makeAtom s cond true H) as [H1 F1]. destruct (makeAtom s cond true) as [[sa a] cs]. cbn [fst snd] in *.
    unfold addOutput in Hc. injection Hc as <- <-. split; [exact H1 | exact F1].
Qed.

Lemma XV_cv_run : forall p s s' out, XV s -> cv_run true s p = Ok (s', out) -> XV s' /\ Forall ext_val_ok out.
Proof.
  induction p as [|c r IH]; intros s s' out H Hrun; cbn [cv_run] in Hrun.
  - injection Hrun as <- <-. split; [exact H | constructor].
  - destruct (cv_call true s c) as [[s1 o1]|] eqn:E1; [|discriminate].
    destruct (cv_run true s1 r) as [[s2 o2]|] eqn:E2; [|discriminate]. injection Hrun as <- <-.
    destruct (XV_cv_call s c s1 o1 H E1) as [H1 F1]. destruct (IH s1 s2 o2 H1 E2) as [H2 F2].
    split; [exact H2 | apply Forall_app; split; assumption].
Qed.

(* everything the converter hands to the writer, for ANY input call sequence, carries external values 0..3 only *)
Theorem conv_ext_values p s w out : conv_write true cv0 sw0 p = Ok (s, w, out) -> Forall ext_val_ok out.
Proof. intros H. apply conv_write_run in H. exact (proj2 (XV_cv_run p cv0 s out XV_cv0 H)). Qed.

(* ... so the external calls the reader delivers are exactly those the converter wrote: any program, any number of steps, any options *)
Theorem pipeline_externals o p s w out : conv_write true cv0 sw0 p = Ok (s, w, out) -> snd (read_back o out) = true ->
  Forall ext_val_ok out /\ filter is_ext_call (fst (read_back o out)) = filter is_ext_call out.
Proof.
  intros H Hrd. pose proof (conv_ext_values p s w out H) as Hv. split; [exact Hv | exact (read_back_externals o out Hv Hrd)].
Qed.
