(* C08 - the trip over SEVERAL steps: induction over the step list of  initProgram(i); (beginStep; body; endStep)*.
   Converter side: the step invariant SI E s [] (E = symbols written in earlier steps) with heuristic_ empty at every
   step start; reader side: the invariant "the reader's symbol table IS the cumulative table T of all (name, atom)
   symbols written so far" (with cHeuristic; without it no table is kept and none is needed), T contains E, all atoms
   of T are non-zero; the node table only grows.  The reader keeps its state between steps iff its `inc` flag is set
   (doAttach: the text starts with the byte 9); when it is not set, a second step is refused ("invalid extra input"),
   so an ACCEPTED text of two or more steps is always read with the tables kept. *)
Require Import V.Lib.Base V.Lib.Calls V.Lib.Dec V.Gen.Consts V.Gen.Consts_C02 V.Gen.Consts_C08 V.C02.Model V.C02.Spec V.C08.Model V.C08.Spec
               V.C02.ProofsMap V.C08.ProofsStr V.C08.ProofsSym V.C08.ProofsFlush V.C08.ProofsConv V.C08.ProofsTrip V.C08.ProofsExtVal V.C08.SpecTrip.
Require Import Permutation.
Local Open Scope Z_scope.

(* ---------- one step: converter side + decomposition of the reader's run ---------- *)
Lemma heus_flush ext s : heus (fst (flush ext s)) = [].
Proof.
  unfold flush. destruct (flushMinimize s (mins s)) as [s1 c1]. destruct (flushExternal ext s1) as [s2 c2].
  destruct (flushHeuristic_f s2 (heus s2)) as [s3 c3]. reflexivity.
Qed.

Lemma filter_out_assume ls : filter is_out_call [CAssume ls] = [].
Proof. reflexivity. Qed.

(* the calls in front of the symbols: the external calls come back unchanged when their values are 0..3 *)
Lemma rd_pre_x : forall pre rest o inc st syms done n d,
  forallb is_pre pre = true -> Forall ext_val_ok pre -> rd_calls o inc st syms done n (pre ++ rest) = (d, true) ->
  exists dp dr, d = dp ++ dr /\ rd_calls o inc st syms done n rest = (dr, true) /\ forallb is_pre dp = true /\
                filter is_ext_call dp = filter is_ext_call pre.
Proof.
  induction pre as [|c pre IH]; intros rest o inc st syms done n d Hp Hv H.
  - exists [], d. auto.
  - cbn [forallb] in Hp. apply andb_true_iff in Hp. destruct Hp as [Hc Hp]. inversion Hv as [|? ? Hvc Hvp]; subst. cbn [app rd_calls] in H.
    destruct c; try discriminate Hc.
    + destruct (rd_calls o inc st syms done n (pre ++ rest)) as [d1 ok] eqn:E. injection H as <- ->.
      destruct (IH _ _ _ _ _ _ _ _ Hp Hvp E) as (dp & dr & -> & Er & Fp & Fx). exists (CRule ht head (reorder body) :: dp), dr.
      split; [reflexivity|]. split; [exact Er|]. split; [exact Fp | exact Fx].
    + exact (IH _ _ _ _ _ _ _ _ Hp Hvp H).
    + exact (IH _ _ _ _ _ _ _ _ Hp Hvp H).
    + cbn [ext_val_ok] in Hvc. rewrite (ext_values_back v Hvc) in H.
      destruct (rd_calls o inc st syms done n (pre ++ rest)) as [d1 ok] eqn:E. injection H as <- ->.
      destruct (IH _ _ _ _ _ _ _ _ Hp Hvp E) as (dp & dr & -> & Er & Fp & Fx). exists (CExternal a v :: dp), dr.
      split; [reflexivity|]. split; [exact Er|]. split; [exact Fp|]. cbn [filter is_ext_call]. now rewrite Fx.
Qed.

Lemma rd_step_x o inc st n pre items ls rest d :
  forallb is_pre pre = true -> Forall ext_val_ok pre ->
  rd_calls o inc st [] false n (pre ++ map out_of items ++ [CAssume ls] ++ CEnd :: rest) = (d, true) ->
  exists dp dr,
    d = dp ++ snd (read_step o st (map sym_of items)) ++ compute_rules ls ++ CEnd :: dr /\
    forallb is_pre dp = true /\ filter is_ext_call dp = filter is_ext_call pre /\
    rd_calls o inc (if inc then fst (read_step o st (map sym_of items)) else r0) [] false (n + 1) rest = (dr, true).
Proof.
  intros Hp Hv H. destruct (rd_pre_x _ _ _ _ _ _ _ _ _ Hp Hv H) as (dp & d1 & -> & E1 & Fp & Fx).
  rewrite rd_outs in E1. cbn [app rd_calls flush_syms] in E1.
  destruct (read_step o st (map sym_of items)) as [st1 c1] eqn:Ers. cbn [fst snd].
  destruct (rd_calls o inc (if inc then st1 else r0) [] false (n + 1) rest) as [dr ok] eqn:Er.
  cbn [app] in E1. injection E1 as <- ->. exists dp, dr. split; [reflexivity|]. split; [exact Fp|]. split; [exact Fx | reflexivity].
Qed.

Lemma filter_ext_items items : filter is_ext_call (map out_of items) = [].
Proof. induction items as [|it r IH]; [reflexivity | exact IH]. Qed.

Lemma step_shape o inc E s st n body sf outk rest d :
  SI E s [] -> Inv s -> heus s = [] ->
  forallb in_step body = true -> Forall call_ok body ->
  cv_run true s (body ++ [CEnd]) = Ok (sf, outk) -> next sf <= SMID_MOD ->
  Forall out_pos outk -> Forall ext_val_ok outk ->
  rd_calls o inc st [] false n (outk ++ rest) = (d, true) ->
  exists (sb : cv) (ob : list call) (names : list (list Z)) (its_b its_g sorted : list sitem) (dp dr : list call),
    let s2 := fst (flushExternal true (fst (flushMinimize sb (mins sb)))) in
    let hm := filter (fun h => mapped s2 (h_atom h)) (heus sb) in
    let items := heu_syms hm names ++ sorted in
    cv_run true s body = Ok (sb, ob) /\ sf = fst (flush true sb) /\
    Forall2 heu_rel (filter is_heu_call body) (heus sb) /\
    length names = length hm /\
    Permutation sorted (its_b ++ its_g) /\
    Forall2 edge_rel (filter is_edge_call body) (edges_of its_b) /\
    Forall2 out_rel (filter is_out_call body) (plains_of its_b) /\
    edges_of its_g = [] /\ Forall (fun e => exists k, 0 <= k /\ snd e = fmt_atom_s k) (plains_of its_g) /\
    Forall not_heu sorted /\ Forall ok_item items /\
    Forall (fun hn => In (img s2 (h_atom (fst hn)) mod AM, snd hn) (E ++ map sym_of sorted)) (combine hm names) /\
    (forall k a, In (k, a) (map entry_of items) -> a <> 0) /\
    filter is_out_call (snd (flush true sb)) = map out_of items /\
    SI (E ++ map sym_of sorted) sf [] /\ Inv sf /\ heus sf = [] /\
    d = dp ++ snd (read_step o st (map sym_of items)) ++ compute_rules [- false_atom] ++ CEnd :: dr /\
    forallb is_pre dp = true /\ filter is_ext_call dp = filter is_ext_call (ob ++ snd (flush true sb)) /\
    rd_calls o inc (if inc then fst (read_step o st (map sym_of items)) else r0) [] false (n + 1) rest = (dr, true).
Proof.
  intros HSI HI Hh0 Hin Hok Hrun Hb Hpos Hval Hrd.
  destruct (cv_run_app _ _ _ _ _ _ Hrun) as (sb & ob & oe & Eb & Ee & ->).
  cbn [cv_run cv_call] in Ee. destruct (flush true sb) as [sf' cs] eqn:Ef. injection Ee as <- <-.
  destruct (body_run E body s [] sb ob Hin Hok Eb HSI) as (its_b & hs & SIb & Pob & Hh & Rh & Re & Ro).
  rewrite Hh0 in Hh. cbn [app] in SIb, Hh.
  pose proof (good_cv_run _ _ _ _ _ Eb) as Gb.
  assert (Gf : good sb sf').
  { pose proof (good_flush true sb) as G. now rewrite Ef in G. }
  assert (Ib : Inv sb).
  { destruct Gb as [_ K]. apply K; [exact HI|]. pose proof (proj1 Gf). lia. }
  destruct (flush_shape E sb its_b sf' cs SIb Ib Hb Ef) as
    (pre & names & its_g & sorted & Ecs & Ppre & Ln & Perm & Edg & Plg & Oki & Nh & Fn & SIf & If & _). cbn zeta in *.
  set (s2 := fst (flushExternal true (fst (flushMinimize sb (mins sb))))) in *.
  set (hm := filter (fun h => mapped s2 (h_atom h)) (heus sb)) in *.
  set (items := heu_syms hm names ++ sorted) in *.
  assert (Ppre' : forallb is_pre (ob ++ pre) = true) by (rewrite forallb_app, Pob, Ppre; reflexivity).
  assert (Hfo : filter is_out_call cs = map out_of items).
  { rewrite Ecs, filter_app_, (filter_out_pre _ Ppre), filter_app_, filter_out_items. cbn. now rewrite app_nil_r. }
  assert (Hposi : Forall out_pos (map out_of items)).
  { rewrite <- Hfo. rewrite Forall_forall in Hpos |- *. intros c Hc. apply filter_In in Hc. destruct Hc as [Hc _]. apply Hpos.
    apply in_or_app. right. apply in_or_app. left. apply in_or_app. left. exact Hc. }
  assert (Eout : (ob ++ (cs ++ [CEnd]) ++ []) ++ rest =
                 (ob ++ pre) ++ map out_of items ++ [CAssume [- false_atom]] ++ CEnd :: rest).
  { rewrite Ecs. cbn [app]. rewrite app_nil_r, <- !app_assoc. reflexivity. }
  rewrite Eout in Hrd. clear Eout.
  assert (Hvp : Forall ext_val_ok (ob ++ pre)).
  { rewrite Forall_forall in Hval |- *. intros c Hc. apply Hval. apply in_app_or in Hc. apply in_or_app.
    destruct Hc as [Hc|Hc]; [now left | right]. apply in_or_app. left. apply in_or_app. left. rewrite Ecs. apply in_or_app. now left. }
  destruct (rd_step_x o inc st n (ob ++ pre) items [- false_atom] rest d Ppre' Hvp Hrd) as (dp & dr & Ed & Fdp & Fx & Edr).
  assert (Hfx : filter is_ext_call dp = filter is_ext_call (ob ++ cs)).
  { rewrite Fx, Ecs, !filter_app_, filter_ext_items. cbn [filter is_ext_call]. now rewrite !app_nil_r. }
  exists sb, ob, names, its_b, its_g, sorted, dp, dr. cbn zeta. fold s2 hm items. rewrite Ef. cbn [fst snd].
  split; [exact Eb|]. split; [reflexivity|]. split; [rewrite Hh; exact Rh|]. split; [exact Ln|]. split; [exact Perm|].
  split; [exact Re|]. split; [exact Ro|]. split; [exact Edg|]. split; [exact Plg|]. split; [exact Nh|]. split; [exact Oki|].
  split; [exact Fn|]. split; [exact (entry_pos items Hposi)|]. split; [exact Hfo|]. split; [exact SIf|]. split; [exact If|].
  split. { pose proof (heus_flush true sb) as H. now rewrite Ef in H. }
  split; [exact Ed|]. split; [exact Fdp|]. split; [exact Hfx | exact Edr].
Qed.

(* ---------- the delivered segment contains no protocol call between beginStep and endStep ---------- *)
Lemma pre_in_step dp : forallb is_pre dp = true -> forallb in_step dp = true.
Proof.
  intros H. rewrite forallb_forall in *. intros c Hc. specialize (H c Hc). destruct c; try discriminate H; reflexivity.
Qed.
Lemma spec_in_step : forall items o nodes, forallb in_step (snd (spec_syms o nodes items)) = true.
Proof.
  induction items as [|it items IH]; intros o nodes; [reflexivity|]. cbn [spec_syms].
  destruct it as [c s t | d | a n].
  - destruct (cE o).
    + destruct (node_add (print_Z s) nodes) as [l1 i]. destruct (node_add (print_Z t) l1) as [l2 j].
      specialize (IH o l2). destruct (spec_syms o l2 items) as [n2 cs]. cbn [snd] in *.
      rewrite !forallb_app, IH. destruct (converted o (IEdge c s t) && flt o); reflexivity.
    + specialize (IH o nodes). destruct (spec_syms o nodes items) as [n2 cs]. cbn [snd] in *.
      rewrite !forallb_app, IH. destruct (converted o (IEdge c s t) && flt o); reflexivity.
  - specialize (IH o nodes). destruct (spec_syms o nodes items) as [n2 cs]. cbn [snd] in *.
    rewrite !forallb_app, IH. destruct (converted o (IHeu d) && flt o); reflexivity.
  - specialize (IH o nodes). destruct (spec_syms o nodes items) as [n2 cs]. cbn [snd] in *.
    rewrite !forallb_app, IH. reflexivity.
Qed.
Lemma deliver_in_step tab ds : forallb in_step (deliver_doms tab ds) = true.
Proof.
  unfold deliver_doms. induction ds as [|d ds IH]; [reflexivity|]. cbn [flat_map]. rewrite forallb_app, IH.
  unfold deliver_dom. destruct (tab_find (d_name d) tab =? 0); reflexivity.
Qed.
Lemma compute_in_step ls : forallb in_step (compute_rules ls) = true.
Proof.
  unfold compute_rules. induction (filter (fun l => 0 <? l) ls ++ filter (fun l => l <? 0) ls) as [|x l IH]; [reflexivity | exact IH].
Qed.
Lemma read_step_in_step o st items : Forall ok_item items -> forallb in_step (snd (read_step o st (map sym_of items))) = true.
Proof.
  intros Hok. rewrite (read_step_items o st items Hok). cbn [snd]. rewrite forallb_app, spec_in_step.
  destruct (cH o); [apply deliver_in_step | reflexivity].
Qed.

(* filtering a delivered segment = filtering what readSymbols delivered *)
Lemma filter_seg (f : call -> bool) dp R ls :
  f CBegin = false -> f CEnd = false -> (forall c, is_pre c = true -> f c = false) -> forallb is_pre dp = true ->
  filter f (CBegin :: (dp ++ R ++ compute_rules ls) ++ [CEnd]) = filter f R.
Proof.
  intros H2 H3 H4 Hp. cbn [filter]. rewrite H2, !filter_app_, (pre_no f dp H4 Hp).
  rewrite (compute_rules_no f ls) by (intros; apply H4; reflexivity). cbn [filter app]. rewrite H3. now rewrite !app_nil_r.
Qed.

(* ---------- one step: the conclusions, with the CUMULATIVE table ---------- *)
Lemma step_concl o E s st T body sb ob names its_b its_g sorted dp :
  let s2 := fst (flushExternal true (fst (flushMinimize sb (mins sb)))) in
  let hm := filter (fun h => mapped s2 (h_atom h)) (heus sb) in
  let items := heu_syms hm names ++ sorted in
  (cH o = true -> r_tab st = T) ->
  (forall a n, In (a, n) E -> In (n, a) T) -> (forall k a, In (k, a) T -> a <> 0) ->
  cv_run true s body = Ok (sb, ob) ->
  Forall2 heu_rel (filter is_heu_call body) (heus sb) ->
  length names = length hm ->
  Permutation sorted (its_b ++ its_g) ->
  Forall2 edge_rel (filter is_edge_call body) (edges_of its_b) ->
  Forall2 out_rel (filter is_out_call body) (plains_of its_b) ->
  edges_of its_g = [] -> Forall (fun e => exists k, 0 <= k /\ snd e = fmt_atom_s k) (plains_of its_g) ->
  Forall not_heu sorted -> Forall ok_item items ->
  Forall (fun hn => In (img s2 (h_atom (fst hn)) mod AM, snd hn) (E ++ map sym_of sorted)) (combine hm names) ->
  (forall k a, In (k, a) (map entry_of items) -> a <> 0) ->
  filter is_out_call (snd (flush true sb)) = map out_of items ->
  forallb is_pre dp = true -> filter is_ext_call dp = filter is_ext_call (ob ++ snd (flush true sb)) ->
  step_trip o s T (r_nodes st) body
            (CBegin :: (dp ++ snd (read_step o st (map sym_of items)) ++ compute_rules [- false_atom]) ++ [CEnd])
            (fst (flush true sb)) (T ++ map entry_of items) (r_nodes (fst (read_step o st (map sym_of items)))).
Proof.
  intros s2 hm items HT HE HTpos Eb Rh Ln Perm Re Ro Edg Plg Nh Oki Fn Pos Hfo Fdp Hfx.
  set (R := read_step o st (map sym_of items)) in *.
  set (T' := T ++ map entry_of items).
  set (seg := CBegin :: (dp ++ snd R ++ compute_rules [- false_atom]) ++ [CEnd]).
  assert (Hd : forall f, f CBegin = false -> f CEnd = false ->
             (forall c, is_pre c = true -> f c = false) -> filter f seg = filter f (snd R)).
  { intros f H2 H3 H4. unfold seg. now apply filter_seg. }
  assert (Eedges : edges_of items = edges_of sorted).
  { unfold items. now rewrite edges_of_app, edges_of_heu_syms. }
  assert (Eheus : heus_of items = map (fun hn => dom_of (fst hn) (snd hn)) (combine hm names)).
  { unfold items. now rewrite heus_of_app, heus_of_heu_syms, (heus_of_not_heu sorted Nh), app_nil_r. }
  assert (Eplains : plains_of items = plains_of sorted).
  { unfold items. now rewrite plains_of_app, plains_of_heu_syms. }
  assert (Pe : Permutation (edges_of sorted) (edges_of its_b)).
  { unfold edges_of. eapply Permutation_trans; [apply Permutation_flat_map; exact Perm|].
    fold (edges_of (its_b ++ its_g)). rewrite edges_of_app, Edg, app_nil_r. apply Permutation_refl. }
  assert (Pp : Permutation (plains_of sorted) (plains_of its_b ++ plains_of its_g)).
  { unfold plains_of at 1. eapply Permutation_trans; [apply Permutation_flat_map; exact Perm|].
    fold (plains_of (its_b ++ its_g)). rewrite plains_of_app. apply Permutation_refl. }
  assert (Pos' : forall k a, In (k, a) T' -> a <> 0).
  { intros k a Hin. apply in_app_or in Hin. destruct Hin as [Hin|Hin]; [exact (HTpos k a Hin) | exact (Pos k a Hin)]. }
  assert (Fn' : Forall (fun hn => In (snd hn, img s2 (h_atom (fst hn)) mod AM) T') (combine hm names)).
  { eapply Forall_impl; [|exact Fn]. intros [h n] H. cbn [fst snd] in *. unfold T'. apply in_or_app.
    apply in_app_or in H. destruct H as [H|H]; [left; now apply HE | right].
    apply entry_swap. unfold items. rewrite map_app. apply in_or_app. now right. }
  assert (Hfound : Forall (fun hn => tab_find (snd hn) T' <> 0) (combine hm names)).
  { eapply Forall_impl; [|exact Fn']. intros hn H. apply tab_find_found; [exact Pos' | eexists; exact H]. }
  exists sb, ob, names, (map entry_of items), (edges_of its_b), (edges_of sorted), (plains_of its_b), (plains_of its_g),
         (dp ++ snd R ++ compute_rules [- false_atom]).
  cbn zeta. fold s2 hm T' seg.
  split; [exact Eb|]. split; [reflexivity|]. split; [exact Rh|]. split; [exact Ln|].
  split. { rewrite Hfo, map_map. reflexivity. }
  split; [reflexivity|]. split; [exact Pos'|].
  split; [reflexivity|].
  split. { rewrite !forallb_app, (pre_in_step dp Fdp), compute_in_step. unfold R. now rewrite (read_step_in_step o st items Oki). }
  split.
  { intros HcH. rewrite Hd by (try reflexivity; intros c; destruct c; cbn; congruence). unfold R.
    destruct (heuristics_back o st items HcH Oki) as [_ ->]. rewrite (HT HcH). fold T'.
    rewrite Eheus. apply deliver_all. exact Hfound. }
  split.
  { intros HcH. rewrite Hd by (try reflexivity; intros c; destruct c; cbn; congruence). unfold R. exact (heuristics_off o st items HcH Oki). }
  split.
  { rewrite Forall_forall in *. intros hn Hhn. split; [exact (Hfound hn Hhn)|]. split; [apply tab_find_in; exact (Hfound hn Hhn) | exact (Fn' hn Hhn)]. }
  split; [exact Re|]. split; [exact Pe|].
  split. { unfold R. rewrite (read_step_items o st items Oki). cbn [fst r_nodes]. apply spec_nodes_ext. }
  split.
  { intros HcE. destruct (edges_back o st items HcE Oki) as [_ Hcalls]. cbn zeta in Hcalls. fold R in Hcalls.
    split.
    - rewrite Hd by (try reflexivity; intros c; destruct c; cbn; congruence). rewrite Hcalls, Eedges. reflexivity.
    - intros c s0 t Hc. rewrite <- Eedges in Hc. exact (edges_nodes_known o st items HcE Oki c s0 t Hc). }
  split; [intros z z'; apply node_of_inj|].
  split.
  { intros z k Hk. unfold R. rewrite (read_step_items o st items Oki). cbn [fst r_nodes].
    destruct (spec_nodes_ext items o (r_nodes st)) as [e ->]. apply node_of_ext. exact Hk. }
  split.
  { intros HcE. rewrite Hd by (try reflexivity; intros c; destruct c; cbn; congruence).
    unfold R. rewrite (read_step_items o st items Oki). cbn [fst snd r_nodes].
    destruct (spec_no_edges items o (r_nodes st) HcE) as [H1 H2]. split; [|exact H2]. rewrite filter_app_, H1.
    destruct (cH o); [apply deliver_doms_not; reflexivity | reflexivity]. }
  split; [exact Ro|]. split; [exact Plg|].
  split.
  { intros Hf. rewrite Hd by (try reflexivity; intros c; destruct c; cbn; congruence).
    unfold R. rewrite (read_step_unfiltered o st _ Hf), !map_map. reflexivity. }
  split.
  2:{ unfold seg. cbn [filter is_ext_call]. rewrite !filter_app_, compute_rules_no_ext. unfold R.
      pose proof (flush_syms_no_ext o st (map sym_of items) false) as Hn. cbn [flush_syms] in Hn. rewrite Hn.
      cbn [filter is_ext_call app]. rewrite !app_nil_r, <- filter_app_. exact Hfx. }
  intros HcE HcH Hf.
  assert (Hshown : forall c, In c (filter is_out_call seg) <-> exists a n, c = COutput n [a] /\ In (a, n) (plains_of its_b ++ plains_of its_g)).
  { intros c. rewrite Hd by (try reflexivity; intros c0; destruct c0; cbn; congruence). unfold R.
    rewrite (filtered_outputs_plain o st items HcE HcH Hf Oki c).
    split; intros (a & n & -> & H); exists a, n; (split; [reflexivity|]).
    - apply In_plains in H. rewrite Eplains in H. eapply Permutation_in; [exact Pp | exact H].
    - apply In_plains. rewrite Eplains. eapply Permutation_in; [apply Permutation_sym; exact Pp | exact H]. }
  split; [exact Hshown|].
  intros n a Hc. rewrite Hd in Hc by (try reflexivity; intros c0; destruct c0; cbn; congruence). unfold R in Hc.
  apply (filtered_outputs_plain o st items HcE HcH Hf Oki) in Hc. destruct Hc as (a' & n' & Heq & Hit). injection Heq as -> ->.
  rewrite Forall_forall in Oki. exact (proj2 (Oki _ Hit)).
Qed.

(* ---------- the induction over the steps ---------- *)
Lemma seg_assoc (dp R cr dr : list call) :
  CBegin :: dp ++ R ++ cr ++ CEnd :: dr = (CBegin :: (dp ++ R ++ cr) ++ [CEnd]) ++ dr.
Proof. cbn [app]. rewrite <- !app_assoc. reflexivity. Qed.

Lemma steps_trip o inc : forall bodies s E st T n sF out d,
  SI E s [] -> Inv s -> heus s = [] ->
  (cH o = true -> r_tab st = T) -> (forall a x, In (a, x) E -> In (x, a) T) -> (forall k a, In (k, a) T -> a <> 0) ->
  0 <= n ->
  Forall body_ok bodies ->
  cv_run true s (flat_map step_calls bodies) = Ok (sF, out) -> next sF <= SMID_MOD -> Forall out_pos out -> Forall ext_val_ok out ->
  rd_calls o inc st [] false n out = (d, true) ->
  exists segs, d = concat segs /\ trip_steps o s T (r_nodes st) bodies segs.
Proof.
  induction bodies as [|b bs IH]; intros s E st T n sF out d HSI HI Hh0 HT HE HTpos Hn Hok Hrun HB Hpos Hval Hrd.
  - cbn [flat_map cv_run] in Hrun. injection Hrun as _ <-. cbn [rd_calls] in Hrd. injection Hrd as <-.
    exists []. split; reflexivity.
  - inversion Hok as [|? ? [Hin Hcok] Hoks]; subst.
    cbn [flat_map step_calls app cv_run cv_call] in Hrun.
    destruct (cv_run true s ((b ++ [CEnd]) ++ flat_map step_calls bs)) as [[sx ox]|] eqn:Ex; [|discriminate].
    injection Hrun as -> <-.
    destruct (cv_run_app _ _ _ _ _ _ Ex) as (sf & outk & orest & Ek & Er & ->).
    pose proof (good_cv_run _ _ _ _ _ Er) as Gr.
    assert (Bf : next sf <= SMID_MOD) by (pose proof (proj1 Gr); lia).
    cbn [app] in Hpos, Hval, Hrd. inversion Hpos as [|? ? _ Hpos']; subst. apply Forall_app in Hpos'. destruct Hpos' as [Hposk Hposr].
    inversion Hval as [|? ? _ Hval']; subst. apply Forall_app in Hval'. destruct Hval' as [Hvalk Hvalr].
    cbn [rd_calls] in Hrd. destruct (negb inc && (0 <? n)); [discriminate|].
    destruct (rd_calls o inc st [] false n (outk ++ orest)) as [d1 ok1] eqn:E1. injection Hrd as <- ->.
    destruct (step_shape o inc E s st n b sf outk orest d1 HSI HI Hh0 Hin Hcok Ek Bf Hposk Hvalk E1) as
      (sb & ob & names & its_b & its_g & sorted & dp & dr & Eb & Esf & Rh & Ln & Perm & Re & Ro & Edg & Plg & Nh & Oki & Fn & Pos & Hfo
       & SIf & If & Hhf & Ed & Fdp & Hfx & Edr).
    cbn zeta in *.
    set (s2 := fst (flushExternal true (fst (flushMinimize sb (mins sb))))) in *.
    set (hm := filter (fun h => mapped s2 (h_atom h)) (heus sb)) in *.
    set (items := heu_syms hm names ++ sorted) in *.
    pose proof (step_concl o E s st T b sb ob names its_b its_g sorted dp HT HE HTpos Eb Rh Ln Perm Re Ro Edg Plg Nh Oki Fn Pos Hfo Fdp Hfx) as Hstep.
    cbn zeta in Hstep. fold s2 hm items in Hstep. rewrite <- Esf in Hstep.
    set (seg := CBegin :: (dp ++ snd (read_step o st (map sym_of items)) ++ compute_rules [- false_atom]) ++ [CEnd]) in *.
    assert (Hseg : forall segs, dr = concat segs -> CBegin :: d1 = concat (seg :: segs)).
    { intros segs ->. rewrite Ed. cbn [concat]. unfold seg. apply seg_assoc. }
    destruct inc.
    + (* the reader keeps its state *)
      set (st' := fst (read_step o st (map sym_of items))) in *.
      assert (HT' : cH o = true -> r_tab st' = T ++ map entry_of items).
      { intros HcH. unfold st'. destruct (heuristics_back o st items HcH Oki) as [-> _]. now rewrite (HT HcH). }
      assert (HE' : forall a x, In (a, x) (E ++ map sym_of sorted) -> In (x, a) (T ++ map entry_of items)).
      { intros a x Hin'. apply in_or_app. apply in_app_or in Hin'. destruct Hin' as [H|H]; [left; now apply HE | right].
        apply entry_swap. unfold items. rewrite map_app. apply in_or_app. now right. }
      assert (HTpos' : forall k a, In (k, a) (T ++ map entry_of items) -> a <> 0).
      { intros k a Hin'. apply in_app_or in Hin'. destruct Hin' as [H|H]; [exact (HTpos k a H) | exact (Pos k a H)]. }
      destruct (IH sf (E ++ map sym_of sorted) st' (T ++ map entry_of items) (n + 1) sF orest dr SIf If Hhf HT' HE' HTpos'
                   ltac:(lia) Hoks Er HB Hposr Hvalr Edr) as (segs & Edr' & Hsteps).
      exists (seg :: segs). split; [now apply Hseg|]. cbn [trip_steps].
      exists sf, (T ++ map entry_of items), (r_nodes st'). split; [exact Hstep | exact Hsteps].
    + (* the reader drops its state: a further step is refused *)
      destruct bs as [|b2 bs2].
      * cbn [flat_map cv_run] in Er. injection Er as _ <-. cbn [rd_calls] in Edr. injection Edr as <-.
        exists [seg]. split; [now apply Hseg|]. cbn [trip_steps].
        exists sf, (T ++ map entry_of items), (r_nodes (fst (read_step o st (map sym_of items)))). split; [exact Hstep | exact I].
      * exfalso. cbn [flat_map step_calls app cv_run cv_call] in Er.
        destruct (cv_run true sf ((b2 ++ [CEnd]) ++ flat_map step_calls bs2)) as [[sy oy]|]; [|discriminate].
        injection Er as _ <-. cbn [app rd_calls negb andb] in Edr.
        destruct (Z.ltb_spec 0 (n + 1)) as [_|Hc]; [discriminate | lia].
Qed.

(* ---------- the whole trip of a multi-step program ---------- *)
Theorem trip_multi o i bodies s' w' out :
  Forall body_ok bodies ->
  conv_write true cv0 sw0 (prog i bodies) = Ok (s', w', out) ->
  next s' <= SMID_MOD -> snd (read_back o out) = true ->
  exists segs : list (list call),
    fst (read_back o out) = CInit (reader_inc out) :: concat segs /\
    trip_steps o cv0 [] [] bodies segs.
Proof.
  intros Hok Hcw Hb Hrd.
  pose proof (conv_write_pos _ _ _ _ _ _ _ Hcw) as Hpos.
  pose proof (conv_ext_values _ _ _ _ Hcw) as Hval.
  pose proof (conv_write_run _ _ _ _ _ _ _ Hcw) as Hrun.
  unfold prog in Hrun. cbn [cv_run cv_call] in Hrun.
  destruct (cv_run true cv0 (flat_map step_calls bodies)) as [[sx ox]|] eqn:Ex; [|discriminate].
  injection Hrun as -> <-. cbn [app] in *.
  inversion Hpos as [|? ? _ Hpos']; subst. inversion Hval as [|? ? _ Hval']; subst.
  unfold read_back in *. fold (reader_inc (CInit i :: ox)) in *.
  destruct (negb (has_end (CInit i :: ox))); [discriminate|].
  cbn [rd_calls] in *.
  destruct (rd_calls o (reader_inc (CInit i :: ox)) r0 [] false 0 ox) as [d ok] eqn:Erd. cbn [fst snd] in *. subst ok.
  destruct (steps_trip o (reader_inc (CInit i :: ox)) bodies cv0 [] r0 [] 0 s' ox d SI_cv0 Inv_cv0 eq_refl
              (fun _ => eq_refl) (fun a x H => match H with end) (fun k a H => match H with end) ltac:(lia) Hok Ex Hb Hpos' Hval' Erd)
    as (segs & -> & Hsteps).
  exists segs. split; [reflexivity | exact Hsteps].
Qed.

(* ---------- a reader whose `inc` flag is not set refuses every step after the first ---------- *)
(* ProgramReader::parse: require(!more() || incremental(), "invalid extra input").  After one completed step (n > 0) ... *)
Lemma rd_refuse_pos o rest : forall l st syms done n, 0 < n ->
  snd (rd_calls o false st syms done n (l ++ CBegin :: rest)) = false.
Proof.
  induction l as [|c l IH]; intros st syms done n Hn; cbn [app rd_calls].
  - cbn [negb andb]. destruct (Z.ltb_spec 0 n) as [_|Hc]; [reflexivity | lia].
  - destruct c; try (apply IH; exact Hn).
    + cbn [negb andb]. destruct (Z.ltb_spec 0 n) as [_|Hc]; [reflexivity | lia].
    + destruct (flush_syms o st syms done) as [st1 c1].
      specialize (IH r0 [] false (n + 1) ltac:(lia)). cbn [negb] in IH.
      destruct (rd_calls o false r0 [] false (n + 1) (l ++ CBegin :: rest)) as [d ok]. exact IH.
    + specialize (IH st syms done n Hn). destruct (rd_calls o false st syms done n (l ++ CBegin :: rest)) as [d ok]. exact IH.
    + destruct (ext_rw v) as [v'|]; [|reflexivity].
      specialize (IH st syms done n Hn). destruct (rd_calls o false st syms done n (l ++ CBegin :: rest)) as [d ok]. exact IH.
    + destruct (flush_syms o st syms done) as [st1 c1].
      specialize (IH st1 [] true n Hn). destruct (rd_calls o false st1 [] true n (l ++ CBegin :: rest)) as [d ok]. exact IH.
Qed.

(* ... and so a beginStep that follows an endStep is refused, whatever comes before and in between *)
Lemma rd_refuse o rest : forall l st syms done n, 0 <= n -> In CEnd l ->
  snd (rd_calls o false st syms done n (l ++ CBegin :: rest)) = false.
Proof.
  induction l as [|c l IH]; intros st syms done n Hn Hin; [contradiction|].
  destruct Hin as [->|Hin].
  - cbn [app rd_calls]. destruct (flush_syms o st syms done) as [st1 c1]. cbn [negb].
    pose proof (rd_refuse_pos o rest l r0 [] false (n + 1) ltac:(lia)) as H.
    destruct (rd_calls o false r0 [] false (n + 1) (l ++ CBegin :: rest)) as [d ok]. exact H.
  - cbn [app rd_calls]. destruct c; try (apply IH; assumption).
    + cbn [negb andb]. destruct (0 <? n); [reflexivity|].
      specialize (IH st [] false n Hn Hin). destruct (rd_calls o false st [] false n (l ++ CBegin :: rest)) as [d ok]. exact IH.
    + destruct (flush_syms o st syms done) as [st1 c1].
      specialize (IH r0 [] false (n + 1) ltac:(lia) Hin). cbn [negb].
      destruct (rd_calls o false r0 [] false (n + 1) (l ++ CBegin :: rest)) as [d ok]. exact IH.
    + specialize (IH st syms done n Hn Hin). destruct (rd_calls o false st syms done n (l ++ CBegin :: rest)) as [d ok]. exact IH.
    + destruct (ext_rw v) as [v'|]; [|reflexivity].
      specialize (IH st syms done n Hn Hin). destruct (rd_calls o false st syms done n (l ++ CBegin :: rest)) as [d ok]. exact IH.
    + destruct (flush_syms o st syms done) as [st1 c1].
      specialize (IH st1 [] true n Hn Hin). destruct (rd_calls o false st1 [] true n (l ++ CBegin :: rest)) as [d ok]. exact IH.
Qed.

(* two or more steps are accepted by the reader only with its `inc` flag set (then it keeps symbol and node table) *)
Theorem multi_step_needs_inc o i b1 b2 bs s' w' out :
  conv_write true cv0 sw0 (prog i (b1 :: b2 :: bs)) = Ok (s', w', out) ->
  reader_inc out = false -> snd (read_back o out) = false.
Proof.
  intros Hcw Hinc.
  pose proof (conv_write_run _ _ _ _ _ _ _ Hcw) as Hrun.
  unfold prog in Hrun. cbn [flat_map step_calls app cv_run cv_call] in Hrun.
  destruct (cv_run true cv0 ((b1 ++ [CEnd]) ++ CBegin :: (b2 ++ [CEnd]) ++ flat_map step_calls bs)) as [[sx ox]|] eqn:Ex; [|discriminate].
  injection Hrun as -> <-.
  destruct (cv_run_app _ _ _ _ _ _ Ex) as (s1 & o1 & o2 & E1 & E2 & ->).
  destruct (cv_run_app _ _ _ _ _ _ E1) as (sb & ob & oe & Eb & Ee & ->).
  cbn [cv_run cv_call] in Ee. destruct (flush true sb) as [sf cs]. injection Ee as _ <-.
  cbn [cv_run cv_call] in E2. destruct (cv_run true s1 ((b2 ++ [CEnd]) ++ flat_map step_calls bs)) as [[sy oy]|]; [|discriminate].
  injection E2 as _ <-.
  match goal with |- snd (read_back o ?X) = false => set (out := X) in * end.
  assert (Eo : out = (CInit i :: CBegin :: ob ++ cs ++ [CEnd]) ++ CBegin :: oy).
  { unfold out. cbn [app]. rewrite ?app_nil_r, <- ?app_assoc. cbn [app]. reflexivity. }
  unfold read_back. destruct (negb (has_end out)); [reflexivity|].
  change (prog_inc out || starts_with_9 (prog_inc out) out) with (reader_inc out). rewrite Hinc.
  pose proof (rd_refuse o oy (CInit i :: CBegin :: ob ++ cs ++ [CEnd]) r0 [] false 0 ltac:(lia)) as H.
  rewrite <- Eo in H.
  destruct (rd_calls o false r0 [] false 0 out) as [d ok]. cbn [snd] in *. apply H.
  right. right. apply in_or_app. right. apply in_or_app. right. left. reflexivity.
Qed.

(* the reader's flag for what the converter wrote for  prog i bodies:  i, or "the first written line is an external" *)
Lemma reader_inc_prog i bodies s' w' out :
  conv_write true cv0 sw0 (prog i bodies) = Ok (s', w', out) -> reader_inc out = i || starts_with_9 i out.
Proof.
  intros Hcw. pose proof (conv_write_run _ _ _ _ _ _ _ Hcw) as Hrun.
  unfold prog in Hrun. cbn [cv_run cv_call] in Hrun.
  destruct (cv_run true cv0 (flat_map step_calls bodies)) as [[sx ox]|]; [|discriminate].
  injection Hrun as _ <-. reflexivity.
Qed.

(* ---------- ONE renaming of the graph nodes for all steps: node_of (final node table) ---------- *)
Lemma node_of_stable nodes e z : In (print_Z z) nodes -> node_of (nodes ++ e) z = node_of nodes z.
Proof.
  intros H. destruct (node_idx_in _ _ 0 H) as [k Hk]. unfold node_of at 2. rewrite Hk. now apply node_of_ext.
Qed.

Theorem trip_edges_global o : forall bodies segs s T nodes, cE o = true -> trip_steps o s T nodes bodies segs ->
  exists nodesF, (exists e, nodesF = nodes ++ e) /\
    Forall2 (fun body seg => exists es_in es,
               Forall2 edge_rel (filter is_edge_call body) es_in /\ Permutation es es_in /\
               filter is_edge_call seg = map (rename_edge nodesF) es /\
               (forall c s t, In (c, s, t) es -> In (print_Z s) nodesF /\ In (print_Z t) nodesF)) bodies segs.
Proof.
  intros bodies. induction bodies as [|b bs IH]; intros segs s T nodes HcE H; destruct segs as [|seg segs]; cbn [trip_steps] in H;
    try contradiction.
  - exists nodes. split; [exists []; now rewrite app_nil_r | constructor].
  - destruct H as (s1 & T1 & nodes1 & Hstep & Hrest).
    destruct (IH segs s1 T1 nodes1 HcE Hrest) as (nodesF & [e' HnF] & F2).
    destruct Hstep as (sb & ob & names & tabk & es_in & es & shown_in & gen & mid & Hs). cbn zeta in Hs.
    destruct Hs as (_ & _ & _ & _ & _ & _ & _ & _ & _ & _ & _ & _ & Re & Pe & [e Hn1] & HE & _).
    destruct (HE HcE) as [Hcalls Hknown].
    exists nodesF. split; [exists (e ++ e'); rewrite HnF, Hn1, app_assoc; reflexivity|].
    constructor; [|exact F2]. exists es_in, es. split; [exact Re|]. split; [exact Pe|]. split.
    + rewrite Hcalls. apply map_ext_in. intros [[c x] y] Hin. destruct (Hknown c x y Hin) as [Hx Hy]. unfold rename_edge.
      rewrite HnF, (node_of_stable nodes1 e' x Hx), (node_of_stable nodes1 e' y Hy). reflexivity.
    + intros c x y Hin. destruct (Hknown c x y Hin) as [Hx Hy]. rewrite HnF. split; apply in_or_app; now left.
Qed.

(* end to end: the edges of ALL steps, renamed by ONE injective map *)
Theorem trip_multi_edges o i bodies s' w' out :
  Forall body_ok bodies ->
  conv_write true cv0 sw0 (prog i bodies) = Ok (s', w', out) ->
  next s' <= SMID_MOD -> snd (read_back o out) = true -> cE o = true ->
  exists (segs : list (list call)) (nodesF : list (list Z)),
    fst (read_back o out) = CInit (reader_inc out) :: concat segs /\
    Forall2 (fun body seg => exists es_in es,
               Forall2 edge_rel (filter is_edge_call body) es_in /\ Permutation es es_in /\
               filter is_edge_call seg = map (rename_edge nodesF) es /\
               (forall c s t, In (c, s, t) es -> In (print_Z s) nodesF /\ In (print_Z t) nodesF)) bodies segs /\
    (forall z z', In (print_Z z) nodesF -> node_of nodesF z = node_of nodesF z' -> z = z').
Proof.
  intros Hok Hcw Hb Hrd HcE. destruct (trip_multi o i bodies s' w' out Hok Hcw Hb Hrd) as (segs & Ed & Hsteps).
  destruct (trip_edges_global o bodies segs cv0 [] [] HcE Hsteps) as (nodesF & _ & F2).
  exists segs, nodesF. split; [exact Ed|]. split; [exact F2|]. intros z z'. apply node_of_inj.
Qed.
