(* C08 - executable model of the trip  program -> SmodelsConvert(ext) -> SmodelsOutput(ext) -> text -> SmodelsInput
   with Options{claspExt, cEdge, cHeuristic, filter}, as far as heuristic / edge / external / output directives go.

   (1) string level (src/match_basic_types.cpp), over C strings = lists of bytes (the end of the list is the NUL):
       match_word      match(const char*&, const char* word)
       match_atom_arg  matchAtomArg            (depth counter, quote state with the `quoted` escape flag)
       strtol_m        std::strtol(s, &e, 10)  MODELLED per the C standard: optional isspace bytes, optional sign, maximal
                       digit run, value clamped to [LONG_MIN, LONG_MAX]; None = no conversion (eptr == input)
       match_int       match(const char*&, int&)
       match_heu       match(const char*&, Heuristic_t&)   (tries toString(0), toString(1), .. toString(eMax) in this order)
       match_dom_heu   matchDomHeuPred         (returns code, the advanced pointer, and the four results)
       match_edge      matchEdgePred           (the sscanf branch through a small interpreter of the format string, which
                       knows literal bytes, `%*d` = isspace*, sign?, digit+ and `%n`; then the `_edge(` branch)
       formatters      C02's ideal sprintf over the format strings of convert.cpp (V.Gen.Consts)
   (2) the reader's symbol-table pass (SmodelsInput::readSymbols): classify, NodeTab::add, SymTab::add/find (an
       unordered_map whose insert keeps the first entry = association list searched from the front), deferred heuristics
   (3) the whole trip: C02's converter model in front of C02's writer acceptance automaton; of the calls the converter
       makes on the writer, rules are read back with negative literals first, externals through the value coding,
       `output name [atom]` calls are the symbol table, the compute statement comes back as integrity constraints;
       weight rules and minimize statements are not observed (C02/C05/C07).
   NOT modelled: the text itself (C05/C07 do that); names are assumed free of LF / CR (a line of the symbol table). *)
Require Import V.Lib.Base V.Lib.Calls V.Lib.Dec V.Gen.Consts V.Gen.Consts_C02 V.Gen.Consts_C08 V.C02.Model V.C02.Spec.
Local Open Scope Z_scope.

(* ------------------------------------------------------------------------------------------------ *)
(* (1) string level                                                                                  *)
(* ------------------------------------------------------------------------------------------------ *)
Fixpoint match_word (w s : list Z) : option (list Z) :=
  match w with
  | [] => Some s
  | c :: w' => match s with
               | x :: s' => if x =? c then match_word w' s' else None
               | [] => None
               end
  end.

Definition CH_LPAR : Z := 40.   Definition CH_RPAR : Z := 41.   Definition CH_COMMA : Z := 44.
Definition CH_QUOTE : Z := 34.  Definition CH_BSLASH : Z := 92. Definition CH_MINUS : Z := 45.
Definition CH_PLUS : Z := 43.

(* the scan loop of matchAtomArg: p = parenthesis depth, q = None outside a string, Some quoted inside one.
   Result: (bytes scanned, rest); None = the string ended inside a quoted string (`return false`). *)
Fixpoint scan_arg (s : list Z) (p : Z) (q : option bool) : option (list Z * list Z) :=
  match s with
  | [] => match q with None => Some ([], []) | Some _ => None end
  | c :: r =>
      match q with
      | Some quoted =>
          if (c =? CH_QUOTE) && negb quoted
          then match scan_arg r p None with Some (a, t) => Some (c :: a, t) | None => None end
          else match scan_arg r p (Some (negb quoted && (c =? CH_BSLASH))) with Some (a, t) => Some (c :: a, t) | None => None end
      | None =>
          if c =? CH_LPAR then match scan_arg r (p + 1) None with Some (a, t) => Some (c :: a, t) | None => None end
          else if c =? CH_RPAR then
            if p - 1 <? 0 then Some ([], s)
            else match scan_arg r (p - 1) None with Some (a, t) => Some (c :: a, t) | None => None end
          else if c =? CH_COMMA then
            if p =? 0 then Some ([], s)
            else match scan_arg r p None with Some (a, t) => Some (c :: a, t) | None => None end
          else if c =? CH_QUOTE then match scan_arg r p (Some false) with Some (a, t) => Some (c :: a, t) | None => None end
          else match scan_arg r p None with Some (a, t) => Some (c :: a, t) | None => None end
      end
  end.

(* bool matchAtomArg(const char*& input, StringSpan& arg): None = false (input unchanged in both failing cases) *)
Definition match_atom_arg (s : list Z) : option (list Z * list Z) :=
  match scan_arg s 0 None with
  | Some ([], _) => None
  | Some (a, t) => Some (a, t)
  | None => None
  end.

(* isspace in the "C" locale *)
Definition is_space (c : Z) : bool := (c =? 32) || ((9 <=? c) && (c <=? 13)).
Fixpoint skip_space (s : list Z) : list Z :=
  match s with
  | c :: r => if is_space c then skip_space r else s
  | [] => []
  end.
Fixpoint take_digits (s : list Z) : list Z * list Z :=
  match s with
  | c :: r => if is_digit c then let '(d, t) := take_digits r in (c :: d, t) else ([], s)
  | [] => ([], [])
  end.
Definition clamp (lo hi v : Z) : Z := if v <? lo then lo else if hi <? v then hi else v.

(* subject sequence of strtol / of scanf's %d: (negative?, digits, rest); None = no conversion *)
Definition int_subject (s : list Z) : option (bool * list Z * list Z) :=
  let s1 := skip_space s in
  let '(neg, s2) := match s1 with
                    | c :: r => if c =? CH_MINUS then (true, r) else if c =? CH_PLUS then (false, r) else (false, s1)
                    | [] => (false, s1)
                    end in
  let '(ds, rest) := take_digits s2 in
  match ds with [] => None | _ => Some (neg, ds, rest) end.

Definition strtol_m (s : list Z) : option (Z * list Z) :=
  match int_subject s with
  | None => None
  | Some (neg, ds, rest) => Some (clamp C_LONG_MIN C_LONG_MAX (if neg then - value ds else value ds), rest)
  end.

(* bool match(const char*& input, int& out) *)
Definition match_int (s : list Z) : option (Z * list Z) :=
  match strtol_m s with
  | None => None
  | Some (t, rest) => if (t <? C_INT_MIN) || (C_INT_MAX <? t) then None else Some (t, rest)
  end.

(* const char* toString(Heuristic_t) *)
Fixpoint lc_name (t : Z) (tab : list (Z * list Z)) : list Z :=
  match tab with [] => heu_lc_default | (k, n) :: r => if k =? t then n else lc_name t r end.

(* bool match(const char*& input, Heuristic_t& heuType): for x = 0 .. eMax *)
Fixpoint match_heu_f (n : nat) (x : Z) (s : list Z) : option (Z * list Z) :=
  match n with
  | O => None
  | S n' => match match_word (lc_name x heu_lc) s with
            | Some r => Some (x, r)
            | None => match_heu_f n' (x + 1) s
            end
  end.
Definition match_heu (s : list Z) : option (Z * list Z) := match_heu_f (Z.to_nat (heu_emax + 1)) 0 s.

(* static_cast<unsigned>(int) and the repaired  prio = bias < 0 ? 0u - unsigned(bias) : unsigned(bias) *)
Definition to_unsigned (z : Z) : Z := z mod C_UINT_MOD.
Definition implicit_prio (bias : Z) : Z :=
  if bias <? 0 then (0 - to_unsigned bias) mod C_UINT_MOD else to_unsigned bias.

Record heu_res := mkHR { hr_name : list Z; hr_type : Z; hr_bias : Z; hr_prio : Z }.
Definition hr0 : heu_res := mkHR [] 0 0 0.

(* int matchDomHeuPred(const char*& in, StringSpan& atom, Heuristic_t& type, int& bias, unsigned& prio)
   -> (return code, in afterwards, results (meaningful when the code is > 0)) *)
Definition match_dom_heu (s : list Z) : Z * list Z * heu_res :=
  match match_word heu_pred s with
  | None => (0, s, hr0)
  | Some s1 =>
      match match_atom_arg s1 with
      | None => (-1, s1, hr0)
      | Some (a, s2) =>
          match match_word [CH_COMMA] s2 with
          | None => (-1, s2, hr0)
          | Some s3 =>
              match match_heu s3 with
              | None => (-2, s3, hr0)
              | Some (t, s4) =>
                  match match_word [CH_COMMA] s4 with
                  | None => (-2, s4, hr0)
                  | Some s5 =>
                      match match_int s5 with
                      | None => (-3, s5, hr0)
                      | Some (b, s6) =>
                          match match_word [CH_COMMA] s6 with
                          | None =>
                              match match_word [CH_RPAR] s6 with
                              | Some s7 => (1, s7, mkHR a t b (implicit_prio b))
                              | None => (-3, s6, hr0)
                              end
                          | Some s7 =>
                              match match_int s7 with
                              | None => (-4, s7, hr0)
                              | Some (p, s8) =>
                                  if p <? 0 then (-4, s8, hr0) else
                                  match match_word [CH_RPAR] s8 with
                                  | Some s9 => (1, s9, mkHR a t b (to_unsigned p))
                                  | None => (-4, s8, hr0)
                                  end
                              end
                          end
                      end
                  end
              end
          end
      end
  end.

(* scanf's %*d *)
Definition scan_d (s : list Z) : option (list Z) :=
  match int_subject s with None => None | Some (_, _, rest) => Some rest end.

(* sscanf over a format of literal bytes, `%*d` and `%n`.  The format text (V.Gen.Consts_C08.acyc_fmt) is first split into
   directives; sscanf_d yields the positions stored by %n, None = the format was not matched to its end (then the last %n
   of matchEdgePred's format is not stored: ePos stays -1) *)
Inductive sdir := DLit (c : Z) | DSkipInt | DPos.
Fixpoint parse_fmt (fmt : list Z) : list sdir :=
  match fmt with
  | [] => []
  | 37 :: 42 :: 100 :: f => DSkipInt :: parse_fmt f
  | 37 :: 110 :: f => DPos :: parse_fmt f
  | c :: f => DLit c :: parse_fmt f
  end.
Fixpoint sscanf_d (ds : list sdir) (s : list Z) (pos : Z) (ns : list Z) : option (list Z) :=
  match ds with
  | [] => Some ns
  | DSkipInt :: f =>
      match scan_d s with
      | None => None
      | Some r => sscanf_d f r (pos + (Z.of_nat (length s) - Z.of_nat (length r))) ns
      end
  | DPos :: f => sscanf_d f s pos (ns ++ [pos])
  | DLit c :: f => match s with
                   | x :: r => if x =? c then sscanf_d f r (pos + 1) ns else None
                   | [] => None
                   end
  end.
Definition sscanf_m (fmt s : list Z) (pos : Z) (ns : list Z) : option (list Z) := sscanf_d (parse_fmt fmt) s pos ns.

Definition sub_bytes (s : list Z) (from len : Z) : list Z := firstn (Z.to_nat len) (skipn (Z.to_nat from) s).

(* int matchEdgePred(const char*& in, StringSpan& n0, StringSpan& n1) -> (code, in afterwards, n0, n1) *)
Definition match_edge (s : list Z) : Z * list Z * (list Z * list Z) :=
  let acyc := match sscanf_m acyc_fmt s 0 [] with
              | Some [sp; tp; ep] => if 0 <? ep then Some (sp, tp, ep) else None
              | _ => None
              end in
  match acyc with
  | Some (sp, tp, ep) =>
      let n0 := sub_bytes s sp ((tp - sp) - 1) in
      let n1 := sub_bytes s tp (ep - tp) in
      (match n0, n1 with _ :: _, _ :: _ => 1 | _, _ => -1 end, skipn (Z.to_nat ep) s, (n0, n1))
  | None =>
      match match_word edge_pred s with
      | None => (0, s, ([], []))
      | Some s1 =>
          match match_atom_arg s1 with
          | None => (-1, s1, ([], []))
          | Some (a, s2) =>
              match match_word [CH_COMMA] s2 with
              | None => (-1, s2, ([], []))
              | Some s3 =>
                  match match_atom_arg s3 with
                  | None => (-2, s3, ([], []))
                  | Some (b, s4) =>
                      match match_word [CH_RPAR] s4 with
                      | None => (-2, s4, ([], []))
                      | Some s5 => (1, s5, (a, b))
                      end
                  end
              end
          end
      end
  end.

(* the three formatters of convert.cpp (C02's ideal sprintf) *)
Definition fmt_heu (n : list Z) (t b p : Z) : list Z :=
  format fmt_heuristic [FS n; FS (heu_name t heu_names); FD b; FU p].
Definition fmt_edge_s (s t : Z) : list Z := format fmt_edge [FD s; FD t].
Definition fmt_atom_s (k : Z) : list Z := format fmt_atom [FU k].

(* ------------------------------------------------------------------------------------------------ *)
(* (2) SmodelsInput::readSymbols                                                                     *)
(* ------------------------------------------------------------------------------------------------ *)
Record ropts := mkO { cE : bool; cH : bool; flt : bool }.
(* r_tab: SymTab::atoms (name -> atom, first insertion wins: searched from the front, new entries at the back);
   r_nodes: NodeTab::nodes (name -> index of first insertion) *)
Record rstate := mkR { r_tab : list (list Z * Z); r_nodes : list (list Z) }.
Definition r0 : rstate := mkR [] [].
Record dom := mkDom { d_name : list Z; d_type : Z; d_bias : Z; d_prio : Z; d_cond : Z }.

Inductive skind := KEdge (n0 n1 : list Z) | KHeu (h : heu_res) | KPlain.

(* if (opts_.cEdge && matchEdgePred(n, n0, n1) > 0) .. else if (opts_.cHeuristic && matchDomHeuPred(n, ..) > 0) ..
   NOTE n is one pointer: what matchEdgePred consumed before it failed stays consumed for matchDomHeuPred *)
Definition classify (o : ropts) (name : list Z) : skind :=
  let n := cut0 name in
  let '(ec, n1, nn) := if cE o then match_edge n else (0, n, ([], [])) in
  if cE o && (0 <? ec) then KEdge (fst nn) (snd nn)
  else if cH o then
    let '(hc, _, h) := match_dom_heu n1 in
    if 0 <? hc then KHeu h else KPlain
  else KPlain.

Fixpoint node_idx (n : list Z) (l : list (list Z)) (i : Z) : option Z :=
  match l with
  | [] => None
  | x :: r => if list_eqb x n then Some i else node_idx n r (i + 1)
  end.
(* Id_t NodeTab::add(const StringSpan& n) *)
Definition node_add (n : list Z) (l : list (list Z)) : list (list Z) * Z :=
  match node_idx n l 0 with
  | Some i => (l, i)
  | None => (l ++ [n], Z.of_nat (length l))
  end.

(* Atom_t SymTab::find(const StringSpan& name): 0 = not found *)
Fixpoint tab_find (n : list Z) (t : list (list Z * Z)) : Z :=
  match t with
  | [] => 0
  | (k, a) :: r => if list_eqb k n then a else tab_find n r
  end.

(* the loop over the symbol lines *)
Fixpoint read_syms (o : ropts) (st : rstate) (doms : list dom) (syms : list (Z * list Z)) : rstate * list dom * list call :=
  match syms with
  | [] => (st, doms, [])
  | (atom, name) :: r =>
      let '(nodes1, doms1, c1, conv) :=
        match classify o name with
        | KEdge a b =>
            let '(l1, s) := node_add a (r_nodes st) in
            let '(l2, t) := node_add b l1 in
            (l2, doms, [CEdge s t [atom]], true)
        | KHeu h => (r_nodes st, doms ++ [mkDom (hr_name h) (hr_type h) (hr_bias h) (hr_prio h) atom], [], true)
        | KPlain => (r_nodes st, doms, [], false)
        end in
      let hide := conv && flt o in
      (* atoms_ exists iff cHeuristic (no table is handed in); add() inserts and, unless filtered, reports the symbol *)
      let tab1 := if cH o then r_tab st ++ [(name, atom)] else r_tab st in
      let c2 := if hide then [] else [COutput name [atom]] in
      let '(st2, doms2, cs) := read_syms o (mkR tab1 nodes1) doms1 r in
      (st2, doms2, c1 ++ c2 ++ cs)
  end.

(* the loop over the deferred heuristics *)
Definition deliver_dom (tab : list (list Z * Z)) (d : dom) : list call :=
  let x := tab_find (d_name d) tab in
  if x =? 0 then [] else [CHeuristic x (d_type d) (d_bias d) (d_prio d) [d_cond d]].
Definition deliver_doms (tab : list (list Z * Z)) (ds : list dom) : list call := flat_map (deliver_dom tab) ds.

Definition read_step (o : ropts) (st : rstate) (syms : list (Z * list Z)) : rstate * list call :=
  let '(st1, ds, cs) := read_syms o st [] syms in
  (st1, cs ++ deliver_doms (r_tab st1) ds).

(* ------------------------------------------------------------------------------------------------ *)
(* (3) the trip                                                                                      *)
(* ------------------------------------------------------------------------------------------------ *)
(* external value: written as (v xor 3) - 1 unless Release (own rule type), read back as (code xor 3) - 1 *)
Definition ext_code (v : Z) : Z := Z.lxor v extw_xor - extw_sub.
Definition ext_decode (c : Z) : Z := Z.lxor c extr_xor - extr_sub.
Definition ext_rw (v : Z) : option Z :=
  if v =? Value_t_Release then Some Value_t_Release
  else let c := ext_code v in if (0 <=? c) && (c <=? extr_max) then Some (ext_decode c) else None.

(* body as SmodelsOutput prints it: the negative literals first *)
Definition reorder (b : list Z) : list Z := filter (fun l => l <? 0) b ++ filter (fun l => 0 <=? l) b.
(* the compute statement read back: B+ atoms first *)
Definition compute_rules (ls : list Z) : list call :=
  map (fun l => CRule Head_t_Disjunctive [] [- l]) (filter (fun l => 0 <? l) ls ++ filter (fun l => l <? 0) ls).

(* does the text start with the byte '9'?  (doAttach takes that for "incremental") *)
Fixpoint starts_with_9 (inc : bool) (cs : list call) : bool :=
  match cs with
  | [] => false
  | CInit _ :: r => starts_with_9 inc r
  | CBegin :: r => if inc then true else starts_with_9 inc r
  | CExternal _ _ :: _ => true
  | _ => false
  end.
Fixpoint prog_inc (cs : list call) : bool :=
  match cs with
  | CInit i :: _ => i
  | _ :: r => prog_inc r
  | [] => false
  end.
Fixpoint has_end (cs : list call) : bool :=
  match cs with [] => false | CEnd :: _ => true | _ :: r => has_end r end.

Definition flush_syms (o : ropts) (st : rstate) (syms : list (Z * list Z)) (done : bool) : rstate * list call :=
  if done then (st, []) else read_step o st syms.

(* the reader over the calls the writer accepted.  syms: symbol lines of the current step; done: readSymbols has run;
   nsteps: completed steps.  Result: delivered calls, false = the reader raised an error at that point. *)
Fixpoint rd_calls (o : ropts) (inc : bool) (st : rstate) (syms : list (Z * list Z)) (done : bool) (nsteps : Z)
                  (cs : list call) : list call * bool :=
  match cs with
  | [] => ([], true)
  | c :: r =>
      match c with
      | CBegin =>
          if negb inc && (0 <? nsteps) then ([], false) (* "invalid extra input" *)
          else let '(d, ok) := rd_calls o inc st [] false nsteps r in (CBegin :: d, ok)
      | CRule ht h b => let '(d, ok) := rd_calls o inc st syms done nsteps r in (CRule ht h (reorder b) :: d, ok)
      | CExternal a v =>
          match ext_rw v with
          | Some v' => let '(d, ok) := rd_calls o inc st syms done nsteps r in (CExternal a v' :: d, ok)
          | None => ([], false)
          end
      | COutput n cond =>
          rd_calls o inc st (syms ++ [(match cond with x :: _ => x | [] => 0 end, n)]) done nsteps r
      | CAssume ls =>
          let '(st1, c1) := flush_syms o st syms done in
          let '(d, ok) := rd_calls o inc st1 [] true nsteps r in
          (c1 ++ compute_rules ls ++ d, ok)
      | CEnd =>
          let '(st1, c1) := flush_syms o st syms done in
          let st2 := if inc then st1 else r0 in
          let '(d, ok) := rd_calls o inc st2 [] false (nsteps + 1) r in
          (c1 ++ CEnd :: d, ok)
      | _ => rd_calls o inc st syms done nsteps r
      end
  end.

Definition E_READ : Z := 1.
Definition is_observed (c : call) : bool :=
  match c with
  | CInit _ | CBegin | CEnd | CRule _ _ _ | COutput _ _ | CExternal _ _ | CHeuristic _ _ _ _ _ | CEdge _ _ _ => true
  | _ => false
  end.

(* what the reader delivers for the calls `out` made on the writer: (delivered, ok) *)
Definition read_back (o : ropts) (out : list call) : list call * bool :=
  if negb (has_end out) then ([], false) else
  let inc := prog_inc out || starts_with_9 (prog_inc out) out in
  let '(d, ok) := rd_calls o inc r0 [] false 0 out in
  (CInit inc :: d, ok).

Fixpoint probes (s : cv) (ps : list Z) : list Z :=
  match ps with
  | [] => []
  | a :: r => let '(s1, x) := mapLit s a in 30 :: a :: x :: probes s1 r
  end.

(* the pipeline on a call sequence p; observation = delivered calls, `21 class` for an error, `30 a get(a)` probes *)
Definition trip (o : ropts) (ps : list Z) (p : list call) : list Z :=
  match conv_write true cv0 sw0 p with
  | Err e => [21; e]
  | Ok (s, _, out) =>
      let '(d, ok) := read_back o out in
      enc_calls (filter is_observed d) ++ (if ok then [] else [21; E_READ]) ++ probes s ps
  end.

(* ---- direct calls of the two predicate matchers ---- *)
Definition consumed (s rest : list Z) : Z := Z.of_nat (length s) - Z.of_nat (length rest).
Definition run_heu (bytes : list Z) : list Z :=
  let s := cut0 bytes in
  let '(code, rest, h) := match_dom_heu s in
  code :: consumed s rest :: (if 0 <? code then enc_list (hr_name h) ++ [hr_type h; hr_bias h; hr_prio h] else []).
Definition run_edge (bytes : list Z) : list Z :=
  let s := cut0 bytes in
  let '(code, rest, nn) := match_edge s in
  code :: consumed s rest :: (if 0 <? code then enc_list (fst nn) ++ enc_list (snd nn) else []).

(* cases:  0 cEdge cHeuristic filter nprobes probes.. calls..   |   1 len bytes..   |   2 len bytes.. *)
Definition run_case (c : list Z) : list Z :=
  match c with
  | 0 :: e :: h :: f :: r =>
      let '(ps, r1) := take_list r in
      trip (mkO (negb (e =? 0)) (negb (h =? 0)) (negb (f =? 0))) ps (dec_calls (length r1) r1)
  | 1 :: r => run_heu (fst (take_list r))
  | 2 :: r => run_edge (fst (take_list r))
  | _ => []
  end.
