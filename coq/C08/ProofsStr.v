(* C08 - string level: the formatters of convert.cpp are read back by the matchers of match_basic_types.cpp. *)
Require Import V.Lib.Base V.Lib.Calls V.Lib.Dec V.Gen.Consts V.Gen.Consts_C02 V.Gen.Consts_C08 V.C02.Model V.C08.Model V.C08.Spec.
Require Import ZifyBool.
Local Open Scope Z_scope.
Ltac Zify.zify_post_hook ::= Z.div_mod_to_equations.

Lemma match_word_app w r : match_word w (w ++ r) = Some r.
Proof. induction w as [|c w IH]; simpl; [reflexivity|]. rewrite Z.eqb_refl. exact IH. Qed.

Lemma match_word1 c r : match_word [c] (c :: r) = Some r.
Proof. simpl. rewrite Z.eqb_refl. reflexivity. Qed.

(* ---- matchAtomArg ---- *)
Lemma scan_walk : forall n p q p' q' r, walk n p q = Some (p', q') ->
  scan_arg (n ++ r) p q = match scan_arg r p' q' with Some (a, t) => Some (n ++ a, t) | None => None end.
Proof.
  induction n as [|c n IH]; intros p q p' q' r H.
  - simpl in H. inversion H; subst. simpl. destruct (scan_arg r p' q') as [[a t]|]; reflexivity.
  - cbn [walk] in H. cbn [app scan_arg].
    destruct q as [quoted|].
    + destruct ((c =? CH_QUOTE) && negb quoted).
      * rewrite (IH _ _ _ _ r H). destruct (scan_arg r p' q') as [[a t]|]; reflexivity.
      * rewrite (IH _ _ _ _ r H). destruct (scan_arg r p' q') as [[a t]|]; reflexivity.
    + destruct (c =? CH_LPAR).
      { rewrite (IH _ _ _ _ r H). destruct (scan_arg r p' q') as [[a t]|]; reflexivity. }
      destruct (c =? CH_RPAR).
      { destruct (p - 1 <? 0); [discriminate|].
        rewrite (IH _ _ _ _ r H). destruct (scan_arg r p' q') as [[a t]|]; reflexivity. }
      destruct (c =? CH_COMMA).
      { destruct (p =? 0); [discriminate|].
        rewrite (IH _ _ _ _ r H). destruct (scan_arg r p' q') as [[a t]|]; reflexivity. }
      destruct (c =? CH_QUOTE).
      { rewrite (IH _ _ _ _ r H). destruct (scan_arg r p' q') as [[a t]|]; reflexivity. }
      rewrite (IH _ _ _ _ r H). destruct (scan_arg r p' q') as [[a t]|]; reflexivity.
Qed.

Lemma match_atom_arg_good n stop r : good_name n -> stop = CH_COMMA \/ stop = CH_RPAR ->
  match_atom_arg (n ++ stop :: r) = Some (n, stop :: r).
Proof.
  intros (Hne & _ & Hw) Hs. unfold match_atom_arg. rewrite (scan_walk _ _ _ _ _ _ Hw).
  assert (E : scan_arg (stop :: r) 0 None = Some ([], stop :: r)) by (destruct Hs; subst; reflexivity).
  rewrite E, app_nil_r. destruct n; [contradiction | reflexivity].
Qed.

Lemma good_nameb_ok n : good_nameb n = true -> good_name n.
Proof.
  unfold good_nameb, good_name. intros H. apply andb_true_iff in H. destruct H as [H Hw].
  apply andb_true_iff in H. destruct H as [Hne Hz]. split; [|split].
  - destruct n; [discriminate | discriminate].
  - unfold nul_free. apply Forall_forall. intros c Hc. rewrite forallb_forall in Hz. specialize (Hz c Hc). lia.
  - destruct (walk n 0 None) as [[p q]|]; [|discriminate]. destruct p; try discriminate. destruct q; [discriminate | reflexivity].
Qed.

(* bytes that do not touch matchAtomArg's state *)
Definition plain (c : Z) : Prop := c <> CH_LPAR /\ c <> CH_RPAR /\ c <> CH_COMMA /\ c <> CH_QUOTE.
Lemma walk_plain n p : Forall plain n -> walk n p None = Some (p, None).
Proof.
  induction 1 as [|c n (H1 & H2 & H3 & H4) _ IH]; [reflexivity|]. cbn [walk].
  destruct (Z.eqb_spec c CH_LPAR); [contradiction|]. destruct (Z.eqb_spec c CH_RPAR); [contradiction|].
  destruct (Z.eqb_spec c CH_COMMA); [contradiction|]. destruct (Z.eqb_spec c CH_QUOTE); [contradiction|]. exact IH.
Qed.

Lemma digits_plain l : all_digits l -> Forall plain l.
Proof.
  intros H. eapply Forall_impl; [|exact H]. intros c Hc. unfold is_digit in Hc.
  unfold plain, CH_LPAR, CH_RPAR, CH_COMMA, CH_QUOTE. lia.
Qed.

Lemma print_Z_chars z : print_Z z <> [] /\ Forall plain (print_Z z) /\ nul_free (print_Z z).
Proof.
  unfold print_Z. destruct (Z.ltb_spec z 0).
  - split; [discriminate|]. split.
    + constructor; [unfold plain, CH_LPAR, CH_RPAR, CH_COMMA, CH_QUOTE; lia|]. apply digits_plain, print_nat_digits. lia.
    + constructor; [lia|]. apply all_digits_nul_free, print_nat_digits. lia.
  - split; [apply print_nat_nonempty; lia|]. split.
    + apply digits_plain, print_nat_digits. lia.
    + apply all_digits_nul_free, print_nat_digits. lia.
Qed.

Lemma print_Z_good z : good_name (print_Z z).
Proof.
  destruct (print_Z_chars z) as (H1 & H2 & H3). split; [assumption|]. split; [assumption|]. apply walk_plain. assumption.
Qed.

(* ---- strtol / match(int) on a printed number ---- *)
Lemma take_digits_app ds c r : all_digits ds -> is_digit c = false -> take_digits (ds ++ c :: r) = (ds, c :: r).
Proof.
  induction 1 as [|d ds Hd _ IH]; intros Hc; cbn [app take_digits].
  - rewrite Hc. reflexivity.
  - rewrite Hd, (IH Hc). reflexivity.
Qed.

Lemma int_subject_print b c r : is_digit c = false ->
  int_subject (print_Z b ++ c :: r) = Some (b <? 0, print_nat (Z.abs b), c :: r).
Proof.
  intros Hc. unfold int_subject, print_Z. destruct (Z.ltb_spec b 0) as [Hb|Hb].
  - cbn [app skip_space]. change (is_space 45) with false. cbv iota. change (45 =? CH_MINUS) with true. cbv iota.
    replace (Z.abs b) with (- b) by lia.
    rewrite (take_digits_app _ _ _ (print_nat_digits (- b) ltac:(lia)) Hc).
    pose proof (print_nat_nonempty (- b) ltac:(lia)) as Hne.
    destruct (print_nat (- b)); [contradiction | reflexivity].
  - replace (Z.abs b) with b by lia.
    pose proof (print_nat_digits b Hb) as Hd. pose proof (print_nat_nonempty b Hb) as Hne.
    destruct (print_nat b) as [|d ds] eqn:E; [contradiction|].
    assert (Hdd : is_digit d = true) by (inversion Hd; assumption).
    cbn [app skip_space].
    assert (Hs : is_space d = false) by (unfold is_space, is_digit in *; lia).
    rewrite Hs.
    assert (H1 : d =? CH_MINUS = false) by (unfold is_digit, CH_MINUS in *; lia).
    assert (H2 : d =? CH_PLUS = false) by (unfold is_digit, CH_PLUS in *; lia).
    rewrite H1, H2.
    change (d :: ds ++ c :: r) with ((d :: ds) ++ c :: r).
    rewrite (take_digits_app _ _ _ Hd Hc). reflexivity.
Qed.

Lemma match_int_print b c r : C_INT_MIN <= b <= C_INT_MAX -> is_digit c = false ->
  match_int (print_Z b ++ c :: r) = Some (b, c :: r).
Proof.
  intros Hb Hc. unfold match_int, strtol_m. rewrite (int_subject_print b c r Hc).
  rewrite value_print_nat by lia.
  assert (E : (if b <? 0 then - Z.abs b else Z.abs b) = b) by (destruct (Z.ltb_spec b 0); lia).
  rewrite E. unfold clamp, C_LONG_MIN, C_LONG_MAX, C_INT_MIN, C_INT_MAX in *.
  destruct (Z.ltb_spec b (-9223372036854775808)); [lia|].
  destruct (Z.ltb_spec 9223372036854775807 b); [lia|].
  destruct (Z.ltb_spec b (-2147483648)); [lia|].
  destruct (Z.ltb_spec 2147483647 b); [lia|]. reflexivity.
Qed.

(* the repaired implicit priority is |bias| for every int, INT_MIN included (2^31) *)
Lemma implicit_prio_abs b : C_INT_MIN <= b <= C_INT_MAX -> implicit_prio b = Z.abs b.
Proof.
  unfold implicit_prio, to_unsigned, C_UINT_MOD, C_INT_MIN, C_INT_MAX. intros H.
  destruct (Z.ltb_spec b 0).
  - assert (E1 : b mod 4294967296 = b + 4294967296) by lia. rewrite E1.
    assert (E2 : (0 - (b + 4294967296)) mod 4294967296 = - b) by lia. lia.
  - rewrite Z.mod_small by lia. lia.
Qed.

(* ---- match(Heuristic_t) ---- *)
Fixpoint incompat (a b : list Z) : bool :=
  match a, b with
  | x :: a', y :: b' => if x =? y then incompat a' b' else true
  | _, _ => false
  end.
Lemma incompat_no_match a : forall b r, incompat a b = true -> match_word a (b ++ r) = None.
Proof.
  induction a as [|x a IH]; intros [|y b] r H; simpl in *; try discriminate.
  rewrite Z.eqb_sym. destruct (x =? y); [apply IH; assumption | reflexivity].
Qed.

Lemma match_heu_f_hit : forall n x s t r,
  (forall y, x <= y < t -> match_word (lc_name y heu_lc) s = None) ->
  x <= t < x + Z.of_nat n -> match_word (lc_name t heu_lc) s = Some r -> match_heu_f n x s = Some (t, r).
Proof.
  induction n as [|n IH]; intros x s t r Hlt Hr Hm; [lia|]. cbn [match_heu_f].
  destruct (Z.eq_dec x t) as [->|Hne]; [rewrite Hm; reflexivity|].
  rewrite (Hlt x) by lia. apply IH; [intros y Hy; apply Hlt; lia | lia | assumption].
Qed.

Definition zrange (n : Z) : list Z := map Z.of_nat (seq 0 (Z.to_nat n)).
Lemma in_zrange n y : 0 <= y < n -> In y (zrange n).
Proof.
  intros H. unfold zrange. apply in_map_iff. exists (Z.to_nat y). split; [apply Z2Nat.id; lia|].
  apply in_seq. split; [apply Nat.le_0_l|]. simpl. apply Z2Nat.inj_lt; lia.
Qed.

(* no modifier name tried earlier can be mistaken for a later one followed by a comma: checked on the table taken from
   toString(Heuristic_t) *)
Definition heu_tab_ok : bool :=
  forallb (fun t => forallb (fun y => incompat (lc_name y heu_lc) (lc_name t heu_lc ++ [CH_COMMA])) (zrange t)) (zrange (heu_emax + 1)).
Lemma heu_tab_checked : heu_tab_ok = true.
Proof. vm_compute. reflexivity. Qed.

Lemma match_heu_name t r : 0 <= t <= heu_emax ->
  match_heu (lc_name t heu_lc ++ CH_COMMA :: r) = Some (t, CH_COMMA :: r).
Proof.
  intros Ht. unfold match_heu. apply match_heu_f_hit.
  - intros y Hy. pose proof heu_tab_checked as H. unfold heu_tab_ok in H. rewrite forallb_forall in H.
    assert (Hin : In t (zrange (heu_emax + 1))) by (apply in_zrange; lia).
    specialize (H t Hin). rewrite forallb_forall in H. specialize (H y (in_zrange _ _ Hy)).
    change (lc_name t heu_lc ++ CH_COMMA :: r) with (lc_name t heu_lc ++ [CH_COMMA] ++ r). rewrite app_assoc.
    apply incompat_no_match. exact H.
  - rewrite Z2Nat.id by (unfold heu_emax; lia). lia.
  - apply match_word_app.
Qed.

(* the formatter (C02) and the matcher use the same function toString(Heuristic_t) *)
Lemma lc_name_gen tab t : lc_name t tab = heu_name t tab.
Proof. induction tab as [|[k n] r IH]; simpl; [reflexivity|]. destruct (k =? t); [reflexivity | exact IH]. Qed.
Lemma heu_tables_agree : heu_lc = heu_names /\ heu_lc_default = heu_default.
Proof. split; reflexivity. Qed.
Lemma heu_name_lc t : heu_name t heu_names = lc_name t heu_lc.
Proof. symmetry. exact (lc_name_gen heu_names t). Qed.

(* ---- the formatted texts ---- *)
Lemma fmt_heu_eq n t b p :
  fmt_heu n t b p = heu_pred ++ n ++ CH_COMMA :: lc_name t heu_lc ++ CH_COMMA :: print_Z b ++ CH_COMMA :: print_nat p ++ [CH_RPAR].
Proof. unfold fmt_heu. rewrite heu_name_lc. reflexivity. Qed.
Lemma fmt_edge_eq s t : fmt_edge_s s t = edge_pred ++ print_Z s ++ CH_COMMA :: print_Z t ++ [CH_RPAR].
Proof. reflexivity. Qed.

(* ---- matchDomHeuPred after the formatter ---- *)
Lemma is_digit_comma : is_digit CH_COMMA = false. Proof. reflexivity. Qed.
Lemma is_digit_rpar : is_digit CH_RPAR = false. Proof. reflexivity. Qed.

Theorem heu_roundtrip n t b p :
  good_name n -> 0 <= t <= heu_emax -> C_INT_MIN <= b <= C_INT_MAX -> 0 <= p <= C_INT_MAX ->
  match_dom_heu (fmt_heu n t b p) = (1, [], mkHR n t b p).
Proof.
  intros Hn Ht Hb Hp. rewrite fmt_heu_eq. unfold match_dom_heu.
  rewrite match_word_app.
  rewrite (match_atom_arg_good n CH_COMMA _ Hn (or_introl eq_refl)).
  rewrite match_word1.
  rewrite (match_heu_name t _ Ht).
  rewrite match_word1.
  rewrite (match_int_print b CH_COMMA _ Hb is_digit_comma).
  rewrite match_word1.
  rewrite <- (print_Z_nonneg p) by lia.
  rewrite (match_int_print p CH_RPAR [] ltac:(unfold C_INT_MIN, C_INT_MAX in *; lia) is_digit_rpar).
  destruct (Z.ltb_spec p 0); [lia|].
  rewrite match_word1. unfold to_unsigned, C_UINT_MOD, C_INT_MAX in *. rewrite Z.mod_small by lia. reflexivity.
Qed.

(* ---- matchEdgePred after the formatter ---- *)
Lemma sscanf_lits : forall ds s pos ns, match_word (lits ds) s = None -> sscanf_d ds s pos ns = None.
Proof.
  induction ds as [|d ds IH]; intros s pos ns H; [discriminate|].
  destruct d; cbn [lits] in H; try discriminate. cbn [sscanf_d match_word] in *.
  destruct s as [|x s]; [reflexivity|]. destruct (x =? c); [apply IH; assumption | reflexivity].
Qed.

Lemma acyc_not_edge r : sscanf_m acyc_fmt (edge_pred ++ r) 0 [] = None.
Proof. unfold sscanf_m. apply sscanf_lits. reflexivity. Qed.
Lemma acyc_not_heu r : sscanf_m acyc_fmt (heu_pred ++ r) 0 [] = None.
Proof. unfold sscanf_m. apply sscanf_lits. reflexivity. Qed.
Lemma edge_not_heu r : match_word edge_pred (heu_pred ++ r) = None.
Proof. reflexivity. Qed.
Lemma heu_not_edge r : match_word heu_pred (edge_pred ++ r) = None.
Proof. reflexivity. Qed.

Theorem edge_roundtrip s t : match_edge (fmt_edge_s s t) = (1, [], (print_Z s, print_Z t)).
Proof.
  rewrite fmt_edge_eq. unfold match_edge. rewrite acyc_not_edge. rewrite match_word_app.
  rewrite (match_atom_arg_good _ CH_COMMA _ (print_Z_good s) (or_introl eq_refl)).
  rewrite match_word1.
  rewrite (match_atom_arg_good _ CH_RPAR [] (print_Z_good t) (or_intror eq_refl)).
  rewrite match_word1. reflexivity.
Qed.
