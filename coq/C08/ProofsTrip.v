(* C08 - the composition: converter run (C02's model) -> writer acceptance -> reader model, for one step.
   What the converter writes in a step is  rules/externals ++ symbols ++ compute statement ++ end;  the reader passes the
   first part through, collects the symbols and runs readSymbols on exactly `map sym_of items` with the item list that
   ProofsConv.flush_shape describes, so the reader-level theorems (ProofsSym) apply to the converter's output. *)
Require Import V.Lib.Base V.Lib.Calls V.Lib.Dec V.Gen.Consts V.Gen.Consts_C02 V.Gen.Consts_C08 V.C02.Model V.C02.Spec V.C08.Model V.C08.Spec
               V.C02.ProofsMap V.C08.ProofsStr V.C08.ProofsSym V.C08.ProofsFlush V.C08.ProofsConv.
Require Import Permutation.
Local Open Scope Z_scope.

(* ---------- converter + writer ---------- *)
Lemma conv_write_run ext : forall p s w s' w' out, conv_write ext s w p = Ok (s', w', out) -> cv_run ext s p = Ok (s', out).
Proof.
  induction p as [|c r IH]; intros s w s' w' out H; cbn [conv_write cv_run] in *.
  - injection H as <- _ <-. reflexivity.
  - destruct (cv_call ext s c) as [[s1 cs]|]; [|discriminate].
    destruct (sw_calls ext w cs) as [[w1 acc] ok]. destruct ok; [|discriminate].
    destruct (conv_write ext s1 w1 r) as [[[s2 w2] o]|] eqn:E; [|discriminate]. injection H as <- _ <-.
    rewrite (IH _ _ _ _ _ E). reflexivity.
Qed.

(* the writer only accepts `output` with one positive atom *)
Definition out_pos (c : call) : Prop := match c with COutput _ cond => exists x, cond = [x] /\ 0 < x | _ => True end.

Lemma sw_calls_pos ext : forall cs w w2 acc, sw_calls ext w cs = (w2, acc, true) -> Forall out_pos cs.
Proof.
  induction cs as [|c r IH]; intros w w2 acc H; [constructor|]. cbn [sw_calls] in H.
  destruct (sw_call ext 0 w c) as [w1|] eqn:E; [|discriminate].
  destruct (sw_calls ext w1 r) as [[w3 a3] ok] eqn:E2. injection H as _ _ ->.
  constructor; [|eapply IH; exact E2].
  destruct c; cbn [out_pos]; try exact I. cbn [sw_call] in E. destruct cond as [|x [|y t]]; try discriminate.
  exists x. split; [reflexivity|]. destruct ((sec w <=? 1) && (0 <? x)) eqn:B; [|discriminate].
  apply andb_true_iff in B. destruct B as [_ B]. lia.
Qed.

Lemma conv_write_pos ext : forall p s w s' w' out, conv_write ext s w p = Ok (s', w', out) -> Forall out_pos out.
Proof.
  induction p as [|c r IH]; intros s w s' w' out H; cbn [conv_write] in *.
  - injection H as _ _ <-. constructor.
  - destruct (cv_call ext s c) as [[s1 cs]|]; [|discriminate].
    destruct (sw_calls ext w cs) as [[w1 acc] ok] eqn:Es. destruct ok; [|discriminate].
    destruct (conv_write ext s1 w1 r) as [[[s2 w2] o]|] eqn:E; [|discriminate]. injection H as _ _ <-.
    apply Forall_app. split; [eapply sw_calls_pos; exact Es | eapply IH; exact E].
Qed.

(* ---------- the reader over the parts of a written step ---------- *)
Lemma rd_pre : forall pre rest o inc st syms done n d,
  forallb is_pre pre = true -> rd_calls o inc st syms done n (pre ++ rest) = (d, true) ->
  exists dp dr, d = dp ++ dr /\ rd_calls o inc st syms done n rest = (dr, true) /\ forallb is_pre dp = true.
Proof.
  induction pre as [|c pre IH]; intros rest o inc st syms done n d Hp H.
  - exists [], d. auto.
  - cbn [forallb] in Hp. apply andb_true_iff in Hp. destruct Hp as [Hc Hp]. cbn [app rd_calls] in H.
    destruct c; try discriminate Hc.
    + destruct (rd_calls o inc st syms done n (pre ++ rest)) as [d1 ok] eqn:E. injection H as <- ->.
      destruct (IH _ _ _ _ _ _ _ _ Hp E) as (dp & dr & -> & Er & Fp). exists (CRule ht head (reorder body) :: dp), dr.
      split; [reflexivity|]. split; [exact Er | exact Fp].
    + exact (IH _ _ _ _ _ _ _ _ Hp H).
    + exact (IH _ _ _ _ _ _ _ _ Hp H).
    + destruct (ext_rw v) as [v'|]; [|discriminate].
      destruct (rd_calls o inc st syms done n (pre ++ rest)) as [d1 ok] eqn:E. injection H as <- ->.
      destruct (IH _ _ _ _ _ _ _ _ Hp E) as (dp & dr & -> & Er & Fp). exists (CExternal a v' :: dp), dr.
      split; [reflexivity|]. split; [exact Er | exact Fp].
Qed.

Lemma rd_outs : forall items rest o inc st syms done n,
  rd_calls o inc st syms done n (map out_of items ++ rest) = rd_calls o inc st (syms ++ map sym_of items) done n rest.
Proof.
  induction items as [|it items IH]; intros rest o inc st syms done n; cbn [map app].
  - now rewrite app_nil_r.
  - unfold out_of at 1. cbn [rd_calls]. rewrite IH. rewrite <- app_assoc. cbn [app].
    now rewrite <- surjective_pairing.
Qed.

Lemma pre_no (f : call -> bool) dp : (forall c, is_pre c = true -> f c = false) -> forallb is_pre dp = true -> filter f dp = [].
Proof.
  intros Hf. induction dp as [|c dp IH]; intros H; [reflexivity|]. cbn [forallb] in H. apply andb_true_iff in H.
  destruct H as [Hc H]. cbn [filter]. rewrite (Hf c Hc). now apply IH.
Qed.

(* one written step: W = pre ++ symbols ++ [compute; end] *)
Lemma rd_step o inc st n pre items ls rest d :
  forallb is_pre pre = true ->
  rd_calls o inc st [] false n (pre ++ map out_of items ++ [CAssume ls] ++ CEnd :: rest) = (d, true) ->
  exists dp dr,
    d = dp ++ snd (read_step o st (map sym_of items)) ++ compute_rules ls ++ CEnd :: dr /\
    forallb is_pre dp = true /\
    rd_calls o inc (if inc then fst (read_step o st (map sym_of items)) else r0) [] false (n + 1) rest = (dr, true).
Proof.
  intros Hp H. destruct (rd_pre _ _ _ _ _ _ _ _ _ Hp H) as (dp & d1 & -> & E1 & Fp).
  rewrite rd_outs in E1. cbn [app rd_calls flush_syms] in E1.
  destruct (read_step o st (map sym_of items)) as [st1 c1] eqn:Ers. cbn [fst snd].
  destruct (rd_calls o inc (if inc then st1 else r0) [] false (n + 1) rest) as [dr ok] eqn:Er.
  cbn [app] in E1. injection E1 as <- ->. exists dp, dr. split; [reflexivity|]. split; [exact Fp | reflexivity].
Qed.

(* ---------- consequences of the reader-level theorems for an item list of the converter's shape ---------- *)
Lemma heus_of_not_heu items : Forall not_heu items -> heus_of items = [].
Proof. induction 1 as [|it r H _ IH]; [reflexivity|]. cbn. destruct it; [exact IH | contradiction | exact IH]. Qed.

Lemma heus_of_heu_syms hm names : heus_of (heu_syms hm names) = map (fun hn => dom_of (fst hn) (snd hn)) (combine hm names).
Proof. unfold heu_syms. induction (combine hm names) as [|x l IH]; [reflexivity|]. cbn. now rewrite <- IH. Qed.
Lemma edges_of_heu_syms hm names : edges_of (heu_syms hm names) = [].
Proof. unfold heu_syms. induction (combine hm names) as [|x l IH]; [reflexivity | exact IH]. Qed.
Lemma plains_of_heu_syms hm names : plains_of (heu_syms hm names) = [].
Proof. unfold heu_syms. induction (combine hm names) as [|x l IH]; [reflexivity | exact IH]. Qed.

Definition heu_call (tab : list (list Z * Z)) (hn : heu * list Z) : call :=
  CHeuristic (tab_find (snd hn) tab) (h_type (fst hn)) (h_bias (fst hn)) (h_prio (fst hn)) [h_cond (fst hn)].

(* every pending heuristic whose target name is carried by a symbol with non-zero atom comes back, exactly once *)
Lemma deliver_all tab : forall l : list (heu * list Z),
  Forall (fun hn => tab_find (snd hn) tab <> 0) l ->
  flat_map (fun d => let x := tab_find (d_name d) tab in
                     if x =? 0 then [] else [CHeuristic x (d_type d) (d_bias d) (d_prio d) [d_cond d]])
           (map (fun hn => dom_of (fst hn) (snd hn)) l) = map (heu_call tab) l.
Proof.
  induction 1 as [|hn l Hx _ IH]; [reflexivity|]. cbn -[tab_find] in IH |- *. rewrite IH.
  destruct (Z.eqb_spec (tab_find (snd hn) tab) 0); [contradiction | reflexivity].
Qed.

Lemma entry_pos items : Forall out_pos (map out_of items) -> forall k a, In (k, a) (map entry_of items) -> a <> 0.
Proof.
  intros H k a Hin. apply in_map_iff in Hin. destruct Hin as (it & E & Hit). rewrite Forall_map, Forall_forall in H.
  specialize (H it Hit). unfold out_of, out_pos in H. destruct H as (x & Ex & Hx). injection Ex as Ex.
  unfold entry_of in E. injection E as _ <-. lia.
Qed.

Lemma entry_swap items a n : In (a, n) (map sym_of items) -> In (n, a) (map entry_of items).
Proof.
  intros H. apply in_map_iff in H. destruct H as (it & E & Hit). apply in_map_iff. exists it. split; [|exact Hit].
  unfold entry_of. now rewrite E.
Qed.

(* ---------- ONE-STEP programs: the whole trip ---------- *)
Lemma filter_out_pre pre : forallb is_pre pre = true -> filter is_out_call pre = [].
Proof. apply pre_no. intros c; destruct c; cbn; congruence. Qed.
Lemma filter_out_items items : filter is_out_call (map out_of items) = map out_of items.
Proof. induction items as [|it r IH]; [reflexivity|]. cbn [map filter out_of is_out_call]. now rewrite IH. Qed.

(* the item list of the step, its link to the input, and what the reader delivers in terms of readSymbols on it *)
Lemma single_shape o i body s' w' out :
  forallb in_step body = true -> Forall call_ok body ->
  conv_write true cv0 sw0 (CInit i :: CBegin :: body ++ [CEnd]) = Ok (s', w', out) ->
  next s' <= SMID_MOD -> snd (read_back o out) = true ->
  exists (sb : cv) (ob : list call) (names : list (list Z)) (its_b its_g sorted : list sitem) (dp : list call),
    let s2 := fst (flushExternal true (fst (flushMinimize sb (mins sb)))) in
    let hm := filter (fun h => mapped s2 (h_atom h)) (heus sb) in
    let items := heu_syms hm names ++ sorted in
    let inc := prog_inc out || starts_with_9 (prog_inc out) out in
    cv_run true cv0 body = Ok (sb, ob) /\
    Forall2 heu_rel (filter is_heu_call body) (heus sb) /\
    length names = length hm /\
    Permutation sorted (its_b ++ its_g) /\
    Forall2 edge_rel (filter is_edge_call body) (edges_of its_b) /\
    Forall2 out_rel (filter is_out_call body) (plains_of its_b) /\
    edges_of its_g = [] /\ Forall (fun e => exists k, 0 <= k /\ snd e = fmt_atom_s k) (plains_of its_g) /\
    Forall not_heu sorted /\ Forall ok_item items /\
    Forall (fun hn => In (snd hn, img s2 (h_atom (fst hn)) mod AM) (map entry_of items)) (combine hm names) /\
    (forall k a, In (k, a) (map entry_of items) -> a <> 0) /\
    filter is_out_call out = map out_of items /\
    fst (read_back o out) =
      CInit inc :: CBegin :: dp ++ snd (read_step o r0 (map sym_of items)) ++ compute_rules [- false_atom] ++ [CEnd] /\
    forallb is_pre dp = true.
Proof.
  intros Hin Hok Hcw Hb Hrd.
  pose proof (conv_write_pos _ _ _ _ _ _ _ Hcw) as Hpos.
  pose proof (conv_write_run _ _ _ _ _ _ _ Hcw) as Hrun.
  cbn [cv_run cv_call] in Hrun.
  destruct (cv_run true cv0 (body ++ [CEnd])) as [[sx ox]|] eqn:Ex; [|discriminate].
  injection Hrun as -> <-.
  destruct (cv_run_app _ _ _ _ _ _ Ex) as (sb & ob & oe & Eb & Ee & ->).
  cbn [cv_run cv_call] in Ee. destruct (flush true sb) as [sf cs] eqn:Ef. injection Ee as -> <-.
  destruct (body_run [] body cv0 [] sb ob Hin Hok Eb SI_cv0) as (its_b & hs & SIb & Pob & Hh & Rh & Re & Ro).
  change (heus cv0) with (@nil heu) in Hh. cbn [app] in SIb, Hh.
  pose proof (good_cv_run _ _ _ _ _ Eb) as Gb.
  assert (Gf : good sb s').
  { pose proof (good_flush true sb) as G. now rewrite Ef in G. }
  assert (Ib : Inv sb).
  { destruct Gb as [_ K]. apply K; [exact Inv_cv0|]. pose proof (proj1 Gf). lia. }
  destruct (flush_shape [] sb its_b s' cs SIb Ib Hb Ef) as
    (pre & names & its_g & sorted & Ecs & Ppre & Ln & Perm & Edg & Plg & Oki & Nh & Fn & _ & _ & _). cbn zeta in *. cbn [app] in Fn.
  set (s2 := fst (flushExternal true (fst (flushMinimize sb (mins sb))))) in *.
  set (hm := filter (fun h => mapped s2 (h_atom h)) (heus sb)) in *.
  set (items := heu_syms hm names ++ sorted) in *.
  (* the written stream *)
  assert (Eout : CInit i :: CBegin :: ob ++ (cs ++ [CEnd]) ++ [] =
                 CInit i :: CBegin :: (ob ++ pre) ++ map out_of items ++ [CAssume [- false_atom]] ++ CEnd :: []).
  { rewrite Ecs. cbn [app]. rewrite app_nil_r, <- !app_assoc. reflexivity. }
  rewrite Eout in *. clear Eout.
  set (W := (ob ++ pre) ++ map out_of items ++ [CAssume [- false_atom]] ++ [CEnd]) in *.
  assert (Ppre' : forallb is_pre (ob ++ pre) = true) by (rewrite forallb_app, Pob, Ppre; reflexivity).
  assert (Hfo : filter is_out_call (CInit i :: CBegin :: W) = map out_of items).
  { cbn [filter is_out_call]. unfold W. rewrite (filter_app_ _ _ (ob ++ pre)), (filter_out_pre _ Ppre'), filter_app_, filter_out_items. cbn. now rewrite app_nil_r. }
  assert (Hposi : Forall out_pos (map out_of items)).
  { rewrite <- Hfo. rewrite Forall_forall in *. intros c Hc. apply filter_In in Hc. apply Hpos, Hc. }
  (* the reader *)
  unfold read_back in *. destruct (negb (has_end (CInit i :: CBegin :: W))); [discriminate|].
  set (inc := prog_inc (CInit i :: CBegin :: W) || starts_with_9 (prog_inc (CInit i :: CBegin :: W)) (CInit i :: CBegin :: W)) in *.
  cbn [rd_calls] in *. rewrite andb_false_r in *.
  destruct (rd_calls o inc r0 [] false 0 W) as [d ok] eqn:Erd. cbn [fst snd] in *. subst ok.
  destruct (rd_step o inc r0 0 (ob ++ pre) items [- false_atom] [] d Ppre' Erd) as (dp & dr & -> & Fdp & Edr).
  cbn [rd_calls] in Edr. injection Edr as <-.
  exists sb, ob, names, its_b, its_g, sorted, dp. cbn zeta. fold s2 hm items.
  split; [exact Eb|]. split; [rewrite Hh; exact Rh|]. split; [exact Ln|]. split; [exact Perm|]. split; [exact Re|].
  split; [exact Ro|]. split; [exact Edg|]. split; [exact Plg|]. split; [exact Nh|]. split; [exact Oki|].
  split.
  { eapply Forall_impl; [|exact Fn]. intros [h n] H. cbn [fst snd] in *. apply entry_swap.
    unfold items. rewrite map_app. apply in_or_app. now right. }
  split; [exact (entry_pos items Hposi)|]. split; [exact Hfo|]. split; [reflexivity | exact Fdp].
Qed.

Lemma compute_rules_no (f : call -> bool) ls : (forall a b c, f (CRule a b c) = false) -> filter f (compute_rules ls) = [].
Proof.
  intros Hf. unfold compute_rules. induction (filter (fun l => 0 <? l) ls ++ filter (fun l => l <? 0) ls) as [|x l IH]; [reflexivity|].
  cbn [map filter]. now rewrite Hf.
Qed.

(* filtering the delivered calls of a one-step trip = filtering what readSymbols delivered *)
Lemma filter_delivered (f : call -> bool) inc dp R ls :
  f (CInit inc) = false -> f CBegin = false -> f CEnd = false -> (forall c, is_pre c = true -> f c = false) ->
  forallb is_pre dp = true ->
  filter f (CInit inc :: CBegin :: dp ++ R ++ compute_rules ls ++ [CEnd]) = filter f R.
Proof.
  intros H1 H2 H3 H4 Hp. cbn [filter]. rewrite H1, H2, !filter_app_, (pre_no f dp H4 Hp).
  rewrite (compute_rules_no f ls) by (intros; apply H4; reflexivity). cbn [filter app]. rewrite H3. now rewrite app_nil_r.
Qed.

Lemma In_plains a n items : In (IPlain a n) items <-> In (a, n) (plains_of items).
Proof.
  unfold plains_of. rewrite in_flat_map. split.
  - intros H. exists (IPlain a n). split; [exact H | now left].
  - intros (it & Hit & Hin). destruct it; cbn in Hin; try contradiction. destruct Hin as [Hin|[]]. injection Hin as -> ->. exact Hit.
Qed.

(* the trip of a ONE-STEP program, in terms of the input *)
Theorem trip_single o i body s' w' out :
  forallb in_step body = true -> Forall call_ok body ->
  conv_write true cv0 sw0 (CInit i :: CBegin :: body ++ [CEnd]) = Ok (s', w', out) ->
  next s' <= SMID_MOD -> snd (read_back o out) = true ->
  let d := fst (read_back o out) in
  exists (sb : cv) (ob : list call) (names : list (list Z)) (tab : list (list Z * Z)) (nodes : list (list Z))
         (es_in es : list (Z * Z * Z)) (shown_in gen : list (Z * list Z)),
    let s2 := fst (flushExternal true (fst (flushMinimize sb (mins sb)))) in
    let hm := filter (fun h => mapped s2 (h_atom h)) (heus sb) in
    (* the converter at endStep: its pending heuristics are the input's, in order *)
    cv_run true cv0 body = Ok (sb, ob) /\
    Forall2 heu_rel (filter is_heu_call body) (heus sb) /\ length names = length hm /\
    (* tab = the symbols written (name, atom), all atoms non-zero *)
    map (fun e => COutput (fst e) [snd e]) tab = filter is_out_call out /\
    (forall k a, In (k, a) tab -> a <> 0) /\
    (* heuristics: exactly one per pending heuristic whose atom is mapped, none for the others *)
    (cH o = true -> filter is_heu_call d = map (heu_call tab) (combine hm names)) /\
    (cH o = false -> filter is_heu_call d = []) /\
    Forall (fun hn => tab_find (snd hn) tab <> 0 /\ In (snd hn, tab_find (snd hn) tab) tab /\
                      In (snd hn, img s2 (h_atom (fst hn)) mod AM) tab) (combine hm names) /\
    (* edges: one per input edge, up to the order of the symbol table and the injective renaming node_of nodes *)
    Forall2 edge_rel (filter is_edge_call body) es_in /\ Permutation es es_in /\
    (cE o = true ->
       filter is_edge_call d = map (fun e => match e with (c, s, t) => CEdge (node_of nodes s) (node_of nodes t) [c] end) es /\
       (forall c s t, In (c, s, t) es -> In (print_Z s) nodes /\ In (print_Z t) nodes)) /\
    (forall z z', In (print_Z z) nodes -> node_of nodes z = node_of nodes z' -> z = z') /\
    (cE o = false -> filter is_edge_call d = []) /\
    (* shown symbols *)
    Forall2 out_rel (filter is_out_call body) shown_in /\ Forall (fun e => exists k, 0 <= k /\ snd e = fmt_atom_s k) gen /\
    (flt o = false -> filter is_out_call d = filter is_out_call out) /\
    (cE o = true -> cH o = true -> flt o = true ->
       (forall c, In c (filter is_out_call d) <-> exists a n, c = COutput n [a] /\ In (a, n) (shown_in ++ gen)) /\
       (forall n a, In (COutput n [a]) (filter is_out_call d) -> no_helper_prefix n)).
Proof.
  intros Hin Hok Hcw Hb Hrd d.
  destruct (single_shape o i body s' w' out Hin Hok Hcw Hb Hrd) as
    (sb & ob & names & its_b & its_g & sorted & dp & Eb & Rh & Ln & Perm & Re & Ro & Edg & Plg & Nh & Oki & Fn & Pos & Hfo & Ed & Fdp).
  cbn zeta in *.
  set (s2 := fst (flushExternal true (fst (flushMinimize sb (mins sb))))) in *.
  set (hm := filter (fun h => mapped s2 (h_atom h)) (heus sb)) in *.
  set (items := heu_syms hm names ++ sorted) in *.
  set (R := read_step o r0 (map sym_of items)) in *.
  assert (Hd : forall f, f (CInit (prog_inc out || starts_with_9 (prog_inc out) out)) = false -> f CBegin = false -> f CEnd = false ->
             (forall c, is_pre c = true -> f c = false) -> filter f d = filter f (snd R)).
  { intros f H1 H2 H3 H4. unfold d. rewrite Ed. now apply filter_delivered. }
  assert (Eedges : edges_of items = edges_of sorted).
  { unfold items. now rewrite edges_of_app, edges_of_heu_syms. }
  assert (Eheus : heus_of items = map (fun hn => dom_of (fst hn) (snd hn)) (combine hm names)).
  { unfold items. now rewrite heus_of_app, heus_of_heu_syms, (heus_of_not_heu sorted Nh), app_nil_r. }
  assert (Eplains : plains_of items = plains_of sorted).
  { unfold items. now rewrite plains_of_app, plains_of_heu_syms. }
  assert (Pe : Permutation (edges_of sorted) (edges_of its_b)).
  { unfold edges_of. eapply Permutation_trans; [apply Permutation_flat_map; exact Perm|].
    fold (edges_of (its_b ++ its_g)). rewrite edges_of_app, Edg, app_nil_r. apply Permutation_refl. }
  assert (Pp : Permutation (plains_of sorted) (plains_of its_b ++ plains_of its_g)).
  { unfold plains_of at 1. eapply Permutation_trans; [apply Permutation_flat_map; exact Perm|].
    fold (plains_of (its_b ++ its_g)). rewrite plains_of_app. apply Permutation_refl. }
  assert (Hfound : Forall (fun hn => tab_find (snd hn) (map entry_of items) <> 0) (combine hm names)).
  { eapply Forall_impl; [|exact Fn]. intros hn H. apply tab_find_found; [exact Pos | eexists; exact H]. }
  exists sb, ob, names, (map entry_of items), (r_nodes (fst R)), (edges_of its_b), (edges_of sorted), (plains_of its_b), (plains_of its_g).
  cbn zeta. fold s2 hm.
  split; [exact Eb|]. split; [exact Rh|]. split; [exact Ln|].
  split. { rewrite Hfo, map_map. reflexivity. }
  split; [exact Pos|].
  split.
  { intros HcH. rewrite Hd by (try reflexivity; intros c; destruct c; cbn; congruence). unfold R.
    destruct (heuristics_back o r0 items HcH Oki) as [_ ->]. cbn [r_tab r0 app].
    rewrite Eheus. apply deliver_all. exact Hfound. }
  split.
  { intros HcH. rewrite Hd by (try reflexivity; intros c; destruct c; cbn; congruence). unfold R. exact (heuristics_off o r0 items HcH Oki). }
  split.
  { rewrite Forall_forall in *. intros hn Hhn. split; [exact (Hfound hn Hhn)|]. split; [apply tab_find_in; exact (Hfound hn Hhn) | exact (Fn hn Hhn)]. }
  split; [exact Re|]. split; [exact Pe|].
  split.
  { intros HcE. destruct (edges_back o r0 items HcE Oki) as [_ Hcalls]. cbn zeta in Hcalls. fold R in Hcalls.
    split.
    - rewrite Hd by (try reflexivity; intros c; destruct c; cbn; congruence). rewrite Hcalls, Eedges. reflexivity.
    - intros c s t Hc. rewrite <- Eedges in Hc. exact (edges_nodes_known o r0 items HcE Oki c s t Hc). }
  split; [intros z z'; apply node_of_inj|].
  split.
  { intros HcE. rewrite Hd by (try reflexivity; intros c; destruct c; cbn; congruence).
    unfold R. rewrite (read_step_items o r0 items Oki). cbn [snd].
    destruct (spec_no_edges items o (r_nodes r0) HcE) as [H1 _]. rewrite filter_app_, H1.
    destruct (cH o); [apply deliver_doms_not; reflexivity | reflexivity]. }
  split; [exact Ro|]. split; [exact Plg|].
  split.
  { intros Hf. rewrite Hd by (try reflexivity; intros c; destruct c; cbn; congruence).
    unfold R. rewrite (read_step_unfiltered o r0 _ Hf), Hfo, map_map. reflexivity. }
  intros HcE HcH Hf.
  assert (Hshown : forall c, In c (filter is_out_call d) <-> exists a n, c = COutput n [a] /\ In (a, n) (plains_of its_b ++ plains_of its_g)).
  { intros c. rewrite Hd by (try reflexivity; intros c0; destruct c0; cbn; congruence). unfold R.
    rewrite (filtered_outputs_plain o r0 items HcE HcH Hf Oki c).
    split; intros (a & n & -> & H); exists a, n; (split; [reflexivity|]).
    - apply In_plains in H. rewrite Eplains in H. eapply Permutation_in; [exact Pp | exact H].
    - apply In_plains. rewrite Eplains. eapply Permutation_in; [apply Permutation_sym; exact Pp | exact H]. }
  split; [exact Hshown|].
  intros n a Hc. rewrite Hd in Hc by (try reflexivity; intros c0; destruct c0; cbn; congruence). unfold R in Hc.
  apply (filtered_outputs_plain o r0 items HcE HcH Hf Oki) in Hc. destruct Hc as (a' & n' & Heq & Hit). injection Heq as -> ->.
  rewrite Forall_forall in Oki. exact (proj2 (Oki _ Hit)).
Qed.
