(* C08 - SmodelsInput::readSymbols on a symbol table made of formatted helper predicates and plain names. *)
Require Import V.Lib.Base V.Lib.Calls V.Lib.Dec V.Gen.Consts V.Gen.Consts_C02 V.Gen.Consts_C08 V.C02.Model V.C08.Model V.C08.Spec V.C08.ProofsStr.
Require Import ZifyBool.
Local Open Scope Z_scope.

(* ---- the formatted texts are C strings ---- *)
Lemma nul_free_app a b : nul_free a -> nul_free b -> nul_free (a ++ b).
Proof. unfold nul_free. intros. apply Forall_app. split; assumption. Qed.
Lemma nul_free_cons c l : c <> 0 -> nul_free l -> nul_free (c :: l).
Proof. unfold nul_free. intros. constructor; assumption. Qed.
Lemma nul_free_list_check l : forallb (fun c => negb (c =? 0)) l = true -> nul_free l.
Proof. intros H. unfold nul_free. apply Forall_forall. intros c Hc. rewrite forallb_forall in H. specialize (H c Hc). lia. Qed.

Lemma lc_nul_free_gen tab t : forallb (fun e => forallb (fun c => negb (c =? 0)) (snd e)) tab = true -> nul_free (lc_name t tab).
Proof.
  induction tab as [|[k n] r IH]; intros H; simpl.
  - apply nul_free_list_check. reflexivity.
  - simpl in H. apply andb_true_iff in H. destruct H as [H1 H2]. destruct (k =? t); [apply nul_free_list_check; exact H1 | apply IH; exact H2].
Qed.
Lemma lc_nul_free t : nul_free (lc_name t heu_lc).
Proof. apply lc_nul_free_gen. vm_compute. reflexivity. Qed.

Lemma fmt_heu_nul_free n t b p : nul_free n -> 0 <= p -> nul_free (fmt_heu n t b p).
Proof.
  intros Hn Hp. rewrite fmt_heu_eq.
  apply nul_free_app; [apply nul_free_list_check; reflexivity|].
  apply nul_free_app; [assumption|]. apply nul_free_cons; [discriminate|].
  apply nul_free_app; [apply lc_nul_free|]. apply nul_free_cons; [discriminate|].
  apply nul_free_app; [apply print_Z_chars|]. apply nul_free_cons; [discriminate|].
  apply nul_free_app; [apply all_digits_nul_free, print_nat_digits; assumption|].
  apply nul_free_cons; [discriminate | constructor].
Qed.
Lemma fmt_edge_nul_free s t : nul_free (fmt_edge_s s t).
Proof.
  rewrite fmt_edge_eq. apply nul_free_app; [apply nul_free_list_check; reflexivity|].
  apply nul_free_app; [apply print_Z_chars|]. apply nul_free_cons; [discriminate|].
  apply nul_free_app; [apply print_Z_chars|]. apply nul_free_cons; [discriminate | constructor].
Qed.

(* ---- classification of the three kinds of symbols ---- *)
Lemma classify_heu o d : ok_dom d ->
  classify o (fmt_heu (d_name d) (d_type d) (d_bias d) (d_prio d)) =
  if cH o then KHeu (mkHR (d_name d) (d_type d) (d_bias d) (d_prio d)) else KPlain.
Proof.
  intros (Hn & Ht & Hb & Hp). unfold classify.
  rewrite (cut0_nul_free _ (fmt_heu_nul_free _ _ _ _ (proj1 (proj2 Hn)) (proj1 Hp))).
  set (s := fmt_heu (d_name d) (d_type d) (d_bias d) (d_prio d)).
  assert (E : match_edge s = (0, s, ([], []))).
  { unfold s. rewrite fmt_heu_eq. unfold match_edge. rewrite acyc_not_heu, edge_not_heu. reflexivity. }
  assert (R : match_dom_heu s = (1, [], mkHR (d_name d) (d_type d) (d_bias d) (d_prio d))) by (apply heu_roundtrip; assumption).
  destruct (cE o); [rewrite E|]; cbn [fst snd andb Z.ltb Z.compare]; destruct (cH o); try reflexivity; rewrite R; reflexivity.
Qed.

Lemma classify_edge o s t :
  classify o (fmt_edge_s s t) = if cE o then KEdge (print_Z s) (print_Z t) else KPlain.
Proof.
  unfold classify. rewrite (cut0_nul_free _ (fmt_edge_nul_free s t)).
  destruct (cE o).
  - rewrite edge_roundtrip. reflexivity.
  - cbn [andb]. destruct (cH o); [|reflexivity].
    assert (E : match_dom_heu (fmt_edge_s s t) = (0, fmt_edge_s s t, hr0)).
    { rewrite fmt_edge_eq. unfold match_dom_heu. rewrite heu_not_edge. reflexivity. }
    rewrite E. reflexivity.
Qed.

Lemma starts_false w n : starts w n = false -> match_word w n = None.
Proof. unfold starts. destruct (match_word w n); [discriminate | reflexivity]. Qed.

Lemma classify_plain o n : nul_free n -> no_helper_prefix n -> classify o n = KPlain.
Proof.
  intros Hn (H1 & H2 & H3). unfold classify. rewrite (cut0_nul_free _ Hn).
  apply starts_false in H1. apply starts_false in H2. apply starts_false in H3.
  assert (E : match_edge n = (0, n, ([], []))).
  { unfold match_edge, sscanf_m. rewrite (sscanf_lits _ _ _ _ H3), H2. reflexivity. }
  assert (D : match_dom_heu n = (0, n, hr0)) by (unfold match_dom_heu; rewrite H1; reflexivity).
  destruct (cE o); [rewrite E|]; cbn [fst snd andb Z.ltb Z.compare]; destruct (cH o); try reflexivity; rewrite D; reflexivity.
Qed.

(* ---- what readSymbols does with a table of such symbols ---- *)
Fixpoint spec_syms (o : ropts) (nodes : list (list Z)) (items : list sitem) : list (list Z) * list call :=
  match items with
  | [] => (nodes, [])
  | it :: r =>
      let '(nodes1, c1) :=
        match it with
        | IEdge c s t =>
            if cE o then
              let '(l1, i) := node_add (print_Z s) nodes in
              let '(l2, j) := node_add (print_Z t) l1 in (l2, [CEdge i j [c]])
            else (nodes, [])
        | _ => (nodes, [])
        end in
      let c2 := if converted o it && flt o then [] else [out_of it] in
      let '(nodes2, cs) := spec_syms o nodes1 r in
      (nodes2, c1 ++ c2 ++ cs)
  end.

Lemma dom_eta d : mkDom (d_name d) (d_type d) (d_bias d) (d_prio d) (d_cond d) = d.
Proof. destruct d; reflexivity. Qed.

Lemma read_syms_items : forall items o st doms, Forall ok_item items ->
  read_syms o st doms (map sym_of items) =
  (mkR (if cH o then r_tab st ++ map entry_of items else r_tab st) (fst (spec_syms o (r_nodes st) items)),
   if cH o then doms ++ heus_of items else doms,
   snd (spec_syms o (r_nodes st) items)).
Proof.
  induction items as [|it items IH]; intros o st doms Hok.
  - simpl. destruct st as [tab nodes]. simpl. destruct (cH o); rewrite ?app_nil_r; reflexivity.
  - inversion Hok as [|? ? Hit Hrest]; subst. cbn [map read_syms].
    destruct it as [c s t | d | a n]; cbn [sym_of].
    + (* edge *)
      rewrite classify_edge. cbn [spec_syms converted]. destruct (cE o) eqn:EcE.
      * destruct (node_add (print_Z s) (r_nodes st)) as [l1 i] eqn:E1.
        destruct (node_add (print_Z t) l1) as [l2 j] eqn:E2.
        rewrite (IH o _ _ Hrest). cbn [r_tab r_nodes].
        destruct (spec_syms o l2 items) as [n2 cs] eqn:E3. cbn [fst snd andb].
        unfold heus_of, entry_of. cbn [flat_map map sym_of fst snd app].
        destruct (cH o); destruct (flt o); cbn [app]; rewrite <- ?app_assoc; reflexivity.
      * rewrite (IH o _ _ Hrest). cbn [r_tab r_nodes andb].
        destruct (spec_syms o (r_nodes st) items) as [n2 cs] eqn:E3. cbn [fst snd].
        unfold heus_of, entry_of. cbn [flat_map map sym_of fst snd app].
        destruct (cH o); cbn [app]; rewrite <- ?app_assoc; reflexivity.
    + (* heuristic *)
      rewrite (classify_heu o d Hit). cbn [spec_syms converted]. destruct (cH o) eqn:EcH.
      * cbn [hr_name hr_type hr_bias hr_prio]. rewrite dom_eta.
        rewrite (IH o _ _ Hrest). cbn [r_tab r_nodes]. rewrite EcH.
        destruct (spec_syms o (r_nodes st) items) as [n2 cs] eqn:E3. cbn [fst snd andb].
        unfold heus_of, entry_of. cbn [flat_map map sym_of fst snd app].
        destruct (flt o); cbn [app]; rewrite <- ?app_assoc; reflexivity.
      * rewrite (IH o _ _ Hrest). cbn [r_tab r_nodes andb]. rewrite EcH.
        destruct (spec_syms o (r_nodes st) items) as [n2 cs] eqn:E3. cbn [fst snd].
        reflexivity.
    + (* plain *)
      destruct Hit as [Hnf Hnp]. rewrite (classify_plain o n Hnf Hnp). cbn [spec_syms converted andb].
      rewrite (IH o _ _ Hrest). cbn [r_tab r_nodes].
      destruct (spec_syms o (r_nodes st) items) as [n2 cs] eqn:E3. cbn [fst snd].
      unfold heus_of, entry_of. cbn [flat_map map sym_of fst snd app].
      destruct (cH o); cbn [app]; rewrite <- ?app_assoc; reflexivity.
Qed.

(* ---- filters over the delivered calls ---- *)
Lemma filter_app_ A (f : A -> bool) a b : filter f (a ++ b) = filter f a ++ filter f b.
Proof. induction a as [|x a IH]; simpl; [reflexivity|]. destruct (f x); simpl; rewrite IH; reflexivity. Qed.

Lemma deliver_doms_heu tab ds : filter is_heu_call (deliver_doms tab ds) = deliver_doms tab ds.
Proof.
  unfold deliver_doms. induction ds as [|d ds IH]; [reflexivity|]. cbn [flat_map]. rewrite filter_app_, IH.
  unfold deliver_dom. destruct (tab_find (d_name d) tab =? 0); reflexivity.
Qed.
Lemma deliver_doms_not tab ds f : (forall a t b p c, f (CHeuristic a t b p c) = false) -> filter f (deliver_doms tab ds) = [].
Proof.
  intros Hf. unfold deliver_doms. induction ds as [|d ds IH]; [reflexivity|]. cbn [flat_map]. rewrite filter_app_, IH.
  unfold deliver_dom. destruct (tab_find (d_name d) tab =? 0); [reflexivity|]. cbn [filter]. rewrite Hf. reflexivity.
Qed.

Lemma spec_no_heu : forall items o nodes, filter is_heu_call (snd (spec_syms o nodes items)) = [].
Proof.
  induction items as [|it items IH]; intros o nodes; [reflexivity|]. cbn [spec_syms].
  destruct it as [c s t | d | a n].
  - destruct (cE o).
    + destruct (node_add (print_Z s) nodes) as [l1 i]. destruct (node_add (print_Z t) l1) as [l2 j].
      specialize (IH o l2). destruct (spec_syms o l2 items) as [n2 cs]. cbn [snd] in *.
      rewrite !filter_app_, IH. destruct (converted o (IEdge c s t) && flt o); reflexivity.
    + specialize (IH o nodes). destruct (spec_syms o nodes items) as [n2 cs]. cbn [snd] in *.
      rewrite !filter_app_, IH. destruct (converted o (IEdge c s t) && flt o); reflexivity.
  - specialize (IH o nodes). destruct (spec_syms o nodes items) as [n2 cs]. cbn [snd] in *.
    rewrite !filter_app_, IH. destruct (converted o (IHeu d) && flt o); reflexivity.
  - specialize (IH o nodes). destruct (spec_syms o nodes items) as [n2 cs]. cbn [snd] in *.
    rewrite !filter_app_, IH. destruct (converted o (IPlain a n) && flt o); reflexivity.
Qed.

Lemma spec_outputs : forall items o nodes,
  filter is_out_call (snd (spec_syms o nodes items)) = map out_of (filter (fun it => negb (converted o it && flt o)) items).
Proof.
  induction items as [|it items IH]; intros o nodes; [reflexivity|]. cbn [spec_syms filter].
  destruct it as [c s t | d | a n].
  - destruct (cE o) eqn:E.
    + destruct (node_add (print_Z s) nodes) as [l1 i]. destruct (node_add (print_Z t) l1) as [l2 j].
      specialize (IH o l2). destruct (spec_syms o l2 items) as [n2 cs]. cbn [snd] in *.
      rewrite !filter_app_, IH. cbn [converted]. rewrite E. destruct (flt o); reflexivity.
    + specialize (IH o nodes). destruct (spec_syms o nodes items) as [n2 cs]. cbn [snd] in *.
      rewrite !filter_app_, IH. cbn [converted]. rewrite E. reflexivity.
  - specialize (IH o nodes). destruct (spec_syms o nodes items) as [n2 cs]. cbn [snd] in *.
    rewrite !filter_app_, IH. destruct (converted o (IHeu d) && flt o); reflexivity.
  - specialize (IH o nodes). destruct (spec_syms o nodes items) as [n2 cs]. cbn [snd] in *.
    rewrite !filter_app_, IH. reflexivity.
Qed.

(* ---- NodeTab ---- *)
Lemma node_idx_range n : forall l i k, node_idx n l i = Some k -> i <= k < i + Z.of_nat (length l).
Proof.
  induction l as [|x l IH]; intros i k H; [discriminate|]. cbn [node_idx length] in *.
  destruct (list_eqb x n); [inversion H; lia|]. specialize (IH _ _ H). lia.
Qed.
Lemma node_idx_app_some n l' : forall l i k, node_idx n l i = Some k -> node_idx n (l ++ l') i = Some k.
Proof.
  induction l as [|x l IH]; intros i k H; [discriminate|]. cbn [node_idx app] in *.
  destruct (list_eqb x n); [assumption | apply IH; assumption].
Qed.
Lemma node_idx_app_none n : forall l i, node_idx n l i = None -> node_idx n (l ++ [n]) i = Some (i + Z.of_nat (length l)).
Proof.
  induction l as [|x l IH]; intros i H; cbn [node_idx app length] in *.
  - assert (E : list_eqb n n = true) by (apply list_eqb_eq; reflexivity). rewrite E. f_equal. lia.
  - destruct (list_eqb x n); [discriminate|]. rewrite (IH _ H). f_equal. lia.
Qed.
Lemma node_idx_same n n' : forall l i k, node_idx n l i = Some k -> node_idx n' l i = Some k -> n = n'.
Proof.
  induction l as [|x l IH]; intros i k H H'; [discriminate|]. cbn [node_idx] in *.
  destruct (list_eqb x n) eqn:E, (list_eqb x n') eqn:E'.
  - apply list_eqb_eq in E. apply list_eqb_eq in E'. congruence.
  - inversion H; subst. apply node_idx_range in H'. lia.
  - inversion H'; subst. apply node_idx_range in H. lia.
  - eapply IH; eassumption.
Qed.
Lemma node_idx_in n : forall l i, In n l -> exists k, node_idx n l i = Some k.
Proof.
  induction l as [|x l IH]; intros i H; [contradiction|]. cbn [node_idx].
  destruct (list_eqb x n) eqn:E; [eexists; reflexivity|].
  destruct H as [->|H]; [|apply IH; assumption].
  assert (list_eqb n n = true) by (apply list_eqb_eq; reflexivity). congruence.
Qed.

Lemma node_add_spec n l l' k : node_add n l = (l', k) -> (exists e, l' = l ++ e) /\ node_idx n l' 0 = Some k.
Proof.
  unfold node_add. destruct (node_idx n l 0) as [i|] eqn:E; intros H; inversion H; subst.
  - split; [exists []; rewrite app_nil_r; reflexivity | assumption].
  - split; [eexists; reflexivity|]. rewrite (node_idx_app_none _ _ _ E). reflexivity.
Qed.

Lemma node_of_ext nodes e z k : node_idx (print_Z z) nodes 0 = Some k -> node_of (nodes ++ e) z = k.
Proof. intros H. unfold node_of. rewrite (node_idx_app_some _ _ _ _ _ H). reflexivity. Qed.

Lemma spec_nodes_ext : forall items o nodes, exists e, fst (spec_syms o nodes items) = nodes ++ e.
Proof.
  induction items as [|it items IH]; intros o nodes; [exists []; rewrite app_nil_r; reflexivity|].
  cbn [spec_syms]. destruct it as [c s t | d | a n].
  - destruct (cE o).
    + destruct (node_add (print_Z s) nodes) as [l1 i] eqn:E1. destruct (node_add (print_Z t) l1) as [l2 j] eqn:E2.
      destruct (node_add_spec _ _ _ _ E1) as [[e1 ->] _]. destruct (node_add_spec _ _ _ _ E2) as [[e2 ->] _].
      destruct (IH o ((nodes ++ e1) ++ e2)) as [e3 H3]. destruct (spec_syms o ((nodes ++ e1) ++ e2) items) as [n2 cs].
      cbn [fst] in *. exists (e1 ++ e2 ++ e3). rewrite H3, !app_assoc. reflexivity.
    + destruct (IH o nodes) as [e H]. destruct (spec_syms o nodes items) as [n2 cs]. cbn [fst] in *. exists e. exact H.
  - destruct (IH o nodes) as [e H]. destruct (spec_syms o nodes items) as [n2 cs]. cbn [fst] in *. exists e. exact H.
  - destruct (IH o nodes) as [e H]. destruct (spec_syms o nodes items) as [n2 cs]. cbn [fst] in *. exists e. exact H.
Qed.

Lemma spec_edges : forall items o nodes, cE o = true ->
  filter is_edge_call (snd (spec_syms o nodes items)) =
  map (fun e => match e with (c, s, t) =>
         CEdge (node_of (fst (spec_syms o nodes items)) s) (node_of (fst (spec_syms o nodes items)) t) [c] end) (edges_of items).
Proof.
  induction items as [|it items IH]; intros o nodes HcE; [reflexivity|].
  cbn [spec_syms]. destruct it as [c s t | d | a n]; unfold edges_of; cbn [flat_map]; fold (edges_of items).
  - rewrite HcE.
    destruct (node_add (print_Z s) nodes) as [l1 i] eqn:E1. destruct (node_add (print_Z t) l1) as [l2 j] eqn:E2.
    destruct (node_add_spec _ _ _ _ E1) as [_ Hi]. destruct (node_add_spec _ _ _ _ E2) as [[e2 ->] Hj].
    specialize (IH o (l1 ++ e2) HcE). destruct (spec_nodes_ext items o (l1 ++ e2)) as [e3 H3].
    destruct (spec_syms o (l1 ++ e2) items) as [n2 cs]. cbn [fst snd] in *. subst n2.
    rewrite !filter_app_, IH. cbn [app map filter is_edge_call].
    rewrite <- app_assoc. rewrite (node_of_ext l1 (e2 ++ e3) s i Hi). rewrite app_assoc.
    rewrite (node_of_ext (l1 ++ e2) e3 t j Hj).
    destruct (converted o (IEdge c s t) && flt o); reflexivity.
  - specialize (IH o nodes HcE). destruct (spec_syms o nodes items) as [n2 cs]. cbn [fst snd app] in *.
    rewrite !filter_app_, IH. destruct (converted o (IHeu d) && flt o); reflexivity.
  - specialize (IH o nodes HcE). destruct (spec_syms o nodes items) as [n2 cs]. cbn [fst snd app] in *.
    rewrite !filter_app_, IH. reflexivity.
Qed.

Lemma spec_no_edges : forall items o nodes, cE o = false ->
  filter is_edge_call (snd (spec_syms o nodes items)) = [] /\ fst (spec_syms o nodes items) = nodes.
Proof.
  induction items as [|it items IH]; intros o nodes HcE; [split; reflexivity|].
  cbn [spec_syms]. destruct it as [c s t | d | a n]; rewrite ?HcE;
    destruct (IH o nodes HcE) as [H1 H2]; destruct (spec_syms o nodes items) as [n2 cs]; cbn [fst snd app] in *;
    rewrite ?filter_app_, ?H1; (split; [|assumption]).
  - destruct (converted o (IEdge c s t) && flt o); reflexivity.
  - destruct (converted o (IHeu d) && flt o); reflexivity.
  - reflexivity.
Qed.

Lemma node_of_inj nodes z z' : In (print_Z z) nodes -> node_of nodes z = node_of nodes z' -> z = z'.
Proof.
  intros Hin. unfold node_of. destruct (node_idx_in _ _ 0 Hin) as [k Hk]. rewrite Hk.
  destruct (node_idx (print_Z z') nodes 0) as [k'|] eqn:E; intros H.
  - subst k'. apply print_Z_inj. eapply node_idx_same; eassumption.
  - apply node_idx_range in Hk. lia.
Qed.

(* ---- SymTab::find ---- *)
Lemma tab_find_none n : forall tab, (forall a, ~ In (n, a) tab) -> tab_find n tab = 0.
Proof.
  induction tab as [|[k a] tab IH]; intros H; [reflexivity|]. cbn [tab_find].
  destruct (list_eqb k n) eqn:E.
  - apply list_eqb_eq in E. subst. exfalso. apply (H a). left. reflexivity.
  - apply IH. intros a' Hin. apply (H a'). right. assumption.
Qed.
Lemma tab_find_in n : forall tab, tab_find n tab <> 0 -> In (n, tab_find n tab) tab.
Proof.
  induction tab as [|[k a] tab IH]; intros H; [contradiction H; reflexivity|]. cbn [tab_find] in *.
  destruct (list_eqb k n) eqn:E.
  - apply list_eqb_eq in E. subst. left. reflexivity.
  - right. apply IH. assumption.
Qed.
Lemma tab_find_found n : forall tab, (forall k a, In (k, a) tab -> a <> 0) -> (exists a, In (n, a) tab) -> tab_find n tab <> 0.
Proof.
  induction tab as [|[k a] tab IH]; intros Hnz [a' Hin]; [contradiction|]. cbn [tab_find].
  destruct (list_eqb k n) eqn:E.
  - apply (Hnz k a). left. reflexivity.
  - apply IH.
    + intros k' a'' H. apply (Hnz k' a''). right. assumption.
    + destruct Hin as [Heq|Hin]; [|exists a'; assumption]. inversion Heq; subst.
      assert (list_eqb n n = true) by (apply list_eqb_eq; reflexivity). congruence.
Qed.

(* ---- the whole step ---- *)
Lemma read_step_items o st items : Forall ok_item items ->
  read_step o st (map sym_of items) =
  (mkR (if cH o then r_tab st ++ map entry_of items else r_tab st) (fst (spec_syms o (r_nodes st) items)),
   snd (spec_syms o (r_nodes st) items) ++
   (if cH o then deliver_doms (r_tab st ++ map entry_of items) (heus_of items) else [])).
Proof.
  intros H. unfold read_step. rewrite (read_syms_items items o st [] H). cbn [r_tab app].
  destruct (cH o); reflexivity.
Qed.

Lemma heuristics_back o st items : cH o = true -> Forall ok_item items ->
  let tab' := r_tab st ++ map entry_of items in
  r_tab (fst (read_step o st (map sym_of items))) = tab' /\
  filter is_heu_call (snd (read_step o st (map sym_of items))) =
  flat_map (fun d => let x := tab_find (d_name d) tab' in
                     if x =? 0 then [] else [CHeuristic x (d_type d) (d_bias d) (d_prio d) [d_cond d]]) (heus_of items).
Proof.
  intros HcH Hok. rewrite (read_step_items o st items Hok), HcH. cbn [fst snd r_tab]. split; [reflexivity|].
  rewrite filter_app_, spec_no_heu, deliver_doms_heu. reflexivity.
Qed.

Lemma heuristics_off o st items : cH o = false -> Forall ok_item items ->
  filter is_heu_call (snd (read_step o st (map sym_of items))) = [].
Proof.
  intros HcH Hok. rewrite (read_step_items o st items Hok), HcH. cbn [snd]. rewrite app_nil_r. apply spec_no_heu.
Qed.

Lemma edges_back o st items : cE o = true -> Forall ok_item items ->
  let nodes' := r_nodes (fst (read_step o st (map sym_of items))) in
  (exists e, nodes' = r_nodes st ++ e) /\
  filter is_edge_call (snd (read_step o st (map sym_of items))) =
    map (fun e => match e with (c, s, t) => CEdge (node_of nodes' s) (node_of nodes' t) [c] end) (edges_of items).
Proof.
  intros HcE Hok. rewrite (read_step_items o st items Hok). cbn [fst snd r_nodes]. split; [apply spec_nodes_ext|].
  rewrite filter_app_, (spec_edges items o (r_nodes st) HcE).
  assert (E : filter is_edge_call (if cH o then deliver_doms (r_tab st ++ map entry_of items) (heus_of items) else []) = []).
  { destruct (cH o); [apply deliver_doms_not; reflexivity | reflexivity]. }
  rewrite E, app_nil_r. reflexivity.
Qed.

Lemma outputs_back o st items : Forall ok_item items ->
  filter is_out_call (snd (read_step o st (map sym_of items))) =
  map out_of (filter (fun it => negb (converted o it && flt o)) items).
Proof.
  intros Hok. rewrite (read_step_items o st items Hok). cbn [snd]. rewrite filter_app_, spec_outputs.
  assert (E : filter is_out_call (if cH o then deliver_doms (r_tab st ++ map entry_of items) (heus_of items) else []) = []).
  { destruct (cH o); [apply deliver_doms_not; reflexivity | reflexivity]. }
  rewrite E, app_nil_r. reflexivity.
Qed.

(* without filter NOTHING is lost, whatever the table contains *)
Lemma outputs_unfiltered : forall syms o st doms, flt o = false ->
  filter is_out_call (snd (read_syms o st doms syms)) = map (fun s => COutput (snd s) [fst s]) syms.
Proof.
  induction syms as [|[atom name] syms IH]; intros o st doms Hf; [reflexivity|]. cbn [read_syms map fst snd].
  rewrite Hf.
  destruct (classify o name) as [a b | h |].
  - destruct (node_add a (r_nodes st)) as [l1 s]. destruct (node_add b l1) as [l2 t]. rewrite andb_false_r.
    specialize (IH o (mkR (if cH o then r_tab st ++ [(name, atom)] else r_tab st) l2) doms Hf).
    destruct (read_syms o (mkR (if cH o then r_tab st ++ [(name, atom)] else r_tab st) l2) doms syms) as [[st2 d2] cs].
    cbn [snd] in *. rewrite !filter_app_, IH. reflexivity.
  - rewrite andb_false_r.
    specialize (IH o (mkR (if cH o then r_tab st ++ [(name, atom)] else r_tab st) (r_nodes st))
                  (doms ++ [mkDom (hr_name h) (hr_type h) (hr_bias h) (hr_prio h) atom]) Hf).
    destruct (read_syms o (mkR (if cH o then r_tab st ++ [(name, atom)] else r_tab st) (r_nodes st))
                (doms ++ [mkDom (hr_name h) (hr_type h) (hr_bias h) (hr_prio h) atom]) syms) as [[st2 d2] cs].
    cbn [snd] in *. rewrite !filter_app_, IH. reflexivity.
  - cbn [andb].
    specialize (IH o (mkR (if cH o then r_tab st ++ [(name, atom)] else r_tab st) (r_nodes st)) doms Hf).
    destruct (read_syms o (mkR (if cH o then r_tab st ++ [(name, atom)] else r_tab st) (r_nodes st)) doms syms) as [[st2 d2] cs].
    cbn [snd] in *. rewrite !filter_app_, IH. reflexivity.
Qed.

(* a symbol whose name starts with none of the helper texts is always delivered, in place *)
Lemma plain_always_shown o it : ok_item it -> (exists a n, it = IPlain a n) -> negb (converted o it && flt o) = true.
Proof. intros _ (a & n & ->). reflexivity. Qed.

(* ---- external values ---- *)
Lemma ext_values_back v : 0 <= v <= 3 -> ext_rw v = Some v.
Proof.
  intros H. assert (C : v = 0 \/ v = 1 \/ v = 2 \/ v = 3) by lia.
  destruct C as [->|[->|[->| ->]]]; vm_compute; reflexivity.
Qed.
Lemma ext_code_involution : forallb (fun v => ext_decode (ext_code v) =? v) [0; 1; 2] = true /\
                            forallb (fun c => ext_code (ext_decode c) =? c) [0; 1; 2] = true /\
                            forallb (fun v => (0 <=? ext_code v) && (ext_code v <=? extr_max)) [0; 1; 2] = true.
Proof. repeat split; vm_compute; reflexivity. Qed.

(* ---- corollaries used by the property theorems ---- *)
Lemma node_idx_some_in n : forall l i k, node_idx n l i = Some k -> In n l.
Proof.
  induction l as [|x l IH]; intros i k H; [discriminate|]. cbn [node_idx] in H.
  destruct (list_eqb x n) eqn:E; [apply list_eqb_eq in E; left; assumption | right; eapply IH; eassumption].
Qed.

Lemma spec_edge_nodes : forall items o nodes, cE o = true -> forall c s t, In (c, s, t) (edges_of items) ->
  In (print_Z s) (fst (spec_syms o nodes items)) /\ In (print_Z t) (fst (spec_syms o nodes items)).
Proof.
  induction items as [|it items IH]; intros o nodes HcE c s t Hin; [contradiction|].
  cbn [spec_syms]. destruct it as [c0 s0 t0 | d | a n]; unfold edges_of in Hin; cbn [flat_map] in Hin; fold (edges_of items) in Hin.
  - rewrite HcE.
    destruct (node_add (print_Z s0) nodes) as [l1 i] eqn:E1. destruct (node_add (print_Z t0) l1) as [l2 j] eqn:E2.
    destruct (node_add_spec _ _ _ _ E1) as [_ Hi]. destruct (node_add_spec _ _ _ _ E2) as [[e2 ->] Hj].
    destruct (spec_nodes_ext items o (l1 ++ e2)) as [e3 H3]. specialize (IH o (l1 ++ e2) HcE).
    destruct (spec_syms o (l1 ++ e2) items) as [n2 cs]. cbn [fst] in *. subst n2.
    cbn [app] in Hin. destruct Hin as [Heq|Hin]; [|eapply IH; eassumption]. inversion Heq; subst.
    split; [apply in_or_app; left; apply in_or_app; left; eapply node_idx_some_in; eassumption
           | apply in_or_app; left; eapply node_idx_some_in; eassumption].
  - specialize (IH o nodes HcE c s t Hin). destruct (spec_syms o nodes items) as [n2 cs]. exact IH.
  - specialize (IH o nodes HcE c s t Hin). destruct (spec_syms o nodes items) as [n2 cs]. exact IH.
Qed.

Lemma edges_nodes_known o st items : cE o = true -> Forall ok_item items -> forall c s t, In (c, s, t) (edges_of items) ->
  let nodes' := r_nodes (fst (read_step o st (map sym_of items))) in In (print_Z s) nodes' /\ In (print_Z t) nodes'.
Proof.
  intros HcE Hok c s t Hin. rewrite (read_step_items o st items Hok). cbn [fst r_nodes]. eapply spec_edge_nodes; eassumption.
Qed.

Lemma read_step_unfiltered o st syms : flt o = false ->
  filter is_out_call (snd (read_step o st syms)) = map (fun s => COutput (snd s) [fst s]) syms.
Proof.
  intros Hf. unfold read_step. pose proof (outputs_unfiltered syms o st [] Hf) as H.
  destruct (read_syms o st [] syms) as [[st1 ds] cs]. cbn [snd] in *.
  rewrite filter_app_, H, (deliver_doms_not _ _ is_out_call (fun _ _ _ _ _ => eq_refl)), app_nil_r. reflexivity.
Qed.

Lemma filtered_outputs_plain o st items : cE o = true -> cH o = true -> flt o = true -> Forall ok_item items ->
  forall c, In c (filter is_out_call (snd (read_step o st (map sym_of items)))) <->
            exists a n, c = COutput n [a] /\ In (IPlain a n) items.
Proof.
  intros HcE HcH Hf Hok c. rewrite (outputs_back o st items Hok). rewrite in_map_iff. split.
  - intros (it & <- & Hin). apply filter_In in Hin. destruct Hin as [Hin Hc].
    destruct it as [c0 s t | d | a n]; cbn [converted] in Hc; rewrite ?HcE, ?HcH, ?Hf in Hc; try discriminate.
    exists a, n. split; [reflexivity | assumption].
  - intros (a & n & -> & Hin). exists (IPlain a n). split; [reflexivity|]. apply filter_In. split; [assumption | reflexivity].
Qed.

(* ---- externals through the whole reader ---- *)
Definition is_ext_call (c : call) : bool := match c with CExternal _ _ => true | _ => false end.
Definition ext_val_ok (c : call) : Prop := match c with CExternal _ v => 0 <= v <= 3 | _ => True end.

Lemma read_syms_no_ext : forall syms o st doms, filter is_ext_call (snd (read_syms o st doms syms)) = [].
Proof.
  induction syms as [|[atom name] syms IH]; intros o st doms; [reflexivity|]. cbn [read_syms].
  destruct (classify o name) as [a b | h |].
  - destruct (node_add a (r_nodes st)) as [l1 s]. destruct (node_add b l1) as [l2 t].
    specialize (IH o (mkR (if cH o then r_tab st ++ [(name, atom)] else r_tab st) l2) doms).
    destruct (read_syms o (mkR (if cH o then r_tab st ++ [(name, atom)] else r_tab st) l2) doms syms) as [[st2 d2] cs].
    cbn [snd] in *. rewrite !filter_app_, IH. destruct (true && flt o); reflexivity.
  - specialize (IH o (mkR (if cH o then r_tab st ++ [(name, atom)] else r_tab st) (r_nodes st))
                  (doms ++ [mkDom (hr_name h) (hr_type h) (hr_bias h) (hr_prio h) atom])).
    destruct (read_syms o (mkR (if cH o then r_tab st ++ [(name, atom)] else r_tab st) (r_nodes st))
                (doms ++ [mkDom (hr_name h) (hr_type h) (hr_bias h) (hr_prio h) atom]) syms) as [[st2 d2] cs].
    cbn [snd] in *. rewrite !filter_app_, IH. destruct (true && flt o); reflexivity.
  - specialize (IH o (mkR (if cH o then r_tab st ++ [(name, atom)] else r_tab st) (r_nodes st)) doms).
    destruct (read_syms o (mkR (if cH o then r_tab st ++ [(name, atom)] else r_tab st) (r_nodes st)) doms syms) as [[st2 d2] cs].
    cbn [snd] in *. rewrite !filter_app_, IH. reflexivity.
Qed.

Lemma flush_syms_no_ext o st syms done : filter is_ext_call (snd (flush_syms o st syms done)) = [].
Proof.
  unfold flush_syms. destruct done; [reflexivity|]. unfold read_step.
  pose proof (read_syms_no_ext syms o st []) as H. destruct (read_syms o st [] syms) as [[st1 ds] cs]. cbn [snd] in *.
  rewrite filter_app_, H. apply deliver_doms_not. reflexivity.
Qed.

Lemma compute_rules_no_ext ls : filter is_ext_call (compute_rules ls) = [].
Proof. unfold compute_rules. induction (filter (fun l => 0 <? l) ls ++ filter (fun l => l <? 0) ls); [reflexivity | assumption]. Qed.

Lemma rd_calls_externals : forall cs o inc st syms done nsteps, Forall ext_val_ok cs ->
  snd (rd_calls o inc st syms done nsteps cs) = true ->
  filter is_ext_call (fst (rd_calls o inc st syms done nsteps cs)) = filter is_ext_call cs.
Proof.
  induction cs as [|c cs IH]; intros o inc st syms done nsteps Hv Hok; [reflexivity|].
  inversion Hv as [|? ? Hc Hcs]; subst. cbn [rd_calls] in *.
  destruct c; cbn [filter is_ext_call];
    try (apply IH; assumption).
  - (* CBegin *)
    destruct (negb inc && (0 <? nsteps)); [discriminate|].
    specialize (IH o inc st [] false nsteps Hcs). destruct (rd_calls o inc st [] false nsteps cs) as [d ok]. cbn [fst snd] in *.
    apply IH. assumption.
  - (* CEnd *)
    pose proof (flush_syms_no_ext o st syms done) as F. destruct (flush_syms o st syms done) as [st1 c1]. cbn [snd] in F.
    specialize (IH o inc (if inc then st1 else r0) [] false (nsteps + 1) Hcs).
    destruct (rd_calls o inc (if inc then st1 else r0) [] false (nsteps + 1) cs) as [d ok]. cbn [fst snd] in *.
    rewrite filter_app_, F. cbn [app filter is_ext_call]. apply IH. assumption.
  - (* CRule *)
    specialize (IH o inc st syms done nsteps Hcs). destruct (rd_calls o inc st syms done nsteps cs) as [d ok]. cbn [fst snd] in *.
    apply IH. assumption.
  - (* CExternal *)
    cbn [ext_val_ok] in Hc. rewrite (ext_values_back v Hc) in *.
    specialize (IH o inc st syms done nsteps Hcs). destruct (rd_calls o inc st syms done nsteps cs) as [d ok]. cbn [fst snd filter is_ext_call] in *.
    f_equal. apply IH. assumption.
  - (* CAssume *)
    pose proof (flush_syms_no_ext o st syms done) as F. destruct (flush_syms o st syms done) as [st1 c1]. cbn [snd] in F.
    specialize (IH o inc st1 [] true nsteps Hcs). destruct (rd_calls o inc st1 [] true nsteps cs) as [d ok]. cbn [fst snd] in *.
    rewrite !filter_app_, F, compute_rules_no_ext. cbn [app]. apply IH. assumption.
Qed.

Lemma read_back_externals o out : Forall ext_val_ok out -> snd (read_back o out) = true ->
  filter is_ext_call (fst (read_back o out)) = filter is_ext_call out.
Proof.
  intros Hv. unfold read_back. destruct (negb (has_end out)); [discriminate|].
  pose proof (rd_calls_externals out o (prog_inc out || starts_with_9 (prog_inc out) out) r0 [] false 0 Hv) as H.
  destruct (rd_calls o (prog_inc out || starts_with_9 (prog_inc out) out) r0 [] false 0 out) as [d ok]. cbn [fst snd] in *.
  intros Hok. cbn [filter is_ext_call]. apply H. assumption.
Qed.
