(* C08 - specification-side definitions (used in the theorem statements). *)
Require Import V.Lib.Base V.Lib.Calls V.Lib.Dec V.Gen.Consts V.Gen.Consts_C02 V.Gen.Consts_C08 V.C02.Model V.C08.Model.
Local Open Scope Z_scope.

(* walking over all bytes of a name with matchAtomArg's state (parenthesis depth, quote state) without ever meeting a
   top-level comma or an unbalanced `)`:  None = the scan would stop inside the name *)
Fixpoint walk (n : list Z) (p : Z) (q : option bool) : option (Z * option bool) :=
  match n with
  | [] => Some (p, q)
  | c :: r =>
      match q with
      | Some quoted =>
          if (c =? CH_QUOTE) && negb quoted then walk r p None
          else walk r p (Some (negb quoted && (c =? CH_BSLASH)))
      | None =>
          if c =? CH_LPAR then walk r (p + 1) None
          else if c =? CH_RPAR then (if p - 1 <? 0 then None else walk r (p - 1) None)
          else if c =? CH_COMMA then (if p =? 0 then None else walk r p None)
          else if c =? CH_QUOTE then walk r p (Some false)
          else walk r p None
      end
  end.

(* a name matchAtomArg re-reads whole whatever follows it: non-empty, no NUL byte, quotes closed, parentheses balanced
   outside quotes, no comma outside parentheses and quotes *)
Definition good_name (n : list Z) : Prop :=
  n <> [] /\ nul_free n /\ walk n 0 None = Some (0, None).
Definition good_nameb (n : list Z) : bool :=
  negb (match n with [] => true | _ => false end) && forallb (fun c => negb (c =? 0)) n &&
  match walk n 0 None with Some (0, None) => true | _ => false end.

(* the symbols of one symbol table as the converter's flush writes them / as a user names them *)
Inductive sitem :=
| IEdge (c s t : Z)          (* `_edge(s,t)` on atom c *)
| IHeu (d : dom)             (* `_heuristic(name,modifier,bias,prio)` on atom d_cond *)
| IPlain (a : Z) (n : list Z).

Definition sym_of (it : sitem) : Z * list Z :=
  match it with
  | IEdge c s t => (c, fmt_edge_s s t)
  | IHeu d => (d_cond d, fmt_heu (d_name d) (d_type d) (d_bias d) (d_prio d))
  | IPlain a n => (a, n)
  end.

(* literal prefix of the sscanf format (`_acyc_`) *)
Fixpoint lits (ds : list sdir) : list Z :=
  match ds with DLit c :: r => c :: lits r | _ => [] end.
Definition acyc_lit : list Z := lits (parse_fmt acyc_fmt).

Definition starts (w n : list Z) : bool := match match_word w n with Some _ => true | None => false end.
(* a name that starts with none of the three helper texts *)
Definition no_helper_prefix (n : list Z) : Prop :=
  starts heu_pred n = false /\ starts edge_pred n = false /\ starts acyc_lit n = false.

Definition ok_dom (d : dom) : Prop :=
  good_name (d_name d) /\ 0 <= d_type d <= heu_emax /\ C_INT_MIN <= d_bias d <= C_INT_MAX /\ 0 <= d_prio d <= C_INT_MAX.
Definition ok_item (it : sitem) : Prop :=
  match it with
  | IEdge _ _ _ => True
  | IHeu d => ok_dom d
  | IPlain a n => nul_free n /\ no_helper_prefix n
  end.

Definition is_heu_call (c : call) : bool := match c with CHeuristic _ _ _ _ _ => true | _ => false end.
Definition is_edge_call (c : call) : bool := match c with CEdge _ _ _ => true | _ => false end.
Definition is_out_call (c : call) : bool := match c with COutput _ _ => true | _ => false end.

Definition heus_of (items : list sitem) : list dom :=
  flat_map (fun it => match it with IHeu d => [d] | _ => [] end) items.
Definition edges_of (items : list sitem) : list (Z * Z * Z) :=
  flat_map (fun it => match it with IEdge c s t => [(c, s, t)] | _ => [] end) items.
Definition out_of (it : sitem) : call := COutput (snd (sym_of it)) [fst (sym_of it)].
Definition entry_of (it : sitem) : list Z * Z := (snd (sym_of it), fst (sym_of it)).

(* is the symbol converted (and therefore hidden by filter) under these options? *)
Definition converted (o : ropts) (it : sitem) : bool :=
  match it with IEdge _ _ _ => cE o | IHeu _ => cH o | IPlain _ _ => false end.

Definition node_of (nodes : list (list Z)) (z : Z) : Z :=
  match node_idx (print_Z z) nodes 0 with Some k => k | None => -1 end.

Inductive sublist {A : Type} : list A -> list A -> Prop :=
| sl_nil : sublist [] []
| sl_skip x l1 l2 : sublist l1 l2 -> sublist l1 (x :: l2)
| sl_keep x l1 l2 : sublist l1 l2 -> sublist (x :: l1) (x :: l2).
