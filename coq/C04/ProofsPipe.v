(* C04 - facts about the composed pipelines of C04/Pipe.v.
   (1) the aspif reader with delivery lines delivers exactly V.C01.Read.read_all's calls with its outcome;
   (2) the smodels reader with the special-predicate options walks the stream exactly like C07's reader (same outcome,
       same error line), and IS C07's reader when cEdge = cHeuristic = false;
   (3) a pipeline's status and bytes depend only on the delivered calls (not on their lines);
   (4) totality: no pipeline ends in the fuel marker; the converter / aspif pipelines never fault; the text pipeline can
       only fault inside an endStep (the text model's term printer, see Pipe.step_text).                              *)
Require Import V.Lib.Base V.Lib.Calls V.Lib.Contract V.C09.Spec V.Gen.Consts V.Gen.Consts_C07.
Require V.C01.Read V.C01.Write V.C02.Model V.C05.Model V.C06.Model V.C07.Model V.C08.Model.
Require Import V.C04.Pipe.
Require V.C03.ProofsContract V.C07.ProofsContract V.C06.ProofsStep.
Local Open Scope Z_scope.

(* ------------------------------------------------------------------------------------------------ *)
(* (1) read_all_ln vs read_all                                                                       *)
(* ------------------------------------------------------------------------------------------------ *)
Lemma map_fst_at_line ln cs : map fst (at_line ln cs) = cs.
Proof. unfold at_line. rewrite map_map. cbn. apply map_id. Qed.

Lemma dirs_ln_dirs : forall fuel s,
  map fst (fst (dirs_ln fuel s)) = fst (V.C01.Read.dirs fuel s) /\ snd (dirs_ln fuel s) = snd (V.C01.Read.dirs fuel s).
Proof.
  induction fuel as [|x f IH]; intro s; cbn [dirs_ln V.C01.Read.dirs]; [split; reflexivity|].
  destruct (V.C01.Read.m_pos enum_Directive_t_max s) as [rt s1|ln]; [|split; reflexivity].
  destruct (rt =? 0); [split; reflexivity|].
  destruct (V.C01.Read.directive rt s1) as [oc s2|ln]; [|split; reflexivity].
  specialize (IH s2). destruct (dirs_ln f s2) as [cs r]. destruct (V.C01.Read.dirs f s2) as [cs' r'].
  cbn [fst snd] in *. destruct IH as [IH1 IH2]. split; [|exact IH2].
  rewrite map_app. rewrite map_fst_at_line. rewrite IH1. destruct oc; reflexivity.
Qed.

Lemma read_step_ln_eq s :
  map fst (fst (read_step_ln s)) = fst (V.C01.Read.read_step s) /\ snd (read_step_ln s) = snd (V.C01.Read.read_step s).
Proof.
  unfold read_step_ln, V.C01.Read.read_step.
  destruct (dirs_ln_dirs (0 :: rest s) s) as [H1 H2].
  destruct (dirs_ln (0 :: rest s) s) as [cs r]. destruct (V.C01.Read.dirs (0 :: rest s) s) as [cs' r'].
  cbn [fst snd] in *. subst r'. destruct r as [[] s'|ln]; cbn [fst snd map].
  - rewrite map_app, H1. split; reflexivity.
  - rewrite H1. split; reflexivity.
Qed.

Lemma parse_round_ln_eq inc s :
  map fst (fst (parse_round_ln inc s)) = fst (V.C01.Read.parse_round inc s) /\
  snd (parse_round_ln inc s) = snd (V.C01.Read.parse_round inc s).
Proof.
  unfold parse_round_ln, V.C01.Read.parse_round.
  destruct (read_step_ln_eq s) as [H1 H2].
  destruct (read_step_ln s) as [cs r]. destruct (V.C01.Read.read_step s) as [cs' r'].
  cbn [fst snd] in *. subst r'. destruct r as [[] s1|ln]; [|split; [exact H1 | reflexivity]].
  destruct (V.C01.Read.more (a_skipws s1)) as [m s3].
  destruct (m && negb inc); split; try exact H1; reflexivity.
Qed.

Lemma parse_complete_ln_eq inc : forall fuel s,
  map fst (fst (parse_complete_ln fuel inc s)) = fst (V.C01.Read.parse_complete fuel inc s) /\
  snd (parse_complete_ln fuel inc s) = snd (V.C01.Read.parse_complete fuel inc s).
Proof.
  induction fuel as [|x f IH]; intro s; cbn [parse_complete_ln V.C01.Read.parse_complete]; [split; reflexivity|].
  destruct (parse_round_ln_eq inc s) as [H1 H2].
  destruct (parse_round_ln inc s) as [cs r]. destruct (V.C01.Read.parse_round inc s) as [cs' r'].
  cbn [fst snd] in *. subst r'. destruct r as [[] s1|ln]; [|split; [exact H1 | reflexivity]].
  destruct (V.C01.Read.more s1) as [m s2]. destruct m; [|split; [exact H1 | reflexivity]].
  specialize (IH s2). destruct (parse_complete_ln f inc s2) as [c2 o2]. destruct (V.C01.Read.parse_complete f inc s2) as [c2' o2'].
  cbn [fst snd] in *. destruct IH as [I1 I2]. split; [|exact I2]. now rewrite map_app, H1, I1.
Qed.

Theorem read_all_ln_calls t : map fst (fst (read_all_ln t)) = fst (V.C01.Read.read_all t).
Proof.
  unfold read_all_ln, V.C01.Read.read_all, V.C01.Read.read_with.
  destruct (V.C01.Read.read_header (a_init t)) as [cs [[inc|] s|ln]]; cbn [fst]; try apply map_fst_at_line.
  destruct (parse_complete_ln_eq inc (0 :: rest s) s) as [H1 _].
  destruct (parse_complete_ln (0 :: rest s) inc s) as [c2 o2]. destruct (V.C01.Read.parse_complete (0 :: rest s) inc s) as [c2' o2'].
  cbn [fst] in *. now rewrite map_app, map_fst_at_line, H1.
Qed.

Theorem read_all_ln_outcome t : snd (read_all_ln t) = snd (V.C01.Read.read_all t).
Proof.
  unfold read_all_ln, V.C01.Read.read_all, V.C01.Read.read_with.
  destruct (V.C01.Read.read_header (a_init t)) as [cs [[inc|] s|ln]]; cbn [snd]; try reflexivity.
  destruct (parse_complete_ln_eq inc (0 :: rest s) s) as [_ H2].
  destruct (parse_complete_ln (0 :: rest s) inc s) as [c2 o2]. destruct (V.C01.Read.parse_complete (0 :: rest s) inc s) as [c2' o2'].
  exact H2.
Qed.

(* ------------------------------------------------------------------------------------------------ *)
(* (3) status and bytes of a pipeline depend on the calls only                                        *)
(* ------------------------------------------------------------------------------------------------ *)
(* a pipeline result without its line: class (0 accepted, 1 error, 2 model fault, 3 fuel) and bytes *)
Definition strip (r : pres) : Z * list Z :=
  match r with POk o => (0, o) | PErr _ o => (1, o) | PFault _ o => (2, o) | PFuel => (3, []) end.
Definition strip_rout (o : rout) : Z := match o with ROk => 0 | RErr _ => 1 | RFuel => 3 end.

Section FeedFacts.
  Context {S : Type}.
  Variable step : S -> call -> cstep S.
  Variable outp : S -> list Z.

  Lemma feed_lines : forall cs1 cs2 s, map fst cs1 = map fst cs2 ->
    fst (feed step s cs1) = fst (feed step s cs2) /\
    option_map snd (snd (feed step s cs1)) = option_map snd (snd (feed step s cs2)).
  Proof.
    induction cs1 as [|[c l] r IH]; intros [|[c' l'] r'] s H; cbn in H; try discriminate; [split; reflexivity|].
    injection H as -> H. cbn [feed]. destruct (step s c'); [apply IH; exact H | split; reflexivity | split; reflexivity].
  Qed.

  Lemma pipe_strip cs1 cs2 o1 o2 s : map fst cs1 = map fst cs2 -> strip_rout o1 = strip_rout o2 ->
    strip (pipe step outp s cs1 o1) = strip (pipe step outp s cs2 o2).
  Proof.
    intros H Ho. unfold pipe. destruct (feed_lines cs1 cs2 s H) as [H1 H2].
    destruct (feed step s cs1) as [s1 f1]. destruct (feed step s cs2) as [s2 f2]. cbn [fst snd] in *. subst s2.
    destruct f1 as [[l1 b1]|], f2 as [[l2 b2]|]; cbn in H2; try discriminate.
    - injection H2 as ->. destruct b2; reflexivity.
    - destruct o1, o2; cbn in Ho; try discriminate; reflexivity.
  Qed.
End FeedFacts.

(* the aspif writer as a consumer: the bytes are write_prog of the calls *)
Lemma feed_aspif : forall cs s, feed step_aspif s cs = (s ++ V.C01.Write.write_prog (map fst cs), None).
Proof.
  induction cs as [|[c l] r IH]; intro s; cbn [feed step_aspif map fst V.C01.Write.write_prog flat_map].
  - now rewrite app_nil_r.
  - rewrite IH. unfold V.C01.Write.write_prog. now rewrite app_assoc.
Qed.

(* ------------------------------------------------------------------------------------------------ *)
(* (2) the smodels reader with the special-predicate options vs C07's reader                          *)
(* ------------------------------------------------------------------------------------------------ *)
Definition sym_call (p : Z * list Z) : call := COutput (snd p) [fst p].
Definition plain (ro : V.C08.Model.ropts) : Prop := V.C08.Model.cE ro = false /\ V.C08.Model.cH ro = false.

Lemma snd_cbind {A B} (m : V.C07.Model.cres A) (K : A -> V.C07.Model.cres B) :
  snd (V.C07.Model.cbind m K) =
  match snd m with V.C07.Model.Ok a => snd (K a) | V.C07.Model.Err l => V.C07.Model.Err l | V.C07.Model.Fuel => V.C07.Model.Fuel end.
Proof. destruct m as [c [a|l|]]; cbn; [destruct (K a); reflexivity | reflexivity | reflexivity]. Qed.
Lemma fst_cbind {A B} (m : V.C07.Model.cres A) (K : A -> V.C07.Model.cres B) :
  fst (V.C07.Model.cbind m K) = fst m ++ match snd m with V.C07.Model.Ok a => fst (K a) | _ => [] end.
Proof. destruct m as [c [a|l|]]; cbn; [destruct (K a); reflexivity | now rewrite app_nil_r | now rewrite app_nil_r]. Qed.

Lemma read_sym_lines_eq : forall fuel s,
  fst (V.C07.Model.read_symbols fuel s) = map sym_call (fst (read_sym_lines fuel s)) /\
  snd (V.C07.Model.read_symbols fuel s) = snd (read_sym_lines fuel s).
Proof.
  induction fuel as [|fu IH]; intro s; cbn [V.C07.Model.read_symbols read_sym_lines]; [split; reflexivity|].
  destruct (V.C07.Model.m_pos sm_sym_max s) as [[v s1]|l|]; [|split; reflexivity|split; reflexivity].
  destruct (V.C07.Model.wrap32s v =? 0); [split; reflexivity|].
  destruct (V.C07.Model.read_name _ _) as [[name s3]|l|]; [|split; reflexivity|split; reflexivity].
  specialize (IH s3). destruct (V.C07.Model.read_symbols fu s3) as [cs r]. destruct (read_sym_lines fu s3) as [ls r'].
  cbn [fst snd map] in *. destruct IH as [-> ->]. split; reflexivity.
Qed.

Lemma read_syms_plain ro : plain ro -> forall syms st doms,
  V.C08.Model.read_syms ro st doms syms = (st, doms, map sym_call syms).
Proof.
  intros [HE HH]. induction syms as [|[atom name] r IH]; intros st doms; cbn [V.C08.Model.read_syms map]; [reflexivity|].
  unfold V.C08.Model.classify. rewrite HE, HH. cbn [andb].
  replace (V.C08.Model.mkR (V.C08.Model.r_tab st) (V.C08.Model.r_nodes st)) with st by (destruct st; reflexivity).
  rewrite IH. reflexivity.
Qed.

Lemma read_symbols_x_eq ro st s :
  snd (snd (read_symbols_x ro st s)) = snd (V.C07.Model.read_symbols (V.C07.Model.fuel_of s) s) /\
  (plain ro -> fst (snd (read_symbols_x ro st s)) = fst (V.C07.Model.read_symbols (V.C07.Model.fuel_of s) s)).
Proof.
  unfold read_symbols_x. destruct (read_sym_lines_eq (V.C07.Model.fuel_of s) s) as [H1 H2]. rewrite H1, H2.
  destruct (read_sym_lines (V.C07.Model.fuel_of s) s) as [syms [s1|l|]]; cbn [fst snd].
  - unfold V.C08.Model.read_step.
    destruct (V.C08.Model.read_syms ro st [] syms) as [[st1 ds] cs] eqn:E. cbn [fst snd]. split; [reflexivity|].
    intro Hp. rewrite (read_syms_plain ro Hp) in E. injection E as <- <- <-. cbn. now rewrite app_nil_r.
  - destruct (V.C08.Model.read_syms ro st [] syms) as [[st1 ds] cs] eqn:E. cbn [fst snd]. split; [reflexivity|].
    intro Hp. rewrite (read_syms_plain ro Hp) in E. now injection E as <- <- <-.
  - destruct (V.C08.Model.read_syms ro st [] syms) as [[st1 ds] cs] eqn:E. cbn [fst snd]. split; [reflexivity|].
    intro Hp. rewrite (read_syms_plain ro Hp) in E. now injection E as <- <- <-.
Qed.

Lemma do_parse_x_eq o ro st s :
  snd (snd (do_parse_x o ro st s)) = snd (V.C07.Model.do_parse o s) /\
  (plain ro -> fst (snd (do_parse_x o ro st s)) = fst (V.C07.Model.do_parse o s)).
Proof.
  unfold do_parse_x, V.C07.Model.do_parse.
  rewrite snd_cbind, fst_cbind. cbn [fst snd].
  rewrite snd_cbind, fst_cbind.
  destruct (V.C07.Model.read_rules (V.C07.Model.fuel_of s) o 0 s) as [c1 [s1|l|]]; cbn [fst snd];
    [|split; [reflexivity | intros _; now rewrite app_nil_r] | split; [reflexivity | intros _; now rewrite app_nil_r]].
  destruct (read_symbols_x_eq ro st s1) as [H1 H2].
  destruct (read_symbols_x ro st s1) as [st1 [c2 r2]]. cbn [fst snd] in *.
  rewrite !snd_cbind, !fst_cbind. cbn [fst snd].
  destruct (V.C07.Model.read_symbols (V.C07.Model.fuel_of s1) s1) as [c2' r2']. cbn [fst snd] in *. subst r2'.
  split; [reflexivity|]. intro Hp. rewrite (H2 Hp). reflexivity.
Qed.

Lemma parse_steps_x_eq o ro inc : forall fuel st s,
  snd (parse_steps_x fuel o ro inc st s) = snd (V.C07.Model.parse_steps fuel o inc s) /\
  (plain ro -> fst (parse_steps_x fuel o ro inc st s) = fst (V.C07.Model.parse_steps fuel o inc s)).
Proof.
  induction fuel as [|fu IH]; intros st s; cbn [parse_steps_x V.C07.Model.parse_steps]; [split; reflexivity|].
  destruct (do_parse_x_eq o ro st s) as [H1 H2].
  destruct (do_parse_x o ro st s) as [st1 [cx rx]]. cbn [fst snd] in *.
  rewrite !snd_cbind, !fst_cbind. cbn [fst snd].
  destruct (V.C07.Model.do_parse o s) as [c r]. cbn [fst snd] in *. subst r.
  destruct rx as [s1|l|]; [|split; [reflexivity | intro Hp; now rewrite (H2 Hp)] | split; [reflexivity | intro Hp; now rewrite (H2 Hp)]].
  destruct (negb (a_end (a_skipws s1)) && negb inc); [split; [reflexivity | intro Hp; now rewrite (H2 Hp)]|].
  destruct (negb (a_end (a_skipws s1))); [|split; [reflexivity | intro Hp; now rewrite (H2 Hp)]].
  destruct (IH st1 (a_skipws s1)) as [I1 I2]. split; [exact I1|]. intro Hp. now rewrite (H2 Hp), (I2 Hp).
Qed.

(* whatever the special-predicate options: the stream is walked exactly as by C07's reader (same outcome, same error line) *)
Theorem read_smodels_x_outcome o ro t : snd (read_smodels_x o ro t) = snd (V.C07.Model.read_smodels o t).
Proof.
  unfold read_smodels_x, V.C07.Model.read_smodels.
  destruct (is_digit (a_peek (a_init t)) && (negb (a_peek (a_init t) =? 57) || V.C07.Model.claspExt o)); [|reflexivity].
  rewrite !snd_cbind. cbn [snd]. apply parse_steps_x_eq.
Qed.
(* without them it IS C07's reader *)
Theorem read_smodels_x_plain o ro t : plain ro -> read_smodels_x o ro t = V.C07.Model.read_smodels o t.
Proof.
  intro Hp. apply injective_projections; [|apply read_smodels_x_outcome].
  unfold read_smodels_x, V.C07.Model.read_smodels.
  destruct (is_digit (a_peek (a_init t)) && (negb (a_peek (a_init t) =? 57) || V.C07.Model.claspExt o)); [|reflexivity].
  rewrite !fst_cbind. cbn [fst snd]. f_equal. now apply parse_steps_x_eq.
Qed.

Theorem read_smodels_opts_outcome ce cedge cheu flt t :
  snd (read_smodels_opts ce cedge cheu flt t) = snd (V.C07.Model.read_smodels (V.C07.Model.mkopts ce flt) t).
Proof. unfold read_smodels_opts. destruct (cedge || cheu); [apply read_smodels_x_outcome | reflexivity]. Qed.

(* ------------------------------------------------------------------------------------------------ *)
(* (4) totality                                                                                       *)
(* ------------------------------------------------------------------------------------------------ *)
Definition no_fault (r : pres) : Prop := match r with POk _ | PErr _ _ => True | PFault _ _ | PFuel => False end.

Section NoFault.
  Context {S : Type}.
  Variable step : S -> call -> cstep S.
  Variable outp : S -> list Z.
  Hypothesis Hstep : forall s c s', step s c <> SFault s'.
  Lemma feed_no_fault : forall cs s s' ln, feed step s cs <> (s', Some (ln, true)).
  Proof.
    induction cs as [|[c l] r IH]; intros s s' ln; cbn [feed]; [discriminate|].
    destruct (step s c) as [s1|s1|s1] eqn:E; [apply IH | discriminate | exfalso; exact (Hstep _ _ _ E)].
  Qed.
  Lemma pipe_no_fault s cs o : o <> RFuel -> no_fault (pipe step outp s cs o).
  Proof.
    intro Ho. unfold pipe. destruct (feed step s cs) as [s1 [[ln [|]]|]] eqn:E; cbn.
    - exact (feed_no_fault _ _ _ _ E).
    - exact I.
    - destruct o; [exact I | exact I | congruence].
  Qed.
End NoFault.

Lemma step_conv_no_fault ext s c s' : step_conv ext s c <> SFault s'.
Proof.
  unfold step_conv. destruct (V.C02.Model.cv_call ext (c_cv s) c) as [[cv1 cs]|e]; [|discriminate].
  destruct (sm_feed (c_w s) (c_out s) cs) as [[w1 o1] [|]]; discriminate.
Qed.
Lemma step_aspif_no_fault s c s' : step_aspif s c <> SFault s'.
Proof. discriminate. Qed.

Lemma rout_aspif_no_fuel o : rout_aspif o <> RFuel.
Proof. destruct o; discriminate. Qed.
Lemma smodels_no_fuel p f t : rout_smodels (snd (smodels_calls p f t)) <> RFuel.
Proof.
  unfold smodels_calls. rewrite read_smodels_opts_outcome.
  pose proof (V.C07.ProofsContract.no_fuel_exhaustion (V.C07.Model.mkopts p (p && f)) t) as H.
  destruct (snd (V.C07.Model.read_smodels (V.C07.Model.mkopts p (p && f)) t)); [discriminate | discriminate | congruence].
Qed.

(* aspif -> smodels and smodels -> aspif: a result (accepted / error at a line) for every byte string and every option set *)
Theorem a2s_total p t : no_fault (pipe_a2s p t).
Proof.
  unfold pipe_a2s. destruct (read_all_ln t) as [cs o].
  apply pipe_no_fault; [apply step_conv_no_fault | apply rout_aspif_no_fuel].
Qed.
Theorem s2a_total p f t : no_fault (pipe_s2a p f t).
Proof.
  unfold pipe_s2a. pose proof (smodels_no_fuel p f t) as H. destruct (smodels_calls p f t) as [cs o].
  apply pipe_no_fault; [apply step_aspif_no_fault | exact H].
Qed.
(* the reader never reports the fuel marker (line 0) *)
Theorem aspif_reader_line t : snd (read_all_ln t) <> V.C01.Read.Err 0.
Proof.
  rewrite read_all_ln_outcome. intro E. apply (V.C03.ProofsContract.no_fuel_exhaustion t (fst (V.C01.Read.read_all t))).
  rewrite <- E. apply surjective_pairing.
Qed.

(* --- the text writer: outside endStep the model faults on nothing a reader delivers --- *)
Lemma wrule_dir_no_fault ht h bd b : int_ok bd = true -> forallb (wlit_ok true) b = true ->
  V.C06.Model.wrule_dir ht h bd b <> V.C06.Model.Fault.
Proof.
  intros Hb Hw. unfold V.C06.Model.wrule_dir.
  destruct ((V.C06.Model.min_w b =? V.C06.Model.max_w b) && (0 <? V.C06.Model.min_w b)) eqn:E; [|discriminate].
  apply andb_true_iff in E. destruct E as [_ E]. apply Z.ltb_lt in E.
  rewrite V.C06.ProofsStep.count_bound_range; [discriminate | | lia].
  unfold int_ok in Hb. unfold V.C06.Model.in_int, V.C06.Model.INT_MIN, V.C06.Model.INT_MAX. exact Hb.
Qed.

Lemma store_no_fault {A} (l : list (option A)) fr i x : V.C06.Model.store l fr i x <> V.C06.Model.Fault.
Proof. unfold V.C06.Model.store. destruct (V.C06.Model.nth_opt l i); [destruct (fr <=? Z.to_nat i)%nat|]; discriminate. Qed.

Definition wr_ok (c : call) : Prop := match c with CWRule _ _ _ _ => call_ok c = true | _ => True end.
Lemma step_text_fault s c s' : wr_ok c -> step_text s c = SFault s' -> c = CEnd.
Proof.
  intros Hc. unfold step_text. destruct c; try reflexivity; cbn [V.C06.Model.do_call V.C06.Model.lift V.C06.Model.bind];
    try discriminate.
  - (* CWRule *) cbn [wr_ok call_ok] in Hc. apply andb_true_iff in Hc. destruct Hc as [Hc Hw]. apply andb_true_iff in Hc. destruct Hc as [_ Hb].
    pose proof (wrule_dir_no_fault ht head bound body Hb Hw) as H.
    destruct (V.C06.Model.wrule_dir ht head bound body); cbn; try discriminate. congruence.
  - (* COutput *) destruct (V.C06.Model.name_target _ _ _); discriminate.
  - pose proof (store_no_fault (V.C06.Model.terms s) (V.C06.Model.f_term s) id (V.C06.Model.TNum n)) as H.
    destruct (V.C06.Model.store _ _ _ _); cbn; try discriminate. congruence.
  - pose proof (store_no_fault (V.C06.Model.terms s) (V.C06.Model.f_term s) id (V.C06.Model.TSym s0)) as H.
    destruct (V.C06.Model.store _ _ _ _); cbn; try discriminate. congruence.
  - pose proof (store_no_fault (V.C06.Model.terms s) (V.C06.Model.f_term s) id (V.C06.Model.TComp c args)) as H.
    destruct (V.C06.Model.store _ _ _ _); cbn; try discriminate. congruence.
  - destruct (V.C06.Model.add_condition _ _) as [cs cid].
    pose proof (store_no_fault (V.C06.Model.elems s) (V.C06.Model.f_elem s) id (V.C06.Model.mkE terms cid)) as H.
    destruct (V.C06.Model.store _ _ _ _); cbn; try discriminate. congruence.
Qed.

(* a fault of the text pipeline is raised by an endStep (the term printer of the text model, i.e. a cyclic theory term) *)
Lemma feed_text_fault : forall cs s s' ln, Forall (fun lc => wr_ok (fst lc)) cs ->
  feed step_text s cs = (s', Some (ln, true)) -> exists s0, step_text s0 CEnd = SFault s' /\ In (CEnd, ln) cs.
Proof.
  induction cs as [|[c l] r IH]; intros s s' ln Hall H; cbn [feed] in H; [discriminate|].
  inversion Hall as [|x y Hc Hr]; subst. cbn [fst] in Hc.
  destruct (step_text s c) as [s1|s1|s1] eqn:E.
  - destruct (IH s1 s' ln Hr H) as [s0 [H1 H2]]. exists s0. split; [exact H1 | right; exact H2].
  - discriminate.
  - injection H as <- <-. pose proof (step_text_fault s c s1 Hc E) as ->. exists s. split; [exact E | left; reflexivity].
Qed.

Definition fault_at_end (r : pres) : Prop :=
  match r with
  | POk _ | PErr _ _ => True
  | PFault ln o => exists s0 s', step_text s0 CEnd = SFault s' /\ V.C06.Model.out s' = o
  | PFuel => False
  end.

Lemma pipe_text_total cs o : o <> RFuel -> Forall (fun lc => wr_ok (fst lc)) cs ->
  fault_at_end (pipe step_text V.C06.Model.out V.C06.Model.init_st cs o).
Proof.
  intros Ho Hall. unfold pipe. destruct (feed step_text V.C06.Model.init_st cs) as [s1 [[ln [|]]|]] eqn:E; cbn.
  - destruct (feed_text_fault _ _ _ _ Hall E) as [s0 [H1 _]]. exists s0, s1. split; [exact H1 | reflexivity].
  - exact I.
  - destruct o; [exact I | exact I | congruence].
Qed.

Lemma call_ok_wr c : call_ok c = true -> wr_ok c.
Proof. intro H. destruct c; cbn; try exact I. exact H. Qed.

Theorem a2t_total_partial t : fault_at_end (pipe_a2t t).
Proof.
  unfold pipe_a2t. pose proof (read_all_ln_calls t) as Hc. destruct (read_all_ln t) as [cs o]. cbn [fst] in Hc.
  apply pipe_text_total; [apply rout_aspif_no_fuel|].
  pose proof (V.C03.ProofsContract.reader_contract t) as H. unfold contract_ok in H. apply andb_true_iff in H. destruct H as [_ H].
  rewrite <- Hc in H. rewrite forallb_forall in H. apply Forall_forall. intros [c l] Hin. cbn [fst]. apply call_ok_wr.
  apply H. change c with (fst (c, l)). apply in_map. exact Hin.
Qed.

Lemma pipe_not_fuel {S} (step : S -> call -> cstep S) outp s cs o : o <> RFuel -> pipe step outp s cs o <> PFuel.
Proof.
  intro Ho. unfold pipe. destruct (feed step s cs) as [s1 [[ln [|]]|]]; try discriminate.
  destruct o; [discriminate | discriminate | congruence].
Qed.

Lemma Forall_at_line (P : call -> Prop) ln cs : Forall P cs -> Forall (fun lc => P (fst lc)) (at_line ln cs).
Proof. intro H. unfold at_line. apply Forall_forall. intros [c l] Hin. apply in_map_iff in Hin. destruct Hin as [c' [E Hin]].
  injection E as <- <-. cbn [fst]. rewrite Forall_forall in H. now apply H. Qed.

(* smodels -> text: never the fuel marker, whatever the options; without -p a fault could only come from an endStep *)
Theorem s2t_no_fuel p f t : pipe_s2t p f t <> PFuel.
Proof.
  unfold pipe_s2t. pose proof (smodels_no_fuel p f t) as H. destruct (smodels_calls p f t) as [cs o]. cbn [snd] in H.
  apply pipe_not_fuel. exact H.
Qed.
Theorem s2t_total_partial f t : fault_at_end (pipe_s2t false f t).
Proof.
  unfold pipe_s2t. pose proof (smodels_no_fuel false f t) as H.
  unfold smodels_calls, read_smodels_opts in *. cbn [andb orb] in *.
  pose proof (V.C07.ProofsContract.delivered_calls (V.C07.Model.mkopts false false) t) as [_ Hc].
  destruct (V.C07.Model.read_smodels (V.C07.Model.mkopts false false) t) as [cs o]. cbn [fst snd] in *.
  apply pipe_text_total; [exact H|]. apply Forall_at_line. apply Forall_forall. intros c Hin. specialize (Hc c Hin).
  destruct c; cbn; try exact I. exact Hc.
Qed.
