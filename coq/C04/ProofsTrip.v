(* C04 - composition corollaries: what the lpconvert pipelines do on texts written by the library's own writers
   (c01_roundtrip, c05_roundtrip composed through the pipelines of C04/Pipe.v). *)
Require Import V.Lib.Base V.Lib.Calls V.C09.Spec V.Gen.Consts V.Gen.Consts_C07.
Require V.C01.Read V.C01.Write V.C01.Wf V.C01.ProofsRoundtrip V.C02.Model V.C05.Model V.C05.Spec V.C05.ProofsComp V.C06.Model V.C07.Model.
Require Import V.C04.Pipe V.C04.ProofsPipe.
Local Open Scope Z_scope.

(* ---- aspif text written by AspifOutput, through lpconvert ---- *)
(* every pipeline over the aspif reader sees exactly norm p (the program with weight-0 literals dropped) and no reader error *)
Lemma read_written p : V.C01.Wf.wf_trace p -> forallb V.C01.Wf.wf_call p = true ->
  map fst (fst (read_all_ln (V.C01.Write.write_prog p))) = V.C01.Wf.norm p /\
  rout_aspif (snd (read_all_ln (V.C01.Write.write_prog p))) = ROk.
Proof.
  intros Ht Hc. rewrite read_all_ln_calls, read_all_ln_outcome.
  rewrite (V.C01.ProofsRoundtrip.c01_roundtrip_lemma p Ht Hc). split; reflexivity.
Qed.

(* lpconvert -t on the aspif text of p writes exactly what AspifTextOutput writes when it is handed norm p directly
   (same class of outcome, same bytes) *)
Theorem text_of_written p : V.C01.Wf.wf_trace p -> forallb V.C01.Wf.wf_call p = true ->
  strip (pipe_a2t (V.C01.Write.write_prog p)) =
  strip (pipe step_text V.C06.Model.out V.C06.Model.init_st (at_line 0 (V.C01.Wf.norm p)) ROk).
Proof.
  intros Ht Hc. unfold pipe_a2t. destruct (read_written p Ht Hc) as [H1 H2].
  destruct (read_all_ln (V.C01.Write.write_prog p)) as [cs o]. cbn [fst snd] in *.
  apply pipe_strip; [now rewrite map_fst_at_line | now rewrite H2].
Qed.
(* ... and lpconvert [-p] what SmodelsConvert + SmodelsOutput write for norm p *)
Theorem smodels_of_written ext p : V.C01.Wf.wf_trace p -> forallb V.C01.Wf.wf_call p = true ->
  strip (pipe_a2s ext (V.C01.Write.write_prog p)) =
  strip (pipe (step_conv ext) c_out (conv0 ext) (at_line 0 (V.C01.Wf.norm p)) ROk).
Proof.
  intros Ht Hc. unfold pipe_a2s. destruct (read_written p Ht Hc) as [H1 H2].
  destruct (read_all_ln (V.C01.Write.write_prog p)) as [cs o]. cbn [fst snd] in *.
  apply pipe_strip; [now rewrite map_fst_at_line | now rewrite H2].
Qed.

(* ---- smodels text written by SmodelsOutput, through lpconvert (no -p), and back through the aspif reader ---- *)
Lemma pipe_aspif_ok cs : pipe step_aspif (fun s => s) [] (at_line 0 cs) ROk = POk (V.C01.Write.write_prog cs).
Proof. unfold pipe. rewrite feed_aspif, map_fst_at_line. reflexivity. Qed.

Theorem s2a_of_written flt f p : V.C05.Spec.in_fragment false f p = true ->
  exists t, V.C05.Spec.sm_write false f p = Some t /\
            pipe_s2a false flt t = POk (V.C01.Write.write_prog (V.C05.Spec.sm_norm f p)).
Proof.
  intro Hf. destruct (V.C05.ProofsComp.roundtrip false false f p Hf) as [t [_ [Hw Hr]]]. exists t. split; [exact Hw|].
  unfold pipe_s2a, smodels_calls, read_smodels_opts. cbn [andb orb]. rewrite Hr. apply pipe_aspif_ok.
Qed.

(* the normal form of an in-fragment program (extensions off) is a well-framed one-step program *)
Lemma frag_false_shape f p : V.C05.Spec.in_fragment false f p = true ->
  exists st, V.C05.Spec.parse p = Some (false, [st]) /\ V.C05.Spec.frag_step false f st = true.
Proof.
  unfold V.C05.Spec.in_fragment. destruct (V.C05.Spec.parse p) as [[inc sts]|]; [|discriminate].
  unfold V.C05.Spec.frag_steps. intro H. apply andb_true_iff in H. destruct H as [Hs H].
  destruct inc; [cbn in H; discriminate|]. destruct sts as [|st [|st2 r]]; try discriminate.
  exists st. split; [reflexivity|]. cbn [forallb] in Hs. now rewrite andb_true_r in Hs.
Qed.

Lemma norm_rules_dir f : forall l prio, forallb (V.C05.Spec.frag_rule false f) l = true ->
  forallb V.C01.Wf.is_dir (V.C05.Spec.norm_rules f prio l) = true.
Proof.
  induction l as [|c r IH]; intros prio H; cbn [V.C05.Spec.norm_rules]; [reflexivity|].
  cbn [forallb] in H. apply andb_true_iff in H. destruct H as [Hc Hr]. rewrite forallb_app. rewrite (IH _ Hr), andb_true_r.
  destruct c; cbn [V.C05.Spec.frag_rule] in Hc; try discriminate; cbn [V.C05.Spec.norm_rule].
  - destruct head; [destruct (ht =? Head_t_Choice)|]; reflexivity.
  - reflexivity.
  - reflexivity.
Qed.
Lemma syms_dir l : forallb V.C05.Spec.frag_sym l = true -> forallb V.C01.Wf.is_dir l = true.
Proof.
  induction l as [|c r IH]; intro H; [reflexivity|]. cbn [forallb] in *. apply andb_true_iff in H. destruct H as [Hc Hr].
  rewrite (IH Hr), andb_true_r. destruct c; try discriminate. reflexivity.
Qed.
Lemma forallb_map_all {A B} (f : B -> bool) (g : A -> B) l : (forall x, f (g x) = true) -> forallb f (map g l) = true.
Proof. intro H. induction l as [|x r IH]; [reflexivity|]. cbn. now rewrite H, IH. Qed.
Lemma norm_assume_dir l : forallb V.C01.Wf.is_dir (V.C05.Spec.norm_assume l) = true.
Proof. unfold V.C05.Spec.norm_assume. rewrite forallb_app, !forallb_map_all; reflexivity. Qed.

Lemma sm_norm_trace f p : V.C05.Spec.in_fragment false f p = true -> V.C01.Wf.wf_trace (V.C05.Spec.sm_norm f p).
Proof.
  intro Hf. destruct (frag_false_shape f p Hf) as [st [Hp Hs]]. unfold V.C05.Spec.sm_norm. rewrite Hp.
  unfold V.C05.Spec.frag_step in Hs. apply andb_true_iff in Hs. destruct Hs as [Hs Ha]. apply andb_true_iff in Hs. destruct Hs as [Hr Hy].
  exists false.
  exists [V.C05.Spec.norm_rules f 0 (V.C05.Spec.k_rules st) ++ V.C05.Spec.k_syms st ++ V.C05.Spec.norm_assume (V.C05.Spec.assume_of st) ++
          (if V.C05.Spec.uses_false f st then [CRule Head_t_Disjunctive [] [f]] else [])].
  split.
  - unfold V.C01.Wf.flatten, V.C05.Spec.norm_step. cbn [flat_map]. rewrite !app_nil_r. cbn [app]. f_equal. f_equal.
    rewrite <- !app_assoc. reflexivity.
  - unfold V.C01.Wf.wf_steps. cbn [forallb]. rewrite !andb_true_r. rewrite !forallb_app.
    rewrite (norm_rules_dir f _ 0 Hr), (syms_dir _ Hy), norm_assume_dir. cbn [andb].
    destruct (V.C05.Spec.uses_false f st); reflexivity.
Qed.

(* lpconvert (no -p) on the smodels text of an in-fragment program p writes the aspif text of the normal form sm_norm f p, and the
   aspif reader reads that text back as sm_norm f p (weight-0 literals dropped).  The range hypothesis is the aspif writer's
   documented one (C01: list counts <= 2^32-1, names <= 2^31-1 bytes, 32-bit integers), stated on the normal form: it is not
   implied by in_fragment alone (which bounds neither the length of a name nor the number of minimize statements, whose running
   index becomes the priority) *)
Theorem roundtrip_aspif flt f p : V.C05.Spec.in_fragment false f p = true ->
  forallb V.C01.Wf.wf_call (V.C05.Spec.sm_norm f p) = true ->
  exists t a, V.C05.Spec.sm_write false f p = Some t /\ pipe_s2a false flt t = POk a /\
              V.C01.Read.read_all a = (V.C01.Wf.norm (V.C05.Spec.sm_norm f p), V.C01.Read.Ok).
Proof.
  intros Hf Hw. destruct (s2a_of_written flt f p Hf) as [t [H1 H2]].
  exists t, (V.C01.Write.write_prog (V.C05.Spec.sm_norm f p)). split; [exact H1|]. split; [exact H2|].
  apply V.C01.ProofsRoundtrip.c01_roundtrip_lemma; [apply sm_norm_trace; exact Hf | exact Hw].
Qed.
