(* C04 - the three reader models on arbitrary bytes, as one executable function (definitions only).
   Case:  mode opts len bytes...      (same as harness/h_c04.cpp; opts bits 8.. select the buffer-size variant of the
                                       implementation run and are irrelevant here: readers are written against the abstract stream)
     mode 0  aspif reader  (V.C01.Read.read_all)
     mode 1  smodels reader (option bits 1 claspExt, 2 cEdge, 4 cHeuristic, 8 filter): V.C07.Model.read_smodels when cEdge = cHeuristic = false,
             else C07's reader with the symbol table handed to the special-predicate pass of V.C08.Model (V.C04.Pipe.read_smodels_x)
     mode 2  ground-text reader (V.C10.Model.read_text)
     mode 3..6  the lpconvert pipelines, composed in V.C04.Pipe from the reader, converter and writer models:
             3 aspif -> SmodelsConvert -> SmodelsOutput (opts bit 1: potassco)       4 aspif -> AspifTextOutput
             5 smodels -> AspifOutput (opts bit 1: potassco, 2: filter)               6 smodels -> AspifTextOutput (same bits)
     mode 7  app/lpconvert.cpp itself: format chosen by the first byte, opts bits 1 -p, 2 -f, 4 -t
   Observation: status (0 accepted, 1 error reported), number of error reports, error line, 0 (leak flag), then the delivered calls
   (modes 0-2) or the length and bytes of the output (modes 3-7). *)
Require Import V.Lib.Base V.Lib.Calls.
Require V.C01.Read V.C07.Model V.C10.Model V.C04.Pipe.
Local Open Scope Z_scope.

Definition obs_ok (cs : list call) : list Z := 0 :: 0 :: 0 :: 0 :: enc_calls cs.
Definition obs_err (ln : Z) (cs : list call) : list Z := 1 :: 1 :: ln :: 0 :: enc_calls cs.

Definition run_aspif (t : list Z) : list Z :=
  match V.C01.Read.read_all t with
  | (cs, V.C01.Read.Ok) => obs_ok cs
  | (cs, V.C01.Read.Err ln) => obs_err ln cs
  end.

Definition run_smodels (o : Z) (t : list Z) : list Z :=
  match V.C04.Pipe.read_smodels_opts (V.C04.Pipe.bit o 1) (V.C04.Pipe.bit o 2) (V.C04.Pipe.bit o 4) (V.C04.Pipe.bit o 8) t with
  | (cs, V.C07.Model.Ok _) => obs_ok cs
  | (cs, V.C07.Model.Err ln) => obs_err ln cs
  | (cs, V.C07.Model.Fuel) => [-1]
  end.

Definition run_text (t : list Z) : list Z :=
  match V.C10.Model.read_text t with
  | V.C10.Model.ROk _ s => obs_ok (rev (V.C10.Model.acc s))
  | V.C10.Model.RErr ln cs => obs_err ln (rev cs)
  end.

Definition run_case (c : list Z) : list Z :=
  match c with
  | mode :: opts :: len :: r =>
      let t := firstn (Z.to_nat len) r in
      let o := opts mod 256 in
      if mode =? 0 then run_aspif t
      else if mode =? 1 then run_smodels o t
      else if mode =? 2 then run_text t
      else if mode =? 3 then V.C04.Pipe.enc_pres (V.C04.Pipe.pipe_a2s (V.C04.Pipe.bit o 1) t)
      else if mode =? 4 then V.C04.Pipe.enc_pres (V.C04.Pipe.pipe_a2t t)
      else if mode =? 5 then V.C04.Pipe.enc_pres (V.C04.Pipe.pipe_s2a (V.C04.Pipe.bit o 1) (V.C04.Pipe.bit o 2) t)
      else if mode =? 6 then V.C04.Pipe.enc_pres (V.C04.Pipe.pipe_s2t (V.C04.Pipe.bit o 1) (V.C04.Pipe.bit o 2) t)
      else if mode =? 7 then V.C04.Pipe.enc_lpconvert (V.C04.Pipe.lpconvert o t)
      else []
  | _ => []
  end.
