(* C04 - the three reader models on arbitrary bytes, as one executable function (definitions only).
   Case:  mode opts len bytes...      (same as harness/h_c04.cpp; opts bits 8.. select the buffer-size variant of the
                                       implementation run and are irrelevant here: readers are written against the abstract stream)
     mode 0  aspif reader  (V.C01.Read.read_all)
     mode 1  smodels reader (V.C07.Model.read_smodels; option bits 1 claspExt, 8 filter; cEdge/cHeuristic (2,4) are not modelled -> [])
     mode 2  ground-text reader (V.C10.Model.read_text)
     mode >= 3  lpconvert pipelines: not modelled (sanitizer runs only) -> []
   Observation: status (0 accepted, 1 error reported), number of error reports, error line, 0 (leak flag), delivered calls. *)
Require Import V.Lib.Base V.Lib.Calls.
Require V.C01.Read V.C07.Model V.C10.Model.
Local Open Scope Z_scope.

Definition obs_ok (cs : list call) : list Z := 0 :: 0 :: 0 :: 0 :: enc_calls cs.
Definition obs_err (ln : Z) (cs : list call) : list Z := 1 :: 1 :: ln :: 0 :: enc_calls cs.

Definition run_aspif (t : list Z) : list Z :=
  match V.C01.Read.read_all t with
  | (cs, V.C01.Read.Ok) => obs_ok cs
  | (cs, V.C01.Read.Err ln) => obs_err ln cs
  end.

Definition run_smodels (o : Z) (t : list Z) : list Z :=
  if negb ((o / 2) mod 4 =? 0) then [] else
  match V.C07.Model.read_smodels (V.C07.Model.mkopts (Z.odd o) (negb ((o / 8) mod 2 =? 0))) t with
  | (cs, V.C07.Model.Ok _) => obs_ok cs
  | (cs, V.C07.Model.Err ln) => obs_err ln cs
  | (cs, V.C07.Model.Fuel) => [-1]
  end.

Definition run_text (t : list Z) : list Z :=
  match V.C10.Model.read_text t with
  | V.C10.Model.ROk _ s => obs_ok (rev (V.C10.Model.acc s))
  | V.C10.Model.RErr ln cs => obs_err ln (rev cs)
  end.

Definition run_case (c : list Z) : list Z :=
  match c with
  | mode :: opts :: len :: r =>
      let t := firstn (Z.to_nat len) r in
      let o := opts mod 256 in
      if mode =? 0 then run_aspif t
      else if mode =? 1 then run_smodels o t
      else if mode =? 2 then run_text t
      else []
  | _ => []
  end.
