(* C04 - index safety and termination of the buffer-window machine (V.C09.Model) on ARBITRARY bytes
   (NUL bytes, CR/LF mixes, anything) and arbitrary operation lists, for every buffer size:
     - the read position and the window never leave the array:  rpos + |win| <= N  (array has N+1 cells);
     - the machine never steps over the sentinel and no loop runs out of fuel (fault = false): every loop
       iteration consumes at least one byte of what is left, which is the termination argument of the
       real loops in skipWs / match(int64_t&) / copy.                                                   *)
Require Import V.Lib.Base V.C09.Model.
Require Import ZifyBool.
Local Open Scope Z_scope.

Section Safe.
Variable N : nat.

Definition WInv (s : st) : Prop := (rpos s + length (win s) <= N)%nat /\ fault s = false.

Lemma cut0_length l : (length (cut0 l) <= length l)%nat.
Proof. induction l as [|c r IH]; cbn [cut0 length]; [lia|]. destruct (c =? 0); cbn [length]; lia. Qed.

Lemma underflow_safe s : win s = [] -> fault s = false -> (rpos s <= N)%nat ->
  WInv (underflow N true s) /\ (remaining (underflow N true s) <= length (src s))%nat.
Proof.
  intros Hw Hf Hr. unfold underflow, WInv, remaining. destruct (ok s); cbn [negb].
  - cbn [rpos win src fault]. 
    set (rp := if true && (0 <? rpos s)%nat then 1%nat else rpos s).
    assert (rp <= N)%nat by (subst rp; cbn [andb]; destruct (Nat.ltb_spec 0 (rpos s)); lia).
    pose proof (cut0_length (firstn (N - rp) (src s))) as H1. rewrite firstn_length in H1.
    rewrite skipn_length. split; [split; [lia | assumption] | lia].
  - rewrite Hw. cbn [length]. split; [split; [lia | assumption] | lia].
Qed.

Lemma rget_safe s : WInv s -> win s <> [] ->
  WInv (rget N s) /\ (remaining (rget N s) < remaining s)%nat.
Proof.
  intros [Hl Hf] Hw. unfold rget. destruct (win s) as [|c w] eqn:E; [congruence|]. cbn [length] in Hl.
  destruct w as [|d w'].
  - destruct (underflow_safe (mk (S (rpos s)) [] (src s) (ok s) (line s) (fault s))) as [I R];
      cbn [win fault rpos src]; auto; try lia.
    split; [exact I|]. unfold remaining at 2. rewrite E. cbn [length src] in *. lia.
  - split; [split; cbn [rpos win fault length] in *; [lia | assumption]|].
    unfold remaining. rewrite E. cbn [win src length]. lia.
Qed.

Lemma peek_win s : peek s <> 0 -> win s <> [].
Proof. unfold peek. destruct (win s); congruence. Qed.

Lemma set_line_safe s l : WInv s -> WInv (set_line s l).
Proof. intros [? ?]; split; assumption. Qed.
Lemma remaining_set_line s l : remaining (set_line s l) = remaining s.
Proof. reflexivity. Qed.

Lemma get_safe s : WInv s ->
  WInv (snd (get N s)) /\ (remaining (snd (get N s)) <= remaining s)%nat /\
  (peek s <> 0 -> (remaining (snd (get N s)) < remaining s)%nat).
Proof.
  intros I. unfold get. destruct (Z.eqb_spec (peek s) 0) as [E|E]; cbn [snd].
  - split; [exact I|]. split; [lia | congruence].
  - destruct (rget_safe s I (peek_win s E)) as [I1 R1].
    destruct (Z.eqb_spec (peek s) 13).
    + destruct (Z.eqb_spec (peek (rget N s)) 10) as [E2|E2]; cbn [snd].
      * assert (Hnz : peek (rget N s) <> 0) by lia.
        destruct (rget_safe _ I1 (peek_win _ Hnz)) as [I2 R2].
        split; [apply set_line_safe; exact I2|]. rewrite remaining_set_line. split; intros; lia.
      * split; [apply set_line_safe; exact I1|]. rewrite remaining_set_line. split; intros; lia.
    + destruct (Z.eqb_spec (peek s) 10); cbn [snd].
      * split; [apply set_line_safe; exact I1|]. rewrite remaining_set_line. split; intros; lia.
      * split; [exact I1|]. split; intros; lia.
Qed.

Lemma is_ws_nz c : is_ws c = true -> c <> 0.
Proof. unfold is_ws. lia. Qed.
Lemma is_digit_nz c : is_digit c = true -> c <> 0.
Proof. unfold is_digit. lia. Qed.

Lemma skipws_f_safe fuel : forall s, WInv s -> (remaining s < fuel)%nat ->
  WInv (skipws_f N fuel s) /\ (remaining (skipws_f N fuel s) <= remaining s)%nat.
Proof.
  induction fuel as [|f IH]; intros s I Hf; [lia|]. cbn [skipws_f].
  destruct (is_ws (peek s)) eqn:W; [|split; [exact I | lia]].
  destruct (get_safe s I) as (I1 & R1 & R2). specialize (R2 (is_ws_nz _ W)).
  destruct (IH (snd (get N s)) I1 ltac:(lia)) as [I2 R3]. split; [exact I2 | lia].
Qed.

Lemma skipws_safe s : WInv s -> WInv (skipws N s) /\ (remaining (skipws N s) <= remaining s)%nat.
Proof. intros I. unfold skipws. apply skipws_f_safe; [exact I | lia]. Qed.

Lemma unget_safe c s : WInv s -> WInv (snd (unget c s)).
Proof.
  intros [Hl Hf]. unfold unget. destruct (rpos s) as [|p] eqn:E; cbn [snd]; [split; [rewrite E; exact Hl | exact Hf]|].
  split; cbn [rpos win fault length]; [lia | exact Hf].
Qed.

Lemma compact_safe s : WInv s -> WInv (compact N s).
Proof.
  intros [Hl Hf]. unfold compact. destruct (ok s); cbn [negb]; split; cbn [rpos win fault]; try assumption; try lia.
  destruct (Nat.eqb_spec (length (win s)) (N - rpos s)) as [E|E]; [|lia].
  rewrite app_length. pose proof (cut0_length (firstn (N - (N - rpos s)) (src s))) as H. rewrite firstn_length in H. lia.
Qed.

Lemma match_tok_safe w s : WInv s -> WInv (snd (match_tok N w s)).
Proof.
  intros I. unfold match_tok.
  destruct ((N - rpos s <? length w)%nat && negb (length w <=? N)%nat); cbn [snd]; [exact I|].
  set (s1 := if (N - rpos s <? length w)%nat then compact N s else s).
  assert (I1 : WInv s1) by (subst s1; destruct (N - rpos s <? length w)%nat; [apply compact_safe|]; exact I).
  clearbody s1. destruct I1 as [Hl Hf].
  destruct (list_eqb (firstn (length w) (win s1)) w) eqn:Eq; cbn [snd]; [|split; assumption].
  apply list_eqb_eq in Eq.
  assert (Hlen : (length w <= length (win s1))%nat) by (rewrite <- Eq at 1; rewrite firstn_length; lia).
  pose proof (skipn_length (length w) (win s1)) as Hs.
  destruct (skipn (length w) (win s1)) as [|d w'] eqn:Ew.
  - apply underflow_safe; cbn [win fault rpos]; auto. cbn [length] in Hs. lia.
  - split; cbn [rpos win fault]; [|assumption]. rewrite Hs. lia.
Qed.

Lemma digits_f_safe fuel : forall s res good, WInv s -> (remaining s < fuel)%nat ->
  WInv (snd (digits_f N fuel res good s)).
Proof.
  induction fuel as [|f IH]; intros s res good I Hf; [lia|]. cbn [digits_f].
  destruct (is_digit (peek s)) eqn:D; [|exact I].
  destruct (rget_safe s I (peek_win s (is_digit_nz _ D))) as [I1 R1].
  destruct (good && (res <=? (INT64_MAX - to_digit (peek s)) / 10)); apply IH; try assumption; lia.
Qed.

Lemma match_int_safe ns s : WInv s -> WInv (snd (match_int N ns s)).
Proof.
  intros I. unfold match_int.
  set (s0 := if ns then s else skipws N s).
  assert (I0 : WInv s0) by (subst s0; destruct ns; [exact I | apply skipws_safe; exact I]). clearbody s0.
  set (s1 := if (peek s0 =? 43) || (peek s0 =? 45) then rget N s0 else s0).
  assert (I1 : WInv s1).
  { subst s1. destruct ((peek s0 =? 43) || (peek s0 =? 45)) eqn:Sg; [|exact I0].
    apply rget_safe; [exact I0 | apply peek_win; lia]. }
  clearbody s1. destruct (is_digit (peek s1)) eqn:D; cbn [negb snd]; [|exact I1].
  destruct (rget_safe s1 I1 (peek_win s1 (is_digit_nz _ D))) as [I2 R2].
  pose proof (digits_f_safe (S (remaining (rget N s1))) (rget N s1) (to_digit (peek s1)) true I2 ltac:(lia)) as I3.
  destruct (digits_f N (S (remaining (rget N s1))) (to_digit (peek s1)) true (rget N s1)) as [[r g] s3]. exact I3.
Qed.

Lemma copy_f_safe fuel : forall s n acc, WInv s -> (remaining s < fuel)%nat -> WInv (snd (copy_f N fuel n acc s)).
Proof.
  induction fuel as [|f IH]; intros s n acc I Hf; [lia|]. cbn [copy_f].
  destruct ((n =? 0)%nat || (peek s =? 0)) eqn:E; [exact I|].
  apply orb_false_iff in E. destruct E as [En Ep]. apply Nat.eqb_neq in En.
  assert (Hw : win s <> []) by (apply peek_win; lia).
  destruct I as [Hl Hf0].
  set (m := Nat.min n (length (win s))).
  assert (Hm : (1 <= m <= length (win s))%nat).
  { subst m. destruct (win s); [congruence|]. cbn [length]. lia. }
  pose proof (skipn_length m (win s)) as Hs.
  apply IH.
  - destruct (skipn m (win s)) as [|d w'] eqn:Ew.
    + apply underflow_safe; cbn [win fault rpos]; auto. cbn [length] in Hs. lia.
    + split; cbn [rpos win fault]; [|assumption]. rewrite Hs. lia.
  - destruct (skipn m (win s)) as [|d w'] eqn:Ew.
    + destruct (underflow_safe (mk (rpos s + m) [] (src s) (ok s) (line s + count_eq 10 (firstn m (win s))) (fault s)))
        as [_ R]; cbn [win fault rpos src]; auto; [cbn [length] in Hs; lia|].
      unfold remaining in Hf. cbn [src] in R. lia.
    + unfold remaining in *. cbn [win src]. rewrite Hs. lia.
Qed.

Lemma copy_safe k s : WInv s -> WInv (snd (copy N k s)).
Proof.
  intros I. unfold copy. destruct (k <? 0); cbn [snd]; [exact I|].
  pose proof (copy_f_safe (S (remaining s)) s (Z.to_nat k) [] I ltac:(lia)) as H.
  destruct (copy_f N (S (remaining s)) (Z.to_nat k) [] s) as [bs s']. exact H.
Qed.

Lemma step_safe s o : WInv s -> WInv (snd (step N s o)).
Proof.
  intros I. destruct o as [| |c| |w|ns|k| |]; cbn [step snd]; try exact I.
  - pose proof (get_safe s I) as (H & _ & _). destruct (get N s); exact H.
  - pose proof (unget_safe c s I) as H. destruct (unget c s); exact H.
  - apply skipws_safe; exact I.
  - pose proof (match_tok_safe w s I) as H. destruct (match_tok N w s); exact H.
  - pose proof (match_int_safe ns s I) as H. destruct (match_int N ns s) as [[v|] s']; exact H.
  - pose proof (copy_safe k s I) as H. destruct (copy N k s) as [[n bs] s']; exact H.
Qed.

Lemma run_ops_safe ops : forall s, WInv s -> WInv (snd (run_ops N s ops)).
Proof.
  induction ops as [|o r IH]; intros s I; cbn [run_ops snd]; [exact I|].
  pose proof (step_safe s o I) as H1. destruct (step N s o) as [o1 s1]. cbn [snd] in H1.
  specialize (IH s1 H1). destruct (run_ops N s1 r) as [o2 s2]. exact IH.
Qed.

Lemma init_safe input : WInv (init N input).
Proof. unfold init. apply underflow_safe; cbn; auto; lia. Qed.

Theorem buffer_safe input ops :
  let s := snd (run_ops N (init N input) ops) in
  (rpos s + length (win s) <= N)%nat /\ fault s = false.
Proof. exact (run_ops_safe ops _ (init_safe input)). Qed.
End Safe.
