(* C04 - the smodels -> text pipeline never faults: C07's reader never delivers a theory atom, so the text writer's endStep has
   nothing to print, and everything else the text model does on reader-delivered calls is fault-free (C04/ProofsPipe.v). *)
Require Import V.Lib.Base V.Lib.Calls V.Lib.Contract V.C09.Spec V.Gen.Consts V.Gen.Consts_C07 V.C07.Model.
Require V.C06.Model V.C07.ProofsContract.
Require Import V.C04.Pipe V.C04.ProofsPipe.
Local Open Scope Z_scope.

Definition nta (c : call) : bool := match c with CTAtom _ _ _ | CTAtomG _ _ _ _ _ => false | _ => true end.

Ltac brk H :=
  repeat (first
    [ match type of H with (bind ?m _) = _ => destruct m as [?x|?l|] eqn:?; cbn [bind] in H; [|discriminate H|discriminate H] end
    | match type of H with (let '(_, _) := ?x in _) = _ => destruct x end
    | match type of H with (if ?b then _ else _) = _ => destruct b eqn:? end
    | match type of H with (match ?x with (_, _) => _ end) = _ => destruct x end ]).

Lemma read_rule_nta o prio rt s cs p s' : read_rule o prio rt s = Ok (cs, p, s') -> forallb nta cs = true.
Proof.
  unfold read_rule. intro H. brk H; try discriminate H; injection H as <- _ _; reflexivity.
Qed.

Lemma cbind_nta {A B} (m : cres A) (K : A -> cres B) :
  forallb nta (fst m) = true -> (forall a, forallb nta (fst (K a)) = true) -> forallb nta (fst (cbind m K)) = true.
Proof.
  intros Hm HK. destruct m as [c [a|l|]]; cbn [cbind fst] in *; try exact Hm.
  specialize (HK a). destruct (K a) as [c2 r]. cbn [fst] in *. now rewrite forallb_app, Hm, HK.
Qed.

Lemma read_rules_nta o : forall fuel prio s, forallb nta (fst (read_rules fuel o prio s)) = true.
Proof.
  induction fuel as [|fu IH]; intros prio s; cbn [read_rules]; [reflexivity|].
  destruct (m_pos sm_rt_max s) as [[rt s1]|l|]; try reflexivity.
  destruct (rt =? 0); [reflexivity|].
  destruct (read_rule o prio rt s1) as [[[cs prio'] s2]|l|] eqn:E; try reflexivity.
  specialize (IH prio' s2). destruct (read_rules fu o prio' s2) as [cs2 r]. cbn [fst] in *.
  now rewrite forallb_app, (read_rule_nta _ _ _ _ _ _ _ E), IH.
Qed.
Lemma read_symbols_nta : forall fuel s, forallb nta (fst (read_symbols fuel s)) = true.
Proof.
  induction fuel as [|fu IH]; intro s; cbn [read_symbols]; [reflexivity|].
  destruct (m_pos sm_sym_max s) as [[v s1]|l|]; try reflexivity.
  destruct (wrap32s v =? 0); [reflexivity|].
  destruct (read_name _ _) as [[name s3]|l|]; try reflexivity.
  specialize (IH s3). destruct (read_symbols fu s3) as [cs r]. cbn [fst forallb nta] in *. exact IH.
Qed.
Lemma read_comp_atoms_nta val : forall fuel s, forallb nta (fst (read_comp_atoms fuel val s)) = true.
Proof.
  induction fuel as [|fu IH]; intro s; cbn [read_comp_atoms]; [reflexivity|].
  destruct (m_pos sm_comp_max s) as [[v s1]|l|]; try reflexivity.
  destruct (wrap32s v =? 0); [reflexivity|].
  specialize (IH s1). destruct (read_comp_atoms fu val s1) as [cs r]. cbn [fst forallb nta] in *. exact IH.
Qed.
Lemma read_compute_nta key val s : forallb nta (fst (read_compute key val s)) = true.
Proof.
  unfold read_compute. destruct (a_match_tok key (a_skipws s)) as [[|] s1]; [|reflexivity].
  destruct (a_get s1) as [c s2]. destruct (c =? 10); [apply read_comp_atoms_nta | reflexivity].
Qed.
Lemma read_ext_atoms_nta : forall fuel s, forallb nta (fst (read_ext_atoms fuel s)) = true.
Proof.
  induction fuel as [|fu IH]; intro s; cbn [read_ext_atoms]; [reflexivity|].
  destruct (m_pos sm_ext_max s) as [[a s1]|l|]; try reflexivity.
  destruct (a =? 0); [reflexivity|].
  specialize (IH s1). destruct (read_ext_atoms fu s1) as [cs r]. cbn [fst forallb nta] in *. exact IH.
Qed.
Lemma read_extra_nta s : forallb nta (fst (read_extra s)) = true.
Proof.
  unfold read_extra. destruct (a_match_tok sm_kw_ext (a_skipws s)) as [m s1].
  apply cbind_nta; [destruct m; [apply read_ext_atoms_nta | reflexivity]|].
  intro s2. destruct (m_pos sm_models_max s2) as [[x s3]|l|]; reflexivity.
Qed.
Lemma do_parse_nta o s : forallb nta (fst (do_parse o s)) = true.
Proof.
  unfold do_parse. apply cbind_nta; [reflexivity|]. intro s0.
  apply cbind_nta; [apply read_rules_nta|]. intro s1.
  apply cbind_nta; [apply read_symbols_nta|]. intro s2.
  apply cbind_nta; [apply read_compute_nta|]. intro s3.
  apply cbind_nta; [apply read_compute_nta|]. intro s4.
  apply cbind_nta; [apply read_extra_nta|]. intro s5. reflexivity.
Qed.
Lemma parse_steps_nta o inc : forall fuel s, forallb nta (fst (parse_steps fuel o inc s)) = true.
Proof.
  induction fuel as [|fu IH]; intro s; cbn [parse_steps]; [reflexivity|].
  apply cbind_nta; [apply do_parse_nta|]. intro s1.
  destruct (negb (a_end (a_skipws s1)) && negb inc); [reflexivity|].
  destruct (negb (a_end (a_skipws s1))); [apply IH | reflexivity].
Qed.
(* C07's reader never delivers a theory atom *)
Theorem read_smodels_nta o t : forallb nta (fst (read_smodels o t)) = true.
Proof.
  unfold read_smodels. destruct (is_digit (a_peek (a_init t)) && _); [|reflexivity].
  apply cbind_nta; [reflexivity|]. intro s. apply parse_steps_nta.
Qed.


Lemma end_step_no_atoms s : V.C06.Model.tatoms s = [] ->
  exists s', V.C06.Model.end_step s = (V.C06.Model.Ok tt, s') /\ V.C06.Model.tatoms s' = [].
Proof.
  intro H. unfold V.C06.Model.end_step. rewrite H, skipn_nil. cbn [V.C06.Model.visit].
  destruct (V.C06.Model.step s <? 0); eexists; (split; [reflexivity|]); cbn [V.C06.Model.tatoms]; reflexivity.
Qed.

Lemma step_text_no_atoms s c : V.C06.Model.tatoms s = [] -> nta c = true -> wr_ok c ->
  (forall s', step_text s c <> SFault s') /\ (forall s', step_text s c = SOk s' -> V.C06.Model.tatoms s' = []).
Proof.
  intros Ht Hn Hw.
  assert (HF : forall s', step_text s c <> SFault s').
  { intros s' E. pose proof (step_text_fault s c s' Hw E) as ->. unfold step_text in E. cbn [V.C06.Model.do_call] in E.
    destruct (end_step_no_atoms s Ht) as [s1 [E1 _]]. destruct (V.C06.Model.end_step s) as [r s2]. injection E1 as -> ->. discriminate E. }
  split; [exact HF|]. intros s' E. unfold step_text in E.
  destruct c; try discriminate Hn; cbn [V.C06.Model.do_call V.C06.Model.lift V.C06.Model.bind] in E.
  all: try (injection E as <-; cbn; reflexivity). (* CInit: initProgram resets the theory store *)
  all: try (injection E as <-; cbn; exact Ht).
  all: try (injection E as <-; unfold V.C06.Model.begin_step; repeat match goal with |- context [if ?b then _ else _] => destruct b end; cbn; exact Ht).
  - (* CEnd *) destruct (end_step_no_atoms s Ht) as [s1 [E1 H1]]. destruct (V.C06.Model.end_step s) as [r s2]. injection E1 as -> ->. injection E as <-. exact H1.
  - (* CWRule *) destruct (V.C06.Model.wrule_dir ht head bound body); cbn in E; try discriminate. injection E as <-. cbn. exact Ht.
  - (* COutput *) destruct (V.C06.Model.name_target _ _ _); injection E as <-; cbn; exact Ht.
  - destruct (V.C06.Model.store _ _ _ _); cbn in E; try discriminate. injection E as <-. cbn. exact Ht.
  - destruct (V.C06.Model.store _ _ _ _); cbn in E; try discriminate. injection E as <-. cbn. exact Ht.
  - destruct (V.C06.Model.store _ _ _ _); cbn in E; try discriminate. injection E as <-. cbn. exact Ht.
  - destruct (V.C06.Model.add_condition _ _) as [cs cid]. destruct (V.C06.Model.store _ _ _ _); cbn in E; try discriminate.
    injection E as <-. cbn. exact Ht.
Qed.

Lemma feed_text_no_atoms : forall cs s s' ln, V.C06.Model.tatoms s = [] ->
  Forall (fun lc => nta (fst lc) = true /\ wr_ok (fst lc)) cs -> feed step_text s cs <> (s', Some (ln, true)).
Proof.
  induction cs as [|[c l] r IH]; intros s s' ln Ht Hall; cbn [feed]; [discriminate|].
  inversion Hall as [|x y [Hn Hw] Hr]; subst. cbn [fst] in *.
  destruct (step_text_no_atoms s c Ht Hn Hw) as [HF HK].
  destruct (step_text s c) as [s1|s1|s1] eqn:E; [apply IH; [apply HK; reflexivity | exact Hr] | discriminate | exfalso; exact (HF s1 eq_refl)].
Qed.

Theorem s2t_total f t : no_fault (pipe_s2t false f t).
Proof.
  unfold pipe_s2t. pose proof (smodels_no_fuel false f t) as H.
  unfold smodels_calls, read_smodels_opts in *. cbn [andb orb] in *.
  pose proof (V.C07.ProofsContract.delivered_calls (V.C07.Model.mkopts false false) t) as [_ Hc].
  pose proof (read_smodels_nta (V.C07.Model.mkopts false false) t) as Hn.
  destruct (V.C07.Model.read_smodels (V.C07.Model.mkopts false false) t) as [cs o]. cbn [fst snd] in *.
  unfold pipe. destruct (feed step_text V.C06.Model.init_st (at_line 0 cs)) as [s1 [[ln [|]]|]] eqn:E; cbn.
  - revert E. apply feed_text_no_atoms; [reflexivity|]. apply Forall_forall. intros [c l] Hin. cbn [fst].
    unfold at_line in Hin. apply in_map_iff in Hin. destruct Hin as [c' [Eq Hin]]. injection Eq as <- <-.
    rewrite forallb_forall in Hn. split; [apply Hn; exact Hin|]. specialize (Hc c' Hin). destruct c'; cbn; try exact I. exact Hc.
  - exact I.
  - destruct o; cbn in *; try exact I. apply H. reflexivity.
Qed.
