(* C04 - the lpconvert pipelines as compositions of the separately validated models (definitions only).

     reader  --calls-->  consumer  --bytes-->  output
       aspif   (V.C01.Read)                       SmodelsConvert + SmodelsOutput (V.C02.Model.cv_call o V.C05.Model.sm_step)
       smodels (V.C07.Model, with the special-    AspifOutput     (V.C01.Write.write_call)
                predicate pass of V.C08.Model)     AspifTextOutput (V.C06.Model.do_call)

   The real consumers work INCREMENTALLY while the reader runs: a reader error aborts in the middle (observable output =
   what was written before the error), and a consumer may throw (converter / writer refusing a directive), which
   readProgram's catch block reports as an error at the line where the reader stands at that moment; calls after the
   failing one are never delivered.  The pipeline is therefore "run the consumer over the delivered calls; if it fails
   at call k the outcome is Err (line at which call k was delivered) with the bytes written so far; otherwise the
   reader's own outcome with all the bytes".  For that the aspif reader is re-stated here with the line of every
   delivery (read_all_ln; C04/ProofsPipe.v: its calls and outcome are exactly V.C01.Read.read_all's).  The consumers
   fed by the smodels reader (AspifOutput, AspifTextOutput on rules / minimize / output / external / edge / heuristic
   calls) never refuse anything, so no line is needed there.                                                          *)
Require Import V.Lib.Base V.Lib.Calls V.C09.Spec V.Gen.Consts V.Gen.Consts_C07.
Require V.C01.Read V.C01.Write V.C02.Model V.C05.Model V.C06.Model V.C07.Model V.C08.Model.
Local Open Scope Z_scope.


(* ------------------------------------------------------------------------------------------------ *)
(* (1) the aspif reader with the line of every delivery                                              *)
(* ------------------------------------------------------------------------------------------------ *)
Notation lcall := (call * Z)%type (only parsing).
Definition at_line (ln : Z) (cs : list call) : list lcall := map (fun c => (c, ln)) cs.

(* a directive delivers its call as its last statement, after the last field was matched: the stream stands at s2 *)
Fixpoint dirs_ln (fuel : list Z) (s : ast) : list lcall * V.C01.Read.res unit :=
  match fuel with
  | [] => ([], V.C01.Read.RErr 0)
  | _ :: f =>
      match V.C01.Read.m_pos enum_Directive_t_max s with
      | V.C01.Read.RErr ln => ([], V.C01.Read.RErr ln)
      | V.C01.Read.ROk rt s1 =>
          if rt =? 0 then ([], V.C01.Read.ROk tt s1) else
          match V.C01.Read.directive rt s1 with
          | V.C01.Read.RErr ln => ([], V.C01.Read.RErr ln)
          | V.C01.Read.ROk oc s2 => let '(cs, r) := dirs_ln f s2 in (at_line (aline s2) (V.C01.Read.opt_cons oc []) ++ cs, r)
          end
      end
  end.

(* beginStep before anything is matched; endStep after the terminating 0 was matched *)
Definition read_step_ln (s : ast) : list lcall * V.C01.Read.res unit :=
  match dirs_ln (0 :: rest s) s with
  | (cs, V.C01.Read.ROk _ s') => ((CBegin, aline s) :: cs ++ [(CEnd, aline s')], V.C01.Read.ROk tt s')
  | (cs, V.C01.Read.RErr ln) => ((CBegin, aline s) :: cs, V.C01.Read.RErr ln)
  end.

Definition parse_round_ln (inc : bool) (s : ast) : list lcall * V.C01.Read.res unit :=
  match read_step_ln s with
  | (cs, V.C01.Read.RErr ln) => (cs, V.C01.Read.RErr ln)
  | (cs, V.C01.Read.ROk _ s1) =>
      let s2 := a_skipws s1 in
      let '(m, s3) := V.C01.Read.more s2 in
      if m && negb inc then (cs, V.C01.Read.RErr (aline s3)) else (cs, V.C01.Read.ROk tt s3)
  end.

Fixpoint parse_complete_ln (fuel : list Z) (inc : bool) (s : ast) : list lcall * V.C01.Read.outcome :=
  match fuel with
  | [] => ([], V.C01.Read.Err 0)
  | _ :: f =>
      match parse_round_ln inc s with
      | (cs, V.C01.Read.RErr ln) => (cs, V.C01.Read.Err ln)
      | (cs, V.C01.Read.ROk _ s1) =>
          let '(m, s2) := V.C01.Read.more s1 in
          if m then let '(cs', o) := parse_complete_ln f inc s2 in (cs ++ cs', o) else (cs, V.C01.Read.Ok)
      end
  end.

(* initProgram(inc) is called before the end of the problem line is extracted: on success that get() delivered one line
   break (the line counter is one ahead of the delivery), on failure it delivered none (the reported line is the line) *)
Definition read_all_ln (t : list Z) : list lcall * V.C01.Read.outcome :=
  match V.C01.Read.read_header (a_init t) with
  | (cs, V.C01.Read.RErr ln) => (at_line ln cs, V.C01.Read.Err ln)
  | (cs, V.C01.Read.ROk None s) => (at_line (aline s) cs, V.C01.Read.Err (aline s))
  | (cs, V.C01.Read.ROk (Some inc) s) =>
      let '(cs', o) := parse_complete_ln (0 :: rest s) inc s in (at_line (aline s - 1) cs ++ cs', o)
  end.

(* ------------------------------------------------------------------------------------------------ *)
(* (2) the smodels reader with every option: C07's reader, the symbol table handed to C08's pass      *)
(* ------------------------------------------------------------------------------------------------ *)
(* the loop of readSymbols as far as the stream goes: the (atom, name) lines read completely *)
Fixpoint read_sym_lines (fuel : nat) (s : ast) : list (Z * list Z) * V.C07.Model.out ast :=
  match fuel with
  | O => ([], V.C07.Model.Fuel)
  | S fu =>
      match V.C07.Model.m_pos sm_sym_max s with
      | V.C07.Model.Ok (v, s1) =>
          let atom := V.C07.Model.wrap32s v in
          if atom =? 0 then ([], V.C07.Model.Ok s1) else
          let s2 := snd (V.C07.Model.m_get s1) in
          match V.C07.Model.read_name (V.C07.Model.fuel_of s2) s2 with
          | V.C07.Model.Ok (name, s3) => let '(ls, r) := read_sym_lines fu s3 in ((atom, name) :: ls, r)
          | V.C07.Model.Err l => ([], V.C07.Model.Err l)
          | V.C07.Model.Fuel => ([], V.C07.Model.Fuel)
          end
      | V.C07.Model.Err l => ([], V.C07.Model.Err l)
      | V.C07.Model.Fuel => ([], V.C07.Model.Fuel)
      end
  end.

(* readSymbols with Options{cEdge, cHeuristic, filter}: every complete line is classified and delivered at once (edge, output);
   the deferred heuristics follow only when the table was read to its end *)
Definition read_symbols_x (ro : V.C08.Model.ropts) (st : V.C08.Model.rstate) (s : ast) : V.C08.Model.rstate * V.C07.Model.cres ast :=
  match read_sym_lines (V.C07.Model.fuel_of s) s with
  | (syms, V.C07.Model.Ok s1) => let '(st1, cs) := V.C08.Model.read_step ro st syms in (st1, (cs, V.C07.Model.Ok s1))
  | (syms, V.C07.Model.Err l) => let '(st1, _, cs) := V.C08.Model.read_syms ro st [] syms in (st1, (cs, V.C07.Model.Err l))
  | (syms, V.C07.Model.Fuel) => let '(st1, _, cs) := V.C08.Model.read_syms ro st [] syms in (st1, (cs, V.C07.Model.Fuel))
  end.

(* bool doParse() *)
Definition do_parse_x (o : V.C07.Model.opts) (ro : V.C08.Model.ropts) (st : V.C08.Model.rstate) (s : ast) : V.C08.Model.rstate * V.C07.Model.cres ast :=
  match V.C07.Model.read_rules (V.C07.Model.fuel_of s) o 0 s with
  | (c1, V.C07.Model.Ok s1) =>
      let '(st1, r2) := read_symbols_x ro st s1 in
      (st1, V.C07.Model.cbind (CBegin :: c1, V.C07.Model.Ok tt) (fun _ =>
            V.C07.Model.cbind r2 (fun s2 =>
            V.C07.Model.cbind (V.C07.Model.read_compute sm_kw_bplus true s2) (fun s3 =>
            V.C07.Model.cbind (V.C07.Model.read_compute sm_kw_bminus false s3) (fun s4 =>
            V.C07.Model.cbind (V.C07.Model.read_extra s4) (fun s5 => ([CEnd], V.C07.Model.Ok s5)))))))
  | (c1, V.C07.Model.Err l) => (st, (CBegin :: c1, V.C07.Model.Err l))
  | (c1, V.C07.Model.Fuel) => (st, (CBegin :: c1, V.C07.Model.Fuel))
  end.

(* bool ProgramReader::parse(Complete); the node / symbol tables live on between the steps of an incremental program
   (a non-incremental one has no second step) *)
Fixpoint parse_steps_x (fuel : nat) (o : V.C07.Model.opts) (ro : V.C08.Model.ropts) (inc : bool) (st : V.C08.Model.rstate) (s : ast) : V.C07.Model.cres unit :=
  match fuel with
  | O => ([], V.C07.Model.Fuel)
  | S fu =>
      let '(st1, r) := do_parse_x o ro st s in
      V.C07.Model.cbind r (fun s1 =>
      let s2 := a_skipws s1 in
      let more := negb (a_end s2) in
      if more && negb inc then ([], V.C07.Model.Err (aline s2))
      else if more then parse_steps_x fu o ro inc st1 s2 else ([], V.C07.Model.Ok tt))
  end.

Definition read_smodels_x (o : V.C07.Model.opts) (ro : V.C08.Model.ropts) (input : list Z) : V.C07.Model.cres unit :=
  let s := a_init input in
  let n := a_peek s in
  let inc := n =? 57 in
  if is_digit n && (negb inc || V.C07.Model.claspExt o) then
    V.C07.Model.cbind ([CInit inc], V.C07.Model.Ok s) (fun s => parse_steps_x (V.C07.Model.fuel_of s) o ro inc V.C08.Model.r0 s)
  else ([], V.C07.Model.Err (aline s)).

(* readSmodels with Options{claspExt, cEdge, cHeuristic, filter}: C07's model itself where it applies *)
Definition read_smodels_opts (ce cedge cheu flt : bool) (t : list Z) : V.C07.Model.cres unit :=
  if cedge || cheu then read_smodels_x (V.C07.Model.mkopts ce flt) (V.C08.Model.mkO cedge cheu flt) t
  else V.C07.Model.read_smodels (V.C07.Model.mkopts ce flt) t.

(* ------------------------------------------------------------------------------------------------ *)
(* (3) consumers as state machines, and the pipeline                                                 *)
(* ------------------------------------------------------------------------------------------------ *)
Inductive cstep (S : Type) := SOk (s : S) | SErr (s : S) | SFault (s : S).
Arguments SOk {S} s. Arguments SErr {S} s. Arguments SFault {S} s.

(* result of a pipeline: accepted / error reported at a line / the consumer MODEL gave up (see step_text) / a reader loop ran out
   of fuel (never: C04/ProofsPipe.v) - each with the bytes on the output stream *)
Inductive pres := POk (out : list Z) | PErr (ln : Z) (out : list Z) | PFault (ln : Z) (out : list Z) | PFuel.

Inductive rout := ROk | RErr (ln : Z) | RFuel.

Section Feed.
  Context {S : Type}.
  Variable step : S -> call -> cstep S.
  Variable outp : S -> list Z.
  (* the consumer over the delivered calls: the state reached and, if a call was refused, its line / whether the model faulted *)
  Fixpoint feed (s : S) (cs : list lcall) : S * option (Z * bool) :=
    match cs with
    | [] => (s, None)
    | (c, ln) :: r =>
        match step s c with
        | SOk s1 => feed s1 r
        | SErr s1 => (s1, Some (ln, false))
        | SFault s1 => (s1, Some (ln, true))
        end
    end.
  Definition pipe (s0 : S) (cs : list lcall) (o : rout) : pres :=
    match feed s0 cs with
    | (s, Some (ln, false)) => PErr ln (outp s)
    | (s, Some (ln, true)) => PFault ln (outp s)
    | (s, None) => match o with ROk => POk (outp s) | RErr ln => PErr ln (outp s) | RFuel => PFuel end
    end.
End Feed.

(* --- SmodelsConvert(SmodelsOutput(os, ext, 0), ext) --- *)
Record conv := mkConv { c_cv : V.C02.Model.cv; c_w : V.C05.Model.wstate; c_out : list Z }.
Definition conv0 (ext : bool) : conv := mkConv V.C02.Model.cv0 (V.C05.Model.w_init ext 0) [].
(* the calls the converter makes on the writer, in order; the writer checks before it writes, so a refused call writes nothing *)
Fixpoint sm_feed (w : V.C05.Model.wstate) (acc : list Z) (cs : list call) : V.C05.Model.wstate * list Z * bool :=
  match cs with
  | [] => (w, acc, true)
  | c :: r => match V.C05.Model.sm_step w c with
              | V.C05.Model.WOk w1 t => sm_feed w1 (acc ++ t) r
              | V.C05.Model.WErr => (w, acc, false)
              end
  end.
Definition step_conv (ext : bool) (s : conv) (c : call) : cstep conv :=
  match V.C02.Model.cv_call ext (c_cv s) c with
  | V.C02.Model.Err _ => SErr s
  | V.C02.Model.Ok (cv1, cs) =>
      let '(w1, o1, ok) := sm_feed (c_w s) (c_out s) cs in
      if ok then SOk (mkConv cv1 w1 o1) else SErr (mkConv cv1 w1 o1)
  end.

(* --- AspifTextOutput: the state carries the text.  Fault is the C06 model giving up: its term printer's fuel is exhausted
       exactly on a cyclic theory term (C06: c06_fuel_sufficient), which the repaired writer reports as an error ("cyclic theory
       term"); its two range faults (count bound, tuple code) are not reachable from reader-delivered calls. --- *)
Definition step_text (s : V.C06.Model.wst) (c : call) : cstep V.C06.Model.wst :=
  match V.C06.Model.do_call s c with
  | (V.C06.Model.Ok _, s') => SOk s'
  | (V.C06.Model.Err, s') => SErr s'
  | (V.C06.Model.Fault, s') => SFault s'
  end.

(* --- AspifOutput: no state, never refuses --- *)
Definition step_aspif (s : list Z) (c : call) : cstep (list Z) := SOk (s ++ V.C01.Write.write_call c).

Definition rout_aspif (o : V.C01.Read.outcome) : rout := match o with V.C01.Read.Ok => ROk | V.C01.Read.Err ln => RErr ln end.
Definition rout_smodels (o : V.C07.Model.out unit) : rout := match o with V.C07.Model.Ok _ => ROk | V.C07.Model.Err ln => RErr ln | V.C07.Model.Fuel => RFuel end.

(* lpconvert on aspif input *)
Definition pipe_a2s (potassco : bool) (t : list Z) : pres :=
  let '(cs, o) := read_all_ln t in pipe (step_conv potassco) c_out (conv0 potassco) cs (rout_aspif o).
Definition pipe_a2t (t : list Z) : pres :=
  let '(cs, o) := read_all_ln t in pipe step_text V.C06.Model.out V.C06.Model.init_st cs (rout_aspif o).
(* lpconvert on smodels input: -p = claspExt + convertEdges + convertHeuristic, -f = dropConverted (only with -p) *)
Definition smodels_calls (potassco flt : bool) (t : list Z) : V.C07.Model.cres unit :=
  read_smodels_opts potassco potassco potassco (potassco && flt) t.
Definition pipe_s2a (potassco flt : bool) (t : list Z) : pres :=
  let '(cs, o) := smodels_calls potassco flt t in pipe step_aspif (fun s => s) [] (at_line 0 cs) (rout_smodels o).
Definition pipe_s2t (potassco flt : bool) (t : list Z) : pres :=
  let '(cs, o) := smodels_calls potassco flt t in pipe step_text V.C06.Model.out V.C06.Model.init_st (at_line 0 cs) (rout_smodels o).

(* app/lpconvert.cpp: the format is chosen by the first byte ('a' = aspif, a digit = smodels, anything else is refused before a reader runs);
   o: bit 1 = -p, 2 = -f, 4 = -t.  None = "Unrecognized input format!" *)
Definition bit (o k : Z) : bool := negb ((o / k) mod 2 =? 0).
Definition lpconvert (o : Z) (t : list Z) : option pres :=
  match t with
  | c :: _ =>
      if c =? 97 then Some (if bit o 4 then pipe_a2t t else pipe_a2s (bit o 1) t)
      else if is_digit c then Some (if bit o 4 then pipe_s2t (bit o 1) (bit o 2) t else pipe_s2a (bit o 1) (bit o 2) t)
      else None
  | [] => None
  end.

(* observation: status, error reports, line, 0 (leak flag), output length, output bytes.  A fault of the text model is the
   writer's "cyclic theory term" error (see step_text) *)
Definition enc_pres (r : pres) : list Z :=
  match r with
  | POk o => 0 :: 0 :: 0 :: 0 :: Z.of_nat (length o) :: o
  | PErr ln o => 1 :: 1 :: ln :: 0 :: Z.of_nat (length o) :: o
  | PFault ln o => 1 :: 1 :: ln :: 0 :: Z.of_nat (length o) :: o
  | PFuel => [-1]
  end.
Definition enc_lpconvert (r : option pres) : list Z :=
  match r with Some p => enc_pres p | None => [1; 0; 0; 0; 0] end.
