(* C19 - help and default-command-line output list exactly the visible options, safely.
   Model: coq/C19/Model.v (format strings and all constants from Gen/Consts_C19.v, i.e. from the sources).
   Vocabulary (coq/C19/Spec.v): header o = the decorated name "  --[no-]name[=arg|no][,-a](=| )arg[|no]" written with literal
   bytes; subst = placeholder replacement; entry / help_text = what the property demands of the description;
   visible_opts = options with level(o) <= L in groups with level(g) <= L, sub groups first, then the main group;
   cmd_safe = a default that survives the command-string syntax.                                                    *)
Require Import V.Lib.Base V.Gen.Consts_C19 V.C19.Model V.C19.Spec V.C19.Proofs V.C19.Proofs2 V.C19.Proofs3.
Require Import Permutation.
Local Open Scope Z_scope.

(* no sprintf of DefaultFormat::format(buf, option, maxW) writes outside the vector of the size the code computes,
   and the final assert(n <= bufSize) holds - for ALL names, argument names (incl. empty), aliases, flag combinations, maxW *)
Theorem c19_no_overflow : forall (o : vopt) (maxW : Z), snd (format_opt (buf_size o maxW) o maxW) = false.
Proof. exact format_opt_no_fault. Qed.
Print Assumptions c19_no_overflow.

(* what was written: the decorated name, padded with blanks to maxW; its length is maxColumn (+1 for an empty
   argument name of a non-implicit option) - for any buffer size *)
Theorem c19_header : forall (bs : Z) (o : vopt) (maxW : Z),
  fst (format_opt bs o maxW) = pad_to maxW (header o) /\
  len (header o) = max_column o + (if negb (v_implicit o) && is_nil (v_arg o) then 1 else 0).
Proof. intros. split; [apply format_opt_text | apply len_header]. Qed.
Print Assumptions c19_header.

(* %D %A %I %% are replaced, any other %x becomes x, a trailing % is dropped *)
Theorem c19_placeholders : forall o : vopt, format_desc o = [58; 32] ++ subst (v_desc o) o ++ [10].
Proof. exact format_desc_spec. Qed.
Print Assumptions c19_placeholders.

(* the description is exactly: for every visible group in output order its caption followed by one entry per visible
   option of the group, in order - every option with level(o) <= L and level(group) <= L exactly once, none above L;
   and no formatter call faults *)
Theorem c19_visible : forall (dl : Z) (ctx : list group),
  description dl ctx =
  (flat_map (fun g => caption g ++ flat_map (entry (ctx_max_w dl ctx)) (filter (opt_visible dl) (g_opts g)))
            (filter (group_visible dl) (out_order ctx)), false).
Proof. exact description_spec. Qed.
Print Assumptions c19_visible.

(* defaults(n) is the concatenation of "--name=default " for exactly the visible options that have a default, in
   output order, each optionally preceded by a line break (newline + n blanks) *)
Theorem c19_defaults_mention : forall (dl n : Z) (ctx : list group),
  exists bods : list (str * (vopt * str)),
    defaults dl n ctx = flat_map (fun x => fst x ++ mention (snd x) ++ [32]) bods /\
    map snd bods = with_default (visible_opts dl ctx) /\
    Forall (fun x => is_break n (fst x)) bods.
Proof. exact defaults_spec. Qed.
Print Assumptions c19_defaults_mention.

(* parsing the default command line against the same context (a context whose index keys are unique, as
   OptionContext::add guarantees) yields each visible option with a default, by position, with its default value,
   in order - PROVIDED every such default is command-line safe *)
Theorem c19_defaults_parse : forall (dl n : Z) (ctx : list group),
  NoDup (map fst (keys_from 0 (all_opts ctx))) ->
  forallb cmd_safe (with_default (visible_opts dl ctx)) = true ->
  exists l : list (nat * (vopt * str)),
    map snd l = with_default (visible_opts dl ctx) /\
    Forall (fun x => nth_error (all_opts ctx) (fst x) = Some (fst (snd x))) l /\
    parse_cmd ctx (defaults dl n ctx) = POk (map (fun x => (fst x, snd (snd x))) l).
Proof. exact defaults_parse. Qed.
Print Assumptions c19_defaults_parse.

(* without that proviso the property's claim is false for the code as it is (known findings defaults-blank / -empty /
   -quote): a default with a blank makes the command line unparsable, an empty default of an option that requires an
   argument swallows the next option, quotes are stripped *)
Definition o_str (name dflt : str) : vopt := mkO name 0 ARG_DEFAULT false IMPLICIT_DEFAULT false (Some dflt) 0 [].
Definition ctx_blank : list group := [mkG [] 0 [o_str [111] [97; 32; 98]; o_str [110] [51]]].       (* o="a b" n="3" *)
Definition ctx_empty : list group := [mkG [] 0 [o_str [110] []; o_str [109] [49]]].                  (* n=""  m="1" *)
Definition ctx_quote : list group := [mkG [] 0 [o_str [111] [39; 97; 39]]].                          (* o="'a'" *)
Theorem c19_defaults_parse_refuted :
  parse_cmd ctx_blank (defaults 0 0 ctx_blank) = PErr 1 /\
  parse_cmd ctx_empty (defaults 0 0 ctx_empty) = POk [(0%nat, [45; 45; 109; 61; 49])] /\
  parse_cmd ctx_quote (defaults 0 0 ctx_quote) = POk [(0%nat, [97])].
Proof. vm_compute. repeat split; reflexivity. Qed.
Print Assumptions c19_defaults_parse_refuted.

(* ---------------- contexts put together by OptionContext::add ----------------
   build_ctx ps = the groups_ vector after handing the OptionGroups ps to OptionContext::add one after the other (add_group mirrors add:
   first group with the same caption, options appended, level = std::min of the two levels; otherwise a new group at the back);
   registered ps = the options_ vector.  cap_opts cap ps = the options of all groups of ps with caption cap, in the order of the adds.  *)

(* what add leaves behind: one group per caption in the order in which the captions were seen first (so the main group is the caption
   of the first add), holding all options given for the caption, under the MINIMUM of the levels given for the caption *)
Theorem c19_merge : forall ps : list group,
  let ctx := build_ctx ps in
  map g_caption ctx = first_occ (map g_caption ps) /\ NoDup (map g_caption ctx) /\
  hd_error (map g_caption ctx) = hd_error (map g_caption ps) /\
  (forall cap, In cap (map g_caption ctx) <-> In cap (map g_caption ps)) /\
  forall G, In G ctx ->
    g_opts G = cap_opts (g_caption G) ps /\
    (forall L, g_level G <= L <-> exists p, In p ps /\ g_caption p = g_caption G /\ g_level p <= L).
Proof. exact merge_full. Qed.
Print Assumptions c19_merge.

(* after adding groups in any order: an option is among the visible options at active level L (those c19_visible puts into the help text
   and c19_defaults_mention into the default command line) iff its own level <= L and SOME group of its caption was given a level <= L *)
Theorem c19_merge_visible : forall (ps : list group) (dl : Z) (o : vopt),
  In o (visible_opts dl (build_ctx ps)) <->
  exists p, In p ps /\ In o (g_opts p) /\ v_level o <= dl /\ exists q, In q ps /\ g_caption q = g_caption p /\ g_level q <= dl.
Proof. exact merged_visible. Qed.
Print Assumptions c19_merge_visible.

(* ... whatever the order of the adds *)
Theorem c19_merge_any_order : forall (ps ps' : list group) (dl : Z) (o : vopt), Permutation ps ps' ->
  (In o (visible_opts dl (build_ctx ps)) <-> In o (visible_opts dl (build_ctx ps'))).
Proof. exact merged_any_order. Qed.
Print Assumptions c19_merge_any_order.

(* exactly once and in which order: the visible options are, for every caption in the order of its first add (the first caption last)
   that some add showed at the level, the caption's options in the order of the adds, filtered by their own level;
   and the help text is the caption lines and entries of precisely these *)
Theorem c19_merge_listed : forall (ps : list group) (dl : Z),
  visible_opts dl (build_ctx ps) =
    flat_map (fun cap => filter (opt_visible dl) (cap_opts cap ps)) (filter (fun cap => cap_shown dl cap ps) (rot (first_occ (map g_caption ps)))) /\
  description dl (build_ctx ps) =
    (flat_map (fun cap => cap_frame cap ++ flat_map (entry (ctx_max_w dl (build_ctx ps))) (filter (opt_visible dl) (cap_opts cap ps)))
              (filter (fun cap => cap_shown dl cap ps) (rot (first_occ (map g_caption ps)))), false).
Proof. intros ps dl. split; [apply merged_visible_list | apply merged_description]. Qed.
Print Assumptions c19_merge_listed.

(* the default command line of such a context read back against its options_ vector (registration order) *)
Theorem c19_merge_defaults_parse : forall (dl n : Z) (ps : list group),
  NoDup (map fst (keys_from 0 (registered ps))) ->
  forallb cmd_safe (with_default (visible_opts dl (build_ctx ps))) = true ->
  exists l : list (nat * (vopt * str)),
    map snd l = with_default (visible_opts dl (build_ctx ps)) /\
    Forall (fun x => nth_error (registered ps) (fst x) = Some (fst (snd x))) l /\
    parse_cmd_os (registered ps) (defaults dl n (build_ctx ps)) = POk (map (fun x => (fst x, snd (snd x))) l).
Proof. exact merged_defaults_parse. Qed.
Print Assumptions c19_merge_defaults_parse.

(* ---------------- non-vacuity ---------------- *)
(* alias + negatable + implicit + argument; long negatable flag; empty argument name on a non-implicit option *)
Definition ex_a : vopt := mkO [97] 97 [60; 110; 62] true [50] true (Some [49]) 0 [65; 32; 37; 65; 32; 37; 68; 32; 37; 73; 32; 37; 37; 32; 37; 120; 32; 37].
Definition ex_b : vopt := mkO (repeat 98 40) 0 [] true [49] true None 1 [37; 68; 37].
Definition ex_e : vopt := mkO [101] 0 [] false [49] false (Some [120; 61; 49]) 0 [101].
Definition ex_h : vopt := mkO [104] 0 ARG_DEFAULT false [49] false (Some [49]) 5 [104].
Definition ex_ctx : list group := [mkG [] 0 [ex_a; ex_h]; mkG [71] 1 [ex_b; ex_e]].

Example c19_ex_header : fst (format_opt (buf_size ex_a 10) ex_a 10) = [32; 32; 45; 45; 97; 91; 61; 60; 110; 62; 124; 110; 111; 93; 44; 45; 97].
Proof. vm_compute. reflexivity. Qed.
(* the explicit buffer size matters: the code's size minus its slack of 3 is too small for the empty-argument case,
   and one byte less than header + NUL faults *)
Example c19_ex_fault_when_too_small :
  snd (format_opt (buf_size ex_e 0 - BUF_SLACK) ex_e 0) = true /\ snd (format_opt (len (header ex_a)) ex_a 0) = true /\
  snd (format_opt (len (header ex_a) + 1) ex_a 0) = false.
Proof. vm_compute. repeat split; reflexivity. Qed.
Example c19_ex_placeholders : subst (v_desc ex_a) ex_a = [65; 32; 60; 110; 62; 32; 49; 32; 50; 32; 37; 32; 120; 32].
Proof. vm_compute. reflexivity. Qed.
Example c19_ex_visible : map v_name (visible_opts 0 ex_ctx) = [[97]] /\ map v_name (visible_opts 4 ex_ctx) = [repeat 98 40; [101]; [97]].
Proof. vm_compute. split; reflexivity. Qed.
Example c19_ex_keys_nodup : NoDup (map fst (keys_from 0 (all_opts ex_ctx))).
Proof. vm_compute. repeat constructor; simpl; intuition discriminate. Qed.
Example c19_ex_safe : forallb cmd_safe (with_default (visible_opts 4 ex_ctx)) = true.
Proof. vm_compute. reflexivity. Qed.
Example c19_ex_parse : parse_cmd ex_ctx (defaults 4 0 ex_ctx) = POk [(3%nat, [120; 61; 49]); (0%nat, [49])].
Proof. vm_compute. reflexivity. Qed.

(* adds with equal captions: "Search"@2 {s1}, ""@0 {m1}, "Search"@0 {s2; s3@1}, ""@3 {m2}, "Other"@1 {x}  (and the reverse order):
   Search and the caption-less main group are shown from level 0 on, with ALL their options of level <= L; Other from level 1 on *)
Definition ex_o (name : str) (level : Z) : vopt := mkO name 0 ARG_DEFAULT false IMPLICIT_DEFAULT false (Some [49]) level [].
Definition ex_ps : list group :=
  [mkG [83] 2 [ex_o [115; 49] 0]; mkG [] 0 [ex_o [109; 49] 0]; mkG [83] 0 [ex_o [115; 50] 0; ex_o [115; 51] 1];
   mkG [] 3 [ex_o [109; 50] 0]; mkG [79] 1 [ex_o [120] 0]].
Example c19_ex_merge :
  map (fun g => (g_caption g, g_level g, map v_name (g_opts g))) (build_ctx ex_ps) =
    [([83], 0, [[115; 49]; [115; 50]; [115; 51]]); ([], 0, [[109; 49]; [109; 50]]); ([79], 1, [[120]])] /\
  map (fun g => (g_caption g, g_level g, map v_name (g_opts g))) (build_ctx (rev ex_ps)) =
    [([79], 1, [[120]]); ([], 0, [[109; 50]; [109; 49]]); ([83], 0, [[115; 50]; [115; 51]; [115; 49]])] /\
  map v_name (visible_opts 0 (build_ctx ex_ps)) = [[109; 49]; [109; 50]; [115; 49]; [115; 50]] /\
  map v_name (visible_opts 1 (build_ctx ex_ps)) = [[109; 49]; [109; 50]; [120]; [115; 49]; [115; 50]; [115; 51]] /\
  map v_name (registered ex_ps) = [[115; 49]; [109; 49]; [115; 50]; [115; 51]; [109; 50]; [120]].
Proof. vm_compute. repeat split; reflexivity. Qed.
Example c19_ex_merge_keys_nodup : NoDup (map fst (keys_from 0 (registered ex_ps))).
Proof. vm_compute. repeat constructor; simpl; intuition discriminate. Qed.
Example c19_ex_merge_safe : forallb cmd_safe (with_default (visible_opts 0 (build_ctx ex_ps))) = true.
Proof. vm_compute. reflexivity. Qed.
Example c19_ex_merge_parse :
  parse_cmd_os (registered ex_ps) (defaults 0 0 (build_ctx ex_ps)) = POk [(1%nat, [49]); (4%nat, [49]); (0%nat, [49]); (2%nat, [49])].
Proof. vm_compute. reflexivity. Qed.
