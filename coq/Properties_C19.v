(* C19 - help and default-command-line output list exactly the visible options, safely.
   Model: coq/C19/Model.v (format strings and all constants from Gen/Consts_C19.v, i.e. from the sources).
   Vocabulary (coq/C19/Spec.v): header o = the decorated name "  --[no-]name[=arg|no][,-a](=| )arg[|no]" written with literal
   bytes; subst = placeholder replacement; entry / help_text = what the property demands of the description;
   visible_opts = options with level(o) <= L in groups with level(g) <= L, sub groups first, then the main group;
   cmd_safe = a default that survives the command-string syntax.                                                    *)
Require Import V.Lib.Base V.Gen.Consts_C19 V.C19.Key V.C19.KeySpec V.C19.Model V.C19.Spec V.C19.Proofs V.C19.Proofs2 V.C19.Proofs3 V.C19.ProofsKey.
Require Import Permutation.
Local Open Scope Z_scope.

(* no sprintf of DefaultFormat::format(buf, option, maxW) writes outside the vector of the size the code computes,
   and the final assert(n <= bufSize) holds - for ALL names, argument names (incl. empty), aliases, flag combinations, maxW *)
Theorem c19_no_overflow : forall (o : vopt) (maxW : Z), snd (format_opt (buf_size o maxW) o maxW) = false.
Proof. exact format_opt_no_fault. Qed.
Print Assumptions c19_no_overflow.

(* what was written: the decorated name, padded with blanks to maxW; its length is maxColumn (+1 for an empty
   argument name of a non-implicit option) - for any buffer size *)
Theorem c19_header : forall (bs : Z) (o : vopt) (maxW : Z),
  fst (format_opt bs o maxW) = pad_to maxW (header o) /\
  len (header o) = max_column o + (if negb (v_implicit o) && is_nil (v_arg o) then 1 else 0).
Proof. intros. split; [apply format_opt_text | apply len_header]. Qed.
Print Assumptions c19_header.

(* %D %A %I %% are replaced, any other %x becomes x, a trailing % is dropped *)
Theorem c19_placeholders : forall o : vopt, format_desc o = [58; 32] ++ subst (v_desc o) o ++ [10].
Proof. exact format_desc_spec. Qed.
Print Assumptions c19_placeholders.

(* the description is exactly: for every visible group in output order its caption followed by one entry per visible
   option of the group, in order - every option with level(o) <= L and level(group) <= L exactly once, none above L;
   and no formatter call faults *)
Theorem c19_visible : forall (dl : Z) (ctx : list group),
  description dl ctx =
  (flat_map (fun g => caption g ++ flat_map (entry (ctx_max_w dl ctx)) (filter (opt_visible dl) (g_opts g)))
            (filter (group_visible dl) (out_order ctx)), false).
Proof. exact description_spec. Qed.
Print Assumptions c19_visible.

(* defaults(n) is the concatenation of "--name=default " for exactly the visible options that have a default, in
   output order, each optionally preceded by a line break (newline + n blanks) *)
Theorem c19_defaults_mention : forall (dl n : Z) (ctx : list group),
  exists bods : list (str * (vopt * str)),
    defaults dl n ctx = flat_map (fun x => fst x ++ mention (snd x) ++ [32]) bods /\
    map snd bods = with_default (visible_opts dl ctx) /\
    Forall (fun x => is_break n (fst x)) bods.
Proof. exact defaults_spec. Qed.
Print Assumptions c19_defaults_mention.

(* parsing the default command line against the same context (a context whose index keys are unique, as
   OptionContext::add guarantees) yields each visible option with a default, by position, with its default value,
   in order - PROVIDED every such default is command-line safe *)
Theorem c19_defaults_parse : forall (dl n : Z) (ctx : list group),
  NoDup (map fst (keys_from 0 (all_opts ctx))) ->
  forallb cmd_safe (with_default (visible_opts dl ctx)) = true ->
  exists l : list (nat * (vopt * str)),
    map snd l = with_default (visible_opts dl ctx) /\
    Forall (fun x => nth_error (all_opts ctx) (fst x) = Some (fst (snd x))) l /\
    parse_cmd ctx (defaults dl n ctx) = POk (map (fun x => (fst x, snd (snd x))) l).
Proof. exact defaults_parse. Qed.
Print Assumptions c19_defaults_parse.

(* without that proviso the property's claim is false for the code as it is (known findings defaults-blank / -empty /
   -quote): a default with a blank makes the command line unparsable, an empty default of an option that requires an
   argument swallows the next option, quotes are stripped *)
Definition o_str (name dflt : str) : vopt := mkO name 0 ARG_DEFAULT false IMPLICIT_DEFAULT false (Some dflt) 0 [].
Definition ctx_blank : list group := [mkG [] 0 [o_str [111] [97; 32; 98]; o_str [110] [51]]].       (* o="a b" n="3" *)
Definition ctx_empty : list group := [mkG [] 0 [o_str [110] []; o_str [109] [49]]].                  (* n=""  m="1" *)
Definition ctx_quote : list group := [mkG [] 0 [o_str [111] [39; 97; 39]]].                          (* o="'a'" *)
Theorem c19_defaults_parse_refuted :
  parse_cmd ctx_blank (defaults 0 0 ctx_blank) = PErr 1 /\
  parse_cmd ctx_empty (defaults 0 0 ctx_empty) = POk [(0%nat, [45; 45; 109; 61; 49])] /\
  parse_cmd ctx_quote (defaults 0 0 ctx_quote) = POk [(0%nat, [97])].
Proof. vm_compute. repeat split; reflexivity. Qed.
Print Assumptions c19_defaults_parse_refuted.

(* ---------------- contexts put together by OptionContext::add ----------------
   build_ctx ps = the groups_ vector after handing the OptionGroups ps to OptionContext::add one after the other (add_group mirrors add:
   first group with the same caption, options appended, level = std::min of the two levels; otherwise a new group at the back);
   registered ps = the options_ vector.  cap_opts cap ps = the options of all groups of ps with caption cap, in the order of the adds.  *)

(* what add leaves behind: one group per caption in the order in which the captions were seen first (so the main group is the caption
   of the first add), holding all options given for the caption, under the MINIMUM of the levels given for the caption *)
Theorem c19_merge : forall ps : list group,
  let ctx := build_ctx ps in
  map g_caption ctx = first_occ (map g_caption ps) /\ NoDup (map g_caption ctx) /\
  hd_error (map g_caption ctx) = hd_error (map g_caption ps) /\
  (forall cap, In cap (map g_caption ctx) <-> In cap (map g_caption ps)) /\
  forall G, In G ctx ->
    g_opts G = cap_opts (g_caption G) ps /\
    (forall L, g_level G <= L <-> exists p, In p ps /\ g_caption p = g_caption G /\ g_level p <= L).
Proof. exact merge_full. Qed.
Print Assumptions c19_merge.

(* after adding groups in any order: an option is among the visible options at active level L (those c19_visible puts into the help text
   and c19_defaults_mention into the default command line) iff its own level <= L and SOME group of its caption was given a level <= L *)
Theorem c19_merge_visible : forall (ps : list group) (dl : Z) (o : vopt),
  In o (visible_opts dl (build_ctx ps)) <->
  exists p, In p ps /\ In o (g_opts p) /\ v_level o <= dl /\ exists q, In q ps /\ g_caption q = g_caption p /\ g_level q <= dl.
Proof. exact merged_visible. Qed.
Print Assumptions c19_merge_visible.

(* ... whatever the order of the adds *)
Theorem c19_merge_any_order : forall (ps ps' : list group) (dl : Z) (o : vopt), Permutation ps ps' ->
  (In o (visible_opts dl (build_ctx ps)) <-> In o (visible_opts dl (build_ctx ps'))).
Proof. exact merged_any_order. Qed.
Print Assumptions c19_merge_any_order.

(* exactly once and in which order: the visible options are, for every caption in the order of its first add (the first caption last)
   that some add showed at the level, the caption's options in the order of the adds, filtered by their own level;
   and the help text is the caption lines and entries of precisely these *)
Theorem c19_merge_listed : forall (ps : list group) (dl : Z),
  visible_opts dl (build_ctx ps) =
    flat_map (fun cap => filter (opt_visible dl) (cap_opts cap ps)) (filter (fun cap => cap_shown dl cap ps) (rot (first_occ (map g_caption ps)))) /\
  description dl (build_ctx ps) =
    (flat_map (fun cap => cap_frame cap ++ flat_map (entry (ctx_max_w dl (build_ctx ps))) (filter (opt_visible dl) (cap_opts cap ps)))
              (filter (fun cap => cap_shown dl cap ps) (rot (first_occ (map g_caption ps)))), false).
Proof. intros ps dl. split; [apply merged_visible_list | apply merged_description]. Qed.
Print Assumptions c19_merge_listed.

(* the default command line of such a context read back against its options_ vector (registration order) *)
Theorem c19_merge_defaults_parse : forall (dl n : Z) (ps : list group),
  NoDup (map fst (keys_from 0 (registered ps))) ->
  forallb cmd_safe (with_default (visible_opts dl (build_ctx ps))) = true ->
  exists l : list (nat * (vopt * str)),
    map snd l = with_default (visible_opts dl (build_ctx ps)) /\
    Forall (fun x => nth_error (registered ps) (fst x) = Some (fst (snd x))) l /\
    parse_cmd_os (registered ps) (defaults dl n (build_ctx ps)) = POk (map (fun x => (fst x, snd (snd x))) l).
Proof. exact merged_defaults_parse. Qed.
Print Assumptions c19_merge_defaults_parse.

(* ---------------- the key syntax  name[!][,alias][,@level]  (OptionInitHelper::operator(), Key.parse_key) ----------------
   parse_key gl key vl : gl = level of the owning group AT THE TIME of the declaration, vl = level of the value handed in; None = Error thrown.
   key_form (KeySpec.v) describes the accepted keys declaratively:
     name            -> (name', neg, no alias, vl)            the value keeps its own level
     name,a          -> (name', neg, a, gl)                   an omitted @level means the level of the group - whatever other parts are present
     name,a,@N       -> (name', neg, a, N)        name,@N  -> (name', neg, no alias, N)        N a decimal number <= desc_level_hidden
     name,a,  and  name,a,@ (= level 0)  are accepted too (LENIENT);  N is accumulated in an unsigned (see c19_key_level_wraps)
   with name' / neg from the name part:  name -> (name, false),  name! -> (name, true),  name\! -> (name!, false);  name is non-empty, has no ','
   and does not start with '!'.                                                                                                             *)

(* every key that is accepted declares exactly the option the syntax denotes - and nothing else is accepted *)
Theorem c19_key_denotes : forall (gl vl : Z) (key : list Z) (d : keyd),
  parse_key gl key vl = Some d <-> key_form gl vl key d.
Proof. intros. apply parse_key_iff. Qed.
Print Assumptions c19_key_denotes.

(* every byte string that is not a key of this syntax is refused *)
Theorem c19_key_malformed_refused : forall (gl vl : Z) (key : list Z),
  (forall d, ~ key_form gl vl key d) -> parse_key gl key vl = None.
Proof. intros gl vl key. apply parse_key_refuses. Qed.
Print Assumptions c19_key_malformed_refused.

(* an accepted key without a level part (no '@' anywhere): the option gets the level of the group it is declared in as soon as the key has a
   ',' part, and keeps the level of its value when it has none - independent of negation mark and alias *)
Theorem c19_key_omitted_level : forall (gl vl : Z) (key : list Z) (d : keyd),
  parse_key gl key vl = Some d -> ~ In KEY_LEVEL key ->
  (In KEY_SEP key -> k_level d = gl) /\ (~ In KEY_SEP key -> k_level d = vl).
Proof.
  intros gl vl key d H Hn. apply parse_key_sound in H. destruct H as [ln nm neg Hne Hns Hh Hf|ln n a lv nm neg Hne Hns Hh Ht Hf]; cbn [k_level].
  - split; [intros Hi; exfalso; exact (Hns Hi)|reflexivity].
  - split; [|intros Hi; exfalso; apply Hi; apply in_or_app; right; left; reflexivity].
    intros _. destruct Ht as [a0 Hg|a0 Hg|a0 ds Hd Hl|d0 ds Hd Hl]; try reflexivity;
      exfalso; apply Hn; apply in_or_app; right; right; cbn; tauto.
Qed.
Print Assumptions c19_key_omitted_level.

(* round trip: the key written for (name, negatable, alias, level or none) reads back as exactly that; with the level left out it is the
   group's level when there is an alias and the value's level when there is none *)
Theorem c19_key_roundtrip : forall (gl vl : Z) (nm : list Z) (neg : bool) (alias : Z) (lv : option Z),
  nm <> [] -> no_sep nm -> hd 0 nm <> KEY_NEG -> (neg = true -> ~ exists p, nm = p ++ [KEY_ESC]) ->
  (forall l, lv = Some l -> 0 <= l <= LEVEL_HIDDEN) -> (lv = None -> alias <> 0 -> gl <= LEVEL_HIDDEN) ->
  parse_key gl (render_key nm neg alias lv) vl = Some (mkK nm neg alias (denoted_level gl vl alias lv)).
Proof. exact render_parse. Qed.
Print Assumptions c19_key_roundtrip.

(* the level number: up to 9 digits it is the plain decimal value (leading zeros allowed) *)
Theorem c19_key_level_number : forall ds : list Z, all_digits ds -> (length ds <= 9)%nat -> dec_acc ds 0 = dec_plain ds 0.
Proof. exact dec_acc_small. Qed.
Print Assumptions c19_key_level_number.

(* what this means for the help text and the default command line: an option declared through a key with an alias and without @level in a
   group whose level was gl at that moment is listed at active level L only if gl <= L - however far the level of its group is lowered
   afterwards (setDescriptionLevel, or a merge with a same-caption group of a lower level: the level q gives) - and it is listed as soon as
   gl <= L and its caption is shown *)
Theorem c19_key_inherited_level_visible : forall (ps : list group) (dl gl vl : Z) (p : group) (o : vopt) (nm : list Z) (neg : bool) (alias : Z),
  In p ps -> In o (g_opts p) ->
  nm <> [] -> no_sep nm -> hd 0 nm <> KEY_NEG -> (neg = true -> ~ exists q, nm = q ++ [KEY_ESC]) -> alias <> 0 -> gl <= LEVEL_HIDDEN ->
  parse_key gl (render_key nm neg alias None) vl = Some (mkK (v_name o) (v_neg o) (v_alias o) (v_level o)) ->
  (In o (visible_opts dl (build_ctx ps)) -> gl <= dl) /\
  (gl <= dl -> (exists q, In q ps /\ g_caption q = g_caption p /\ g_level q <= dl) -> In o (visible_opts dl (build_ctx ps))).
Proof.
  intros ps dl gl vl p o nm neg alias Hp Ho H1 H2 H3 H4 Ha Hg Hk.
  rewrite (render_parse gl vl nm neg alias None H1 H2 H3 H4) in Hk; [|discriminate|intros _ _; exact Hg].
  injection Hk as E1 E2 E3 E4. unfold denoted_level in E4. apply Z.eqb_neq in Ha. rewrite Ha in E4.
  split.
  - intros Hv. apply merged_visible in Hv. destruct Hv as (p' & _ & _ & Hl & _). lia.
  - intros Hl Hq. apply merged_visible. exists p. split; [exact Hp|]. split; [exact Ho|]. split; [lia|exact Hq].
Qed.
Print Assumptions c19_key_inherited_level_visible.

(* ---------------- non-vacuity ---------------- *)
(* alias + negatable + implicit + argument; long negatable flag; empty argument name on a non-implicit option *)
Definition ex_a : vopt := mkO [97] 97 [60; 110; 62] true [50] true (Some [49]) 0 [65; 32; 37; 65; 32; 37; 68; 32; 37; 73; 32; 37; 37; 32; 37; 120; 32; 37].
Definition ex_b : vopt := mkO (repeat 98 40) 0 [] true [49] true None 1 [37; 68; 37].
Definition ex_e : vopt := mkO [101] 0 [] false [49] false (Some [120; 61; 49]) 0 [101].
Definition ex_h : vopt := mkO [104] 0 ARG_DEFAULT false [49] false (Some [49]) 5 [104].
Definition ex_ctx : list group := [mkG [] 0 [ex_a; ex_h]; mkG [71] 1 [ex_b; ex_e]].

Example c19_ex_header : fst (format_opt (buf_size ex_a 10) ex_a 10) = [32; 32; 45; 45; 97; 91; 61; 60; 110; 62; 124; 110; 111; 93; 44; 45; 97].
Proof. vm_compute. reflexivity. Qed.
(* the explicit buffer size matters: the code's size minus its slack of 3 is too small for the empty-argument case,
   and one byte less than header + NUL faults *)
Example c19_ex_fault_when_too_small :
  snd (format_opt (buf_size ex_e 0 - BUF_SLACK) ex_e 0) = true /\ snd (format_opt (len (header ex_a)) ex_a 0) = true /\
  snd (format_opt (len (header ex_a) + 1) ex_a 0) = false.
Proof. vm_compute. repeat split; reflexivity. Qed.
Example c19_ex_placeholders : subst (v_desc ex_a) ex_a = [65; 32; 60; 110; 62; 32; 49; 32; 50; 32; 37; 32; 120; 32].
Proof. vm_compute. reflexivity. Qed.
Example c19_ex_visible : map v_name (visible_opts 0 ex_ctx) = [[97]] /\ map v_name (visible_opts 4 ex_ctx) = [repeat 98 40; [101]; [97]].
Proof. vm_compute. split; reflexivity. Qed.
Example c19_ex_keys_nodup : NoDup (map fst (keys_from 0 (all_opts ex_ctx))).
Proof. vm_compute. repeat constructor; simpl; intuition discriminate. Qed.
Example c19_ex_safe : forallb cmd_safe (with_default (visible_opts 4 ex_ctx)) = true.
Proof. vm_compute. reflexivity. Qed.
Example c19_ex_parse : parse_cmd ex_ctx (defaults 4 0 ex_ctx) = POk [(3%nat, [120; 61; 49]); (0%nat, [49])].
Proof. vm_compute. reflexivity. Qed.

(* adds with equal captions: "Search"@2 {s1}, ""@0 {m1}, "Search"@0 {s2; s3@1}, ""@3 {m2}, "Other"@1 {x}  (and the reverse order):
   Search and the caption-less main group are shown from level 0 on, with ALL their options of level <= L; Other from level 1 on *)
Definition ex_o (name : str) (level : Z) : vopt := mkO name 0 ARG_DEFAULT false IMPLICIT_DEFAULT false (Some [49]) level [].
Definition ex_ps : list group :=
  [mkG [83] 2 [ex_o [115; 49] 0]; mkG [] 0 [ex_o [109; 49] 0]; mkG [83] 0 [ex_o [115; 50] 0; ex_o [115; 51] 1];
   mkG [] 3 [ex_o [109; 50] 0]; mkG [79] 1 [ex_o [120] 0]].
Example c19_ex_merge :
  map (fun g => (g_caption g, g_level g, map v_name (g_opts g))) (build_ctx ex_ps) =
    [([83], 0, [[115; 49]; [115; 50]; [115; 51]]); ([], 0, [[109; 49]; [109; 50]]); ([79], 1, [[120]])] /\
  map (fun g => (g_caption g, g_level g, map v_name (g_opts g))) (build_ctx (rev ex_ps)) =
    [([79], 1, [[120]]); ([], 0, [[109; 50]; [109; 49]]); ([83], 0, [[115; 50]; [115; 51]; [115; 49]])] /\
  map v_name (visible_opts 0 (build_ctx ex_ps)) = [[109; 49]; [109; 50]; [115; 49]; [115; 50]] /\
  map v_name (visible_opts 1 (build_ctx ex_ps)) = [[109; 49]; [109; 50]; [120]; [115; 49]; [115; 50]; [115; 51]] /\
  map v_name (registered ex_ps) = [[115; 49]; [109; 49]; [115; 50]; [115; 51]; [109; 50]; [120]].
Proof. vm_compute. repeat split; reflexivity. Qed.
Example c19_ex_merge_keys_nodup : NoDup (map fst (keys_from 0 (registered ex_ps))).
Proof. vm_compute. repeat constructor; simpl; intuition discriminate. Qed.
Example c19_ex_merge_safe : forallb cmd_safe (with_default (visible_opts 0 (build_ctx ex_ps))) = true.
Proof. vm_compute. reflexivity. Qed.
Example c19_ex_merge_parse :
  parse_cmd_os (registered ex_ps) (defaults 0 0 (build_ctx ex_ps)) = POk [(1%nat, [49]); (4%nat, [49]); (0%nat, [49]); (2%nat, [49])].
Proof. vm_compute. reflexivity. Qed.

(* ---- the key syntax ---- *)
Definition k_restarts := [114;101;115;116;97;114;116;115].          (* restarts *)
Example c19_ex_keys :
  (* restarts,r in a group of level 2: level 2, whatever level the value has *)
  parse_key 2 (k_restarts ++ [44;114]) 0 = Some (mkK k_restarts false 114 2) /\
  parse_key 2 (k_restarts ++ [44;114]) 4 = Some (mkK k_restarts false 114 2) /\
  parse_key 2 (k_restarts ++ [33;44;114]) 0 = Some (mkK k_restarts true 114 2) /\            (* restarts!,r *)
  parse_key 2 (k_restarts ++ [44;114;44;64;49]) 0 = Some (mkK k_restarts false 114 1) /\     (* restarts,r,@1 *)
  parse_key 2 (k_restarts ++ [44;64;49]) 0 = Some (mkK k_restarts false 0 1) /\              (* restarts,@1 *)
  parse_key 2 (k_restarts ++ [44;64;48;48;53]) 0 = Some (mkK k_restarts false 0 5) /\        (* restarts,@005 *)
  parse_key 2 k_restarts 0 = Some (mkK k_restarts false 0 0) /\                              (* plain: the value's level *)
  parse_key 2 k_restarts 3 = Some (mkK k_restarts false 0 3) /\
  parse_key 2 (k_restarts ++ [33]) 3 = Some (mkK k_restarts true 0 3) /\                     (* restarts! *)
  parse_key 2 (k_restarts ++ [92;33]) 0 = Some (mkK (k_restarts ++ [33]) false 0 0) /\       (* restarts\! : the name ends in '!' *)
  parse_key 2 (k_restarts ++ [44;64]) 0 = Some (mkK k_restarts false 64 2) /\                (* restarts,@ : the alias is '@' *)
  parse_key 2 (k_restarts ++ [44;64;44;64;51]) 0 = Some (mkK k_restarts false 64 3).         (* restarts,@,@3 *)
Proof. vm_compute. repeat split; reflexivity. Qed.
(* refused: empty key, no name, name starting with '!', nothing behind the ',', alias of two characters, something behind the alias that is no
   level, level above desc_level_hidden, level in front of the alias, junk behind the level, a second level, a negative level *)
Example c19_ex_keys_refused :
  forallb (fun key => match parse_key 2 key 0 with None => true | Some _ => false end)
    [[]; [44;120]; [33;120]; [33]; [120;44]; [120;44;97;98]; [120;44;97;44;98]; [120;44;64;54]; [120;44;64;49;50]; [120;44;64;50;44;97];
     [120;44;97;64;50]; [120;44;64;50;120]; [120;44;97;44;64;50;44]; [120;44;97;44;64;50;44;64;51]; [120;44;64;45;49]; [120;44;97;44;64;54];
     [120;44;97;44;50]] = true /\
  (* a group of level 6 or 7 cannot declare a key with a ',' part and without @level *)
  parse_key 6 [120;44;97] 0 = None /\ parse_key 6 [120;44;97;44;64;50] 0 = Some (mkK [120] false 97 2).
Proof. vm_compute. repeat split; reflexivity. Qed.
(* accepted beyond the documented syntax (LENIENT): a trailing ',' behind the alias, '@' without a number (level 0), a ',' as alias *)
Example c19_key_lenient :
  parse_key 2 [120;44;97;44] 0 = Some (mkK [120] false 97 2) /\ parse_key 2 [120;44;97;44;64] 0 = Some (mkK [120] false 97 0) /\
  parse_key 2 [120;44;44] 0 = Some (mkK [120] false 44 2) /\ parse_key 2 [120;44;44;44;64;51] 0 = Some (mkK [120] false 44 3).
Proof. vm_compute. repeat split; reflexivity. Qed.
(* the level number wraps around in the unsigned accumulator: "x,@4294967296" is accepted with level 0, "x,@4294967301" with level 5 *)
Example c19_key_level_wraps :
  parse_key 2 [120;44;64;52;50;57;52;57;54;55;50;57;54] 0 = Some (mkK [120] false 0 0) /\
  parse_key 2 [120;44;64;52;50;57;52;57;54;55;51;48;49] 0 = Some (mkK [120] false 0 5) /\
  parse_key 2 [120;44;64;52;50;57;52;57;54;55;51;48;50] 0 = None.
Proof. vm_compute. repeat split; reflexivity. Qed.
(* the hypotheses of the round trip are satisfiable: seed-mode (negatable) with alias s, no level *)
Example c19_ex_key_roundtrip :
  let nm := [115;101;101;100;45;109;111;100;101] in
  nm <> [] /\ no_sep nm /\ hd 0 nm <> KEY_NEG /\ (true = true -> ~ exists p, nm = p ++ [KEY_ESC]) /\
  render_key nm true 115 None = nm ++ [33;44;115] /\ render_key (nm ++ [33]) false 0 (Some 4) = nm ++ [92;33;44;64;52] /\
  parse_key 3 (render_key nm true 115 None) 0 = Some (mkK nm true 115 3).
Proof.
  cbn zeta. split; [discriminate|]. split; [unfold no_sep, KEY_SEP; cbn; intuition discriminate|]. split; [cbn; discriminate|].
  split; [|vm_compute; repeat split; reflexivity].
  intros _ [p Hp]. apply (f_equal (@rev Z)) in Hp. rewrite rev_app_distr in Hp. cbn in Hp. discriminate.
Qed.
(* the demonstration: an expert group "S" (level 2) declares restarts,r / luby,@1 / depth (plain); a basic group "S" (level 0) declares
   threads,t; merged by add the group has level 0 - restarts stays hidden below level 2, luby below level 1 *)
Definition ex_decl (gl : Z) (key : list Z) (vl : Z) : list vopt :=
  match parse_key gl key vl with
  | Some k => [mkO (k_name k) (k_alias k) ARG_DEFAULT false IMPLICIT_DEFAULT (k_neg k) (Some [49]) (k_level k) []]
  | None => []
  end.
Definition ex_key_ps : list group :=
  [mkG [83] 2 (ex_decl 2 (k_restarts ++ [44;114]) 0 ++ ex_decl 2 [108;117;98;121;44;64;49] 0 ++ ex_decl 2 [100;101;112;116;104] 0);
   mkG [83] 0 (ex_decl 0 [116;104;114;101;97;100;115;44;116] 0)].
Example c19_ex_key_visible :
  map g_level (build_ctx ex_key_ps) = [0] /\
  map v_name (visible_opts 0 (build_ctx ex_key_ps)) = [[100;101;112;116;104]; [116;104;114;101;97;100;115]] /\
  map v_name (visible_opts 1 (build_ctx ex_key_ps)) = [[108;117;98;121]; [100;101;112;116;104]; [116;104;114;101;97;100;115]] /\
  map v_name (visible_opts 2 (build_ctx ex_key_ps)) = [k_restarts; [108;117;98;121]; [100;101;112;116;104]; [116;104;114;101;97;100;115]].
Proof. vm_compute. repeat split; reflexivity. Qed.
