(* C19 - help and default-command-line output list exactly the visible options, safely.
   Model: coq/C19/Model.v (format strings and all constants from Gen/Consts_C19.v, i.e. from the sources).
   Vocabulary (coq/C19/Spec.v): header o = the decorated name "  --[no-]name[=arg|no][,-a](=| )arg[|no]" written with literal
   bytes; subst = placeholder replacement; entry / help_text = what the property demands of the description;
   visible_opts = options with level(o) <= L in groups with level(g) <= L, sub groups first, then the main group;
   cmd_safe = a default that survives the command-string syntax.                                                    *)
Require Import V.Lib.Base V.Gen.Consts_C19 V.C19.Model V.C19.Spec V.C19.Proofs V.C19.Proofs2.
Local Open Scope Z_scope.

(* no sprintf of DefaultFormat::format(buf, option, maxW) writes outside the vector of the size the code computes,
   and the final assert(n <= bufSize) holds - for ALL names, argument names (incl. empty), aliases, flag combinations, maxW *)
Theorem c19_no_overflow : forall (o : vopt) (maxW : Z), snd (format_opt (buf_size o maxW) o maxW) = false.
Proof. exact format_opt_no_fault. Qed.
Print Assumptions c19_no_overflow.

(* what was written: the decorated name, padded with blanks to maxW; its length is maxColumn (+1 for an empty
   argument name of a non-implicit option) - for any buffer size *)
Theorem c19_header : forall (bs : Z) (o : vopt) (maxW : Z),
  fst (format_opt bs o maxW) = pad_to maxW (header o) /\
  len (header o) = max_column o + (if negb (v_implicit o) && is_nil (v_arg o) then 1 else 0).
Proof. intros. split; [apply format_opt_text | apply len_header]. Qed.
Print Assumptions c19_header.

(* %D %A %I %% are replaced, any other %x becomes x, a trailing % is dropped *)
Theorem c19_placeholders : forall o : vopt, format_desc o = [58; 32] ++ subst (v_desc o) o ++ [10].
Proof. exact format_desc_spec. Qed.
Print Assumptions c19_placeholders.

(* the description is exactly: for every visible group in output order its caption followed by one entry per visible
   option of the group, in order - every option with level(o) <= L and level(group) <= L exactly once, none above L;
   and no formatter call faults *)
Theorem c19_visible : forall (dl : Z) (ctx : list group),
  description dl ctx =
  (flat_map (fun g => caption g ++ flat_map (entry (ctx_max_w dl ctx)) (filter (opt_visible dl) (g_opts g)))
            (filter (group_visible dl) (out_order ctx)), false).
Proof. exact description_spec. Qed.
Print Assumptions c19_visible.

(* defaults(n) is the concatenation of "--name=default " for exactly the visible options that have a default, in
   output order, each optionally preceded by a line break (newline + n blanks) *)
Theorem c19_defaults_mention : forall (dl n : Z) (ctx : list group),
  exists bods : list (str * (vopt * str)),
    defaults dl n ctx = flat_map (fun x => fst x ++ mention (snd x) ++ [32]) bods /\
    map snd bods = with_default (visible_opts dl ctx) /\
    Forall (fun x => is_break n (fst x)) bods.
Proof. exact defaults_spec. Qed.
Print Assumptions c19_defaults_mention.

(* parsing the default command line against the same context (a context whose index keys are unique, as
   OptionContext::add guarantees) yields each visible option with a default, by position, with its default value,
   in order - PROVIDED every such default is command-line safe *)
Theorem c19_defaults_parse : forall (dl n : Z) (ctx : list group),
  NoDup (map fst (keys_from 0 (all_opts ctx))) ->
  forallb cmd_safe (with_default (visible_opts dl ctx)) = true ->
  exists l : list (nat * (vopt * str)),
    map snd l = with_default (visible_opts dl ctx) /\
    Forall (fun x => nth_error (all_opts ctx) (fst x) = Some (fst (snd x))) l /\
    parse_cmd ctx (defaults dl n ctx) = POk (map (fun x => (fst x, snd (snd x))) l).
Proof. exact defaults_parse. Qed.
Print Assumptions c19_defaults_parse.

(* without that proviso the property's claim is false for the code as it is (known findings defaults-blank / -empty /
   -quote): a default with a blank makes the command line unparsable, an empty default of an option that requires an
   argument swallows the next option, quotes are stripped *)
Definition o_str (name dflt : str) : vopt := mkO name 0 ARG_DEFAULT false IMPLICIT_DEFAULT false (Some dflt) 0 [].
Definition ctx_blank : list group := [mkG [] 0 [o_str [111] [97; 32; 98]; o_str [110] [51]]].       (* o="a b" n="3" *)
Definition ctx_empty : list group := [mkG [] 0 [o_str [110] []; o_str [109] [49]]].                  (* n=""  m="1" *)
Definition ctx_quote : list group := [mkG [] 0 [o_str [111] [39; 97; 39]]].                          (* o="'a'" *)
Theorem c19_defaults_parse_refuted :
  parse_cmd ctx_blank (defaults 0 0 ctx_blank) = PErr 1 /\
  parse_cmd ctx_empty (defaults 0 0 ctx_empty) = POk [(0%nat, [45; 45; 109; 61; 49])] /\
  parse_cmd ctx_quote (defaults 0 0 ctx_quote) = POk [(0%nat, [97])].
Proof. vm_compute. repeat split; reflexivity. Qed.
Print Assumptions c19_defaults_parse_refuted.

(* ---------------- non-vacuity ---------------- *)
(* alias + negatable + implicit + argument; long negatable flag; empty argument name on a non-implicit option *)
Definition ex_a : vopt := mkO [97] 97 [60; 110; 62] true [50] true (Some [49]) 0 [65; 32; 37; 65; 32; 37; 68; 32; 37; 73; 32; 37; 37; 32; 37; 120; 32; 37].
Definition ex_b : vopt := mkO (repeat 98 40) 0 [] true [49] true None 1 [37; 68; 37].
Definition ex_e : vopt := mkO [101] 0 [] false [49] false (Some [120; 61; 49]) 0 [101].
Definition ex_h : vopt := mkO [104] 0 ARG_DEFAULT false [49] false (Some [49]) 5 [104].
Definition ex_ctx : list group := [mkG [] 0 [ex_a; ex_h]; mkG [71] 1 [ex_b; ex_e]].

Example c19_ex_header : fst (format_opt (buf_size ex_a 10) ex_a 10) = [32; 32; 45; 45; 97; 91; 61; 60; 110; 62; 124; 110; 111; 93; 44; 45; 97].
Proof. vm_compute. reflexivity. Qed.
(* the explicit buffer size matters: the code's size minus its slack of 3 is too small for the empty-argument case,
   and one byte less than header + NUL faults *)
Example c19_ex_fault_when_too_small :
  snd (format_opt (buf_size ex_e 0 - BUF_SLACK) ex_e 0) = true /\ snd (format_opt (len (header ex_a)) ex_a 0) = true /\
  snd (format_opt (len (header ex_a) + 1) ex_a 0) = false.
Proof. vm_compute. repeat split; reflexivity. Qed.
Example c19_ex_placeholders : subst (v_desc ex_a) ex_a = [65; 32; 60; 110; 62; 32; 49; 32; 50; 32; 37; 32; 120; 32].
Proof. vm_compute. reflexivity. Qed.
Example c19_ex_visible : map v_name (visible_opts 0 ex_ctx) = [[97]] /\ map v_name (visible_opts 4 ex_ctx) = [repeat 98 40; [101]; [97]].
Proof. vm_compute. split; reflexivity. Qed.
Example c19_ex_keys_nodup : NoDup (map fst (keys_from 0 (all_opts ex_ctx))).
Proof. vm_compute. repeat constructor; simpl; intuition discriminate. Qed.
Example c19_ex_safe : forallb cmd_safe (with_default (visible_opts 4 ex_ctx)) = true.
Proof. vm_compute. reflexivity. Qed.
Example c19_ex_parse : parse_cmd ex_ctx (defaults 4 0 ex_ctx) = POk [(3%nat, [120; 61; 49]); (0%nat, [49])].
Proof. vm_compute. reflexivity. Qed.
