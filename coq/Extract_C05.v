Require Import ExtrOcamlBasic.
Require Import V.C05.Model.
Extraction "model.ml" run_case.
