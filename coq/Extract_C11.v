Require Import ExtrOcamlBasic.
Require Import V.C11.Model.
Extraction "model.ml" run_case.
