(* C16 - accepts-only: whatever parseSigned / parseUnsigned accept is a numeral (or keyword) denoting exactly the
   returned value, the value is within the limits, the end position is inside the string. *)
Require Import V.Lib.Base V.Lib.Dec V.Gen.Consts_C16 V.C16.Model V.C16.Spec V.C16.ProofsBasic V.C16.ProofsRT.
Require Import ZifyBool.
Local Open Scope Z_scope.

Ltac nok := let H := fresh in intro H; discriminate H.

(* ---------- detectBase ---------- *)
Lemma detect_base_cases x :
  (detect_base x = 16 /\ exists c r, x = 48 :: c :: r /\ (c = 120 \/ c = 88)) \/
  (detect_base x = 8 /\ exists c r, x = 48 :: c :: r /\ is_bdigit 8 c = true) \/
  (detect_base x = 10 /\ plain x).
Proof.
  unfold detect_base, base_lead, base_hex_c1, base_hex_c2, base_hex, base_oct_lo, base_oct_hi, base_oct, base_default.
  destruct x as [|c0 [|c1 r]]; try (right; right; split; [reflexivity | exact I]).
  destruct (Z.eqb_spec c0 48) as [->|Hc0].
  - destruct ((c1 =? 120) || (c1 =? 88)) eqn:E1.
    + left. split; [reflexivity|]. exists c1, r. split; [reflexivity | lia].
    + destruct ((48 <=? c1) && (c1 <=? 55)) eqn:E2.
      * right; left. split; [reflexivity|]. exists c1, r. split; [reflexivity|].
        unfold is_bdigit, digit_val. destruct ((48 <=? c1) && (c1 <=? 57)) eqn:E3; lia.
      * right; right. split; [reflexivity|]. unfold plain. intros _. repeat split; try lia.
        unfold is_bdigit, digit_val.
        destruct ((48 <=? c1) && (c1 <=? 57)) eqn:E3; [lia|].
        destruct ((97 <=? c1) && (c1 <=? 122)) eqn:E4; [lia|].
        destruct ((65 <=? c1) && (c1 <=? 90)) eqn:E5; lia.
  - right; right. split; [reflexivity|]. unfold plain. intros; contradiction.
Qed.

Lemma plain_firstn n x : plain x -> plain (firstn n x).
Proof.
  unfold plain. destruct x as [|a [|b r]]; destruct n as [|[|n]]; cbn; trivial.
Qed.

(* ---------- the scanned subject sequence is a numeral denoting the scanned value ---------- *)
Definition scan_value (base : Z) (k : scan) : Z :=
  if sc_neg k then - value_base base (sc_ds k) else value_base base (sc_ds k).

Lemma take_while_nonempty_head p c r : p c = true -> take_while p (c :: r) = c :: take_while p r.
Proof. intros H. cbn. now rewrite H. Qed.

Lemma xX_not_hex c : c = 120 \/ c = 88 -> is_bdigit 16 c = false.
Proof. intros [->| ->]; reflexivity. Qed.

Lemma scan_numeral x : let k := scan_num (detect_base x) x in sc_ds k <> [] ->
  numeral (firstn (sc_len k) x) (scan_value (detect_base x) k).
Proof.
  cbn zeta. intros Hne. rewrite (sc_len_firstn _ _ Hne).
  destruct (detect_base_cases x) as [(Hb & c & r & -> & Hc) | [(Hb & c & r & -> & Hc) | (Hb & Hp)]]; rewrite Hb in *.
  - (* base 16: x = 0x... *)
    unfold scan_value, sc_neg. unfold scan_num in *. cbn [sc_ws sc_sign sc_pre sc_ds] in *.
    rewrite take_while_head_false in * by reflexivity. rewrite drop_while_head_false in * by reflexivity.
    change (sign_split (48 :: c :: r)) with (@nil Z, 48 :: c :: r) in *. cbn [fst snd] in *.
    destruct (prefix_split_cases 16 (48 :: c :: r)) as [(E1 & E2) | (_ & x' & h & r' & Hx & Hh & Es & E1 & E2)].
    + rewrite E1, E2 in *. rewrite take_while_nonempty_head in * by reflexivity.
      rewrite (take_while_head_false (is_bdigit 16) c r (xX_not_hex c Hc)) in *. cbn [app].
      refine (num_dec [] [] [48] 1 _ _ _ _ _);
        [constructor | left; split; reflexivity | discriminate | repeat constructor | exact I].
    + injection Es as -> ->. rewrite E1, E2 in *. cbn [app].
      rewrite take_while_nonempty_head in * by assumption.
      apply num_hex; [assumption | discriminate |]. constructor; [assumption | apply take_while_all].
  - (* base 8: x = 0<octal digit>... *)
    unfold scan_value, sc_neg. unfold scan_num in *. cbn [sc_ws sc_sign sc_pre sc_ds] in *.
    rewrite take_while_head_false in * by reflexivity. rewrite drop_while_head_false in * by reflexivity.
    change (sign_split (48 :: c :: r)) with (@nil Z, 48 :: c :: r) in *. cbn [fst snd] in *.
    rewrite prefix_split_not16 in * by lia. cbn [fst snd app] in *.
    rewrite take_while_nonempty_head in * by reflexivity. rewrite take_while_nonempty_head in * by assumption.
    apply num_oct; [assumption | apply take_while_all].
  - (* base 10 *)
    set (k := scan_num 10 x) in *.
    assert (Hpre : sc_pre k = []).
    { unfold k, scan_num. cbn [sc_pre]. now rewrite prefix_split_not16 by lia. }
    rewrite Hpre. cbn [app].
    assert (Hpl : plain (sc_ws k ++ sc_sign k ++ sc_ds k)).
    { pose proof (sc_len_firstn 10 x Hne) as F. fold k in F. rewrite Hpre in F. cbn [app] in F. rewrite <- F. now apply plain_firstn. }
    assert (Hsg : exists sgn, sign_of (sc_sign k) sgn /\ scan_value 10 k = sgn * value_base 10 (sc_ds k)).
    { unfold scan_value, sc_neg, sign_of. unfold k, scan_num. cbn [sc_sign sc_ds].
      destruct (sign_split_cases (drop_while is_space x)) as [E|[E|E]]; rewrite E.
      - exists 1. split; [now left | lia].
      - exists (-1). split; [right; right; now split |]. change (45 =? 45) with true. cbv iota. lia.
      - exists 1. split; [right; left; now split |]. change (43 =? 45) with false. cbv iota. lia. }
    destruct Hsg as (sgn & Hs & Hv). rewrite Hv.
    apply num_dec; try assumption.
    + unfold k, scan_num. cbn [sc_ws]. apply take_while_all.
    + unfold k, scan_num. cbn [sc_ds]. apply take_while_all.
Qed.

(* ---------- strtoll / strtoull in terms of the scan ---------- *)
Lemma strtoll_spec base x :
  let k := scan_num base x in
  (sc_ds k = [] /\ strtoll base x = (0, O, false)) \/
  (sc_ds k <> [] /\ exists out er, strtoll base x = (out, sc_len k, er) /\
     (er = false -> out = scan_value base k /\ c_LLONG_MIN <= out <= c_LLONG_MAX) /\
     (er = true -> out = c_LLONG_MAX \/ out = c_LLONG_MIN)).
Proof.
  cbn zeta. unfold strtoll, scan_value. destruct (sc_ds (scan_num base x)) as [|d ds] eqn:E; [left; split; reflexivity|].
  right. split; [discriminate|]. rewrite <- E.
  set (v := if sc_neg (scan_num base x) then - value_base base (sc_ds (scan_num base x)) else value_base base (sc_ds (scan_num base x))).
  destruct (Z.gtb_spec v c_LLONG_MAX).
  - eexists; eexists; split; [reflexivity|]. split; [discriminate | intros _; now left].
  - destruct (Z.ltb_spec v c_LLONG_MIN).
    + eexists; eexists; split; [reflexivity|]. split; [discriminate | intros _; now right].
    + eexists; eexists; split; [reflexivity|]. split; [intros _; split; [reflexivity | lia] | discriminate].
Qed.

Lemma strtoull_spec base x :
  let k := scan_num base x in
  (sc_ds k = [] /\ strtoull base x = (0, O, false)) \/
  (sc_ds k <> [] /\ exists out er, strtoull base x = (out, sc_len k, er) /\
     (er = false -> value_base base (sc_ds k) <= c_ULLONG_MAX /\
                    out = if sc_neg k then (two64 - value_base base (sc_ds k)) mod two64 else value_base base (sc_ds k)) /\
     (er = true -> out = c_ULLONG_MAX)).
Proof.
  cbn zeta. unfold strtoull. destruct (sc_ds (scan_num base x)) as [|d ds] eqn:E; [left; split; reflexivity|].
  right. split; [discriminate|]. rewrite <- E.
  destruct (Z.gtb_spec (value_base base (sc_ds (scan_num base x))) c_ULLONG_MAX).
  - eexists; eexists; split; [reflexivity|]. split; [discriminate | reflexivity].
  - eexists; eexists; split; [reflexivity|]. split; [intros _; split; [lia | reflexivity] | discriminate].
Qed.

Lemma sc_len_pos k : sc_ds k <> [] -> (0 < sc_len k)%nat.
Proof. unfold sc_len. destruct (sc_ds k) as [|d ds]; [congruence|]. cbn [length]. lia. Qed.

(* ---------- parseSigned ---------- *)
Lemma signed_kw_sound x smin smax v : signed_kw signed_keywords x smin smax = Some v ->
  keyword_signed smin smax (firstn (Z.to_nat signed_kw_advance) x) v.
Proof.
  unfold signed_keywords, signed_kw_advance, keyword_signed, kw_imax, kw_imin. cbn [signed_kw].
  destruct (strncmp_eq x [105; 109; 97; 120] 4 && negb (smax =? 0)) eqn:E1.
  - intros H; injection H as <-. apply andb_true_iff in E1. destruct E1 as [E1 _].
    left. split; [|reflexivity]. exact (strncmp_eq_prefix x [105; 109; 97; 120] E1).
  - destruct (strncmp_eq x [105; 109; 105; 110] 4 && negb (smin =? 0)) eqn:E2; [|discriminate].
    intros H; injection H as <-. apply andb_true_iff in E2. destruct E2 as [E2 _].
    right. split; [|reflexivity]. exact (strncmp_eq_prefix x [105; 109; 105; 110] E2).
Qed.

Lemma firstn_eq_length {A} n (x l : list A) : firstn n x = l -> length l = n -> (n <= length x)%nat.
Proof. intros H L. rewrite <- H in L. rewrite firstn_length in L. lia. Qed.

Theorem parse_signed_sound e x smin smax :
  c_LLONG_MIN <= smin -> smin <= smax -> smax <= c_LLONG_MAX ->
  p_ok (parse_signed e x smin smax) = true ->
  let r := parse_signed e x smin smax in
  (0 < p_len r <= length x)%nat /\ smin <= p_val r <= smax /\
  (keyword_signed smin smax (firstn (p_len r) x) (p_val r) \/ numeral (firstn (p_len r) x) (p_val r)).
Proof.
  intros Hmin Hle Hmax. cbn zeta. unfold parse_signed.
  destruct x as [|c0 x0] eqn:Ex; [cbn; nok|]. rewrite <- Ex.
  destruct (signed_kw signed_keywords x smin smax) as [v|] eqn:Ekw.
  - intros _. cbn [p_len p_val]. pose proof (signed_kw_sound _ _ _ _ Ekw) as K.
    assert (L : (Z.to_nat signed_kw_advance <= length x)%nat).
    { destruct K as [[K _]|[K _]]; eapply firstn_eq_length; try exact K; reflexivity. }
    split; [split; [unfold signed_kw_advance; lia | exact L]|].
    split; [destruct K as [[_ ->]|[_ ->]]; lia | left; exact K].
  - destruct (strtoll_spec (detect_base x) x) as [(Hds & E) | (Hds & out & er & E & Hok & Hbad)]; cbn zeta in *; rewrite E.
    + cbn. nok.
    + destruct er.
      * destruct (Hbad eq_refl) as [-> | ->]; rewrite orb_true_r.
        -- change (c_LLONG_MAX =? c_LLONG_MAX) with true. cbn. nok.
        -- change (c_LLONG_MIN =? c_LLONG_MIN) with true. rewrite orb_true_r. cbn. nok.
      * destruct (Hok eq_refl) as (Hout & Hr). rewrite orb_false_r.
        set (len := sc_len (scan_num (detect_base x) x)) in *.
        assert (Hlen : (0 < len <= length x)%nat) by (split; [apply sc_len_pos; assumption | apply sc_len_le]).
        assert (Hl0 : (len =? 0)%nat = false) by (apply Nat.eqb_neq; lia).
        assert (Hnum : numeral (firstn len x) out) by (rewrite Hout; apply scan_numeral; assumption).
        destruct (((out =? c_LLONG_MAX) || (out =? c_LLONG_MIN)) && e); rewrite Hl0; cbn [orb];
          destruct (Z.ltb_spec out smin); cbn [orb]; try (cbn; nok);
          destruct (Z.gtb_spec out smax); cbn [p_ok p_len p_val]; try (cbn; nok);
          intros _; (split; [exact Hlen|]); (split; [lia|]); right; exact Hnum.
Qed.

(* ---------- parseUnsigned ---------- *)
Lemma unsigned_kw_sound x n : unsigned_kw unsigned_keywords x = Some n ->
  (n = 4%nat /\ firstn n x = kw_imax) \/ (n = 4%nat /\ firstn n x = kw_umax) \/ (n = 2%nat /\ firstn n x = kw_m1).
Proof.
  unfold unsigned_keywords, kw_imax, kw_umax, kw_m1. cbn [unsigned_kw].
  destruct (strncmp_eq x [105; 109; 97; 120] 4) eqn:E1.
  - intros H; injection H as <-. left. split; [reflexivity|]. exact (strncmp_eq_prefix x [105; 109; 97; 120] E1).
  - destruct (strncmp_eq x [117; 109; 97; 120] 4) eqn:E2.
    + intros H; injection H as <-. right; left. split; [reflexivity|]. exact (strncmp_eq_prefix x [117; 109; 97; 120] E2).
    + destruct (strncmp_eq x [45; 49] 2) eqn:E3; [|discriminate].
      intros H; injection H as <-. right; right. split; [reflexivity|]. exact (strncmp_eq_prefix x [45; 49] E3).
Qed.

Lemma existsb_app {A} (f : A -> bool) a b : existsb f (a ++ b) = existsb f a || existsb f b.
Proof. induction a as [|x a IH]; cbn; [reflexivity|]. rewrite IH. now rewrite orb_assoc. Qed.

Lemma no_minus_not_neg base x : sc_ds (scan_num base x) <> [] ->
  existsb (Z.eqb 45) (firstn (sc_len (scan_num base x)) x) = false -> sc_neg (scan_num base x) = false.
Proof.
  intros Hne H. rewrite (sc_len_firstn _ _ Hne) in H. rewrite !existsb_app in H.
  unfold sc_neg. destruct (sc_sign (scan_num base x)) as [|c r]; [reflexivity|].
  cbn [existsb] in H. destruct (Z.eqb_spec c 45) as [->|]; [|reflexivity].
  change (45 =? 45) with true in H. rewrite orb_true_r in H. cbn in H. discriminate.
Qed.

Theorem parse_unsigned_sound e x umax :
  0 <= umax <= c_ULLONG_MAX ->
  p_ok (parse_unsigned e x umax) = true ->
  let r := parse_unsigned e x umax in
  (0 < p_len r <= length x)%nat /\ 0 <= p_val r <= umax /\
  (keyword_unsigned umax (firstn (p_len r) x) (p_val r) \/ numeral (firstn (p_len r) x) (p_val r)).
Proof.
  intros Hmax. cbn zeta. unfold parse_unsigned.
  destruct x as [|c0 x0] eqn:Ex; [cbn; nok|].
  destruct ((c0 =? unsigned_neg_char) && negb (hd 0 x0 =? unsigned_neg_next)); [cbn; nok|]. rewrite <- Ex.
  destruct (unsigned_kw unsigned_keywords x) as [n|] eqn:Ekw.
  - intros _. cbn [p_len p_val]. pose proof (unsigned_kw_sound _ _ Ekw) as K.
    assert (Hhalf : Z.shiftr umax unsigned_kw_shift = umax / 2) by (unfold unsigned_kw_shift; rewrite Z.shiftr_div_pow2 by lia; reflexivity).
    assert (Hc0 : forall l, firstn n x = l -> hd 0 l = c0 \/ n = O).
    { intros l <-. rewrite Ex. destruct n; [now right | now left]. }
    destruct K as [(-> & K)|[(-> & K)|(-> & K)]].
    + assert (c0 = 105) by (destruct (Hc0 _ K) as [H|H]; [cbn in H; lia | discriminate]). subst c0.
      unfold unsigned_kw_half_char. change (negb (105 =? 105)) with false. cbv iota. rewrite Hhalf.
      split; [split; [lia | eapply firstn_eq_length; [exact K | reflexivity]]|].
      split; [split; [apply Z.div_pos; lia | apply Z.div_le_upper_bound; lia] | left; left; split; [exact K | reflexivity]].
    + assert (c0 = 117) by (destruct (Hc0 _ K) as [H|H]; [cbn in H; lia | discriminate]). subst c0.
      unfold unsigned_kw_half_char. change (negb (117 =? 105)) with true. cbv iota.
      split; [split; [lia | eapply firstn_eq_length; [exact K | reflexivity]]|].
      split; [lia | left; right; left; split; [exact K | reflexivity]].
    + assert (c0 = 45) by (destruct (Hc0 _ K) as [H|H]; [cbn in H; lia | discriminate]). subst c0.
      unfold unsigned_kw_half_char. change (negb (45 =? 105)) with true. cbv iota.
      split; [split; [lia | eapply firstn_eq_length; [exact K | reflexivity]]|].
      split; [lia | left; right; right; split; [exact K | reflexivity]].
  - destruct (strtoull_spec (detect_base x) x) as [(Hds & E) | (Hds & out & er & E & Hok & Hbad)]; cbn zeta in *; rewrite E.
    + cbn. nok.
    + destruct er.
      * rewrite (Hbad eq_refl). rewrite orb_true_r. change (c_ULLONG_MAX =? c_ULLONG_MAX) with true. cbn. nok.
      * destruct (Hok eq_refl) as (Hm & Hout). rewrite orb_false_r.
        set (k := scan_num (detect_base x) x) in *. set (len := sc_len k) in *.
        assert (Hlen : (0 < len <= length x)%nat) by (split; [apply sc_len_pos; assumption | apply sc_len_le]).
        assert (Hl0 : (len =? 0)%nat = false) by (apply Nat.eqb_neq; lia).
        destruct (existsb (Z.eqb 45) (firstn len x)) eqn:Em.
        { destruct ((out =? c_ULLONG_MAX) && e); rewrite Hl0, orb_true_r; cbn; nok. }
        assert (Hneg : sc_neg k = false) by (apply no_minus_not_neg; assumption).
        rewrite Hneg in Hout.
        assert (Hnum : numeral (firstn len x) out).
        { rewrite Hout. pose proof (scan_numeral x Hds) as N. cbn zeta in N. fold k in N. fold len in N.
          unfold scan_value in N. rewrite Hneg in N. exact N. }
        assert (H0 : 0 <= out) by (rewrite Hout; apply value_base_nonneg; destruct (detect_base_cases x) as [(->&_)|[(->&_)|(->&_)]]; lia).
        destruct ((out =? c_ULLONG_MAX) && e); rewrite Hl0, orb_false_r; cbn [orb];
          destruct (Z.gtb_spec out umax); cbn [p_ok p_len p_val]; try (cbn; nok);
          intros _; (split; [exact Hlen|]); (split; [lia|]); right; exact Hnum.
Qed.

(* ---------- the typed front ends ---------- *)
Definition keyword (ty : Z) (p : list Z) (v : Z) : Prop :=
  if (ty =? 2) || (ty =? 4) || (ty =? 6) then keyword_signed (ty_min ty) (ty_max ty) p v
  else keyword_unsigned (ty_max ty) p v.

Theorem accepts_only ty e s : int_ty ty -> p_ok (parse_scalar ty e s) = true ->
  let r := parse_scalar ty e s in
  (0 < p_len r <= length s)%nat /\ ty_min ty <= p_val r <= ty_max ty /\
  (keyword ty (firstn (p_len r) s) (p_val r) \/ numeral (firstn (p_len r) s) (p_val r)).
Proof.
  intros Hty. unfold int_ty in Hty.
  assert (Hc : ty = 2 \/ ty = 3 \/ ty = 4 \/ ty = 5 \/ ty = 6 \/ ty = 7) by lia.
  destruct Hc as [->|[->|[->|[->|[->| ->]]]]]; unfold keyword, ty_min, ty_max; cbn [Z.eqb orb]; cbv iota;
    [ change (parse_scalar 2 e s) with (parse_signed e s int_min int_max)
    | change (parse_scalar 3 e s) with (parse_unsigned e s uint_max)
    | change (parse_scalar 4 e s) with (parse_signed e s long_min long_max)
    | change (parse_scalar 5 e s) with (parse_unsigned e s ulong_max)
    | change (parse_scalar 6 e s) with (parse_signed e s llong_min llong_max)
    | change (parse_scalar 7 e s) with (parse_unsigned e s ullong_max) ]; intros Hok.
  - apply parse_signed_sound; try assumption; consts; lia.
  - change uint_min with 0. apply parse_unsigned_sound; try assumption; consts; lia.
  - apply parse_signed_sound; try assumption; consts; lia.
  - change ulong_min with 0. apply parse_unsigned_sound; try assumption; consts; lia.
  - apply parse_signed_sound; try assumption; consts; lia.
  - change ullong_min with 0. apply parse_unsigned_sound; try assumption; consts; lia.
Qed.

(* string_cast succeeds exactly when xconvert accepts and nothing is left *)
Theorem whole_string ty e s v :
  cast_scalar ty e s = Some v <->
  (p_ok (parse_scalar ty e s) = true /\ p_val (parse_scalar ty e s) = v /\ p_len (parse_scalar ty e s) = length s).
Proof.
  unfold cast_scalar. destruct (p_ok (parse_scalar ty e s)); cbn [andb].
  - destruct (Nat.eqb_spec (p_len (parse_scalar ty e s)) (length s)) as [E|E]; split.
    + intros H; injection H as <-. auto.
    + intros (_ & <- & _). reflexivity.
    + discriminate.
    + intros (_ & _ & C). contradiction.
  - split; [discriminate | intros (C & _); discriminate].
Qed.

Corollary cast_fails_with_rest ty e s : p_ok (parse_scalar ty e s) = true ->
  (cast_scalar ty e s = None <-> (p_len (parse_scalar ty e s) < length s)%nat \/ (length s < p_len (parse_scalar ty e s))%nat).
Proof.
  intros Hok. unfold cast_scalar. rewrite Hok. cbn [andb].
  destruct (Nat.eqb_spec (p_len (parse_scalar ty e s)) (length s)); split; intros H; try discriminate; try lia; reflexivity.
Qed.
