(* C16 - executable model of the string <-> value conversions of src/string_convert.cpp,
   potassco/string_convert.h and the EnumClass of potassco/platform.h (LP64).

   Strings are NUL-free byte lists (what a const char* sees); values are Z (bool 0/1, char 0..255 as
   unsigned char, integers, enum constants as int).  One Gallina function per C++ function:
     detect_base, parse_signed, parse_unsigned, parse_bool, parse_char, the typed xconvert front ends,
     enum_entries/find_kv (the key/value list is parsed out of the macro's stringified arguments),
     EnumClass::isValid/convert, xconvert(pair), convert_seq/xconvert(vector), string_cast,
     StringBuilder::append_ and the xconvert(std::string&, T) printers.
   strtoll/strtoull are libc: MODELLED per ISO C 7.22.1.4 in the "C" locale (white space, sign, optional
   0x for base 16, longest digit run, clamp + ERANGE; strtoull negates modulo 2^64) with an unbounded
   accumulator - validated against the real libc by the correspondence run, not verified.
   errno is the boolean "errno == ERANGE" threaded through every call (stale ERANGE is an input).
   Every literal / limit / table comes from V.Gen.Consts_C16 (regenerated from the sources).            *)
Require Import V.Lib.Base V.Lib.Dec V.Gen.Consts_C16.
Local Open Scope Z_scope.

(* ---------- C string helpers ---------- *)
(* strncmp(x, lit, n) == 0 on NUL-free lists: the end of a list is the terminating NUL *)
Fixpoint strncmp_eq (x lit : list Z) (n : nat) {struct n} : bool :=
  match n with
  | O => true
  | S m =>
      match x, lit with
      | [], [] => true
      | c :: x', d :: l' => (c =? d) && strncmp_eq x' l' m
      | _, _ => false
      end
  end.

Fixpoint take_while (p : Z -> bool) (s : list Z) : list Z :=
  match s with
  | c :: r => if p c then c :: take_while p r else []
  | [] => []
  end.
Fixpoint drop_while (p : Z -> bool) (s : list Z) : list Z :=
  match s with
  | c :: r => if p c then drop_while p r else s
  | [] => []
  end.

(* ---------- libc (modelled): strtoll / strtoull ---------- *)
Definition is_space (c : Z) : bool := (c =? 32) || ((9 <=? c) && (c <=? 13)).
Definition digit_val (c : Z) : Z :=
  if (48 <=? c) && (c <=? 57) then c - 48
  else if (97 <=? c) && (c <=? 122) then c - 87
  else if (65 <=? c) && (c <=? 90) then c - 55
  else 99.
Definition is_bdigit (base c : Z) : bool := digit_val c <? base.

Definition value_base (base : Z) (ds : list Z) : Z := fold_left (fun a c => a * base + digit_val c) ds 0.

(* the subject sequence: s = ws ++ sign ++ prefix ++ digits ++ rest *)
Record scan := mkscan { sc_ws : list Z; sc_sign : list Z; sc_pre : list Z; sc_ds : list Z; sc_rest : list Z }.

Definition sign_split (s : list Z) : list Z * list Z :=
  match s with
  | c :: r => if (c =? 45) || (c =? 43) then ([c], r) else ([], s)
  | [] => ([], s)
  end.
(* "0x" / "0X" is part of the subject sequence only for base 16 and only if a hexadecimal digit follows *)
Definition prefix_split (base : Z) (s : list Z) : list Z * list Z :=
  match s with
  | z :: x :: h :: r =>
      if (base =? 16) && (z =? 48) && ((x =? 120) || (x =? 88)) && is_bdigit 16 h then ([z; x], h :: r) else ([], s)
  | _ => ([], s)
  end.

Definition scan_num (base : Z) (s : list Z) : scan :=
  let sp := sign_split (drop_while is_space s) in
  let pp := prefix_split base (snd sp) in
  mkscan (take_while is_space s) (fst sp) (fst pp) (take_while (is_bdigit base) (snd pp)) (drop_while (is_bdigit base) (snd pp)).

Definition sc_neg (k : scan) : bool := match sc_sign k with c :: _ => c =? 45 | [] => false end.
Definition sc_len (k : scan) : nat :=
  match sc_ds k with
  | [] => O    (* no conversion: endptr = nptr *)
  | _ => (length (sc_ws k) + length (sc_sign k) + length (sc_pre k) + length (sc_ds k))%nat
  end.

Definition two64 : Z := c_ULLONG_MAX + 1.

(* (result, characters consumed, errno set to ERANGE by this call) *)
Definition strtoll (base : Z) (s : list Z) : Z * nat * bool :=
  let k := scan_num base s in
  match sc_ds k with
  | [] => (0, O, false)
  | _ =>
      let m := value_base base (sc_ds k) in
      let v := if sc_neg k then - m else m in
      if v >? c_LLONG_MAX then (c_LLONG_MAX, sc_len k, true)
      else if v <? c_LLONG_MIN then (c_LLONG_MIN, sc_len k, true)
      else (v, sc_len k, false)
  end.

Definition strtoull (base : Z) (s : list Z) : Z * nat * bool :=
  let k := scan_num base s in
  match sc_ds k with
  | [] => (0, O, false)
  | _ =>
      let m := value_base base (sc_ds k) in
      if m >? c_ULLONG_MAX then (c_ULLONG_MAX, sc_len k, true)
      else ((if sc_neg k then (two64 - m) mod two64 else m), sc_len k, false)
  end.

(* ---------- src/string_convert.cpp ---------- *)
(* static int detectBase(const char* x) *)
Definition detect_base (x : list Z) : Z :=
  match x with
  | c0 :: c1 :: _ =>
      if c0 =? base_lead then
        if (c1 =? base_hex_c1) || (c1 =? base_hex_c2) then base_hex
        else if (base_oct_lo <=? c1) && (c1 <=? base_oct_hi) then base_oct
        else base_default
      else base_default
  | _ => base_default
  end.

(* result of one xconvert call: token count != 0, value, errPos - x, errno == ERANGE afterwards *)
Record pres := mkp { p_ok : bool; p_val : Z; p_len : nat; p_err : bool }.
Definition pfail (e : bool) : pres := mkp false 0 O e.

Fixpoint signed_kw (kws : list (list Z * nat * bool)) (x : list Z) (smin smax : Z) : option Z :=
  match kws with
  | (lit, n, ismax) :: r =>
      let v := if ismax then smax else smin in
      if strncmp_eq x lit n && negb (v =? 0) then Some v else signed_kw r x smin smax
  | [] => None
  end.

(* static bool parseSigned(const char*& x, long long& out, long long sMin, long long sMax) *)
Definition parse_signed (e : bool) (x : list Z) (smin smax : Z) : pres :=
  match x with
  | [] => pfail e
  | _ =>
      match signed_kw signed_keywords x smin smax with
      | Some v => mkp true v (Z.to_nat signed_kw_advance) e
      | None =>
          let '(out, len, er) := strtoll (detect_base x) x in
          let e1 := e || er in
          (* (out == LLONG_MAX || out == LLONG_MIN) && errno == ERANGE: errno = 0 and parse again *)
          let '(bad, e2) := if ((out =? c_LLONG_MAX) || (out =? c_LLONG_MIN)) && e1 then (er, er) else (false, e1) in
          if bad then pfail e2
          else if (len =? 0)%nat || (out <? smin) || (out >? smax) then pfail e2
          else mkp true out len e2
      end
  end.

Fixpoint unsigned_kw (kws : list (list Z * nat)) (x : list Z) : option nat :=
  match kws with
  | (lit, n) :: r => if strncmp_eq x lit n then Some n else unsigned_kw r x
  | [] => None
  end.

(* static bool parseUnsigned(const char*& x, unsigned long long& out, unsigned long long uMax) *)
Definition parse_unsigned (e : bool) (x : list Z) (umax : Z) : pres :=
  match x with
  | [] => pfail e
  | c0 :: r0 =>
      if (c0 =? unsigned_neg_char) && negb (hd 0 r0 =? unsigned_neg_next) then pfail e
      else
        match unsigned_kw unsigned_keywords x with
        | Some n => mkp true (if negb (c0 =? unsigned_kw_half_char) then umax else Z.shiftr umax unsigned_kw_shift) n e
        | None =>
            let '(out, len, er) := strtoull (detect_base x) x in
            let e1 := e || er in
            let '(bad, e2) := if (out =? c_ULLONG_MAX) && e1 then (er, er) else (false, e1) in
            if bad then pfail e2
            (* err == x || out > uMax || memchr(x, '-', err - x) *)
            else if (len =? 0)%nat || (out >? umax) || existsb (Z.eqb 45) (firstn len x) then pfail e2
            else mkp true out len e2
        end
  end.

Fixpoint bool_kw (tab : list (list Z * nat * bool * nat)) (x : list Z) : option (bool * nat) :=
  match tab with
  | (lit, n, v, adv) :: r => if strncmp_eq x lit n then Some (v, adv) else bool_kw r x
  | [] => None
  end.

(* int xconvert(const char* x, bool& out, ...) *)
Definition parse_bool (e : bool) (x : list Z) : pres :=
  match x with
  | [] => pfail e
  | _ =>
      match bool_kw bool_words x with
      | Some (v, adv) => mkp true (b2z v) adv e
      | None => pfail e
      end
  end.

Fixpoint assoc (k : Z) (l : list (Z * Z)) : option Z :=
  match l with
  | (a, b) :: r => if a =? k then Some b else assoc k r
  | [] => None
  end.

(* int xconvert(const char* x, char& out, ...) *)
Definition parse_char (e : bool) (x : list Z) : pres :=
  match x with
  | [] => pfail e
  | c :: r =>
      if c =? char_escape_lead then
        match assoc (hd 0 r) char_escapes with
        | Some o => mkp true o 2 e
        | None => mkp true c 1 e
        end
      else mkp true c 1 e
  end.

(* ---------- enumerations (potassco/platform.h, detail::find_kv) ---------- *)
Definition is_kv_stop (c : Z) : bool := (c =? 32) || (c =? 44) || (c =? 61).   (* strcspn(x, " ,=") *)
Definition is_blank (c : Z) : bool := c =? 32.                                  (* SKIPWS *)

(* the (key, value) pairs in the order find_kv visits them *)
Fixpoint enum_entries (fuel : nat) (args : list Z) (cval : Z) : list (list Z * Z) :=
  match fuel with
  | O => []
  | S f =>
      let key := take_while (fun c => negb (is_kv_stop c)) args in
      let v1 := drop_while is_blank (drop_while (fun c => negb (is_kv_stop c)) args) in
      let '(cv, v2) := match v1 with
                       | c :: r =>
                           if c =? 61 then
                             let p := parse_signed false r int_min int_max in
                             ((if p_ok p then p_val p else cval), drop_while is_blank (skipn (p_len p) r))
                           else (cval, v1)
                       | [] => (cval, v1)
                       end in
      (key, cv) :: match v2 with
                   | c :: r => if c =? 44 then enum_entries f (drop_while is_blank r) (cv + 1) else []
                   | [] => []
                   end
  end.

Record eclass := mkec { ec_rep : list Z; ec_min : Z; ec_max : Z }.
Definition ec_entries (ec : eclass) : list (list Z * Z) := enum_entries (S (length (ec_rep ec))) (ec_rep ec) (ec_min ec).

Fixpoint find_by_val (v : Z) (l : list (list Z * Z)) : option (list Z) :=
  match l with
  | (k, w) :: r => if w =? v then Some k else find_by_val v r
  | [] => None
  end.
Fixpoint find_by_key (k : list Z) (l : list (list Z * Z)) : option Z :=
  match l with
  | (k', w) :: r => if list_eqb k' k then Some w else find_by_key k r
  | [] => None
  end.

(* bool EnumClass::isValid(int v): v >= min && v <= max && find_kv( *this, 0, &v, 0, 0) - within the bounds AND in the table
   (min is the fixed 0 of POTASSCO_ENUM_CONSTANTS or the caller's minVal: it need not be a constant; tools/consts/C16.py anchors the condition) *)
Definition ec_valid (ec : eclass) (v : Z) : bool :=
  (ec_min ec <=? v) && (v <=? ec_max ec) && match find_by_val v (ec_entries ec) with Some _ => true | None => false end.

(* size_t EnumClass::convert(const char* x, int& out) + the xconvert template around it *)
Definition parse_enum (ec : eclass) (e : bool) (x : list Z) : pres :=
  let p := parse_signed e x int_min int_max in
  if p_ok p then
    if ec_valid ec (p_val p) then mkp true (p_val p) (p_len p) (p_err p) else pfail (p_err p)
  else
    let k := take_while (fun c => negb (is_kv_stop c)) x in
    match k with
    | [] => pfail (p_err p)
    | _ => match find_by_key k (ec_entries ec) with
           | Some v => mkp true v (length k) (p_err p)
           | None => pfail (p_err p)
           end
    end.

(* size_t EnumClass::convert(int val, const char*& out): the key, or "" *)
Definition print_enum (ec : eclass) (v : Z) : list Z :=
  match find_by_val v (ec_entries ec) with Some k => k | None => [] end.

Fixpoint find_enum (ty : Z) (l : list (Z * list Z * Z * Z)) : option eclass :=
  match l with
  | (c, rep, mn, mx) :: r => if c =? ty then Some (mkec rep mn mx) else find_enum ty r
  | [] => None
  end.

(* ---------- typed front ends ----------
   0 bool, 1 char, 2 int, 3 unsigned, 4 long, 5 unsigned long, 6 long long, 7 unsigned long long, 8.. enums *)
Definition parse_scalar (ty : Z) (e : bool) (x : list Z) : pres :=
  if ty =? 0 then parse_bool e x
  else if ty =? 1 then parse_char e x
  else if ty =? 2 then parse_signed e x int_min int_max
  else if ty =? 3 then parse_unsigned e x uint_max
  else if ty =? 4 then parse_signed e x long_min long_max
  else if ty =? 5 then parse_unsigned e x ulong_max
  else if ty =? 6 then parse_signed e x llong_min llong_max
  else if ty =? 7 then parse_unsigned e x ullong_max
  else match find_enum ty enum_classes with
       | Some ec => parse_enum ec e x
       | None => pfail e
       end.

Definition known_ty (ty : Z) : bool :=
  ((0 <=? ty) && (ty <=? 7)) || match find_enum ty enum_classes with Some _ => true | None => false end.

(* bool string_cast(const char* arg, T& to): xconvert(arg, to, &end, 0) != 0 && !*end *)
Definition cast_scalar (ty : Z) (e : bool) (x : list Z) : option Z :=
  let r := parse_scalar ty e x in
  if p_ok r && (p_len r =? length x)%nat then Some (p_val r) else None.

(* ---------- printing ---------- *)
(* StringBuilder::append_(uint64_t n, bool pos) *)
Definition append_num (n : Z) (pos : bool) : list Z :=
  let m := if pos then n else (two64 - n) mod two64 in        (* n = ~n + 1 *)
  let ds := digits_f 64 m [] in
  if pos then ds else 45 :: ds.

Definition print_signed (v : Z) : list Z := append_num (v mod two64) (0 <=? v).
(* xconvert(string&, unsigned long n) / (unsigned long long n) *)
Definition print_ulong (v : Z) : list Z := if v =? c_ULONG_MAX then ulong_max_str else append_num v true.
Definition print_ullong (v : Z) : list Z := if v =? c_ULLONG_MAX then ullong_max_str else append_num v true.
(* xconvert(string&, unsigned int n): n != (unsigned)-1 ? (unsigned long)n : (unsigned long)-1 *)
Definition print_uint (v : Z) : list Z := print_ulong (if v =? c_UINT_MAX then c_ULONG_MAX else v).

Definition print_scalar (ty : Z) (v : Z) : list Z :=
  if ty =? 0 then (if v =? 0 then bool_false_str else bool_true_str)
  else if ty =? 1 then [v]
  else if (ty =? 2) || (ty =? 4) || (ty =? 6) then print_signed v
  else if ty =? 3 then print_uint v
  else if ty =? 5 then print_ulong v
  else if ty =? 7 then print_ullong v
  else match find_enum ty enum_classes with
       | Some ec => print_enum ec v
       | None => []
       end.

(* ---------- pairs and sequences (potassco/string_convert.h) ---------- *)
Definition head_is (c : Z) (s : list Z) : bool := match s with d :: _ => d =? c | [] => false end.

(* int xconvert(const char* x, std::pair<T,U>& out, const char** errPos, int sep):
   (sum, first, second, errPos - x); ia / ib are the values out holds before the call *)
Definition parse_pair (ta tb : Z) (ia ib : Z) (e : bool) (x : list Z) : Z * Z * Z * nat :=
  let ps := head_is pair_open x in
  let n0 := if ps then tl x else x in
  let ra := parse_scalar ta e n0 in
  let n1 := skipn (p_len ra) n0 in
  let fa := if p_ok ra then p_val ra else ia in
  let second := match n1 with
                | c :: ((_ :: _) as r) =>
                    if p_ok ra && (c =? def_sep) then Some (parse_scalar tb (p_err ra) r, r) else None
                | _ => None
                end in
  let '(tokU, fb, n2) := match second with
                         | Some (rb, r) => (p_ok rb, (if p_ok rb then p_val rb else ib), skipn (p_len rb) r)
                         | None => (false, ib, n1)
                         end in
  if negb ps || head_is pair_close n2 then
    let n3 := if ps then tl n2 else n2 in
    let at_end := match n3 with [] => true | _ => false end in
    if tokU then (2, fa, fb, (length x - length n3)%nat)
    else if p_ok ra && at_end then (1, fa, ib, (length x - length n3)%nat)
    else (0, ia, ib, O)
  else (0, ia, ib, O).

(* std::size_t convert_seq<T>(...): the loop; every iteration consumes at least the separator *)
Fixpoint seq_loop (fuel : nat) (ty : Z) (e : bool) (n : list Z) (acc : list Z) : list Z * list Z * bool :=
  match fuel with
  | O => (acc, n, true)                       (* never reached: see Proofs, seq_loop_fuel *)
  | S f =>
      let r := parse_scalar ty e n in
      if negb (p_ok r) then (acc, n, false)
      else
        let n' := skipn (p_len r) n in
        let acc' := acc ++ [p_val r] in
        match n' with
        | c :: ((_ :: _) as t) => if c =? def_sep then seq_loop f ty (p_err r) t acc' else (acc', n', false)
        | _ => (acc', n', false)
        end
  end.

(* int xconvert(const char* x, std::vector<T>& out, ...): (elements appended, errPos - x, fuel fault) *)
Definition parse_list (ty : Z) (e : bool) (x : list Z) : list Z * nat * bool :=
  let b := head_is seq_open x in
  let n0 := if b then tl x else x in
  let '(els, n, fault) := seq_loop (S (length x)) ty e n0 [] in
  if negb b || head_is seq_close n then (els, (length x - length (if b then tl n else n))%nat, fault)
  else (els, O, fault).

Fixpoint join (sep : Z) (l : list (list Z)) : list Z :=
  match l with
  | [] => []
  | [a] => a
  | a :: r => a ++ sep :: join sep r
  end.
Definition print_pair (ta tb : Z) (a b : Z) : list Z := print_scalar ta a ++ def_sep :: print_scalar tb b.
Definition print_list (ty : Z) (l : list Z) : list Z := join def_sep (map (print_scalar ty) l).

(* std::string& xconvert(std::string& accu, IT begin, IT end, char sep): APPENDS to accu - a separator in front of every element
   but the first one OF THIS CALL (`for (bool first = true; begin != end; first = false)`), whatever accu already holds.
   xconvert(std::string&, const std::vector<T>&, char sep) forwards to it. *)
Fixpoint append_seq (ty sep : Z) (first : bool) (accu : list Z) (l : list Z) : list Z :=
  match l with
  | [] => accu
  | v :: r => append_seq ty sep false ((if first then accu else accu ++ [sep]) ++ print_scalar ty v) r
  end.
Definition xconv_range (ty sep : Z) (accu l : list Z) : list Z := append_seq ty sep true accu l.
Definition xconv_list (ty : Z) (accu l : list Z) : list Z := xconv_range ty def_sep accu l.
(* toString(x, y) / toString(x, y, z): std::string res; xconvert(res, x).append(1, ','); ... return xconvert(res, z) - the last component a list *)
Definition comma : Z := 44.
Definition tostring2 (ta a ty : Z) (l : list Z) : list Z := xconv_list ty (print_scalar ta a ++ [comma]) l.
Definition tostring3 (ta a tb b ty : Z) (l : list Z) : list Z :=
  xconv_list ty ((print_scalar ta a ++ [comma]) ++ print_scalar tb b ++ [comma]) l.

(* convert_seq / xconvert(const char*, std::vector<T>&, errPos, int sep) with an explicit separator (sep <> 0) *)
Fixpoint seq_loop_s (sep : Z) (fuel : nat) (ty : Z) (e : bool) (n : list Z) (acc : list Z) : list Z * list Z * bool :=
  match fuel with
  | O => (acc, n, true)
  | S f =>
      let r := parse_scalar ty e n in
      if negb (p_ok r) then (acc, n, false)
      else
        let n' := skipn (p_len r) n in
        let acc' := acc ++ [p_val r] in
        match n' with
        | c :: ((_ :: _) as t) => if c =? sep then seq_loop_s sep f ty (p_err r) t acc' else (acc', n', false)
        | _ => (acc', n', false)
        end
  end.
Definition parse_list_s (sep ty : Z) (e : bool) (x : list Z) : list Z * nat * bool :=
  let b := head_is seq_open x in
  let n0 := if b then tl x else x in
  let '(els, n, fault) := seq_loop_s sep (S (length x)) ty e n0 [] in
  if negb b || head_is seq_close n then (els, (length x - length (if b then tl n else n))%nat, fault)
  else (els, O, fault).

(* ---------- stream-parsed types: the fall back template  xconvert(const char*, T&, const char**, double)  ----------
   Every T without a typed overload is parsed through detail::input_stream<char> (a std::istream over the C string, flags skipws|dec,
   classic locale):  if (str >> out) { err = str.eof() ? x + xLen : x + str.tellg(); }  return err != x;   errno is not touched.
   Type codes 30 signed char, 31 unsigned char, 32 short, 33 unsigned short (harness op 9).  operator>> is the C++ library: MODELLED
   (ISO C++ [istream.extractors], [facet.num.get.virtuals]) and validated by the correspondence run, like strtoll above:
   - (signed|unsigned) char: the sentry skips white space; at the end of the string failbit|eofbit; otherwise exactly ONE CHARACTER
     is extracted (its code is the value - NOT a number: "7" gives 55) and eofbit stays clear even when it was the last one, so the end
     position is tellg() = input_from_string::seekoff(0, cur) -> seekpos(gptr - eback), which must accept offset == size.
   - short / unsigned short: white space, optional sign, DECIMAL digit run (basefield dec: "010" is 10, "0x10" stops behind the 0, no
     keywords); no digit -> failbit; short: value outside SHRT_MIN..SHRT_MAX -> failbit; unsigned short: digit run above USHRT_MAX ->
     failbit, a '-' negates modulo 2^16 ("-1" is 65535); the end position is behind the digit run (eof or tellg). *)
Definition stream_ty (ty : Z) : bool := (30 <=? ty) && (ty <=? 33).
Definition is_dec_digit (c : Z) : bool := (48 <=? c) && (c <=? 57).

Definition parse_stream_char (sgn : bool) (e : bool) (x : list Z) : pres :=
  match drop_while is_space x with
  | [] => pfail e
  | c :: _ => mkp true (if sgn && (c >? c_SCHAR_MAX) then c - (c_UCHAR_MAX + 1) else c) (S (length (take_while is_space x))) e
  end.

Definition parse_stream_num (sgn : bool) (lo hi : Z) (e : bool) (x : list Z) : pres :=
  let sp := sign_split (drop_while is_space x) in
  let ds := take_while is_dec_digit (snd sp) in
  match ds with
  | [] => pfail e
  | _ =>
      let m := value_base 10 ds in
      let neg := match fst sp with c :: _ => c =? 45 | [] => false end in
      let len := (length (take_while is_space x) + length (fst sp) + length ds)%nat in
      if sgn then
        let v := if neg then - m else m in
        if (v <? lo) || (v >? hi) then pfail e else mkp true v len e
      else if m >? hi then pfail e
      else mkp true (if neg then (hi + 1 - m) mod (hi + 1) else m) len e
  end.

Definition parse_stream (ty : Z) (e : bool) (x : list Z) : pres :=
  if ty =? 30 then parse_stream_char true e x
  else if ty =? 31 then parse_stream_char false e x
  else if ty =? 32 then parse_stream_num true c_SHRT_MIN c_SHRT_MAX e x
  else parse_stream_num false 0 c_USHRT_MAX e x.

(* element parser of op 9: a stream-parsed type or one of the typed front ends *)
Definition parse_any (ty : Z) (e : bool) (x : list Z) : pres :=
  if stream_ty ty then parse_stream ty e x else parse_scalar ty e x.

(* xconvert(const char*, std::pair<T,U>&, ...) and convert_seq<T>(x, maxLen, out, sep, errPos) once more, over arbitrary element
   parsers (the templates are the same code for every T; parse_pair / seq_loop above are these with parse_scalar:
   Properties_C16.v, c16_pair_template_instance / c16_seq_template_instance) *)
Definition parse_pair_g (pa pb : bool -> list Z -> pres) (ia ib : Z) (e : bool) (x : list Z) : Z * Z * Z * nat :=
  let ps := head_is pair_open x in
  let n0 := if ps then tl x else x in
  let ra := pa e n0 in
  let n1 := skipn (p_len ra) n0 in
  let fa := if p_ok ra then p_val ra else ia in
  let second := match n1 with
                | c :: ((_ :: _) as r) =>
                    if p_ok ra && (c =? def_sep) then Some (pb (p_err ra) r, r) else None
                | _ => None
                end in
  let '(tokU, fb, n2) := match second with
                         | Some (rb, r) => (p_ok rb, (if p_ok rb then p_val rb else ib), skipn (p_len rb) r)
                         | None => (false, ib, n1)
                         end in
  if negb ps || head_is pair_close n2 then
    let n3 := if ps then tl n2 else n2 in
    let at_end := match n3 with [] => true | _ => false end in
    if tokU then (2, fa, fb, (length x - length n3)%nat)
    else if p_ok ra && at_end then (1, fa, ib, (length x - length n3)%nat)
    else (0, ia, ib, O)
  else (0, ia, ib, O).

(* while (t != maxLen) { if (!xconvert(n, temp, &n, sep)) break; *out++ = temp; ++t; if (!*n || *n != sep || !n[1]) break; n = n+1; } *)
Fixpoint seq_loop_g (p : bool -> list Z -> pres) (sep : Z) (fuel : nat) (maxlen : nat) (e : bool) (n : list Z) (acc : list Z)
  : list Z * list Z * bool :=
  match fuel with
  | O => (acc, n, true)
  | S f =>
      if (length acc =? maxlen)%nat then (acc, n, false) else
      let r := p e n in
      if negb (p_ok r) then (acc, n, false)
      else
        let n' := skipn (p_len r) n in
        let acc' := acc ++ [p_val r] in
        match n' with
        | c :: ((_ :: _) as t) => if c =? sep then seq_loop_g p sep f maxlen (p_err r) t acc' else (acc', n', false)
        | _ => (acc', n', false)
        end
  end.
(* convert_seq: (elements, errPos - x, fuel fault); xconvert(T(&)[sz]) is maxlen = sz, xconvert(vector<T>&) is maxlen = max_size *)
Definition parse_seq_g (p : bool -> list Z -> pres) (maxlen : nat) (e : bool) (x : list Z) : list Z * nat * bool :=
  let b := head_is seq_open x in
  let n0 := if b then tl x else x in
  let '(els, n, fault) := seq_loop_g p def_sep (S (S (length x))) maxlen e n0 [] in
  if negb b || head_is seq_close n then (els, (length x - length (if b then tl n else n))%nat, fault)
  else (els, O, fault).

(* ---------- value encoding of the case protocol ---------- *)
Definition wrap_s (bits : Z) (v : Z) : Z := (v + 2 ^ (bits - 1)) mod 2 ^ bits - 2 ^ (bits - 1).
Definition norm (ty : Z) (v : Z) : Z :=                 (* static_cast<T>(long long) *)
  if ty =? 0 then (if v =? 0 then 0 else 1)
  else if ty =? 1 then v mod 256
  else if ty =? 2 then wrap_s 32 v
  else if ty =? 3 then v mod 2 ^ 32
  else if (ty =? 4) || (ty =? 6) then wrap_s 64 v
  else if (ty =? 5) || (ty =? 7) then v mod 2 ^ 64
  else wrap_s 32 v.
Definition to_ll (v : Z) : Z := wrap_s 64 v.            (* how the harness prints unsigned 64-bit values *)
Definition init_val (ty : Z) : Z :=                     (* T() *)
  match find_enum ty enum_classes with Some ec => ec_min ec | None => 0 end.
(* enum values the harness may materialise without undefined behaviour: eMin .. __eEnd *)
Definition enum_repr_ok (ty : Z) (v : Z) : bool :=
  match find_enum ty enum_classes with
  | Some ec => (ec_min ec <=? v) && (v <=? ec_max ec + 1)
  | None => true
  end.
Definition comp_ok (ty : Z) : bool := existsb (Z.eqb ty) [0; 1; 2; 3; 6; 7; 10; 14].
(* 17 Level_t 18 Sparse_t 19 Neg_t 20 Off_t 21 Unord_t 22 One_t: the enumerations harness/h_c16.cpp declares with the public macros
   POTASSCO_ENUM_CONSTANTS / POTASSCO_ENUM_CONSTANTS_T (their descriptors (rep, min, max) are in enum_classes like the library's).
   Element types of vectors (ops 4, 5): comp_ok and these; pairs (ops 2, 3): comp_ok x comp_ok, <E,int>, <int,E>, <E,E>. *)
Definition new_enum (ty : Z) : bool := (17 <=? ty) && (ty <=? 22).
Definition list_ok (ty : Z) : bool := comp_ok ty || new_enum ty.
Definition pair_ok (ta tb : Z) : bool :=
  (comp_ok ta && comp_ok tb) || (new_enum ta && ((tb =? 2) || (tb =? ta))) || ((ta =? 2) && new_enum tb).

Definition bytes (len : Z) (r : list Z) : list Z := cut0 (map (fun b => b mod 256) (firstn (Z.to_nat len) r)).
Definition unsupported : list Z := [-998].
Definition zlen (l : list Z) : Z := Z.of_nat (length l).

(* op 0: xconvert + string_cast of one scalar *)
Definition obs_parse (ty : Z) (e : bool) (x : list Z) : list Z :=
  if negb (known_ty ty) then unsupported else
  let r := parse_scalar ty e x in
  let c := cast_scalar ty e x in
  [b2z (p_ok r); (if p_ok r then to_ll (p_val r) else 0); Z.of_nat (p_len r); b2z (p_err r)] ++
  match c with Some v => [1; to_ll v] | None => [0; 0] end.

(* op 1: toString(v), then stringTo on its c_str() *)
Definition obs_print (ty : Z) (v0 : Z) : list Z :=
  let v := norm ty v0 in
  if negb (known_ty ty) || negb (enum_repr_ok ty v) then unsupported else
  let s := print_scalar ty v in
  zlen s :: s ++ match cast_scalar ty false (cut0 s) with Some w => [1; to_ll w] | None => [0; 0] end.

Definition cast_pair (ta tb : Z) (e : bool) (x : list Z) : option (Z * Z) :=
  let '(sum, a, b, k) := parse_pair ta tb (init_val ta) (init_val tb) e x in
  if negb (sum =? 0) && (k =? length x)%nat then Some (a, b) else None.

(* op 2 *)
Definition obs_parse_pair (ta tb : Z) (e : bool) (x : list Z) : list Z :=
  if negb (pair_ok ta tb) then unsupported else
  let '(sum, a, b, k) := parse_pair ta tb (init_val ta) (init_val tb) e x in
  [sum; (if 1 <=? sum then to_ll a else 0); (if 2 <=? sum then to_ll b else 0); Z.of_nat k;
   match cast_pair ta tb e x with Some _ => 1 | None => 0 end].

(* op 3 *)
Definition obs_print_pair (ta tb : Z) (a0 b0 : Z) : list Z :=
  let a := norm ta a0 in let b := norm tb b0 in
  if negb (pair_ok ta tb) || negb (enum_repr_ok ta a && enum_repr_ok tb b) then unsupported else
  let s := print_pair ta tb a b in
  zlen s :: s ++ match cast_pair ta tb false (cut0 s) with Some (a', b') => [1; to_ll a'; to_ll b'] | None => [0; 0; 0] end.

Definition cast_list (ty : Z) (e : bool) (x : list Z) : bool * list Z :=
  let '(els, k, _) := parse_list ty e x in
  (negb (length els =? 0)%nat && (k =? length x)%nat, els).

(* op 4 *)
Definition obs_parse_list (ty : Z) (e : bool) (x : list Z) : list Z :=
  if negb (list_ok ty) then unsupported else
  let '(els, k, fault) := parse_list ty e x in
  (if fault then [-997] else []) ++
  zlen els :: Z.of_nat k :: map to_ll els ++ [b2z (fst (cast_list ty e x))].

(* op 5 *)
Definition obs_print_list (ty : Z) (l0 : list Z) : list Z :=
  let l := map (norm ty) l0 in
  if negb (list_ok ty) || negb (forallb (enum_repr_ok ty) l) then unsupported else
  let s := print_list ty l in
  let '(ok, els) := cast_list ty false (cut0 s) in
  zlen s :: s ++ b2z ok :: zlen els :: map to_ll els.

(* op 8: lists written into NON-EMPTY accumulators (harness/h_c16.cpp):
   8 0 ta a ty n v..            s = toString(A(a), vector<T>);      back: xconvert(s, A&, &end); *end == ',' ? string_cast(end+1, vector<T>&)
   8 1 ta a tb b ty n v..       s = toString(A(a), B(b), vector<T>); back: A, ',', B, ',', vector
   8 2 ty sep plen bytes n v..  accu = bytes; xconvert(accu, vec.begin(), vec.end(), char(sep)); back: xconvert(accu.c_str() + plen, vector<T>&, &end, sep)
   8 3 ty d n v.. m w..         accu = ""; xconvert(accu, l1); accu += char(d); xconvert(accu, l2); back: string_cast of the two parts
   8 4 ty n v..                 accu = "["; xconvert(accu, vec); accu += "]"; back: string_cast(accu, vector<T>&) *)
Definition few_ok (ty : Z) : bool := existsb (Z.eqb ty) [0; 2; 7; 10].
Definition obs_cast_list (ty : Z) (e : bool) (x : list Z) : list Z :=
  let '(ok, els) := cast_list ty e x in b2z ok :: zlen els :: map to_ll els.
Definition obs_scalar_then (ta : Z) (e : bool) (x : list Z) (k : bool -> list Z -> list Z) (fail : list Z) : list Z :=
  let r := parse_scalar ta e x in
  [b2z (p_ok r); (if p_ok r then to_ll (p_val r) else 0); Z.of_nat (p_len r)] ++
  match skipn (p_len r) x with
  | c :: t => if p_ok r && (c =? comma) then k (p_err r) t else fail
  | [] => fail
  end.
Definition obs_tostring2 (ta a0 ty : Z) (l0 : list Z) : list Z :=
  let a := norm ta a0 in let l := map (norm ty) l0 in
  if negb (comp_ok ta && comp_ok ty) || negb (enum_repr_ok ta a && forallb (enum_repr_ok ty) l) then unsupported else
  let s := tostring2 ta a ty l in
  zlen s :: s ++ obs_scalar_then ta false (cut0 s) (obs_cast_list ty) [0; 0].
Definition obs_tostring3 (ta a0 tb b0 ty : Z) (l0 : list Z) : list Z :=
  let a := norm ta a0 in let b := norm tb b0 in let l := map (norm ty) l0 in
  if negb (few_ok ta && few_ok tb && comp_ok ty) || negb (enum_repr_ok ta a && enum_repr_ok tb b && forallb (enum_repr_ok ty) l) then unsupported else
  let s := tostring3 ta a tb b ty l in
  zlen s :: s ++ obs_scalar_then ta false (cut0 s) (fun e1 t => obs_scalar_then tb e1 t (obs_cast_list ty) [0; 0]) [0; 0; 0; 0; 0].
Definition obs_append_range (ty sep : Z) (pre : list Z) (l0 : list Z) : list Z :=
  let l := map (norm ty) l0 in
  if negb (comp_ok ty) || negb (forallb (enum_repr_ok ty) l) || negb ((1 <=? sep) && (sep <=? 255)) then unsupported else
  let s := xconv_range ty sep pre l in
  let '(els, k, fault) := parse_list_s sep ty false (cut0 (skipn (length pre) s)) in
  (if fault then [-997] else []) ++ zlen s :: s ++ zlen els :: Z.of_nat k :: map to_ll els.
Definition obs_two_lists (ty d : Z) (l1 l2 : list Z) : list Z :=
  let l1 := map (norm ty) l1 in let l2 := map (norm ty) l2 in
  if negb (comp_ok ty) || negb (forallb (enum_repr_ok ty) (l1 ++ l2)) || negb ((1 <=? d) && (d <=? 255)) then unsupported else
  let s1 := xconv_list ty [] l1 in
  let s := xconv_list ty (s1 ++ [d]) l2 in
  zlen s :: s ++ zlen s1 :: obs_cast_list ty false (cut0 s1) ++ obs_cast_list ty false (cut0 (skipn (S (length s1)) s)).
Definition obs_bracketed (ty : Z) (l0 : list Z) : list Z :=
  let l := map (norm ty) l0 in
  if negb (comp_ok ty) || negb (forallb (enum_repr_ok ty) l) then unsupported else
  let s := xconv_list ty [seq_open] l ++ [seq_close] in
  zlen s :: s ++ obs_cast_list ty false (cut0 s).
Definition take_vals (r : list Z) : list Z * list Z :=      (* n v1..vn *)
  match r with
  | n :: t => (firstn (Z.to_nat n) t, skipn (Z.to_nat n) t)
  | [] => ([], [])
  end.
Definition obs_append (r : list Z) : list Z :=
  match r with
  | 0 :: ta :: a :: ty :: t => obs_tostring2 ta a ty (fst (take_vals t))
  | 1 :: ta :: a :: tb :: b :: ty :: t => obs_tostring3 ta a tb b ty (fst (take_vals t))
  | 2 :: ty :: sep :: plen :: t =>
      let pre := map (fun b => b mod 256) (firstn (Z.to_nat plen) t) in
      if (plen <? 0) || negb (length pre =? Z.to_nat plen)%nat then unsupported
      else obs_append_range ty sep pre (fst (take_vals (skipn (Z.to_nat plen) t)))
  | 3 :: ty :: d :: t => let '(l1, t2) := take_vals t in obs_two_lists ty d l1 (fst (take_vals t2))
  | 4 :: ty :: t => obs_bracketed ty (fst (take_vals t))
  | _ => unsupported
  end.

(* op 9: the stream-parsed types (harness/h_c16.cpp):
   9 0 ty e len bytes          scalar: xconvert + string_cast                                -> tok val end errno cast_ok cast_val
   9 1 ta tb e len bytes       pair<A,B>, A / B in {30..33, 1 char, 2 int}, one of them 30..33 -> sum first second end cast_ok
   9 2 ty m e len bytes        m = 0: vector<T> (the harness first runs convert_seq with maxLen = |s| + 2: a parser that makes
                               no progress is reported, not looped on); m = 1..3: the array T[m]  -> t end elems.. cast_ok
   9 4                         <climits> of the narrow types *)
Definition stream_comp (ty : Z) : bool := stream_ty ty || (ty =? 1) || (ty =? 2).
Definition obs_stream_scalar (ty : Z) (e : bool) (x : list Z) : list Z :=
  if negb (stream_ty ty) then unsupported else
  let r := parse_stream ty e x in
  let whole := p_ok r && (p_len r =? length x)%nat in
  [b2z (p_ok r); (if p_ok r then p_val r else 0); Z.of_nat (p_len r); b2z (p_err r); b2z whole; (if whole then p_val r else 0)].
Definition obs_stream_pair (ta tb : Z) (e : bool) (x : list Z) : list Z :=
  if negb (stream_comp ta && stream_comp tb && (stream_ty ta || stream_ty tb)) then unsupported else
  let '(sum, a, b, k) := parse_pair_g (parse_any ta) (parse_any tb) 0 0 e x in
  [sum; (if 1 <=? sum then to_ll a else 0); (if 2 <=? sum then to_ll b else 0); Z.of_nat k;
   b2z (negb (sum =? 0) && (k =? length x)%nat)].
Definition obs_stream_seq (ty m : Z) (e : bool) (x : list Z) : list Z :=
  if negb (stream_ty ty && (0 <=? m) && (m <=? 3)) then unsupported else
  let maxlen := if m =? 0 then S (S (length x)) else Z.to_nat m in
  let '(els, k, fault) := parse_seq_g (parse_any ty) maxlen e x in
  (if fault then [-997] else []) ++
  zlen els :: Z.of_nat k :: els ++ [b2z (negb (length els =? 0)%nat && (k =? length x)%nat)].
Definition obs_stream (r : list Z) : list Z :=
  match r with
  | 0 :: ty :: e :: len :: t => obs_stream_scalar ty (negb (e =? 0)) (bytes len t)
  | 1 :: ta :: tb :: e :: len :: t => obs_stream_pair ta tb (negb (e =? 0)) (bytes len t)
  | 2 :: ty :: m :: e :: len :: t => obs_stream_seq ty m (negb (e =? 0)) (bytes len t)
  | 4 :: _ => [c_SCHAR_MIN; c_SCHAR_MAX; c_UCHAR_MAX; c_SHRT_MIN; c_SHRT_MAX; c_USHRT_MAX]
  | _ => unsupported
  end.

(* op 6: what the translator assumed about the platform and the enum classes *)
Definition obs_meta (k : Z) : list Z :=
  if k =? 0 then map to_ll [c_INT_MIN; c_INT_MAX; c_UINT_MAX; c_LONG_MIN; c_LONG_MAX; c_ULONG_MAX; c_LLONG_MIN; c_LLONG_MAX; c_ULLONG_MAX]
  else match find_enum k enum_classes with
       | Some ec => ec_min ec :: ec_max ec :: zlen (ec_rep ec) :: ec_rep ec
       | None => unsupported
       end.

(* op 7: the harness sweeps v = lo..hi (as long long) through stringTo(toString(v)) for an integer type, bool or char and
   reports (number of values that did not come back, first such value).  The model's answer is the constant
   "none": Proofs.v / Properties_C16.v prove the round trip for every value of these types (char: except NUL),
   so the sweep is a test of the implementation against the theorem, not of the model. *)
Definition obs_sweep (ty lo hi : Z) : list Z :=
  if (0 <=? ty) && (ty <=? 7) && (lo <=? hi) then [0; 0] else unsupported.

Definition run_case (c : list Z) : list Z :=
  match c with
  | 0 :: ty :: e :: len :: r => obs_parse ty (negb (e =? 0)) (bytes len r)
  | 1 :: ty :: v :: _ => obs_print ty v
  | 2 :: ta :: tb :: e :: len :: r => obs_parse_pair ta tb (negb (e =? 0)) (bytes len r)
  | 3 :: ta :: tb :: a :: b :: _ => obs_print_pair ta tb a b
  | 4 :: ty :: e :: len :: r => obs_parse_list ty (negb (e =? 0)) (bytes len r)
  | 5 :: ty :: n :: r => obs_print_list ty (firstn (Z.to_nat n) r)
  | 6 :: k :: _ => obs_meta k
  | 7 :: ty :: lo :: hi :: _ => obs_sweep ty lo hi
  | 8 :: r => obs_append r
  | 9 :: r => obs_stream r
  | _ => unsupported
  end.
