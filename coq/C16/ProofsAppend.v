(* C16 - lists written into NON-EMPTY accumulators: xconvert(std::string& accu, IT begin, IT end, char sep) appends exactly the
   rendering of the list, whatever accu holds; the appended part reads back; toString(a, list) / toString(a, b, list) read back
   component by component. *)
Require Import V.Lib.Base V.Lib.Dec V.Gen.Consts_C16 V.C16.Model V.C16.ProofsBasic V.C16.ProofsRT V.C16.ProofsComp V.C16.ProofsCompElems.
Local Open Scope Z_scope.

(* ---------- what the appending writer writes ---------- *)
Lemma join_flat sep (a : list Z) r : join sep (a :: r) = a ++ flat_map (fun x => sep :: x) r.
Proof.
  revert a. induction r as [|b r IH]; intros a; [cbn; now rewrite app_nil_r|].
  rewrite join_cons2, IH. reflexivity.
Qed.
Lemma flat_map_map' {A B C} (g : A -> B) (f : B -> list C) l : flat_map f (map g l) = flat_map (fun x => f (g x)) l.
Proof. induction l as [|a l IH]; [reflexivity|]. cbn. now rewrite IH. Qed.
Lemma append_seq_false ty sep l : forall accu,
  append_seq ty sep false accu l = accu ++ flat_map (fun v => sep :: print_scalar ty v) l.
Proof.
  induction l as [|v r IH]; intros accu; cbn [append_seq flat_map]; [now rewrite app_nil_r|].
  rewrite IH. rewrite <- !app_assoc. reflexivity.
Qed.
Theorem range_spec ty sep accu l : xconv_range ty sep accu l = accu ++ join sep (map (print_scalar ty) l).
Proof.
  unfold xconv_range. destruct l as [|v r]; cbn [append_seq map]; [cbn; now rewrite app_nil_r|].
  rewrite append_seq_false, join_flat, flat_map_map', <- app_assoc. reflexivity.
Qed.
Corollary list_spec ty accu l : xconv_list ty accu l = accu ++ print_list ty l.
Proof. apply range_spec. Qed.
Corollary print_list_is_append ty l : print_list ty l = xconv_list ty [] l.
Proof. now rewrite list_spec. Qed.

(* ---------- the explicit-separator reader with the default separator is the reader of the other theorems ---------- *)
Lemma seq_loop_s_def ty : forall fuel e n acc, seq_loop_s def_sep fuel ty e n acc = seq_loop fuel ty e n acc.
Proof.
  induction fuel as [|f IH]; intros e n acc; [reflexivity|]. cbn [seq_loop_s seq_loop].
  destruct (negb (p_ok (parse_scalar ty e n))); [reflexivity|].
  destruct (skipn _ n) as [|c [|d t]]; try reflexivity. destruct (c =? def_sep); [apply IH | reflexivity].
Qed.
Theorem parse_list_s_def ty e x : parse_list_s def_sep ty e x = parse_list ty e x.
Proof. unfold parse_list_s, parse_list. now rewrite seq_loop_s_def. Qed.

(* ---------- the list round trip for every incoming errno state ---------- *)
Theorem list_roundtrip_e ty l e : l <> [] -> Forall (rt_ok ty) l -> Forall (cstr_el ty) l ->
  hd 0 (print_scalar ty (hd 0 l)) <> seq_open ->
  cast_list ty e (print_list ty l) = (true, l) /\ cut0 (print_list ty l) = print_list ty l.
Proof.
  intros Hne Hrt Hgp Hh. split; [|apply cut0_nul_free; now apply join_nul_free'].
  unfold print_list. set (x := join def_sep (map (print_scalar ty) l)).
  assert (Hx : x <> []) by (apply join_nonempty'; assumption).
  assert (Hb : head_is seq_open x = false).
  { apply head_is_false; [|assumption]. destruct l as [|a r]; [congruence|]. inversion Hgp as [|? ? Hga _]; subst.
    unfold x. rewrite join_head' by assumption. exact Hh. }
  unfold cast_list, parse_list. rewrite Hb. cbv iota.
  unfold x at 2. rewrite seq_loop_print'; try assumption.
  - cbn [app negb orb length Nat.sub]. rewrite Nat.sub_0_r, Nat.eqb_refl.
    destruct l; [congruence | reflexivity].
  - pose proof (join_length' ty l Hgp). fold x in H. lia.
Qed.

(* whatever the accumulator holds: the part appended by the list writer reads back as the list *)
Theorem append_roundtrip ty accu l e : l <> [] -> Forall (rt_ok ty) l -> Forall (cstr_el ty) l ->
  hd 0 (print_scalar ty (hd 0 l)) <> seq_open ->
  cast_list ty e (cut0 (skipn (length accu) (xconv_list ty accu l))) = (true, l).
Proof.
  intros Hne Hrt Hgp Hh. rewrite list_spec, skipn_app_exact.
  destruct (list_roundtrip_e ty l e Hne Hrt Hgp Hh) as [E1 E2]. now rewrite E2.
Qed.

(* ---------- toString(a, list): a, ',', list ---------- *)
Lemma comma_is_sep : comma = def_sep.
Proof. reflexivity. Qed.

Theorem tostring2_roundtrip ta a ty l : rt_ok ta a -> cstr (print_scalar ta a) ->
  l <> [] -> Forall (rt_ok ty) l -> Forall (cstr_el ty) l -> hd 0 (print_scalar ty (hd 0 l)) <> seq_open ->
  let s := tostring2 ta a ty l in
  s = print_scalar ta a ++ comma :: print_list ty l /\ cut0 s = s /\
  exists e1, parse_scalar ta false s = mkp true a (length (print_scalar ta a)) e1 /\
             skipn (length (print_scalar ta a)) s = comma :: print_list ty l /\
             cast_list ty e1 (print_list ty l) = (true, l).
Proof.
  intros Ha (Ane & Anf) Hne Hrt Hgp Hh s.
  assert (Es : s = print_scalar ta a ++ comma :: print_list ty l).
  { unfold s, tostring2. rewrite list_spec, <- app_assoc. reflexivity. }
  split; [exact Es|]. split.
  - rewrite Es. apply cut0_nul_free. apply nul_free_app; [assumption|]. constructor; [unfold comma; lia|].
    now apply join_nul_free'.
  - destruct (Ha false (def_sep :: print_list ty l) (or_intror (ex_intro _ _ eq_refl))) as (e1 & E1).
    exists e1. rewrite Es. rewrite comma_is_sep. split; [exact E1|]. split; [apply skipn_app_exact|].
    apply (list_roundtrip_e ty l e1 Hne Hrt Hgp Hh).
Qed.

(* toString(a, b, list): a, ',', b, ',', list *)
Theorem tostring3_roundtrip ta a tb b ty l : rt_ok ta a -> rt_ok tb b -> cstr (print_scalar ta a) -> cstr (print_scalar tb b) ->
  l <> [] -> Forall (rt_ok ty) l -> Forall (cstr_el ty) l -> hd 0 (print_scalar ty (hd 0 l)) <> seq_open ->
  let s := tostring3 ta a tb b ty l in
  let s2 := print_scalar tb b ++ comma :: print_list ty l in
  s = print_scalar ta a ++ comma :: s2 /\ cut0 s = s /\
  exists e1 e2, parse_scalar ta false s = mkp true a (length (print_scalar ta a)) e1 /\
                parse_scalar tb e1 s2 = mkp true b (length (print_scalar tb b)) e2 /\
                cast_list ty e2 (print_list ty l) = (true, l).
Proof.
  intros Ha Hb (Ane & Anf) (Bne & Bnf) Hne Hrt Hgp Hh s s2.
  assert (Es : s = print_scalar ta a ++ comma :: s2).
  { unfold s, s2, tostring3. rewrite list_spec, <- !app_assoc. reflexivity. }
  split; [exact Es|]. split.
  - rewrite Es. apply cut0_nul_free. apply nul_free_app; [assumption|]. constructor; [unfold comma; lia|].
    unfold s2. apply nul_free_app; [assumption|]. constructor; [unfold comma; lia|]. now apply join_nul_free'.
  - destruct (Ha false (def_sep :: s2) (or_intror (ex_intro _ _ eq_refl))) as (e1 & E1).
    destruct (Hb e1 (def_sep :: print_list ty l) (or_intror (ex_intro _ _ eq_refl))) as (e2 & E2).
    exists e1, e2. rewrite Es, comma_is_sep. split; [exact E1|]. split; [unfold s2; rewrite comma_is_sep; exact E2|].
    apply (list_roundtrip_e ty l e2 Hne Hrt Hgp Hh).
Qed.

(* instances over all element types of the model *)
Lemma all_rt ty l : Forall (elem_ok_all ty) l -> Forall (rt_ok ty) l.
Proof. intros H. eapply Forall_impl; [|exact H]. intros v Hv. now apply elem_all_rt. Qed.
Lemma all_cstr ty l : Forall (elem_ok_all ty) l -> Forall (cstr_el ty) l.
Proof. intros H. eapply Forall_impl; [|exact H]. intros v Hv. now apply elem_all_cstr. Qed.
Lemma all_head ty l : l <> [] -> Forall (elem_ok_all ty) l -> ~ (ty = 1 /\ hd 0 l = seq_open) -> hd 0 (print_scalar ty (hd 0 l)) <> seq_open.
Proof.
  intros Hne H Hn. destruct l as [|a r]; [congruence|]. cbn [hd] in *. inversion H as [|? ? Ha _]; subst.
  now apply (elem_all_head ty a Ha).
Qed.

Theorem append_roundtrip_all ty accu l e : l <> [] -> Forall (elem_ok_all ty) l -> ~ (ty = 1 /\ hd 0 l = seq_open) ->
  cast_list ty e (cut0 (skipn (length accu) (xconv_list ty accu l))) = (true, l).
Proof. intros Hne H Hn. apply append_roundtrip; auto using all_rt, all_cstr, all_head. Qed.

Theorem tostring2_roundtrip_all ta a ty l : elem_ok_all ta a -> l <> [] -> Forall (elem_ok_all ty) l -> ~ (ty = 1 /\ hd 0 l = seq_open) ->
  let s := tostring2 ta a ty l in
  s = print_scalar ta a ++ comma :: print_list ty l /\ cut0 s = s /\
  exists e1, parse_scalar ta false s = mkp true a (length (print_scalar ta a)) e1 /\
             skipn (length (print_scalar ta a)) s = comma :: print_list ty l /\
             cast_list ty e1 (print_list ty l) = (true, l).
Proof.
  intros Ha Hne H Hn. apply tostring2_roundtrip; auto using all_rt, all_cstr, all_head, elem_all_rt. now apply elem_all_cstr.
Qed.

Theorem tostring3_roundtrip_all ta a tb b ty l : elem_ok_all ta a -> elem_ok_all tb b ->
  l <> [] -> Forall (elem_ok_all ty) l -> ~ (ty = 1 /\ hd 0 l = seq_open) ->
  let s := tostring3 ta a tb b ty l in
  let s2 := print_scalar tb b ++ comma :: print_list ty l in
  s = print_scalar ta a ++ comma :: s2 /\ cut0 s = s /\
  exists e1 e2, parse_scalar ta false s = mkp true a (length (print_scalar ta a)) e1 /\
                parse_scalar tb e1 s2 = mkp true b (length (print_scalar tb b)) e2 /\
                cast_list ty e2 (print_list ty l) = (true, l).
Proof.
  intros Ha Hb Hne H Hn. apply tostring3_roundtrip; auto using all_rt, all_cstr, all_head, elem_all_rt; now apply elem_all_cstr.
Qed.
