(* C16 - the stream-parsed types (fall back template xconvert(const char*, T&, const char**, double)): the end position lies inside the
   string, an accepted text consumes at least one character, the value lies in the range of the type; the generic pair / sequence
   templates of the stream section are the ones the typed element types go through. *)
Require Import V.Lib.Base V.Lib.Dec V.Gen.Consts_C16 V.C16.Model V.C16.ProofsBasic.
Require Import ZifyBool.
Local Open Scope Z_scope.

Lemma take_drop_len p s : (length (take_while p s) + length (drop_while p s) = length s)%nat.
Proof. rewrite <- app_length, take_drop. reflexivity. Qed.

Lemma sign_split_len s : (length (fst (sign_split s)) + length (snd (sign_split s)) = length s)%nat.
Proof.
  unfold sign_split. destruct s as [|c r]; [reflexivity|].
  destruct ((c =? 45) || (c =? 43)); cbn [fst snd length]; lia.
Qed.

Lemma stream_char_inside sgn e x :
  (p_len (parse_stream_char sgn e x) <= length x)%nat /\
  (p_ok (parse_stream_char sgn e x) = true -> (1 <= p_len (parse_stream_char sgn e x))%nat).
Proof.
  unfold parse_stream_char. pose proof (take_drop_len is_space x) as H.
  destruct (drop_while is_space x) as [|c r]; cbn [p_len p_ok pfail length] in *; split; try lia; discriminate.
Qed.

Lemma stream_num_inside sgn lo hi e x :
  (p_len (parse_stream_num sgn lo hi e x) <= length x)%nat /\
  (p_ok (parse_stream_num sgn lo hi e x) = true -> (1 <= p_len (parse_stream_num sgn lo hi e x))%nat).
Proof.
  unfold parse_stream_num.
  pose proof (take_drop_len is_space x) as H1.
  pose proof (sign_split_len (drop_while is_space x)) as H2.
  pose proof (take_drop_len is_dec_digit (snd (sign_split (drop_while is_space x)))) as H3.
  destruct (take_while is_dec_digit (snd (sign_split (drop_while is_space x)))) as [|d ds] eqn:E;
    [cbn [p_len p_ok pfail]; split; [lia|discriminate]|].
  cbn [length] in H3.
  destruct sgn.
  - destruct ((_ <? lo) || (_ >? hi)); cbn [p_len p_ok pfail length]; split; try lia; discriminate.
  - destruct (_ >? hi); cbn [p_len p_ok pfail length]; split; try lia; discriminate.
Qed.

Lemma stream_inside ty e x :
  (p_len (parse_stream ty e x) <= length x)%nat /\
  (p_ok (parse_stream ty e x) = true -> (1 <= p_len (parse_stream ty e x))%nat).
Proof.
  unfold parse_stream.
  destruct (ty =? 30); [apply stream_char_inside|].
  destruct (ty =? 31); [apply stream_char_inside|].
  destruct (ty =? 32); apply stream_num_inside.
Qed.

(* errno is not touched *)
Lemma stream_errno ty e x : p_err (parse_stream ty e x) = e.
Proof.
  unfold parse_stream, parse_stream_char, parse_stream_num.
  destruct (ty =? 30); [destruct (drop_while is_space x); reflexivity|].
  destruct (ty =? 31); [destruct (drop_while is_space x); reflexivity|].
  destruct (ty =? 32).
  - destruct (take_while is_dec_digit _); [reflexivity|]. destruct (_ || _); reflexivity.
  - destruct (take_while is_dec_digit _); [reflexivity|]. destruct (_ >? _); reflexivity.
Qed.

(* an 8-bit target receives the code of ONE character behind the white space *)
Lemma stream_char_value sgn e x c r :
  drop_while is_space x = c :: r ->
  parse_stream_char sgn e x = mkp true (if sgn && (c >? c_SCHAR_MAX) then c - (c_UCHAR_MAX + 1) else c) (S (length (take_while is_space x))) e.
Proof. intros H. unfold parse_stream_char. rewrite H. reflexivity. Qed.

Lemma value_base_nonneg l : 0 <= value_base 10 l.
Proof.
  unfold value_base.
  assert (G : forall k a, 0 <= a -> 0 <= fold_left (fun a c => a * 10 + digit_val c) k a).
  { induction k as [|c k IH]; intros a Ha; cbn [fold_left]; [exact Ha|]. apply IH.
    assert (0 <= digit_val c). { unfold digit_val. destruct ((48 <=? c) && (c <=? 57)) eqn:E1; [lia|]. destruct ((97 <=? c) && (c <=? 122)) eqn:E2; [lia|]. destruct ((65 <=? c) && (c <=? 90)) eqn:E3; lia. }
    lia. }
  apply G. lia.
Qed.

(* short / unsigned short: an accepted value lies in the range *)
Lemma stream_num_range sgn lo hi e x :
  lo <= 0 <= hi -> (sgn = false -> lo = 0) ->
  p_ok (parse_stream_num sgn lo hi e x) = true -> lo <= p_val (parse_stream_num sgn lo hi e x) <= hi.
Proof.
  intros Hr Hu. unfold parse_stream_num.
  destruct (take_while is_dec_digit _) as [|d ds]; [discriminate|].
  set (m := value_base 10 (d :: ds)).
  destruct sgn.
  - destruct ((_ <? lo) || (_ >? hi)) eqn:E; [discriminate|]. cbn [p_ok p_val]. intros _. lia.
  - rewrite (Hu eq_refl) in *. destruct (m >? hi) eqn:E; [discriminate|]. cbn [p_ok p_val]. intros _.
    destruct (match fst _ with [] => false | c :: _ => c =? 45 end).
    + pose proof (Z.mod_pos_bound (hi + 1 - m) (hi + 1)). lia.
    + pose proof (value_base_nonneg (d :: ds)). fold m in H.
      lia.
Qed.

(* the templates are the same code for every element type *)
Lemma pair_template_instance ta tb ia ib e x :
  parse_pair ta tb ia ib e x = parse_pair_g (parse_scalar ta) (parse_scalar tb) ia ib e x.
Proof. reflexivity. Qed.

Lemma seq_template_instance ty : forall fuel maxlen e n acc,
  (length acc + fuel <= maxlen)%nat ->
  seq_loop_g (parse_scalar ty) def_sep fuel maxlen e n acc = seq_loop fuel ty e n acc.
Proof.
  induction fuel as [|f IH]; intros maxlen e n acc H; [reflexivity|].
  cbn [seq_loop_g seq_loop].
  assert ((length acc =? maxlen)%nat = false) as -> by (apply Nat.eqb_neq; lia).
  destruct (negb (p_ok (parse_scalar ty e n))); [reflexivity|].
  destruct (skipn (p_len (parse_scalar ty e n)) n) as [|c [|c2 t]]; try reflexivity.
  destruct (c =? def_sep); [|reflexivity].
  apply IH. rewrite app_length. cbn [length]. lia.
Qed.
