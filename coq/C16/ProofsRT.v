(* C16 - round trip of the integer types, bool and char: parse (print v ++ rest) = v for every value,
   for clean and stale errno, with any continuation that does not start with a letter or digit. *)
Require Import V.Lib.Base V.Lib.Dec V.Gen.Consts_C16 V.C16.Model V.C16.ProofsBasic.
Require Import ZifyBool.
Local Open Scope Z_scope.

Ltac consts := unfold int_min, int_max, uint_min, uint_max, long_min, long_max, ulong_min, ulong_max, llong_min, llong_max,
  ullong_min, ullong_max, two64, c_INT_MIN, c_INT_MAX, c_UINT_MAX, c_LONG_MIN, c_LONG_MAX, c_ULONG_MAX, c_LLONG_MIN, c_LLONG_MAX, c_ULLONG_MAX in *.

(* what may follow a printed value: nothing, or a character that is neither letter nor digit (',' ')' ']' ' ' ...) *)
Definition nonalnum (rest : list Z) : Prop := match rest with [] => True | c :: _ => digit_val c = 99 end.

Lemma nonalnum_stops base rest : base <= 36 -> nonalnum rest -> stops_at (is_bdigit base) rest.
Proof. destruct rest as [|c r]; cbn; [trivial|]. unfold is_bdigit. intros Hb H. rewrite H. lia. Qed.

Lemma strncmp_eq_app' lit rest n : n = length lit -> strncmp_eq (lit ++ rest) lit n = true.
Proof. intros ->. apply strncmp_eq_app. Qed.

(* ---------- the digits StringBuilder::append_ produces ---------- *)
Definition dec (n : Z) : list Z := digits_f 64 n [].

Lemma dec_spec n : 0 <= n < 2 ^ 64 ->
  all_digits (dec n) /\ dec n <> [] /\ (forall a, value_acc a (dec n) = a * 10 ^ Z.of_nat (length (dec n)) + n) /\
  (hd 0 (dec n) = 48 -> n = 0).
Proof.
  intros H. unfold dec.
  destruct (digits_f_spec 64 n [] ltac:(change (Z.of_nat 64) with 64; exact H) ltac:(lia)) as (ds & E & Hd & Hne & Hv & Hz).
  rewrite app_nil_r in E. rewrite E. auto.
Qed.

Lemma dec_value n : 0 <= n < 2 ^ 64 -> value (dec n) = n.
Proof. intros H. destruct (dec_spec n H) as (_ & _ & Hv & _). unfold value. rewrite Hv. lia. Qed.

Lemma dec_zero_form n : 0 <= n < 2 ^ 64 -> hd 0 (dec n) = 48 -> dec n = [48].
Proof. intros H H0. destruct (dec_spec n H) as (_ & _ & _ & Hz). rewrite (Hz H0). reflexivity. Qed.

Lemma dec_head_digit n : 0 <= n < 2 ^ 64 -> exists d r, dec n = d :: r /\ is_digit d = true.
Proof.
  intros H. destruct (dec_spec n H) as (Hd & Hne & _ & _).
  destruct (dec n) as [|d r]; [congruence|]. exists d, r. split; [reflexivity|]. inversion Hd; assumption.
Qed.

Lemma print_signed_nonneg v : 0 <= v < 2 ^ 63 -> print_signed v = dec v.
Proof.
  intros H. unfold print_signed, append_num. destruct (Z.leb_spec 0 v); [|lia].
  consts. rewrite Z.mod_small by lia. reflexivity.
Qed.

Lemma print_signed_neg v : - 2 ^ 63 <= v < 0 -> print_signed v = 45 :: dec (- v).
Proof.
  intros H. unfold print_signed, append_num. destruct (Z.leb_spec 0 v); [lia|].
  consts. replace ((18446744073709551615 + 1 - v mod (18446744073709551615 + 1)) mod (18446744073709551615 + 1)) with (- v); [reflexivity|].
  assert (v mod (18446744073709551615 + 1) = v + 18446744073709551616).
  { symmetry. apply Z.mod_unique with (q := -1); lia. }
  rewrite H1. replace (18446744073709551615 + 1 - (v + 18446744073709551616)) with (- v) by lia.
  rewrite Z.mod_small; lia.
Qed.

(* ---------- scanning a decimal numeral ---------- *)
Lemma all_digits_bdigit ds : all_digits ds -> Forall (fun c => is_bdigit 10 c = true) ds.
Proof. intros H. eapply Forall_impl; [|exact H]. intros c Hc. now rewrite is_bdigit10. Qed.

Lemma digit_not_space d : is_digit d = true -> is_space d = false.
Proof. unfold is_digit, is_space. lia. Qed.

Lemma scan_dec sg ds rest : sg = [] \/ sg = [45] -> all_digits ds -> ds <> [] -> stops_at (is_bdigit 10) rest ->
  scan_num 10 (sg ++ ds ++ rest) = mkscan [] sg [] ds rest.
Proof.
  intros Hsg Hd Hne Hst. destruct ds as [|d ds']; [congruence|].
  assert (Hdd : is_digit d = true) by (inversion Hd; assumption).
  assert (Hsp : is_space d = false) by (apply digit_not_space; assumption).
  unfold scan_num. destruct Hsg as [->| ->]; cbn [app].
  - rewrite take_while_head_false, drop_while_head_false by assumption.
    unfold sign_split. assert ((d =? 45) || (d =? 43) = false) by (unfold is_digit in Hdd; lia). rewrite H. cbn [fst snd].
    rewrite prefix_split_not16 by lia. cbn [fst snd].
    change (d :: ds' ++ rest) with ((d :: ds') ++ rest).
    rewrite take_while_app, drop_while_app by (try apply all_digits_bdigit; assumption). reflexivity.
  - rewrite take_while_head_false, drop_while_head_false by reflexivity.
    change (sign_split (45 :: d :: ds' ++ rest)) with ([45], d :: ds' ++ rest). cbn [fst snd].
    rewrite prefix_split_not16 by lia. cbn [fst snd].
    change (d :: ds' ++ rest) with ((d :: ds') ++ rest).
    rewrite take_while_app, drop_while_app by (try apply all_digits_bdigit; assumption). reflexivity.
Qed.

Lemma detect_base_dec sg ds rest : sg = [] \/ sg = [45] -> all_digits ds -> ds <> [] -> (hd 0 ds = 48 -> ds = [48]) ->
  nonalnum rest -> detect_base (sg ++ ds ++ rest) = 10.
Proof.
  intros Hsg Hd Hne Hz Hr. destruct ds as [|d ds']; [congruence|].
  destruct Hsg as [->| ->]; cbn [app].
  - unfold detect_base. cbn [hd] in Hz.
    destruct (Z.eqb_spec d base_lead) as [E|E].
    + unfold base_lead in E. specialize (Hz E). injection Hz as Hds. subst ds'. cbn [app].
      destruct rest as [|c r]; [reflexivity|]. cbn in Hr.
      unfold base_hex_c1, base_hex_c2, base_oct_lo, base_oct_hi, base_default.
      unfold digit_val in Hr.
      destruct ((48 <=? c) && (c <=? 57)) eqn:E1; [lia|].
      destruct ((97 <=? c) && (c <=? 122)) eqn:E2; [lia|].
      destruct ((65 <=? c) && (c <=? 90)) eqn:E3; [lia|].
      destruct ((c =? 120) || (c =? 88)) eqn:E4; [lia|].
      destruct ((48 <=? c) && (c <=? 55)) eqn:E5; [lia|]. reflexivity.
    + destruct (ds' ++ rest); reflexivity.
  - unfold detect_base, base_lead. cbn. reflexivity.
Qed.

Lemma value_base_digits ds : all_digits ds -> value_base 10 ds = value ds.
Proof. apply value_base10_value. Qed.

(* ---------- signed types ---------- *)
Lemma signed_kw_none c x smin smax : c <> 105 -> signed_kw signed_keywords (c :: x) smin smax = None.
Proof.
  intros H. unfold signed_keywords. cbn [signed_kw].
  rewrite !strncmp_eq_head_ne by assumption. reflexivity.
Qed.

Lemma parse_signed_dec e sg ds rest smin smax v :
  sg = [] \/ sg = [45] -> all_digits ds -> ds <> [] -> (hd 0 ds = 48 -> ds = [48]) -> nonalnum rest ->
  v = (if list_eqb sg [45] then - value ds else value ds) ->
  c_LLONG_MIN <= smin -> smax <= c_LLONG_MAX -> smin <= v <= smax ->
  exists e', parse_signed e (sg ++ ds ++ rest) smin smax = mkp true v (length (sg ++ ds)) e'.
Proof.
  intros Hsg Hd Hne Hz Hr Hv Hmin Hmax Hrange.
  assert (Hbase : detect_base (sg ++ ds ++ rest) = 10) by (apply detect_base_dec; assumption).
  assert (Hscan : scan_num 10 (sg ++ ds ++ rest) = mkscan [] sg [] ds rest).
  { apply scan_dec; try assumption. apply nonalnum_stops; [lia | assumption]. }
  assert (Hhead : exists c x, sg ++ ds ++ rest = c :: x /\ c <> 105).
  { destruct ds as [|d ds']; [congruence|]. assert (is_digit d = true) by (inversion Hd; assumption).
    destruct Hsg as [->| ->]; cbn [app]; eexists; eexists; (split; [reflexivity|]); unfold is_digit in *; lia. }
  destruct Hhead as (c & x & Ex & Hc).
  unfold parse_signed. rewrite Ex. rewrite signed_kw_none by assumption. rewrite <- Ex. rewrite Hbase.
  assert (Hm : forall (A : Type) (a b : A), match ds with [] => a | _ :: _ => b end = b) by (intros; destruct ds; [congruence | reflexivity]).
  unfold strtoll. rewrite Hscan. cbn [sc_ds]. rewrite Hm.
  unfold sc_len, sc_neg. cbn [sc_ds sc_ws sc_sign sc_pre]. rewrite !Hm.
  rewrite value_base_digits by assumption.
  assert (Hv' : (if match sg with c0 :: _ => c0 =? 45 | [] => false end then - value ds else value ds) = v).
  { rewrite Hv. destruct Hsg as [->| ->]; reflexivity. }
  rewrite Hv'.
  assert (Hlen : (length (@nil Z) + length sg + length (@nil Z) + length ds)%nat = length (sg ++ ds)).
  { rewrite app_length. cbn. lia. }
  rewrite Hlen.
  destruct (Z.gtb_spec v c_LLONG_MAX); [lia|]. destruct (Z.ltb_spec v c_LLONG_MIN); [lia|].
  rewrite orb_false_r.
  assert (Hl0 : (length (sg ++ ds) =? 0)%nat = false).
  { apply Nat.eqb_neq. rewrite app_length. destruct ds; [congruence|]. cbn. lia. }
  destruct (((v =? c_LLONG_MAX) || (v =? c_LLONG_MIN)) && e) eqn:Eb.
  - rewrite Hl0. destruct (Z.ltb_spec v smin); [lia|]. destruct (Z.gtb_spec v smax); [lia|]. cbn. eexists. reflexivity.
  - rewrite Hl0. destruct (Z.ltb_spec v smin); [lia|]. destruct (Z.gtb_spec v smax); [lia|]. cbn. eexists. reflexivity.
Qed.

Theorem parse_signed_print e v rest smin smax :
  c_LLONG_MIN <= smin -> smax <= c_LLONG_MAX -> smin <= v <= smax -> nonalnum rest ->
  exists e', parse_signed e (print_signed v ++ rest) smin smax = mkp true v (length (print_signed v)) e'.
Proof.
  intros Hmin Hmax Hr Hrest. assert (Hv : - 2 ^ 63 <= v < 2 ^ 63) by (consts; lia).
  destruct (Z.lt_ge_cases v 0) as [Hneg|Hpos].
  - rewrite print_signed_neg by lia.
    assert (Hn : 0 <= - v < 2 ^ 64) by lia.
    destruct (dec_spec (- v) Hn) as (Hd & Hne & _ & _).
    change (45 :: dec (- v)) with ([45] ++ dec (- v)). rewrite <- app_assoc.
    apply parse_signed_dec; try assumption; [now right | apply dec_zero_form; assumption |].
    cbn [list_eqb Z.eqb andb]. rewrite dec_value by assumption. change (list_eqb [45] [45]) with true. cbn. lia.
  - rewrite print_signed_nonneg by lia.
    assert (Hn : 0 <= v < 2 ^ 64) by lia.
    destruct (dec_spec v Hn) as (Hd & Hne & _ & _).
    change (dec v ++ rest) with ([] ++ dec v ++ rest). change (dec v) with ([] ++ dec v) at 2.
    apply parse_signed_dec; try assumption; [now left | apply dec_zero_form; assumption |].
    cbn [list_eqb]. now rewrite dec_value.
Qed.

(* ---------- unsigned types ---------- *)
Lemma unsigned_kw_none c x : c <> 105 -> c <> 117 -> c <> 45 -> unsigned_kw unsigned_keywords (c :: x) = None.
Proof.
  intros H1 H2 H3. unfold unsigned_keywords. cbn [unsigned_kw].
  rewrite !strncmp_eq_head_ne by assumption. reflexivity.
Qed.

Lemma existsb_minus_digits ds : all_digits ds -> existsb (Z.eqb 45) ds = false.
Proof.
  induction 1 as [|d r Hd Hr IH]; cbn [existsb]; [reflexivity|]. rewrite IH. unfold is_digit in Hd.
  destruct (Z.eqb_spec 45 d); [lia | reflexivity].
Qed.

Lemma parse_unsigned_dec e ds rest umax :
  all_digits ds -> ds <> [] -> (hd 0 ds = 48 -> ds = [48]) -> nonalnum rest ->
  umax <= c_ULLONG_MAX -> value ds <= umax ->
  exists e', parse_unsigned e (ds ++ rest) umax = mkp true (value ds) (length ds) e'.
Proof.
  intros Hd Hne Hz Hr Hmax Hrange.
  assert (Hbase : detect_base ([] ++ ds ++ rest) = 10) by (apply detect_base_dec; try assumption; now left).
  assert (Hscan : scan_num 10 ([] ++ ds ++ rest) = mkscan [] [] [] ds rest).
  { apply scan_dec; try assumption; [now left|]. apply nonalnum_stops; [lia | assumption]. }
  cbn [app] in Hbase, Hscan.
  destruct ds as [|d ds'] eqn:Eds; [congruence|]. rewrite <- Eds in *.
  assert (Hdd : is_digit d = true) by (rewrite Eds in Hd; inversion Hd; assumption).
  assert (Ex : ds ++ rest = d :: (ds' ++ rest)) by (rewrite Eds; reflexivity).
  unfold parse_unsigned. rewrite Ex.
  assert (Hc0 : (d =? unsigned_neg_char) = false) by (unfold unsigned_neg_char, is_digit in *; lia).
  rewrite Hc0. cbn [andb].
  rewrite unsigned_kw_none by (unfold is_digit in Hdd; lia).
  rewrite <- Ex. rewrite Hbase.
  assert (Hm : forall (A : Type) (a b : A), match ds with [] => a | _ :: _ => b end = b) by (intros; destruct ds; [congruence | reflexivity]).
  unfold strtoull. rewrite Hscan. cbn [sc_ds]. rewrite Hm.
  unfold sc_len, sc_neg. cbn [sc_ds sc_ws sc_sign sc_pre]. rewrite !Hm.
  rewrite value_base_digits by assumption.
  assert (H0 : 0 <= value ds) by (apply value_acc_nonneg; [lia | assumption]).
  destruct (Z.gtb_spec (value ds) c_ULLONG_MAX); [lia|].
  cbn [length Nat.add]. rewrite orb_false_r.
  assert (Hl0 : (length ds =? 0)%nat = false) by (apply Nat.eqb_neq; rewrite Eds; cbn; lia).
  assert (Hmc : existsb (Z.eqb 45) (firstn (length ds) (ds ++ rest)) = false).
  { rewrite firstn_app_exact. apply existsb_minus_digits. assumption. }
  destruct ((value ds =? c_ULLONG_MAX) && e) eqn:Eb;
    rewrite Hl0, Hmc; (destruct (Z.gtb_spec (value ds) umax); [lia|]); cbn; eexists; reflexivity.
Qed.

Lemma parse_unsigned_umax e rest umax :
  exists e', parse_unsigned e (ulong_max_str ++ rest) umax = mkp true umax (length ulong_max_str) e'.
Proof.
  unfold ulong_max_str, parse_unsigned. cbn [app]. unfold unsigned_neg_char. cbn [Z.eqb andb].
  change (117 =? 45) with false. cbn [andb].
  unfold unsigned_keywords. cbn [unsigned_kw]. rewrite strncmp_eq_head_ne by lia.
  change (117 :: 109 :: 97 :: 120 :: rest) with ([117; 109; 97; 120] ++ rest).
  rewrite (strncmp_eq_app' [117; 109; 97; 120] rest 4 eq_refl).
  unfold unsigned_kw_half_char. change (117 =? 105) with false. cbn. eexists. reflexivity.
Qed.

Lemma print_ulong_small v : 0 <= v < c_ULONG_MAX -> print_ulong v = dec v.
Proof.
  intros H. unfold print_ulong. destruct (Z.eqb_spec v c_ULONG_MAX); [lia|]. unfold append_num. reflexivity.
Qed.

Theorem parse_unsigned_print_ulong e v rest umax :
  umax <= c_ULLONG_MAX -> 0 <= v <= umax -> v < c_ULONG_MAX -> nonalnum rest ->
  exists e', parse_unsigned e (print_ulong v ++ rest) umax = mkp true v (length (print_ulong v)) e'.
Proof.
  intros Hmax Hr Hlt Hrest. rewrite print_ulong_small by lia.
  assert (Hn : 0 <= v < 2 ^ 64) by (consts; lia).
  destruct (dec_spec v Hn) as (Hd & Hne & _ & _).
  destruct (parse_unsigned_dec e (dec v) rest umax Hd Hne (dec_zero_form v Hn) Hrest Hmax) as (e' & E).
  { rewrite dec_value by assumption; lia. }
  rewrite dec_value in E by assumption. exists e'. exact E.
Qed.

(* ---------- the typed front ends ---------- *)
Definition ty_min (ty : Z) : Z :=
  if ty =? 2 then int_min else if ty =? 3 then uint_min else if ty =? 4 then long_min else if ty =? 5 then ulong_min
  else if ty =? 6 then llong_min else ullong_min.
Definition ty_max (ty : Z) : Z :=
  if ty =? 2 then int_max else if ty =? 3 then uint_max else if ty =? 4 then long_max else if ty =? 5 then ulong_max
  else if ty =? 6 then llong_max else ullong_max.
Definition int_ty (ty : Z) : Prop := 2 <= ty <= 7.

Theorem roundtrip_int ty v e rest : int_ty ty -> ty_min ty <= v <= ty_max ty -> nonalnum rest ->
  exists e', parse_scalar ty e (print_scalar ty v ++ rest) = mkp true v (length (print_scalar ty v)) e'.
Proof.
  intros Hty Hr Hrest. unfold int_ty in Hty.
  assert (Hc : ty = 2 \/ ty = 3 \/ ty = 4 \/ ty = 5 \/ ty = 6 \/ ty = 7) by lia.
  destruct Hc as [->|[->|[->|[->|[->| ->]]]]]; unfold ty_min, ty_max in Hr; cbn in Hr;
    unfold parse_scalar, print_scalar; cbn.
  - apply parse_signed_print; try assumption; consts; lia.
  - unfold print_uint. destruct (Z.eqb_spec v c_UINT_MAX) as [->|Hne].
    + unfold print_ulong. rewrite Z.eqb_refl.
      destruct (parse_unsigned_umax e rest uint_max) as (e' & E). exists e'. rewrite E. reflexivity.
    + apply parse_unsigned_print_ulong; try assumption; consts; lia.
  - apply parse_signed_print; try assumption; consts; lia.
  - destruct (Z.eqb_spec v c_ULONG_MAX) as [->|Hne].
    + unfold print_ulong. rewrite Z.eqb_refl.
      destruct (parse_unsigned_umax e rest ulong_max) as (e' & E). exists e'. rewrite E. reflexivity.
    + apply parse_unsigned_print_ulong; try assumption; consts; lia.
  - apply parse_signed_print; try assumption; consts; lia.
  - unfold print_ullong. destruct (Z.eqb_spec v c_ULLONG_MAX) as [->|Hne].
    + change ullong_max_str with ulong_max_str.
      destruct (parse_unsigned_umax e rest ullong_max) as (e' & E). exists e'. rewrite E. reflexivity.
    + change (append_num v true) with (dec v).
      assert (Hn : 0 <= v < 2 ^ 64) by (consts; lia).
      destruct (dec_spec v Hn) as (Hd & Hnn & _ & _).
      destruct (parse_unsigned_dec e (dec v) rest ullong_max Hd Hnn (dec_zero_form v Hn) Hrest) as (e' & E).
      { consts; lia. }
      { rewrite dec_value by assumption; lia. }
      rewrite dec_value in E by assumption. exists e'. exact E.
Qed.

(* bool: any continuation *)
Theorem roundtrip_bool v e rest : v = 0 \/ v = 1 ->
  parse_scalar 0 e (print_scalar 0 v ++ rest) = mkp true v (length (print_scalar 0 v)) e.
Proof.
  intros [->| ->]; unfold parse_scalar, print_scalar; cbn [Z.eqb]; cbv iota.
  - unfold bool_false_str, parse_bool. cbn [app]. unfold bool_words. cbn [bool_kw].
    rewrite !strncmp_eq_head_ne by lia.
    change (102 :: 97 :: 108 :: 115 :: 101 :: rest) with ([102; 97; 108; 115; 101] ++ rest).
    rewrite (strncmp_eq_app' [102; 97; 108; 115; 101] rest 5 eq_refl). reflexivity.
  - unfold bool_true_str, parse_bool. cbn [app]. unfold bool_words. cbn [bool_kw].
    rewrite !strncmp_eq_head_ne by lia.
    change (116 :: 114 :: 117 :: 101 :: rest) with ([116; 114; 117; 101] ++ rest).
    rewrite (strncmp_eq_app' [116; 114; 117; 101] rest 4 eq_refl). reflexivity.
Qed.

(* char: every byte; a backslash must not be followed by one of the escape letters (they are letters: nonalnum excludes them) *)
Theorem roundtrip_char c e rest : 0 <= c <= 255 -> nonalnum rest ->
  parse_scalar 1 e (print_scalar 1 c ++ rest) = mkp true c 1 e.
Proof.
  intros Hc Hr. change (print_scalar 1 c) with [c]. change (parse_scalar 1 e ([c] ++ rest)) with (parse_char e ([c] ++ rest)).
  cbn [app]. unfold parse_char.
  destruct (Z.eqb_spec c char_escape_lead) as [E|E]; [|reflexivity].
  destruct rest as [|d r]; [reflexivity|]. cbn [hd]. cbn in Hr.
  unfold char_escapes. cbn [assoc].
  assert (d <> 116 /\ d <> 110 /\ d <> 118).
  { unfold digit_val in Hr. destruct ((48 <=? d) && (d <=? 57)) eqn:E1; [lia|].
    destruct ((97 <=? d) && (d <=? 122)) eqn:E2; lia. }
  destruct (Z.eqb_spec 116 d); [lia|]. destruct (Z.eqb_spec 110 d); [lia|]. destruct (Z.eqb_spec 118 d); [lia|]. reflexivity.
Qed.
