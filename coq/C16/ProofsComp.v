(* C16 - pairs and lists: round trip for element types whose values read back when followed by the separator,
   the sequence loop never runs out of fuel, and the shapes that do NOT round-trip (witnesses). *)
Require Import V.Lib.Base V.Lib.Dec V.Gen.Consts_C16 V.C16.Model V.C16.ProofsBasic V.C16.ProofsRT.
Require Import ZifyBool.
Local Open Scope Z_scope.

Definition sep_or_end (rest : list Z) : Prop := rest = [] \/ exists r, rest = def_sep :: r.

(* value v of element type ty reads back from its printed form when the separator or the end follows *)
Definition rt_ok (ty v : Z) : Prop :=
  forall e rest, sep_or_end rest ->
    exists e', parse_scalar ty e (print_scalar ty v ++ rest) = mkp true v (length (print_scalar ty v)) e'.
(* the printed form is a non-empty C string that does not start with '(' or '[' *)
Definition good_print (ty v : Z) : Prop :=
  print_scalar ty v <> [] /\ nul_free (print_scalar ty v) /\
  hd 0 (print_scalar ty v) <> pair_open /\ hd 0 (print_scalar ty v) <> seq_open.

Lemma head_is_false c s : hd 0 s <> c -> s <> [] -> head_is c s = false.
Proof. destruct s as [|d r]; [congruence|]. cbn. intros H _. destruct (Z.eqb_spec d c); [contradiction | reflexivity]. Qed.

Lemma nul_free_app a b : nul_free a -> nul_free b -> nul_free (a ++ b).
Proof. unfold nul_free. intros. apply Forall_app. now split. Qed.

(* ---------- pairs ---------- *)
Theorem pair_roundtrip ta tb a b : rt_ok ta a -> rt_ok tb b -> good_print ta a -> good_print tb b ->
  cast_pair ta tb false (cut0 (print_pair ta tb a b)) = Some (a, b).
Proof.
  intros Ha Hb (Ane & Anf & Ap & _) (Bne & Bnf & _ & _).
  unfold print_pair. set (A := print_scalar ta a) in *. set (B := print_scalar tb b) in *.
  assert (Hnf : nul_free (A ++ def_sep :: B)).
  { apply nul_free_app; [assumption|]. constructor; [unfold def_sep; lia | assumption]. }
  rewrite (cut0_nul_free _ Hnf).
  destruct (Ha false (def_sep :: B) (or_intror (ex_intro _ B eq_refl))) as (e1 & E1). fold A in E1.
  destruct (Hb e1 [] (or_introl eq_refl)) as (e2 & E2). fold B in E2. rewrite app_nil_r in E2.
  unfold cast_pair, parse_pair.
  assert (Hps : head_is pair_open (A ++ def_sep :: B) = false).
  { apply head_is_false; [|destruct A; [congruence | discriminate]]. destruct A; [congruence | exact Ap]. }
  rewrite Hps. cbv iota. rewrite E1. cbn [p_ok p_len p_val p_err]. rewrite skipn_app_exact.
  destruct B as [|b0 B'] eqn:EB; [congruence|]. rewrite <- EB in *.
  replace (def_sep :: B) with (def_sep :: b0 :: B') by (rewrite EB; reflexivity). cbv iota beta.
  rewrite Z.eqb_refl. cbn [andb]. rewrite <- EB. rewrite E2. cbn [p_ok p_len p_val p_err].
  assert (Hsk : skipn (length B) B = []) by (rewrite <- (app_nil_r B) at 2; apply skipn_app_exact).
  rewrite Hsk. cbn [negb orb]. cbn [length Nat.sub]. rewrite Nat.sub_0_r.
  change (2 =? 0) with false. cbn [negb andb]. rewrite Nat.eqb_refl. reflexivity.
Qed.

(* ---------- lists ---------- *)
Lemma join_cons2 sep a b r : join sep (a :: b :: r) = a ++ sep :: join sep (b :: r).
Proof. reflexivity. Qed.

Lemma join_nonempty ty l : l <> [] -> Forall (good_print ty) l -> join def_sep (map (print_scalar ty) l) <> [].
Proof.
  intros Hne H. destruct l as [|a r]; [congruence|]. inversion H as [|? ? (Ane & _) Hr]; subst.
  destruct r as [|b r']; cbn [map join]; [assumption|].
  destruct (print_scalar ty a); [congruence | discriminate].
Qed.

Lemma seq_loop_print ty l : forall fuel e acc, l <> [] -> Forall (rt_ok ty) l -> Forall (good_print ty) l ->
  (length l <= fuel)%nat ->
  seq_loop fuel ty e (join def_sep (map (print_scalar ty) l)) acc = (acc ++ l, [], false).
Proof.
  induction l as [|a r IH]; intros fuel e acc Hne Hrt Hgp Hf; [congruence|].
  inversion Hrt as [|? ? Ha Hrt']; subst. inversion Hgp as [|? ? Hga Hgp']; subst.
  destruct fuel as [|f]; [cbn [length] in Hf; lia|]. cbn [length] in Hf.
  destruct r as [|b r'].
  - cbn [map join seq_loop]. destruct (Ha e [] (or_introl eq_refl)) as (e1 & E1). rewrite app_nil_r in E1.
    rewrite E1. cbn [p_ok p_len p_val p_err negb].
    assert (Hsk : skipn (length (print_scalar ty a)) (print_scalar ty a) = []).
    { rewrite <- (app_nil_r (print_scalar ty a)) at 2. apply skipn_app_exact. }
    rewrite Hsk. reflexivity.
  - cbn [map]. rewrite join_cons2. set (J := join def_sep (print_scalar ty b :: map (print_scalar ty) r')).
    assert (HJ : J <> []) by (apply (join_nonempty ty (b :: r')); [discriminate | assumption]).
    cbn [seq_loop]. destruct (Ha e (def_sep :: J) (or_intror (ex_intro _ J eq_refl))) as (e1 & E1).
    rewrite E1. cbn [p_ok p_len p_val p_err negb]. rewrite skipn_app_exact.
    destruct J as [|j0 J'] eqn:EJ; [congruence|]. rewrite Z.eqb_refl. rewrite <- EJ.
    unfold J. change (print_scalar ty b :: map (print_scalar ty) r') with (map (print_scalar ty) (b :: r')).
    rewrite IH; [|discriminate | assumption | assumption | cbn [length] in *; lia].
    rewrite <- app_assoc. reflexivity.
Qed.

Lemma join_length ty l : Forall (good_print ty) l -> (length l <= length (join def_sep (map (print_scalar ty) l)))%nat.
Proof.
  induction 1 as [|a r (Ane & _) Hr IH]; [cbn; lia|].
  destruct r as [|b r'].
  - cbn [map join length]. destruct (print_scalar ty a); [congruence | cbn; lia].
  - cbn [map] in *. rewrite join_cons2, app_length. cbn [length] in *. lia.
Qed.

Lemma join_nul_free ty l : Forall (good_print ty) l -> nul_free (join def_sep (map (print_scalar ty) l)).
Proof.
  induction 1 as [|a r (_ & Anf & _) Hr IH]; [constructor|].
  destruct r as [|b r']; cbn [map join]; [assumption|].
  apply nul_free_app; [assumption|]. constructor; [unfold def_sep; lia | exact IH].
Qed.

Lemma join_head ty a r : good_print ty a -> hd 0 (join def_sep (map (print_scalar ty) (a :: r))) = hd 0 (print_scalar ty a).
Proof.
  intros (Ane & _). destruct r as [|b r']; cbn [map join]; [reflexivity|].
  destruct (print_scalar ty a); [congruence | reflexivity].
Qed.

Theorem list_roundtrip ty l : l <> [] -> Forall (rt_ok ty) l -> Forall (good_print ty) l ->
  cast_list ty false (cut0 (print_list ty l)) = (true, l).
Proof.
  intros Hne Hrt Hgp. unfold print_list.
  rewrite (cut0_nul_free _ (join_nul_free ty l Hgp)). set (x := join def_sep (map (print_scalar ty) l)).
  assert (Hx : x <> []) by (apply join_nonempty; assumption).
  assert (Hb : head_is seq_open x = false).
  { apply head_is_false; [|assumption]. destruct l as [|a r]; [congruence|]. inversion Hgp as [|? ? Hga _]; subst.
    unfold x. rewrite join_head by assumption. destruct Hga as (_ & _ & _ & H). exact H. }
  unfold cast_list, parse_list. rewrite Hb. cbv iota.
  unfold x at 2. rewrite seq_loop_print; try assumption.
  - cbn [app negb orb length Nat.sub]. rewrite Nat.sub_0_r, Nat.eqb_refl.
    destruct l; [congruence | reflexivity].
  - pose proof (join_length ty l Hgp). fold x in H. lia.
Qed.

(* ---------- the sequence loop never runs out of fuel ---------- *)
Lemma skipn_length_le {A} n (l : list A) : (length (skipn n l) <= length l)%nat.
Proof. rewrite skipn_length. lia. Qed.

Lemma seq_loop_fuel ty : forall fuel e n acc, (length n < fuel)%nat -> snd (seq_loop fuel ty e n acc) = false.
Proof.
  induction fuel as [|f IH]; intros e n acc H; [lia|]. cbn [seq_loop].
  destruct (p_ok (parse_scalar ty e n)); cbn [negb]; [|reflexivity].
  pose proof (skipn_length_le (p_len (parse_scalar ty e n)) n) as L.
  destruct (skipn (p_len (parse_scalar ty e n)) n) as [|c [|d t]] eqn:E; try reflexivity.
  destruct (c =? def_sep); [|reflexivity]. apply IH. cbn [length] in *. lia.
Qed.

Theorem parse_list_no_fault ty e x : snd (parse_list ty e x) = false.
Proof.
  unfold parse_list. set (n0 := if head_is seq_open x then tl x else x).
  assert (H : (length n0 < S (length x))%nat).
  { unfold n0. destruct (head_is seq_open x); [destruct x; cbn; lia | lia]. }
  pose proof (seq_loop_fuel ty (S (length x)) e n0 [] H) as F.
  destruct (seq_loop (S (length x)) ty e n0 []) as [[els n] fault]. cbn [snd] in F. subst fault.
  destruct (negb (head_is seq_open x) || head_is seq_close n); reflexivity.
Qed.

(* ---------- integers and bool are good element types ---------- *)
Lemma sep_or_end_nonalnum rest : sep_or_end rest -> nonalnum rest.
Proof. intros [->|(r & ->)]; cbn; [trivial | reflexivity]. Qed.

Lemma rt_ok_int ty v : int_ty ty -> ty_min ty <= v <= ty_max ty -> rt_ok ty v.
Proof. intros Hty Hr e rest Hs. apply roundtrip_int; try assumption. now apply sep_or_end_nonalnum. Qed.

Lemma rt_ok_bool v : v = 0 \/ v = 1 -> rt_ok 0 v.
Proof. intros Hv e rest _. exists e. now apply roundtrip_bool. Qed.

Lemma all_digits_good ds : all_digits ds -> ds <> [] ->
  ds <> [] /\ nul_free ds /\ hd 0 ds <> pair_open /\ hd 0 ds <> seq_open.
Proof.
  intros Hd Hne. split; [assumption|]. split; [now apply all_digits_nul_free|].
  destruct ds as [|d r]; [congruence|]. inversion Hd as [|? ? Hdd _]; subst. cbn [hd].
  unfold is_digit, pair_open, seq_open in *. lia.
Qed.

Lemma good_print_dec n : 0 <= n < 2 ^ 64 -> dec n <> [] /\ nul_free (dec n) /\ hd 0 (dec n) <> pair_open /\ hd 0 (dec n) <> seq_open.
Proof. intros H. destruct (dec_spec n H) as (Hd & Hne & _). now apply all_digits_good. Qed.

Lemma good_print_signed v : - 2 ^ 63 <= v < 2 ^ 63 ->
  print_signed v <> [] /\ nul_free (print_signed v) /\ hd 0 (print_signed v) <> pair_open /\ hd 0 (print_signed v) <> seq_open.
Proof.
  intros H. destruct (Z.lt_ge_cases v 0).
  - rewrite print_signed_neg by lia. destruct (good_print_dec (- v)) as (_ & Hn & _); [lia|].
    split; [discriminate|]. split; [constructor; [lia | assumption]|]. cbn [hd]. unfold pair_open, seq_open. lia.
  - rewrite print_signed_nonneg by lia. apply good_print_dec. lia.
Qed.

Lemma good_umax : ulong_max_str <> [] /\ nul_free ulong_max_str /\ hd 0 ulong_max_str <> pair_open /\ hd 0 ulong_max_str <> seq_open.
Proof.
  unfold ulong_max_str, pair_open, seq_open. split; [discriminate|]. split; [repeat constructor; lia|]. cbn [hd]. lia.
Qed.

Lemma good_print_ulong v : 0 <= v <= c_ULONG_MAX ->
  print_ulong v <> [] /\ nul_free (print_ulong v) /\ hd 0 (print_ulong v) <> pair_open /\ hd 0 (print_ulong v) <> seq_open.
Proof.
  intros H. unfold print_ulong. destruct (Z.eqb_spec v c_ULONG_MAX); [apply good_umax|].
  change (append_num v true) with (dec v). apply good_print_dec. consts. lia.
Qed.

Lemma good_print_int ty v : int_ty ty -> ty_min ty <= v <= ty_max ty -> good_print ty v.
Proof.
  intros Hty Hr. unfold int_ty in Hty.
  assert (Hc : ty = 2 \/ ty = 3 \/ ty = 4 \/ ty = 5 \/ ty = 6 \/ ty = 7) by lia.
  unfold good_print.
  destruct Hc as [->|[->|[->|[->|[->| ->]]]]]; unfold ty_min, ty_max in Hr; cbn in Hr.
  - change (print_scalar 2 v) with (print_signed v). apply good_print_signed. consts. lia.
  - change (print_scalar 3 v) with (print_uint v). unfold print_uint.
    destruct (Z.eqb_spec v c_UINT_MAX); apply good_print_ulong; consts; lia.
  - change (print_scalar 4 v) with (print_signed v). apply good_print_signed. consts. lia.
  - change (print_scalar 5 v) with (print_ulong v). apply good_print_ulong. consts. lia.
  - change (print_scalar 6 v) with (print_signed v). apply good_print_signed. consts. lia.
  - change (print_scalar 7 v) with (print_ullong v). change (print_ullong v) with (print_ulong v).
    apply good_print_ulong. consts. lia.
Qed.

Lemma good_print_bool v : v = 0 \/ v = 1 -> good_print 0 v.
Proof.
  intros [->| ->]; unfold good_print; [change (print_scalar 0 0) with bool_false_str | change (print_scalar 0 1) with bool_true_str];
    unfold bool_false_str, bool_true_str, pair_open, seq_open; (split; [discriminate|]); (split; [repeat constructor; lia|]); cbn [hd]; lia.
Qed.

(* element types covered by the composite theorems: the six integer types and bool *)
Definition elem_ok (ty v : Z) : Prop := (int_ty ty /\ ty_min ty <= v <= ty_max ty) \/ (ty = 0 /\ (v = 0 \/ v = 1)).
Lemma elem_rt ty v : elem_ok ty v -> rt_ok ty v.
Proof. intros [(H1 & H2)|(-> & H)]; [now apply rt_ok_int | now apply rt_ok_bool]. Qed.
Lemma elem_good ty v : elem_ok ty v -> good_print ty v.
Proof. intros [(H1 & H2)|(-> & H)]; [now apply good_print_int | now apply good_print_bool]. Qed.

Theorem pair_roundtrip_elems ta tb a b : elem_ok ta a -> elem_ok tb b ->
  cast_pair ta tb false (cut0 (print_pair ta tb a b)) = Some (a, b).
Proof. intros Ha Hb. apply pair_roundtrip; auto using elem_rt, elem_good. Qed.

Theorem list_roundtrip_elems ty l : l <> [] -> Forall (elem_ok ty) l ->
  cast_list ty false (cut0 (print_list ty l)) = (true, l).
Proof.
  intros Hne H. apply list_roundtrip; [assumption | |]; eapply Forall_impl; try exact H; intros v Hv; auto using elem_rt, elem_good.
Qed.

(* ---------- whole-string round trip of scalars (what the harness' sweep exercises) ---------- *)
Theorem cast_roundtrip ty v e : elem_ok ty v \/ (ty = 1 /\ 1 <= v <= 255) ->
  cast_scalar ty e (cut0 (print_scalar ty v)) = Some v.
Proof.
  intros [H|(-> & Hc)].
  - destruct (elem_good ty v H) as (_ & Hnf & _). rewrite (cut0_nul_free _ Hnf).
    destruct (elem_rt ty v H e [] (or_introl eq_refl)) as (e' & E). rewrite app_nil_r in E.
    unfold cast_scalar. rewrite E. cbn [p_ok p_len p_val andb]. now rewrite Nat.eqb_refl.
  - change (print_scalar 1 v) with [v]. cbn [cut0]. destruct (Z.eqb_spec v 0); [lia|]. cbn [cut0].
    pose proof (roundtrip_char v e [] ltac:(lia) I) as E. change (print_scalar 1 v) with [v] in E. rewrite app_nil_r in E.
    unfold cast_scalar. rewrite E. reflexivity.
Qed.

(* the shape of what is printed for the signed types: optional '-' and the decimal digits of |v| without leading zeros *)
Theorem print_signed_canonical v : - 2 ^ 63 <= v < 2 ^ 63 ->
  exists ds, print_signed v = (if v <? 0 then [45] else []) ++ ds /\ all_digits ds /\ ds <> [] /\ value ds = Z.abs v /\
             (hd 0 ds = 48 -> ds = [48]).
Proof.
  intros H. destruct (Z.ltb_spec v 0).
  - exists (dec (- v)). rewrite print_signed_neg by lia. destruct (dec_spec (- v) ltac:(lia)) as (Hd & Hne & _ & _).
    repeat split; try assumption; [rewrite dec_value by lia; lia | apply dec_zero_form; lia].
  - exists (dec v). rewrite print_signed_nonneg by lia. destruct (dec_spec v ltac:(lia)) as (Hd & Hne & _ & _).
    repeat split; try assumption; [rewrite dec_value by lia; lia | apply dec_zero_form; lia].
Qed.
