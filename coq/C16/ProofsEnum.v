(* C16 - enumerations: finite sweep over the generated classes (forallb lifted by forallb_forall) and
   soundness of EnumClass::convert for every string. *)
Require Import V.Lib.Base V.Lib.Dec V.Gen.Consts V.Gen.Consts_C16 V.C16.Model V.C16.Spec V.C16.ProofsBasic V.C16.ProofsRT V.C16.ProofsAcc.
Require Import ZifyBool.
Local Open Scope Z_scope.

Definition pres_eqb (a b : pres) : bool :=
  Bool.eqb (p_ok a) (p_ok b) && (p_val a =? p_val b) && (p_len a =? p_len b)%nat && Bool.eqb (p_err a) (p_err b).
Lemma pres_eqb_eq a b : pres_eqb a b = true -> a = b.
Proof.
  destruct a as [a1 a2 a3 a4], b as [b1 b2 b3 b4]. unfold pres_eqb. cbn [p_ok p_val p_len p_err]. intros H.
  repeat (apply andb_true_iff in H; destruct H as [H ?]).
  apply Bool.eqb_prop in H. apply Bool.eqb_prop in H0. apply Z.eqb_eq in H2. apply Nat.eqb_eq in H1. now subst.
Qed.

Definition ec_of (t : Z * list Z * Z * Z) : eclass := let '(_, rep, mn, mx) := t in mkec rep mn mx.

(* ---------- generic facts about the table look-ups (every descriptor) ---------- *)
Lemma find_by_val_In v l k : find_by_val v l = Some k -> In (k, v) l.
Proof.
  induction l as [|[k' w] r IH]; cbn; [discriminate|]. destruct (Z.eqb_spec w v) as [->|].
  - intros H; injection H as ->. now left.
  - intros H. right. now apply IH.
Qed.
Lemma find_by_key_In k l v : find_by_key k l = Some v -> In (k, v) l.
Proof.
  induction l as [|[k' w] r IH]; cbn; [discriminate|]. destruct (list_eqb k' k) eqn:E.
  - intros H; injection H as ->. apply list_eqb_eq in E. subst. now left.
  - intros H. right. now apply IH.
Qed.
Lemma find_by_val_complete v l k : In (k, v) l -> exists k1, find_by_val v l = Some k1.
Proof.
  induction l as [|[k' w] r IH]; cbn [In find_by_val]; [tauto|]. intros [H|H].
  - injection H as -> ->. rewrite Z.eqb_refl. eauto.
  - destruct (w =? v); [eauto | now apply IH].
Qed.
(* EnumClass::convert(int, const char*&) delivers A key of the value (the first one, if several enumerators share the value) ... *)
Lemma print_enum_is_key ec v k : In (k, v) (ec_entries ec) -> In (print_enum ec v, v) (ec_entries ec).
Proof.
  intros H. unfold print_enum. destruct (find_by_val_complete _ _ _ H) as (k1 & E). rewrite E. eapply find_by_val_In; exact E.
Qed.
(* ... hence THE key when no other enumerator has the value *)
Lemma print_enum_unique ec v k : In (k, v) (ec_entries ec) ->
  (forall k', In (k', v) (ec_entries ec) -> k' = k) -> print_enum ec v = k.
Proof. intros H U. apply U. eapply print_enum_is_key; exact H. Qed.

(* what is checked for every constant (key k, value v) of a class, for clean and stale errno:
   valid; the key, the key followed by a separator, and the decimal numeral of v all read back as v
   (that v prints as a key of v - as k itself unless an earlier enumerator has the same value - is print_enum_is_key above) *)
Definition entry_ok (ec : eclass) (kv : list Z * Z) : bool :=
  let '(k, v) := kv in
  ec_valid ec v &&
  forallb (fun e => pres_eqb (parse_enum ec e k) (mkp true v (length k) e) &&
                    pres_eqb (parse_enum ec e (k ++ [def_sep; 120])) (mkp true v (length k) e) &&
                    pres_eqb (parse_enum ec e (print_signed v)) (mkp true v (length (print_signed v)) e)) [false; true].

Fixpoint zrange (lo : Z) (n : nat) : list Z := match n with O => [] | S m => lo :: zrange (lo + 1) m end.
Lemma zrange_In lo n v : lo <= v < lo + Z.of_nat n -> In v (zrange lo n).
Proof.
  revert lo. induction n as [|n IH]; intros lo H; [lia|]. cbn [zrange]. destruct (Z.eq_dec v lo); [now left | right].
  apply IH. lia.
Qed.

Definition window : nat := 16.
(* numbers around the class that are no constant are rejected *)
Definition reject_ok (ec : eclass) (v : Z) : bool :=
  ec_valid ec v || (negb (p_ok (parse_enum ec false (print_signed v))) && list_eqb (print_enum ec v) []).

Definition class_ok (t : Z * list Z * Z * Z) : bool :=
  let ec := ec_of t in
  negb (length (ec_entries ec) =? 0)%nat && forallb (entry_ok ec) (ec_entries ec) &&
  forallb (reject_ok ec) (zrange (ec_min ec - 8) (Z.to_nat (ec_max ec - ec_min ec) + window)).

Lemma all_classes_ok : forallb class_ok enum_classes = true.
Proof. vm_compute. reflexivity. Qed.

Theorem enum_roundtrip t k v e : In t enum_classes -> In (k, v) (ec_entries (ec_of t)) ->
  In (print_enum (ec_of t) v, v) (ec_entries (ec_of t)) /\
  ((forall k', In (k', v) (ec_entries (ec_of t)) -> k' = k) -> print_enum (ec_of t) v = k) /\
  parse_enum (ec_of t) e k = mkp true v (length k) e /\
  parse_enum (ec_of t) e (k ++ [def_sep; 120]) = mkp true v (length k) e /\
  parse_enum (ec_of t) e (print_signed v) = mkp true v (length (print_signed v)) e /\
  ec_valid (ec_of t) v = true.
Proof.
  intros Ht Hkv. pose proof all_classes_ok as A. rewrite forallb_forall in A. specialize (A t Ht).
  unfold class_ok in A. apply andb_true_iff in A. destruct A as [A _]. apply andb_true_iff in A. destruct A as [_ A].
  rewrite forallb_forall in A. specialize (A (k, v) Hkv). unfold entry_ok in A.
  apply andb_true_iff in A. destruct A as [A2 B].
  rewrite forallb_forall in B. assert (He : In e [false; true]) by (destruct e; cbn; auto). specialize (B e He).
  apply andb_true_iff in B. destruct B as [B B3]. apply andb_true_iff in B. destruct B as [B1 B2].
  apply pres_eqb_eq in B1, B2, B3.
  split; [eapply print_enum_is_key; exact Hkv|]. split; [now apply print_enum_unique|]. auto.
Qed.

Theorem enum_rejects_neighbours t v : In t enum_classes ->
  ec_min (ec_of t) - 8 <= v < ec_max (ec_of t) + 8 -> ec_valid (ec_of t) v = false ->
  p_ok (parse_enum (ec_of t) false (print_signed v)) = false /\ print_enum (ec_of t) v = [].
Proof.
  intros Ht Hr Hv. pose proof all_classes_ok as A. rewrite forallb_forall in A. specialize (A t Ht).
  unfold class_ok in A. apply andb_true_iff in A. destruct A as [_ A]. rewrite forallb_forall in A.
  assert (Hin : In v (zrange (ec_min (ec_of t) - 8) (Z.to_nat (ec_max (ec_of t) - ec_min (ec_of t)) + window))).
  { apply zrange_In. unfold window. lia. }
  specialize (A v Hin). unfold reject_ok in A. rewrite Hv in A. cbn [orb] in A.
  apply andb_true_iff in A. destruct A as [A1 A2]. apply list_eqb_eq in A2. split; [now destruct (p_ok _) | assumption].
Qed.

Lemma classes_nonempty t : In t enum_classes -> ec_entries (ec_of t) <> [].
Proof.
  intros Ht. pose proof all_classes_ok as A. rewrite forallb_forall in A. specialize (A t Ht).
  unfold class_ok in A. apply andb_true_iff in A. destruct A as [A _]. apply andb_true_iff in A. destruct A as [A _].
  intros C. rewrite C in A. discriminate.
Qed.

(* ---------- soundness for every string ---------- *)

Theorem parse_enum_sound ec e x : p_ok (parse_enum ec e x) = true ->
  let r := parse_enum ec e x in
  (0 < p_len r <= length x)%nat /\
  exists k, In (k, p_val r) (ec_entries ec) /\
    (firstn (p_len r) x = k \/ keyword_signed int_min int_max (firstn (p_len r) x) (p_val r) \/ numeral (firstn (p_len r) x) (p_val r)).
Proof.
  cbn zeta. unfold parse_enum. destruct (p_ok (parse_signed e x int_min int_max)) eqn:Eok.
  - destruct (ec_valid ec (p_val (parse_signed e x int_min int_max))) eqn:Ev; [|cbn; intros H; discriminate H].
    intros _. cbn [p_len p_val].
    destruct (parse_signed_sound e x int_min int_max) as (Hl & _ & Hd); try assumption; try (consts; lia).
    split; [exact Hl|]. unfold ec_valid in Ev. apply andb_true_iff in Ev. destruct Ev as [_ Ev].
    destruct (find_by_val _ (ec_entries ec)) as [k|] eqn:Ef; [|discriminate]. exists k. split; [eapply find_by_val_In; exact Ef|].
    destruct Hd as [Hd|Hd]; [right; left; exact Hd | right; right; exact Hd].
  - set (k := take_while (fun c => negb (is_kv_stop c)) x).
    destruct k as [|c0 k'] eqn:Ek; [cbn; intros H; discriminate H|]. rewrite <- Ek.
    destruct (find_by_key k (ec_entries ec)) as [v|] eqn:Ef; [|cbn; intros H; discriminate H].
    intros _. cbn [p_len p_val].
    pose proof (take_drop (fun c => negb (is_kv_stop c)) x) as TD. fold k in TD.
    assert (F : firstn (length k) x = k) by (rewrite <- TD at 1; apply firstn_app_exact).
    split; [split; [rewrite Ek; cbn; lia | eapply firstn_eq_length; [exact F | reflexivity]]|].
    exists k. split; [eapply find_by_key_In; exact Ef | left; exact F].
Qed.

(* the classes the shared translator (tools/gen_consts.py) tabulates agree with what find_kv reads out of the
   stringified macro arguments *)
Lemma shared_tables_agree :
  ec_entries (mkec rep_Head_t emin_Head_t emax_Head_t) = enum_Head_t /\
  ec_entries (mkec rep_Body_t emin_Body_t emax_Body_t) = enum_Body_t /\
  ec_entries (mkec rep_Value_t emin_Value_t emax_Value_t) = enum_Value_t /\
  ec_entries (mkec rep_Heuristic_t emin_Heuristic_t emax_Heuristic_t) = enum_Heuristic_t /\
  ec_entries (mkec rep_Directive_t emin_Directive_t emax_Directive_t) = enum_Directive_t /\
  ec_entries (mkec rep_Theory_t emin_Theory_t emax_Theory_t) = enum_Theory_t /\
  ec_entries (mkec rep_Tuple_t emin_Tuple_t emax_Tuple_t) = enum_Tuple_t.
Proof. vm_compute. repeat split. Qed.
