(* C16 - pairs and lists whose elements are char or enumeration constants (and, again, integers / bool):
   sharper generic round-trip theorems (only the FIRST printed character of a pair must not be '(' and only the
   FIRST printed character of a list must not be '['), char and enum constants as element types, and the
   combined statement with exactly the exclusions the findings show to be necessary:
     char NUL anywhere, char '(' as first component of a pair, char '[' as first element of a list. *)
Require Import V.Lib.Base V.Lib.Dec V.Gen.Consts_C16 V.C16.Model V.C16.Spec V.C16.ProofsBasic V.C16.ProofsRT V.C16.ProofsAcc
  V.C16.ProofsEnum V.C16.ProofsComp.
Require Import ZifyBool.
Local Open Scope Z_scope.

(* a printed form that is a non-empty C string *)
Definition cstr (s : list Z) : Prop := s <> [] /\ nul_free s.

Lemma good_print_cstr ty v : good_print ty v -> cstr (print_scalar ty v).
Proof. intros (H1 & H2 & _). split; assumption. Qed.

(* ---------- pairs: only the first component's first character matters ---------- *)
Theorem pair_roundtrip_sharp ta tb a b : rt_ok ta a -> rt_ok tb b ->
  cstr (print_scalar ta a) -> cstr (print_scalar tb b) -> hd 0 (print_scalar ta a) <> pair_open ->
  cast_pair ta tb false (cut0 (print_pair ta tb a b)) = Some (a, b).
Proof.
  intros Ha Hb (Ane & Anf) (Bne & Bnf) Ap.
  unfold print_pair. set (A := print_scalar ta a) in *. set (B := print_scalar tb b) in *.
  assert (Hnf : nul_free (A ++ def_sep :: B)).
  { apply nul_free_app; [assumption|]. constructor; [unfold def_sep; lia | assumption]. }
  rewrite (cut0_nul_free _ Hnf).
  destruct (Ha false (def_sep :: B) (or_intror (ex_intro _ B eq_refl))) as (e1 & E1). fold A in E1.
  destruct (Hb e1 [] (or_introl eq_refl)) as (e2 & E2). fold B in E2. rewrite app_nil_r in E2.
  unfold cast_pair, parse_pair.
  assert (Hps : head_is pair_open (A ++ def_sep :: B) = false).
  { apply head_is_false; [|destruct A; [congruence | discriminate]]. destruct A; [congruence | exact Ap]. }
  rewrite Hps. cbv iota. rewrite E1. cbn [p_ok p_len p_val p_err]. rewrite skipn_app_exact.
  destruct B as [|b0 B'] eqn:EB; [congruence|]. rewrite <- EB in *.
  replace (def_sep :: B) with (def_sep :: b0 :: B') by (rewrite EB; reflexivity). cbv iota beta.
  rewrite Z.eqb_refl. cbn [andb]. rewrite <- EB. rewrite E2. cbn [p_ok p_len p_val p_err].
  assert (Hsk : skipn (length B) B = []) by (rewrite <- (app_nil_r B) at 2; apply skipn_app_exact).
  rewrite Hsk. cbn [negb orb]. cbn [length Nat.sub]. rewrite Nat.sub_0_r.
  change (2 =? 0) with false. cbn [negb andb]. rewrite Nat.eqb_refl. reflexivity.
Qed.

(* ---------- lists: only the first element's first character matters ---------- *)
Definition cstr_el (ty v : Z) : Prop := cstr (print_scalar ty v).

Lemma join_nonempty' ty l : l <> [] -> Forall (cstr_el ty) l -> join def_sep (map (print_scalar ty) l) <> [].
Proof.
  intros Hne H. destruct l as [|a r]; [congruence|]. inversion H as [|? ? (Ane & _) Hr]; subst.
  destruct r as [|b r']; cbn [map join]; [assumption|].
  destruct (print_scalar ty a); [congruence | discriminate].
Qed.

Lemma seq_loop_print' ty l : forall fuel e acc, l <> [] -> Forall (rt_ok ty) l -> Forall (cstr_el ty) l ->
  (length l <= fuel)%nat ->
  seq_loop fuel ty e (join def_sep (map (print_scalar ty) l)) acc = (acc ++ l, [], false).
Proof.
  induction l as [|a r IH]; intros fuel e acc Hne Hrt Hgp Hf; [congruence|].
  inversion Hrt as [|? ? Ha Hrt']; subst. inversion Hgp as [|? ? Hga Hgp']; subst.
  destruct fuel as [|f]; [cbn [length] in Hf; lia|]. cbn [length] in Hf.
  destruct r as [|b r'].
  - cbn [map join seq_loop]. destruct (Ha e [] (or_introl eq_refl)) as (e1 & E1). rewrite app_nil_r in E1.
    rewrite E1. cbn [p_ok p_len p_val p_err negb].
    assert (Hsk : skipn (length (print_scalar ty a)) (print_scalar ty a) = []).
    { rewrite <- (app_nil_r (print_scalar ty a)) at 2. apply skipn_app_exact. }
    rewrite Hsk. reflexivity.
  - cbn [map]. rewrite join_cons2. set (J := join def_sep (print_scalar ty b :: map (print_scalar ty) r')).
    assert (HJ : J <> []) by (apply (join_nonempty' ty (b :: r')); [discriminate | assumption]).
    cbn [seq_loop]. destruct (Ha e (def_sep :: J) (or_intror (ex_intro _ J eq_refl))) as (e1 & E1).
    rewrite E1. cbn [p_ok p_len p_val p_err negb]. rewrite skipn_app_exact.
    destruct J as [|j0 J'] eqn:EJ; [congruence|]. rewrite Z.eqb_refl. rewrite <- EJ.
    unfold J. change (print_scalar ty b :: map (print_scalar ty) r') with (map (print_scalar ty) (b :: r')).
    rewrite IH; [|discriminate | assumption | assumption | cbn [length] in *; lia].
    rewrite <- app_assoc. reflexivity.
Qed.

Lemma join_length' ty l : Forall (cstr_el ty) l -> (length l <= length (join def_sep (map (print_scalar ty) l)))%nat.
Proof.
  induction 1 as [|a r (Ane & _) Hr IH]; [cbn; lia|].
  destruct r as [|b r'].
  - cbn [map join length]. destruct (print_scalar ty a); [congruence | cbn; lia].
  - cbn [map] in *. rewrite join_cons2, app_length. cbn [length] in *. lia.
Qed.

Lemma join_nul_free' ty l : Forall (cstr_el ty) l -> nul_free (join def_sep (map (print_scalar ty) l)).
Proof.
  induction 1 as [|a r (_ & Anf) Hr IH]; [constructor|].
  destruct r as [|b r']; cbn [map join]; [assumption|].
  apply nul_free_app; [assumption|]. constructor; [unfold def_sep; lia | exact IH].
Qed.

Lemma join_head' ty a r : cstr_el ty a -> hd 0 (join def_sep (map (print_scalar ty) (a :: r))) = hd 0 (print_scalar ty a).
Proof.
  intros (Ane & _). destruct r as [|b r']; cbn [map join]; [reflexivity|].
  destruct (print_scalar ty a); [congruence | reflexivity].
Qed.

Theorem list_roundtrip_sharp ty l : l <> [] -> Forall (rt_ok ty) l -> Forall (cstr_el ty) l ->
  hd 0 (print_scalar ty (hd 0 l)) <> seq_open ->
  cast_list ty false (cut0 (print_list ty l)) = (true, l).
Proof.
  intros Hne Hrt Hgp Hh. unfold print_list.
  rewrite (cut0_nul_free _ (join_nul_free' ty l Hgp)). set (x := join def_sep (map (print_scalar ty) l)).
  assert (Hx : x <> []) by (apply join_nonempty'; assumption).
  assert (Hb : head_is seq_open x = false).
  { apply head_is_false; [|assumption]. destruct l as [|a r]; [congruence|]. inversion Hgp as [|? ? Hga _]; subst.
    unfold x. rewrite join_head' by assumption. exact Hh. }
  unfold cast_list, parse_list. rewrite Hb. cbv iota.
  unfold x at 2. rewrite seq_loop_print'; try assumption.
  - cbn [app negb orb length Nat.sub]. rewrite Nat.sub_0_r, Nat.eqb_refl.
    destruct l; [congruence | reflexivity].
  - pose proof (join_length' ty l Hgp). fold x in H. lia.
Qed.

(* ---------- char elements ---------- *)
Lemma rt_ok_char c : 0 <= c <= 255 -> rt_ok 1 c.
Proof.
  intros Hc e rest Hs. exists e. apply roundtrip_char; [assumption | now apply sep_or_end_nonalnum].
Qed.

Lemma cstr_char c : c <> 0 -> cstr (print_scalar 1 c).
Proof. intros H. change (print_scalar 1 c) with [c]. split; [discriminate | repeat constructor; assumption]. Qed.

(* ---------- enumeration constants ---------- *)
(* v is a constant of the enumeration with type code ty (EnumClass::isValid) *)
Definition enum_const (ty v : Z) : Prop :=
  8 <= ty /\ exists ec, find_enum ty enum_classes = Some ec /\ ec_valid ec v = true.

(* a text whose first character is no white space, sign, digit or 'i' is rejected by parseSigned, errno untouched *)
Lemma parse_signed_nonnum e c r smin smax :
  c <> 105 -> is_space c = false -> c <> 45 -> c <> 43 -> is_digit c = false ->
  parse_signed e (c :: r) smin smax = pfail e.
Proof.
  intros Hi Hs Hm Hp Hd. unfold parse_signed. rewrite (signed_kw_none c r smin smax Hi).
  assert (Hb : detect_base (c :: r) = 10).
  { unfold detect_base, base_lead, base_default. destruct r as [|c1 r']; [reflexivity|].
    destruct (Z.eqb_spec c 48) as [->|]; [cbn in Hd; discriminate | reflexivity]. }
  rewrite Hb.
  assert (Hst : strtoll 10 (c :: r) = (0, O, false)).
  { unfold strtoll, scan_num. cbn [sc_ds].
    rewrite (drop_while_head_false is_space c r Hs).
    assert (Hss : sign_split (c :: r) = ([], c :: r)).
    { unfold sign_split. destruct (Z.eqb_spec c 45); [contradiction|]. destruct (Z.eqb_spec c 43); [contradiction|]. reflexivity. }
    rewrite Hss. cbn [fst snd]. rewrite (prefix_split_not16 10 (c :: r)) by lia. cbn [fst snd].
    rewrite take_while_head_false; [reflexivity|]. rewrite is_bdigit10. exact Hd. }
  rewrite Hst.
  change (0 =? c_LLONG_MAX) with false. change (0 =? c_LLONG_MIN) with false. cbn [orb andb Nat.eqb].
  now rewrite orb_false_r.
Qed.

Definition key_good (k : list Z) : bool :=
  match k with
  | c :: _ => negb (c =? 105) && negb (is_space c) && negb (c =? 45) && negb (c =? 43) && negb (is_digit c) &&
              negb (c =? pair_open) && negb (c =? seq_open)
  | [] => false
  end && forallb (fun c => negb (is_kv_stop c) && negb (c =? 0)) k.

Definition entry_good (ec : eclass) (kv : list Z * Z) : bool :=
  key_good (fst kv) && match find_by_key (fst kv) (ec_entries ec) with Some w => w =? snd kv | None => false end.

(* finite sweep over the generated classes: every key starts with a character that parseSigned rejects (and that is no
   bracket), contains no ' ' ',' '=' NUL, and is found again under its own value *)
Lemma all_entries_good : forallb (fun t => forallb (entry_good (ec_of t)) (ec_entries (ec_of t))) enum_classes = true.
Proof. vm_compute. reflexivity. Qed.

Lemma find_enum_In ty l ec : find_enum ty l = Some ec -> exists t, In t l /\ ec_of t = ec.
Proof.
  induction l as [|[[[c rep] mn] mx] r IH]; cbn [find_enum]; [discriminate|].
  destruct (c =? ty).
  - intros H; injection H as <-. exists (c, rep, mn, mx). split; [now left | reflexivity].
  - intros H. destruct (IH H) as (t & Ht & E). exists t. split; [now right | exact E].
Qed.

Lemma parse_scalar_enum ty ec e x : 8 <= ty -> find_enum ty enum_classes = Some ec ->
  parse_scalar ty e x = parse_enum ec e x.
Proof.
  intros H8 Hf. unfold parse_scalar.
  repeat match goal with |- context [ty =? ?k] => destruct (Z.eqb_spec ty k); [lia|] end.
  rewrite Hf. reflexivity.
Qed.

Lemma print_scalar_enum ty ec v : 8 <= ty -> find_enum ty enum_classes = Some ec ->
  print_scalar ty v = print_enum ec v.
Proof.
  intros H8 Hf. unfold print_scalar.
  repeat match goal with |- context [ty =? ?k] => destruct (Z.eqb_spec ty k); [lia|] end.
  cbn [orb]. rewrite Hf. reflexivity.
Qed.

(* what the sweep gives for one constant *)
Lemma enum_const_key ty v : enum_const ty v ->
  exists ec k, find_enum ty enum_classes = Some ec /\ print_scalar ty v = k /\ key_good k = true /\
               find_by_key k (ec_entries ec) = Some v.
Proof.
  intros (H8 & ec & Hf & Hv). exists ec.
  unfold ec_valid in Hv. apply andb_true_iff in Hv. destruct Hv as [_ Hv].
  destruct (find_by_val v (ec_entries ec)) as [k|] eqn:Ek; [|discriminate]. exists k.
  split; [exact Hf|]. split; [rewrite (print_scalar_enum ty ec v H8 Hf); unfold print_enum; now rewrite Ek|].
  destruct (find_enum_In _ _ _ Hf) as (t & Ht & <-).
  pose proof all_entries_good as A. rewrite forallb_forall in A. specialize (A t Ht).
  rewrite forallb_forall in A. specialize (A (k, v) (find_by_val_In _ _ _ Ek)).
  unfold entry_good in A. cbn [fst snd] in A. apply andb_true_iff in A. destruct A as [A1 A2].
  split; [exact A1|]. destruct (find_by_key k (ec_entries (ec_of t))) as [w|]; [|discriminate].
  apply Z.eqb_eq in A2. now subst.
Qed.

Lemma key_good_parts k : key_good k = true ->
  exists c r, k = c :: r /\ c <> 105 /\ is_space c = false /\ c <> 45 /\ c <> 43 /\ is_digit c = false /\
    c <> pair_open /\ c <> seq_open /\
    Forall (fun c => negb (is_kv_stop c) = true) k /\ nul_free k.
Proof.
  unfold key_good. destruct k as [|c r]; [discriminate|]. intros H. apply andb_true_iff in H. destruct H as [H F].
  exists c, r. split; [reflexivity|].
  repeat (apply andb_true_iff in H; destruct H as [H ?]).
  repeat split; try lia; try (now destruct (is_space c)); try (now destruct (is_digit c)).
  - rewrite forallb_forall in F. apply Forall_forall. intros d Hd. specialize (F d Hd).
    apply andb_true_iff in F. tauto.
  - rewrite forallb_forall in F. apply Forall_forall. intros d Hd. specialize (F d Hd).
    apply andb_true_iff in F. lia.
Qed.

Lemma sep_or_end_stops rest : sep_or_end rest -> stops_at (fun c => negb (is_kv_stop c)) rest.
Proof. intros [->|(r & ->)]; cbn; [trivial | reflexivity]. Qed.

Lemma rt_ok_enum ty v : enum_const ty v -> rt_ok ty v.
Proof.
  intros Hc e rest Hs. pose proof Hc as (H8 & _).
  destruct (enum_const_key ty v Hc) as (ec & k & Hf & Hp & Hg & Hk).
  destruct (key_good_parts k Hg) as (c & r & Ek & Hi & Hsp & Hm & Hpl & Hd & _ & _ & Hstop & _).
  exists e. rewrite Hp, (parse_scalar_enum ty ec e _ H8 Hf). unfold parse_enum.
  assert (Hps : parse_signed e (k ++ rest) int_min int_max = pfail e).
  { rewrite Ek. cbn [app]. now apply parse_signed_nonnum. }
  rewrite Hps. cbn [pfail p_ok p_err].
  rewrite (take_while_app _ k rest Hstop (sep_or_end_stops rest Hs)).
  rewrite Hk. destruct k; [discriminate | reflexivity].
Qed.

Lemma good_print_enum ty v : enum_const ty v -> good_print ty v.
Proof.
  intros Hc. destruct (enum_const_key ty v Hc) as (ec & k & Hf & Hp & Hg & Hk).
  destruct (key_good_parts k Hg) as (c & r & Ek & _ & _ & _ & _ & _ & Ho & Hb & _ & Hnf).
  unfold good_print. rewrite Hp. rewrite Ek in *. cbn [hd]. repeat split; try assumption. discriminate.
Qed.

(* ---------- all element types ---------- *)
(* the six integer types (every value), bool, char except NUL, every constant of the nine enumerations *)
Definition elem_ok_all (ty v : Z) : Prop := elem_ok ty v \/ (ty = 1 /\ 1 <= v <= 255) \/ enum_const ty v.

Lemma elem_all_rt ty v : elem_ok_all ty v -> rt_ok ty v.
Proof. intros [H|[(-> & H)|H]]; [now apply elem_rt | apply rt_ok_char; lia | now apply rt_ok_enum]. Qed.

Lemma elem_all_cstr ty v : elem_ok_all ty v -> cstr_el ty v.
Proof.
  intros [H|[(-> & H)|H]]; [apply good_print_cstr; now apply elem_good | apply cstr_char; lia |
                             apply good_print_cstr; now apply good_print_enum].
Qed.

(* the first character is '(' / '[' only for the chars '(' / '[' *)
Lemma elem_all_head ty v : elem_ok_all ty v ->
  (~ (ty = 1 /\ v = pair_open) -> hd 0 (print_scalar ty v) <> pair_open) /\
  (~ (ty = 1 /\ v = seq_open) -> hd 0 (print_scalar ty v) <> seq_open).
Proof.
  intros [H|[(-> & H)|H]].
  - destruct (elem_good ty v H) as (_ & _ & H1 & H2). auto.
  - change (print_scalar 1 v) with [v]. cbn [hd]. split; intros N E; apply N; auto.
  - destruct (good_print_enum ty v H) as (_ & _ & H1 & H2). auto.
Qed.

Theorem pair_roundtrip_all ta tb a b : elem_ok_all ta a -> elem_ok_all tb b -> ~ (ta = 1 /\ a = pair_open) ->
  cast_pair ta tb false (cut0 (print_pair ta tb a b)) = Some (a, b).
Proof.
  intros Ha Hb Hn. apply pair_roundtrip_sharp; auto using elem_all_rt.
  - now apply elem_all_cstr.
  - now apply elem_all_cstr.
  - now apply (elem_all_head ta a Ha).
Qed.

Theorem list_roundtrip_all ty l : l <> [] -> Forall (elem_ok_all ty) l -> ~ (ty = 1 /\ hd 0 l = seq_open) ->
  cast_list ty false (cut0 (print_list ty l)) = (true, l).
Proof.
  intros Hne H Hn. apply list_roundtrip_sharp; [assumption | | |].
  - eapply Forall_impl; [|exact H]. intros v Hv. now apply elem_all_rt.
  - eapply Forall_impl; [|exact H]. intros v Hv. now apply elem_all_cstr.
  - destruct l as [|a r]; [congruence|]. cbn [hd] in *. inversion H as [|? ? Ha _]; subst.
    now apply (elem_all_head ty a Ha).
Qed.

(* whole-string round trip of one enumeration constant *)
Theorem cast_roundtrip_enum ty v e : enum_const ty v -> cast_scalar ty e (cut0 (print_scalar ty v)) = Some v.
Proof.
  intros H. destruct (good_print_enum ty v H) as (_ & Hnf & _). rewrite (cut0_nul_free _ Hnf).
  destruct (rt_ok_enum ty v H e [] (or_introl eq_refl)) as (e' & E). rewrite app_nil_r in E.
  unfold cast_scalar. rewrite E. cbn [p_ok p_len p_val andb]. now rewrite Nat.eqb_refl.
Qed.

(* ---------- the exclusions are necessary, for EVERY pair / list of that shape ---------- *)
(* the element list the sequence loop delivers extends the accumulator *)
Lemma seq_loop_acc ty : forall fuel e n acc,
  fst (fst (seq_loop fuel ty e n acc)) = acc ++ fst (fst (seq_loop fuel ty e n [])).
Proof.
  induction fuel as [|f IH]; intros e n acc; cbn [seq_loop]; [cbn; now rewrite app_nil_r|].
  destruct (p_ok (parse_scalar ty e n)); cbn [negb]; [|cbn; now rewrite app_nil_r].
  destruct (skipn (p_len (parse_scalar ty e n)) n) as [|c [|d t]]; try reflexivity.
  destruct (c =? def_sep); [|reflexivity].
  rewrite (IH _ _ (acc ++ [p_val (parse_scalar ty e n)])), (IH _ _ ([] ++ [p_val (parse_scalar ty e n)])).
  cbn [app fst]. now rewrite <- app_assoc.
Qed.

(* first delivered element, if any, is the value of the first scalar conversion *)
Lemma seq_loop_first ty fuel e n :
  match fst (fst (seq_loop fuel ty e n [])) with
  | [] => True
  | v :: _ => v = p_val (parse_scalar ty e n)
  end.
Proof.
  destruct fuel as [|f]; cbn [seq_loop]; [exact I|].
  destruct (p_ok (parse_scalar ty e n)); cbn [negb]; [|exact I].
  destruct (skipn (p_len (parse_scalar ty e n)) n) as [|c [|d t]]; try reflexivity.
  destruct (c =? def_sep); [|reflexivity]. rewrite seq_loop_acc. reflexivity.
Qed.

(* a list of chars that starts with '[' never comes back *)
Theorem list_char_bracket_never l : l <> [] -> Forall (fun v => 1 <= v <= 255) l -> hd 0 l = seq_open ->
  snd (cast_list 1 false (cut0 (print_list 1 l))) <> l.
Proof.
  intros Hne Hr Hh. destruct l as [|a r]; [congruence|]. cbn [hd] in Hh. subst a.
  assert (Hcs : Forall (cstr_el 1) (seq_open :: r)).
  { eapply Forall_impl; [|exact Hr]. intros v Hv. cbv beta in Hv. apply cstr_char. lia. }
  unfold print_list. rewrite (cut0_nul_free _ (join_nul_free' 1 _ Hcs)).
  unfold cast_list, parse_list.
  assert (Hx : exists t, join def_sep (map (print_scalar 1) (seq_open :: r)) = seq_open :: t /\
                         (t = [] \/ exists t', t = def_sep :: t')).
  { destruct r as [|b r']; cbn [map join]; change (print_scalar 1 seq_open) with [seq_open]; cbn [app];
      eexists; split; try reflexivity; [now left | right; eexists; reflexivity]. }
  destruct Hx as (t & -> & Ht). cbn [head_is]. rewrite Z.eqb_refl. cbn [tl].
  pose proof (seq_loop_first 1 (S (length (seq_open :: t))) false t) as F.
  destruct (seq_loop (S (length (seq_open :: t))) 1 false t []) as [[els n] fault]. cbn [fst] in F.
  assert (Hels : els <> seq_open :: r).
  { destruct els as [|v els']; [discriminate|]. intros E. injection E as Ev _. rewrite Ev in F. clear Ev.
    destruct Ht as [->|(t' & ->)]; [cbn in F; discriminate F|].
    change (parse_scalar 1 false (def_sep :: t')) with (parse_char false (def_sep :: t')) in F.
    unfold parse_char in F. cbn in F. discriminate F. }
  destruct (negb true || head_is seq_close n); cbn [snd]; exact Hels.
Qed.

(* the first component xconvert(pair) delivers is the initial value or the value of the first scalar conversion *)
Lemma parse_pair_first ta tb ia ib e x :
  snd (fst (fst (parse_pair ta tb ia ib e x))) = ia \/
  snd (fst (fst (parse_pair ta tb ia ib e x))) = p_val (parse_scalar ta e (if head_is pair_open x then tl x else x)).
Proof.
  unfold parse_pair. cbv zeta.
  set (n0 := if head_is pair_open x then tl x else x). set (ra := parse_scalar ta e n0).
  destruct (p_ok ra);
    repeat match goal with
    | |- context [match ?X with _ => _ end] => destruct X
    end; cbn [fst snd]; auto.
Qed.

(* a pair whose first component is the char '(' never comes back (second component: any element that prints as a C string) *)
Theorem pair_char_paren_never tb b : cstr_el tb b ->
  cast_pair 1 tb false (cut0 (print_pair 1 tb pair_open b)) <> Some (pair_open, b).
Proof.
  intros (Bne & Bnf). unfold print_pair. change (print_scalar 1 pair_open) with [pair_open]. cbn [app].
  set (B := print_scalar tb b) in *.
  assert (Hnf : nul_free (pair_open :: def_sep :: B)).
  { constructor; [unfold pair_open; lia|]. constructor; [unfold def_sep; lia | assumption]. }
  rewrite (cut0_nul_free _ Hnf). unfold cast_pair.
  pose proof (parse_pair_first 1 tb (init_val 1) (init_val tb) false (pair_open :: def_sep :: B)) as F.
  destruct (parse_pair 1 tb (init_val 1) (init_val tb) false (pair_open :: def_sep :: B)) as [[[sum a'] b'] k].
  cbn [fst snd head_is tl] in F. rewrite Z.eqb_refl in F.
  change (p_val (parse_scalar 1 false (def_sep :: B))) with def_sep in F.
  destruct (negb (sum =? 0) && (k =? length (pair_open :: def_sep :: B))%nat); [|discriminate].
  intros E; injection E as E _. destruct F as [F|F]; rewrite F in E; vm_compute in E; discriminate E.
Qed.
