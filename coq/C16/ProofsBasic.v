(* C16 - basic lemmas: take_while/drop_while, strncmp, digit values, the scanner's decomposition. *)
Require Import V.Lib.Base V.Lib.Dec V.Gen.Consts_C16 V.C16.Model.
Require Import ZifyBool.
Local Open Scope Z_scope.

(* ---------- take_while / drop_while ---------- *)
Lemma take_drop p s : take_while p s ++ drop_while p s = s.
Proof. induction s as [|c r IH]; cbn; [reflexivity|]. destruct (p c); cbn; [now rewrite IH | reflexivity]. Qed.

Lemma take_while_all p s : Forall (fun c => p c = true) (take_while p s).
Proof.
  induction s as [|c r IH]; cbn; [constructor|]. destruct (p c) eqn:E; [constructor; assumption | constructor].
Qed.

Lemma drop_while_head p s c r : drop_while p s = c :: r -> p c = false.
Proof.
  induction s as [|d t IH]; cbn; [discriminate|]. destruct (p d) eqn:E; [exact IH|].
  intros H. injection H as -> _. exact E.
Qed.

Definition stops_at (p : Z -> bool) (rest : list Z) : Prop :=
  match rest with [] => True | c :: _ => p c = false end.

Lemma take_while_app p ds rest : Forall (fun c => p c = true) ds -> stops_at p rest -> take_while p (ds ++ rest) = ds.
Proof.
  induction 1 as [|c r Hc Hr IH]; intros Hs; cbn.
  - destruct rest as [|d t]; cbn in *; [reflexivity | now rewrite Hs].
  - rewrite Hc. f_equal. apply IH, Hs.
Qed.

Lemma drop_while_app p ds rest : Forall (fun c => p c = true) ds -> stops_at p rest -> drop_while p (ds ++ rest) = rest.
Proof.
  induction 1 as [|c r Hc Hr IH]; intros Hs; cbn.
  - destruct rest as [|d t]; cbn in *; [reflexivity | now rewrite Hs].
  - rewrite Hc. apply IH, Hs.
Qed.

Lemma take_while_head_false p c r : p c = false -> take_while p (c :: r) = [].
Proof. intros H. cbn. now rewrite H. Qed.
Lemma drop_while_head_false p c r : p c = false -> drop_while p (c :: r) = c :: r.
Proof. intros H. cbn. now rewrite H. Qed.

Lemma stops_at_drop p s : stops_at p (drop_while p s).
Proof.
  unfold stops_at. destruct (drop_while p s) as [|c r] eqn:E; [exact I|]. eapply drop_while_head; exact E.
Qed.

Lemma firstn_app_exact {A} (a b : list A) : firstn (length a) (a ++ b) = a.
Proof. induction a as [|x a IH]; cbn; [now destruct b | now rewrite IH]. Qed.

Lemma skipn_app_exact {A} (a b : list A) : skipn (length a) (a ++ b) = b.
Proof. induction a as [|x a IH]; cbn; [reflexivity | exact IH]. Qed.

(* ---------- strncmp ---------- *)
Lemma strncmp_eq_prefix x lit : strncmp_eq x lit (length lit) = true -> firstn (length lit) x = lit.
Proof.
  revert x. induction lit as [|d l IH]; intros x H; [reflexivity|].
  cbn [length] in *. cbn [strncmp_eq] in H. destruct x as [|c x']; [discriminate|].
  apply andb_true_iff in H. destruct H as [H1 H2]. apply Z.eqb_eq in H1. subst. cbn. f_equal. apply IH, H2.
Qed.

Lemma strncmp_eq_app lit rest : strncmp_eq (lit ++ rest) lit (length lit) = true.
Proof.
  induction lit as [|d l IH]; cbn; [reflexivity|]. rewrite Z.eqb_refl. exact IH.
Qed.

Lemma strncmp_eq_head_ne c x d l n : c <> d -> strncmp_eq (c :: x) (d :: l) (S n) = false.
Proof. intros H. cbn. destruct (Z.eqb_spec c d); [contradiction | reflexivity]. Qed.

(* ---------- digits ---------- *)
Lemma digit_val_dec c : is_digit c = true -> digit_val c = to_digit c.
Proof. unfold is_digit, digit_val, to_digit. intros H. destruct ((48 <=? c) && (c <=? 57)) eqn:E; [reflexivity | lia]. Qed.

Lemma is_bdigit10 c : is_bdigit 10 c = is_digit c.
Proof.
  unfold is_bdigit, digit_val, is_digit.
  destruct ((48 <=? c) && (c <=? 57)) eqn:E1; [lia|].
  destruct ((97 <=? c) && (c <=? 122)) eqn:E2; [lia|].
  destruct ((65 <=? c) && (c <=? 90)) eqn:E3; lia.
Qed.

Lemma digit_val_nonneg c : 0 <= digit_val c.
Proof.
  unfold digit_val. destruct ((48 <=? c) && (c <=? 57)) eqn:E1; [lia|].
  destruct ((97 <=? c) && (c <=? 122)) eqn:E2; [lia|].
  destruct ((65 <=? c) && (c <=? 90)) eqn:E3; lia.
Qed.

Lemma is_bdigit_not_space base c : base <= 36 -> is_bdigit base c = true -> is_space c = false.
Proof.
  unfold is_bdigit, digit_val, is_space. intros Hb.
  destruct ((48 <=? c) && (c <=? 57)) eqn:E1; [lia|].
  destruct ((97 <=? c) && (c <=? 122)) eqn:E2; [lia|].
  destruct ((65 <=? c) && (c <=? 90)) eqn:E3; lia.
Qed.

Lemma is_bdigit_not_sign base c : base <= 36 -> is_bdigit base c = true -> c <> 45 /\ c <> 43.
Proof.
  unfold is_bdigit, digit_val. intros Hb.
  destruct ((48 <=? c) && (c <=? 57)) eqn:E1; [lia|].
  destruct ((97 <=? c) && (c <=? 122)) eqn:E2; [lia|].
  destruct ((65 <=? c) && (c <=? 90)) eqn:E3; lia.
Qed.

Lemma fold_base_acc base ds a :
  fold_left (fun a c => a * base + digit_val c) ds a = a * base ^ Z.of_nat (length ds) + value_base base ds.
Proof.
  unfold value_base. revert a. induction ds as [|d r IH]; intros a.
  - cbn. lia.
  - cbn [fold_left length]. rewrite (IH (a * base + digit_val d)), (IH (0 * base + digit_val d)).
    rewrite Nat2Z.inj_succ, Z.pow_succ_r by lia. ring.
Qed.

Lemma value_base_nonneg base ds : 0 <= base -> 0 <= value_base base ds.
Proof.
  intros Hb. unfold value_base.
  assert (H : forall a, 0 <= a -> 0 <= fold_left (fun a c => a * base + digit_val c) ds a).
  { induction ds as [|d r IH]; intros a Ha; cbn; [assumption|]. apply IH. pose proof (digit_val_nonneg d). nia. }
  apply H. lia.
Qed.

Lemma value_base10 ds a : all_digits ds -> fold_left (fun a c => a * 10 + digit_val c) ds a = value_acc a ds.
Proof.
  intros H. revert a. induction H as [|d r Hd Hr IH]; intros a; cbn; [reflexivity|].
  rewrite (digit_val_dec d Hd). apply IH.
Qed.

Lemma value_base10_value ds : all_digits ds -> value_base 10 ds = value ds.
Proof. intros H. unfold value_base, value. now apply value_base10. Qed.

(* ---------- the scanner's decomposition: s = ws ++ sign ++ prefix ++ digits ++ rest ---------- *)
Lemma sign_split_app s : fst (sign_split s) ++ snd (sign_split s) = s.
Proof. unfold sign_split. destruct s as [|c r]; [reflexivity|]. destruct ((c =? 45) || (c =? 43)); reflexivity. Qed.

Lemma sign_split_cases s : fst (sign_split s) = [] \/ fst (sign_split s) = [45] \/ fst (sign_split s) = [43].
Proof.
  unfold sign_split. destruct s as [|c r]; [now left|].
  destruct (Z.eqb_spec c 45) as [->|]; [right; left; reflexivity|].
  destruct (Z.eqb_spec c 43) as [->|]; [right; right; reflexivity|]. now left.
Qed.

Lemma prefix_split_app base s : fst (prefix_split base s) ++ snd (prefix_split base s) = s.
Proof.
  unfold prefix_split. destruct s as [|z [|x [|h r]]]; try reflexivity.
  destruct ((base =? 16) && (z =? 48) && ((x =? 120) || (x =? 88)) && is_bdigit 16 h); reflexivity.
Qed.

Lemma prefix_split_cases base s :
  (fst (prefix_split base s) = [] /\ snd (prefix_split base s) = s) \/
  (base = 16 /\ exists x h r, (x = 120 \/ x = 88) /\ is_bdigit 16 h = true /\ s = 48 :: x :: h :: r /\
                              fst (prefix_split base s) = [48; x] /\ snd (prefix_split base s) = h :: r).
Proof.
  unfold prefix_split. destruct s as [|z [|x [|h r]]]; try (left; split; reflexivity).
  destruct ((base =? 16) && (z =? 48) && ((x =? 120) || (x =? 88)) && is_bdigit 16 h) eqn:E; [|left; split; reflexivity].
  right. apply andb_true_iff in E. destruct E as [E Hh]. apply andb_true_iff in E. destruct E as [E Hx].
  apply andb_true_iff in E. destruct E as [Hb Hz].
  apply Z.eqb_eq in Hb. apply Z.eqb_eq in Hz. split; [assumption|]. exists x, h, r. subst z.
  repeat split; try reflexivity; try assumption.
  apply orb_true_iff in Hx. destruct Hx as [Hx|Hx]; apply Z.eqb_eq in Hx; [now left | now right].
Qed.

Lemma prefix_split_not16 base s : base <> 16 -> prefix_split base s = ([], s).
Proof.
  intros H. unfold prefix_split. destruct s as [|z [|x [|h r]]]; try reflexivity.
  destruct (Z.eqb_spec base 16); [contradiction | reflexivity].
Qed.

Lemma scan_num_app base s :
  s = sc_ws (scan_num base s) ++ sc_sign (scan_num base s) ++ sc_pre (scan_num base s) ++ sc_ds (scan_num base s) ++ sc_rest (scan_num base s).
Proof.
  unfold scan_num. cbn [sc_ws sc_sign sc_pre sc_ds sc_rest].
  rewrite take_drop, prefix_split_app, sign_split_app, take_drop. reflexivity.
Qed.

Lemma sc_len_le base s : (sc_len (scan_num base s) <= length s)%nat.
Proof.
  pose proof (scan_num_app base s) as H. apply (f_equal (@length Z)) in H. rewrite !app_length in H.
  unfold sc_len. destruct (sc_ds (scan_num base s)) eqn:E; [lia|]. lia.
Qed.

Lemma sc_len_firstn base s : sc_ds (scan_num base s) <> [] ->
  firstn (sc_len (scan_num base s)) s =
  sc_ws (scan_num base s) ++ sc_sign (scan_num base s) ++ sc_pre (scan_num base s) ++ sc_ds (scan_num base s).
Proof.
  intros Hne. pose proof (scan_num_app base s) as H.
  set (k := scan_num base s) in *.
  assert (L : sc_len k = length (sc_ws k ++ sc_sign k ++ sc_pre k ++ sc_ds k)).
  { unfold sc_len. destruct (sc_ds k) as [|d ds] eqn:E; [congruence|]. rewrite !app_length. cbn [length]. lia. }
  rewrite L.
  assert (H' : s = (sc_ws k ++ sc_sign k ++ sc_pre k ++ sc_ds k) ++ sc_rest k) by (rewrite <- !app_assoc; exact H).
  rewrite H' at 1. apply firstn_app_exact.
Qed.
