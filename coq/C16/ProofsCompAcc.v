(* C16 - accepts-only for every scalar front end and for pairs and lists:
   whatever xconvert(pair) / convert_seq deliver, every delivered element is the denotation of its own piece of the
   input (a decomposition of the string into brackets, element texts and separators is exhibited), lies in the range of
   its type, and the reported end position lies inside the string.  No hypothesis on the input string. *)
Require Import V.Lib.Base V.Lib.Dec V.Gen.Consts_C16 V.C16.Model V.C16.Spec V.C16.ProofsBasic V.C16.ProofsRT V.C16.ProofsAcc
  V.C16.ProofsEnum V.C16.ProofsComp V.C16.ProofsCompElems.
Require Import ZifyBool.
Local Open Scope Z_scope.

(* ---------- what an element text denotes, per type ---------- *)
(* bool: one of the words of the table in xconvert(const char*, bool&) *)
Definition bool_text (txt : list Z) (v : Z) : Prop :=
  exists n b adv, In (txt, n, b, adv) bool_words /\ v = b2z b.
(* char: the character itself, or backslash + one of the escape letters *)
Definition char_text (txt : list Z) (v : Z) : Prop :=
  txt = [v] \/ exists c, txt = [char_escape_lead; c] /\ assoc c char_escapes = Some v.
(* enum: a key of the class, or a numeral / imax / imin, whose value is a constant of the class *)
Definition enum_text (ec : eclass) (txt : list Z) (v : Z) : Prop :=
  exists k, In (k, v) (ec_entries ec) /\
    (txt = k \/ keyword_signed int_min int_max txt v \/ numeral txt v).

Definition denotes (ty : Z) (txt : list Z) (v : Z) : Prop :=
  txt <> [] /\
  ((ty = 0 /\ bool_text txt v) \/
   (ty = 1 /\ char_text txt v) \/
   (2 <= ty <= 7 /\ ty_min ty <= v <= ty_max ty /\ (keyword ty txt v \/ numeral txt v)) \/
   (~ 0 <= ty <= 7 /\ exists ec, find_enum ty enum_classes = Some ec /\ enum_text ec txt v)).

(* ---------- bool ---------- *)
Definition bool_row_ok (row : list Z * nat * bool * nat) : bool :=
  let '(lit, n, _, adv) := row in (n =? length lit)%nat && (adv =? n)%nat && negb (n =? 0)%nat.
Lemma bool_words_ok : forallb bool_row_ok bool_words = true.
Proof. vm_compute. reflexivity. Qed.

Lemma bool_kw_sound tab x v adv : bool_kw tab x = Some (v, adv) ->
  exists lit n, In (lit, n, v, adv) tab /\ strncmp_eq x lit n = true.
Proof.
  induction tab as [|[[[lit n] w] a] r IH]; cbn [bool_kw]; [discriminate|].
  destruct (strncmp_eq x lit n) eqn:E.
  - intros H; injection H as -> ->. exists lit, n. split; [now left | exact E].
  - intros H. destruct (IH H) as (l & m & Hin & Hs). exists l, m. split; [now right | exact Hs].
Qed.

Lemma parse_bool_sound e x : p_ok (parse_bool e x) = true ->
  (0 < p_len (parse_bool e x) <= length x)%nat /\
  bool_text (firstn (p_len (parse_bool e x)) x) (p_val (parse_bool e x)).
Proof.
  unfold parse_bool. destruct x as [|c0 x0] eqn:Ex; [cbn; discriminate|]. rewrite <- Ex.
  destruct (bool_kw bool_words x) as [[v adv]|] eqn:Ek; [|cbn; discriminate]. intros _. cbn [p_len p_val].
  destruct (bool_kw_sound _ _ _ _ Ek) as (lit & n & Hin & Hs).
  pose proof bool_words_ok as T. rewrite forallb_forall in T. specialize (T _ Hin). cbn in T.
  apply andb_true_iff in T. destruct T as [T T3]. apply andb_true_iff in T. destruct T as [T1 T2].
  apply Nat.eqb_eq in T1, T2. subst adv. subst n.
  pose proof (strncmp_eq_prefix x lit Hs) as F.
  split.
  - split; [destruct (length lit); [discriminate | lia] | eapply firstn_eq_length; [exact F | reflexivity]].
  - rewrite F. exists (length lit), v, (length lit). split; [exact Hin | reflexivity].
Qed.

(* ---------- char ---------- *)
Lemma escapes_need_char : assoc 0 char_escapes = None.
Proof. vm_compute. reflexivity. Qed.

Lemma parse_char_sound e x : p_ok (parse_char e x) = true ->
  (0 < p_len (parse_char e x) <= length x)%nat /\
  char_text (firstn (p_len (parse_char e x)) x) (p_val (parse_char e x)).
Proof.
  unfold parse_char. destruct x as [|c r]; [cbn; discriminate|]. intros _.
  destruct (Z.eqb_spec c char_escape_lead) as [->|Hc].
  - destruct (assoc (hd 0 r) char_escapes) as [o|] eqn:Ea.
    + destruct r as [|d r']; [cbn [hd] in Ea; rewrite escapes_need_char in Ea; discriminate|].
      cbn [hd] in Ea. cbn [p_len p_val length firstn]. split; [lia|]. right. exists d. split; [reflexivity | exact Ea].
    + cbn [p_len p_val length firstn]. split; [lia | now left].
  - cbn [p_len p_val length firstn]. split; [lia | now left].
Qed.

(* ---------- every scalar front end ---------- *)
Theorem scalar_sound ty e x : p_ok (parse_scalar ty e x) = true ->
  (0 < p_len (parse_scalar ty e x) <= length x)%nat /\
  denotes ty (firstn (p_len (parse_scalar ty e x)) x) (p_val (parse_scalar ty e x)).
Proof.
  intros Hok.
  assert (Hne : forall n, (0 < n <= length x)%nat -> firstn n x <> []).
  { intros n Hn C. apply (f_equal (@length Z)) in C. rewrite firstn_length in C. cbn in C. lia. }
  destruct (Z.eq_dec ty 0) as [->|N0].
  { change (parse_scalar 0 e x) with (parse_bool e x) in *. destruct (parse_bool_sound e x Hok) as (L & D).
    split; [exact L|]. split; [now apply Hne | left; now split]. }
  destruct (Z.eq_dec ty 1) as [->|N1].
  { change (parse_scalar 1 e x) with (parse_char e x) in *. destruct (parse_char_sound e x Hok) as (L & D).
    split; [exact L|]. split; [now apply Hne | right; left; now split]. }
  destruct (Z_le_dec 2 ty) as [L2|G2]; [destruct (Z_le_dec ty 7) as [L7|G7]|].
  - destruct (accepts_only ty e x (conj L2 L7) Hok) as (L & R & D). cbn zeta in *.
    split; [exact L|]. split; [now apply Hne | right; right; left; auto].
  - revert Hok. unfold parse_scalar.
    repeat match goal with |- context [ty =? ?k] => destruct (Z.eqb_spec ty k); [lia|] end.
    destruct (find_enum ty enum_classes) as [ec|] eqn:Ef; [|cbn; discriminate]. intros Hok.
    destruct (parse_enum_sound ec e x Hok) as (L & k & Hin & D). cbn zeta in *.
    split; [exact L|]. split; [now apply Hne|]. right; right; right. split; [lia|].
    exists ec. split; [exact Ef|]. exists k. split; assumption.
  - revert Hok. unfold parse_scalar.
    repeat match goal with |- context [ty =? ?k] => destruct (Z.eqb_spec ty k); [lia|] end.
    destruct (find_enum ty enum_classes) as [ec|] eqn:Ef; [|cbn; discriminate]. intros Hok.
    destruct (parse_enum_sound ec e x Hok) as (L & k & Hin & D). cbn zeta in *.
    split; [exact L|]. split; [now apply Hne|]. right; right; right. split; [lia|].
    exists ec. split; [exact Ef|]. exists k. split; assumption.
Qed.

(* a failed conversion reports no progress *)
Lemma pfail_len e : p_len (pfail e) = O.
Proof. reflexivity. Qed.

Lemma parse_signed_fail_len e x smin smax : p_ok (parse_signed e x smin smax) = false -> p_len (parse_signed e x smin smax) = O.
Proof.
  unfold parse_signed. destruct x as [|c0 x0]; [reflexivity|].
  destruct (signed_kw signed_keywords (c0 :: x0) smin smax); [cbn; discriminate|].
  destruct (strtoll (detect_base (c0 :: x0)) (c0 :: x0)) as [[out len] er].
  destruct (if ((out =? c_LLONG_MAX) || (out =? c_LLONG_MIN)) && (e || er) then (er, er) else (false, e || er)) as [bad e2].
  destruct bad; [reflexivity|].
  destruct ((len =? 0)%nat || (out <? smin) || (out >? smax)); [reflexivity | cbn; discriminate].
Qed.

Lemma parse_unsigned_fail_len e x umax : p_ok (parse_unsigned e x umax) = false -> p_len (parse_unsigned e x umax) = O.
Proof.
  unfold parse_unsigned. destruct x as [|c0 x0]; [reflexivity|].
  destruct ((c0 =? unsigned_neg_char) && negb (hd 0 x0 =? unsigned_neg_next)); [reflexivity|].
  destruct (unsigned_kw unsigned_keywords (c0 :: x0)); [cbn; discriminate|].
  destruct (strtoull (detect_base (c0 :: x0)) (c0 :: x0)) as [[out len] er].
  destruct (if (out =? c_ULLONG_MAX) && (e || er) then (er, er) else (false, e || er)) as [bad e2].
  destruct bad; [reflexivity|].
  destruct ((len =? 0)%nat || (out >? umax) || existsb (Z.eqb 45) (firstn len (c0 :: x0))); [reflexivity | cbn; discriminate].
Qed.

Lemma parse_enum_fail_len ec e x : p_ok (parse_enum ec e x) = false -> p_len (parse_enum ec e x) = O.
Proof.
  unfold parse_enum. destruct (p_ok (parse_signed e x int_min int_max)).
  - destruct (ec_valid ec (p_val (parse_signed e x int_min int_max))); [cbn; discriminate | reflexivity].
  - destruct (take_while (fun c => negb (is_kv_stop c)) x) as [|c k]; [reflexivity|].
    destruct (find_by_key (c :: k) (ec_entries ec)); [cbn; discriminate | reflexivity].
Qed.

Lemma scalar_fail_len ty e x : p_ok (parse_scalar ty e x) = false -> p_len (parse_scalar ty e x) = O.
Proof.
  unfold parse_scalar.
  repeat match goal with |- context [ty =? ?k] => destruct (ty =? k) end;
    try apply parse_signed_fail_len; try apply parse_unsigned_fail_len.
  - unfold parse_bool. destruct x; [reflexivity|]. destruct (bool_kw bool_words (z :: x)) as [[v adv]|]; [cbn; discriminate | reflexivity].
  - unfold parse_char. destruct x as [|c r]; [reflexivity|].
    destruct (c =? char_escape_lead); [destruct (assoc (hd 0 r) char_escapes)|]; cbn; discriminate.
  - destruct (find_enum ty enum_classes); [apply parse_enum_fail_len | reflexivity].
Qed.

(* ---------- the sequence loop ---------- *)
Lemma join_cons_ne sep a b r : join sep (a :: b :: r) = a ++ sep :: join sep (b :: r).
Proof. reflexivity. Qed.

Lemma seq_loop_sound ty : forall fuel e n acc els n' f, seq_loop fuel ty e n acc = (els, n', f) ->
  exists txts vals tsep, els = acc ++ vals /\ Forall2 (denotes ty) txts vals /\
    n = join def_sep txts ++ tsep ++ n' /\
    (tsep = [] \/ (tsep = [def_sep] /\ txts <> [] /\ n' <> [])).
Proof.
  induction fuel as [|fu IH]; intros e n acc els n' f; cbn [seq_loop].
  - intros H; injection H as <- <- _. exists [], [], []. rewrite app_nil_r. repeat split; auto.
  - destruct (p_ok (parse_scalar ty e n)) eqn:Eok; cbn [negb].
    2:{ intros H; injection H as <- <- _. exists [], [], []. rewrite app_nil_r. repeat split; auto. }
    destruct (scalar_sound ty e n Eok) as (L & D).
    set (r := parse_scalar ty e n) in *. set (A := firstn (p_len r) n) in *.
    pose proof (firstn_skipn (p_len r) n) as FS. fold A in FS.
    assert (Stop : forall n1, skipn (p_len r) n = n1 -> (acc ++ [p_val r], n1, false) = (els, n', f) ->
      exists txts vals tsep, els = acc ++ vals /\ Forall2 (denotes ty) txts vals /\
        n = join def_sep txts ++ tsep ++ n' /\ (tsep = [] \/ (tsep = [def_sep] /\ txts <> [] /\ n' <> []))).
    { intros n1 E1 H. injection H as <- <- _. exists [A], [p_val r], [].
      split; [reflexivity|]. split; [constructor; [exact D | constructor]|]. cbn [join app]. rewrite <- E1. auto. }
    destruct (skipn (p_len r) n) as [|c [|d t]] eqn:En1; try (apply Stop; reflexivity).
    destruct (Z.eqb_spec c def_sep) as [->|Hc]; [|apply Stop; reflexivity].
    intros H. destruct (IH _ _ _ _ _ _ H) as (txts & vals & tsep & Eels & F2 & En & Ht).
    destruct txts as [|b txts'].
    + inversion F2; subst vals. destruct Ht as [->|(_ & C & _)]; [|congruence]. cbn [join app] in En.
      exists [A], [p_val r], [def_sep]. split; [rewrite Eels, app_nil_r; reflexivity|].
      split; [constructor; [exact D | constructor]|]. cbn [join app].
      split; [rewrite <- FS, <- En; reflexivity|]. right. repeat split; [discriminate|]. rewrite <- En. discriminate.
    + exists (A :: b :: txts'), (p_val r :: vals), tsep.
      split; [rewrite Eels, <- app_assoc; reflexivity|]. split; [constructor; assumption|].
      split.
      * rewrite join_cons_ne, <- app_assoc. cbn [app]. rewrite <- En. exact (eq_sym FS).
      * destruct Ht as [->|(-> & _ & Hn)]; [now left | right; repeat split; [discriminate | exact Hn]].
Qed.

Lemma app_length_sub {A} (pre suf : list A) : (length (pre ++ suf) - length suf)%nat = length pre.
Proof. rewrite app_length. lia. Qed.

(* ---------- lists ---------- *)
Definition list_shape (x : list Z) (k : nat) (txts : list (list Z)) (tsep : list Z) : Prop :=
  (tsep = [] \/ (tsep = [def_sep] /\ txts <> [])) /\
  ((exists rest, x = join def_sep txts ++ tsep ++ rest /\ (tsep = [] \/ rest <> []) /\ head_is seq_open x = false /\
                 k = length (join def_sep txts ++ tsep)) \/
   (exists rest, x = [seq_open] ++ join def_sep txts ++ tsep ++ [seq_close] ++ rest /\
                 k = length ([seq_open] ++ join def_sep txts ++ tsep ++ [seq_close])) \/
   (exists rest, x = [seq_open] ++ join def_sep txts ++ tsep ++ rest /\ head_is seq_close rest = false /\ k = O)).

Theorem list_sound ty e x els k f : parse_list ty e x = (els, k, f) ->
  (k <= length x)%nat /\ exists txts tsep, Forall2 (denotes ty) txts els /\ list_shape x k txts tsep.
Proof.
  unfold parse_list. destruct (head_is seq_open x) eqn:Eb.
  - destruct x as [|c x0]; [discriminate|]. cbn [head_is] in Eb. apply Z.eqb_eq in Eb. subst c. cbn [tl].
    destruct (seq_loop (S (length (seq_open :: x0))) ty e x0 []) as [[els0 n] fl] eqn:Es.
    destruct (seq_loop_sound ty _ _ _ _ _ _ _ Es) as (txts & vals & tsep & Eels & F2 & En & Ht). cbn [app] in Eels. subst vals.
    cbn [negb orb]. destruct (head_is seq_close n) eqn:Ec.
    + destruct n as [|c n1]; [discriminate|]. cbn [head_is] in Ec. apply Z.eqb_eq in Ec. subst c. cbn [tl].
      remember (length (seq_open :: x0) - length n1)%nat as K eqn:EK.
      intros H; injection H as <- <- _.
      assert (Ex : seq_open :: x0 = ([seq_open] ++ join def_sep txts ++ tsep ++ [seq_close]) ++ n1).
      { rewrite En. cbn [app]. rewrite <- !app_assoc. reflexivity. }
      split; [lia|]. exists txts, tsep. split; [exact F2|]. split; [tauto|]. right; left. exists n1.
      split; [rewrite Ex, <- !app_assoc; reflexivity|]. rewrite EK. rewrite Ex at 1. apply app_length_sub.
    + intros H; injection H as <- <- _. split; [lia|]. exists txts, tsep. split; [exact F2|]. split; [tauto|].
      right; right. exists n. split; [rewrite En; reflexivity | auto].
  - destruct (seq_loop (S (length x)) ty e x []) as [[els0 n] fl] eqn:Es.
    destruct (seq_loop_sound ty _ _ _ _ _ _ _ Es) as (txts & vals & tsep & Eels & F2 & En & Ht). cbn [app] in Eels. subst vals.
    cbn [negb orb]. remember (length x - length n)%nat as K eqn:EK.
    intros H; injection H as <- <- _. split; [lia|]. exists txts, tsep. split; [exact F2|]. split; [tauto|].
    left. exists n. split; [exact En|]. split; [tauto|]. split; [exact Eb|].
    rewrite EK. rewrite En at 1. rewrite app_assoc. apply app_length_sub.
Qed.

Lemma app_same_length_nil {A} (p r : list A) : length p = length (p ++ r) -> r = [].
Proof. rewrite app_length. destruct r; [reflexivity | cbn; lia]. Qed.

(* whole-string conversion of a list: the string IS an optional bracket pair around the element texts *)
Theorem cast_list_sound ty e x els : cast_list ty e x = (true, els) ->
  els <> [] /\ exists txts, Forall2 (denotes ty) txts els /\
    (x = join def_sep txts \/
     exists tsep, (tsep = [] \/ tsep = [def_sep]) /\ x = [seq_open] ++ join def_sep txts ++ tsep ++ [seq_close]).
Proof.
  unfold cast_list. destruct (parse_list ty e x) as [[els0 k] f] eqn:Ep. intros H. injection H as H <-.
  apply andb_true_iff in H. destruct H as [H1 H2]. apply Nat.eqb_eq in H2.
  split; [intros C; rewrite C in H1; discriminate|].
  destruct (list_sound ty e x els0 k f Ep) as (_ & txts & tsep & F2 & Ht & Sh). exists txts. split; [exact F2|].
  destruct Sh as [(rest & Ex & Hr & _ & Ek)|[(rest & Ex & Ek)|(rest & Ex & _ & Ek)]].
  - left. rewrite Ex in H2 at 1. rewrite Ek, app_assoc in H2. apply app_same_length_nil in H2. subst rest.
    destruct Hr as [->|C]; [|congruence]. rewrite Ex, !app_nil_r. reflexivity.
  - right. exists tsep. split; [tauto|].
    assert (Ex' : x = ([seq_open] ++ join def_sep txts ++ tsep ++ [seq_close]) ++ rest) by (rewrite Ex, <- !app_assoc; reflexivity).
    rewrite Ek in H2. rewrite Ex' in H2. apply app_same_length_nil in H2. subst rest. rewrite Ex', app_nil_r. reflexivity.
  - exfalso. rewrite Ex in H2. rewrite Ek in H2. cbn in H2. discriminate.
Qed.

(* ---------- pairs ---------- *)
Definition brackets (op cl : list Z) : Prop := (op = [] /\ cl = []) \/ (op = [pair_open] /\ cl = [pair_close]).

Definition pair_shape (tb ib : Z) (x : list Z) (sum b : Z) (k : nat) (op cl ta_txt : list Z) : Prop :=
  (sum = 2 /\ exists tb_txt rest, denotes tb tb_txt b /\ x = op ++ ta_txt ++ [def_sep] ++ tb_txt ++ cl ++ rest /\
                                  k = length (op ++ ta_txt ++ [def_sep] ++ tb_txt ++ cl)) \/
  (sum = 1 /\ b = ib /\ k = length x /\
     (x = op ++ ta_txt ++ cl \/ (op = [pair_open] /\ x = op ++ ta_txt ++ [def_sep] ++ cl))).

Theorem pair_sound ta tb ia ib e x sum a b k : parse_pair ta tb ia ib e x = (sum, a, b, k) ->
  (k <= length x)%nat /\
  ((sum = 0 /\ a = ia /\ b = ib /\ k = O) \/
   exists op cl ta_txt, brackets op cl /\ denotes ta ta_txt a /\ pair_shape tb ib x sum b k op cl ta_txt).
Proof.
  unfold parse_pair. cbv zeta.
  set (ps := head_is pair_open x). set (n0 := if ps then tl x else x).
  set (ra := parse_scalar ta e n0). set (n1 := skipn (p_len ra) n0).
  assert (Hx : x = (if ps then [pair_open] else []) ++ n0).
  { unfold n0, ps. destruct x as [|c x0]; [reflexivity|]. cbn [head_is]. destruct (Z.eqb_spec c pair_open) as [->|]; reflexivity. }
  destruct (p_ok ra) eqn:Era.
  2:{ (* first component not converted: nothing is accepted *)
    assert (Hnone : match n1 with c :: (_ :: _) as r => if false && (c =? def_sep) then Some (parse_scalar tb (p_err ra) r, r) else None
                             | _ => None end = None) by (destruct n1 as [|c [|d t]]; reflexivity).
    cbn [andb] in *. rewrite Hnone.
    destruct (negb ps || head_is pair_close n1); intros H; injection H as <- <- <- <-; (split; [lia | left; auto]). }
  destruct (scalar_sound ta e n0 Era) as (La & Da). fold ra in La, Da.
  set (A := firstn (p_len ra) n0) in *.
  assert (FS : n0 = A ++ n1) by (symmetry; apply firstn_skipn).
  cbn [andb].
  (* does a second component follow? *)
  assert (Cases : (exists r, n1 = def_sep :: r /\ r <> [] /\
                     match n1 with c :: (_ :: _) as r => if c =? def_sep then Some (parse_scalar tb (p_err ra) r, r) else None | _ => None end
                     = Some (parse_scalar tb (p_err ra) r, r)) \/
                  (match n1 with c :: (_ :: _) as r => if c =? def_sep then Some (parse_scalar tb (p_err ra) r, r) else None | _ => None end = None)).
  { destruct n1 as [|c [|d t]]; [right; reflexivity | right; reflexivity |].
    destruct (Z.eqb_spec c def_sep) as [->|]; [left; exists (d :: t); repeat split; discriminate | right; reflexivity]. }
  destruct Cases as [(r & En1 & Hr & ->) | ->].
  - set (rb := parse_scalar tb (p_err ra) r). destruct (p_ok rb) eqn:Erb.
    + (* two components *)
      destruct (scalar_sound tb (p_err ra) r Erb) as (Lb & Db). fold rb in Lb, Db.
      set (B := firstn (p_len rb) r) in *. set (n2 := skipn (p_len rb) r).
      assert (FSb : r = B ++ n2) by (symmetry; apply firstn_skipn).
      destruct ps eqn:Eps; cbn [negb orb].
      * destruct (head_is pair_close n2) eqn:Ecl.
        -- destruct n2 as [|c n3] eqn:En2; [discriminate|]. cbn [head_is] in Ecl. apply Z.eqb_eq in Ecl. subst c. cbn [tl].
           intros H; injection H as <- <- <- <-.
           assert (Ex : x = ([pair_open] ++ A ++ [def_sep] ++ B ++ [pair_close]) ++ n3).
           { rewrite Hx, FS, En1, FSb. rewrite <- !app_assoc. reflexivity. }
           split; [lia|]. right. exists [pair_open], [pair_close], A. split; [right; auto|]. split; [exact Da|].
           left. split; [reflexivity|]. exists B, n3. split; [exact Db|].
           split; [rewrite Ex, <- !app_assoc; reflexivity|]. rewrite Ex at 1. apply app_length_sub.
        -- intros H; injection H as <- <- <- <-. split; [lia | left; auto].
      * intros H; injection H as <- <- <- <-.
        assert (Ex : x = ([] ++ A ++ [def_sep] ++ B ++ []) ++ n2).
        { rewrite Hx, FS, En1, FSb. rewrite <- !app_assoc. cbn [app]. reflexivity. }
        split; [lia|]. right. exists [], [], A. split; [left; auto|]. split; [exact Da|].
        left. split; [reflexivity|]. exists B, n2. split; [exact Db|].
        split; [rewrite Ex, <- !app_assoc; reflexivity|]. rewrite Ex at 1. apply app_length_sub.
    + (* separator, but the second conversion fails: accepted only as "(first,)" *)
      assert (Lb0 : p_len rb = O) by (apply scalar_fail_len; exact Erb). rewrite Lb0. cbn [skipn].
      destruct ps eqn:Eps; cbn [negb orb].
      * destruct (head_is pair_close r) eqn:Ecl.
        -- destruct r as [|c n3] eqn:Er; [discriminate|]. cbn [head_is] in Ecl. apply Z.eqb_eq in Ecl. subst c. cbn [tl].
           destruct n3 as [|c3 n4]; intros H; injection H as <- <- <- <-.
           ++ assert (Ex : x = [pair_open] ++ A ++ [def_sep] ++ [pair_close]).
              { rewrite Hx, FS, En1. reflexivity. }
              split; [cbn; lia|]. right. exists [pair_open], [pair_close], A. split; [right; auto|]. split; [exact Da|].
              right. split; [reflexivity|]. split; [reflexivity|]. split; [cbn [length]; lia|]. right. auto.
           ++ split; [lia | left; auto].
        -- intros H; injection H as <- <- <- <-. split; [lia | left; auto].
      * destruct r as [|c3 n4]; [congruence|]. intros H; injection H as <- <- <- <-. split; [lia | left; auto].
  - (* no second component *)
    destruct ps eqn:Eps; cbn [negb orb].
    + destruct (head_is pair_close n1) eqn:Ecl.
      * destruct n1 as [|c n3] eqn:En1; [discriminate|]. cbn [head_is] in Ecl. apply Z.eqb_eq in Ecl. subst c. cbn [tl].
        destruct n3 as [|c3 n4]; intros H; injection H as <- <- <- <-.
        -- assert (Ex : x = [pair_open] ++ A ++ [pair_close]) by (rewrite Hx, FS; reflexivity).
           split; [cbn; lia|]. right. exists [pair_open], [pair_close], A. split; [right; auto|]. split; [exact Da|].
           right. split; [reflexivity|]. split; [reflexivity|]. split; [cbn [length]; lia|]. left. exact Ex.
        -- split; [lia | left; auto].
      * intros H; injection H as <- <- <- <-. split; [lia | left; auto].
    + destruct n1 as [|c3 n4] eqn:En1; intros H; injection H as <- <- <- <-.
      * assert (Ex : x = [] ++ A ++ []) by (rewrite Hx, FS; reflexivity).
        split; [cbn; lia|]. right. exists [], [], A. split; [left; auto|]. split; [exact Da|].
        right. split; [reflexivity|]. split; [reflexivity|]. split; [cbn [length]; lia|]. left. exact Ex.
      * split; [lia | left; auto].
Qed.

(* whole-string conversion of a pair: the string IS an optional parenthesis pair around one or two element texts *)
Theorem cast_pair_sound ta tb e x a b : cast_pair ta tb e x = Some (a, b) ->
  exists op cl ta_txt, brackets op cl /\ denotes ta ta_txt a /\
    ((exists tb_txt, denotes tb tb_txt b /\ x = op ++ ta_txt ++ [def_sep] ++ tb_txt ++ cl) \/
     (b = init_val tb /\ (x = op ++ ta_txt ++ cl \/ x = [pair_open] ++ ta_txt ++ [def_sep] ++ [pair_close]))).
Proof.
  unfold cast_pair. destruct (parse_pair ta tb (init_val ta) (init_val tb) e x) as [[[sum a0] b0] k] eqn:Ep.
  destruct (negb (sum =? 0) && (k =? length x)%nat) eqn:Ec; [|discriminate]. intros H; injection H as -> ->.
  apply andb_true_iff in Ec. destruct Ec as [E1 E2]. apply Nat.eqb_eq in E2.
  destruct (pair_sound _ _ _ _ _ _ _ _ _ _ Ep) as (_ & [(-> & _)|(op & cl & ta_txt & Hb & Da & Sh)]); [discriminate|].
  exists op, cl, ta_txt. split; [exact Hb|]. split; [exact Da|].
  destruct Sh as [(_ & tb_txt & rest & Db & Ex & Ek) | (_ & -> & _ & [Ex|(-> & Ex)])].
  - left. exists tb_txt. split; [exact Db|].
    assert (Ex' : x = (op ++ ta_txt ++ [def_sep] ++ tb_txt ++ cl) ++ rest) by (rewrite Ex, <- !app_assoc; reflexivity).
    rewrite Ek in E2. rewrite Ex' in E2. apply app_same_length_nil in E2. subst rest. rewrite Ex', app_nil_r. reflexivity.
  - right. auto.
  - right. split; [reflexivity|]. right. destruct Hb as [(C & _)|(_ & ->)]; [discriminate | exact Ex].
Qed.

(* ---------- range of what is delivered ---------- *)
Definition in_range (ty : Z) (v : Z) : Prop :=
  (ty = 0 /\ (v = 0 \/ v = 1)) \/ (ty = 1 /\ 0 <= v <= 255) \/ (2 <= ty <= 7 /\ ty_min ty <= v <= ty_max ty) \/ enum_const ty v.

Definition is_byte (c : Z) : Prop := 1 <= c <= 255.

Lemma codes_ge_8 : forallb (fun t : Z * list Z * Z * Z => 8 <=? fst (fst (fst t))) enum_classes = true.
Proof. vm_compute. reflexivity. Qed.
Lemma escapes_bytes : forallb (fun p : Z * Z => (1 <=? snd p) && (snd p <=? 255)) char_escapes = true.
Proof. vm_compute. reflexivity. Qed.

Lemma find_enum_code ty l ec : find_enum ty l = Some ec -> exists t, In t l /\ ec_of t = ec /\ fst (fst (fst t)) = ty.
Proof.
  induction l as [|[[[c rep] mn] mx] r IH]; cbn [find_enum]; [discriminate|].
  destruct (Z.eqb_spec c ty) as [->|].
  - intros H; injection H as <-. exists (ty, rep, mn, mx). split; [now left | split; reflexivity].
  - intros H. destruct (IH H) as (t & Ht & E). exists t. split; [now right | exact E].
Qed.

Lemma assoc_In k l v : assoc k l = Some v -> In (k, v) l.
Proof.
  induction l as [|[a b] r IH]; cbn [assoc]; [discriminate|]. destruct (Z.eqb_spec a k) as [->|].
  - intros H; injection H as ->. now left.
  - intros H. right. now apply IH.
Qed.

(* the text is made of bytes (a C string of unsigned chars) => the value is in the range of the type *)
Theorem denotes_in_range ty txt v : Forall is_byte txt -> denotes ty txt v -> in_range ty v.
Proof.
  intros Hb (_ & [(-> & n & bb & adv & _ & ->)|[(-> & Hc)|[(Hty & Hr & _)|(Hty & ec & Hf & k & Hin & _)]]]).
  - left. split; [reflexivity|]. destruct bb; cbn; auto.
  - right; left. split; [reflexivity|]. destruct Hc as [->|(c & -> & Ha)].
    + inversion Hb as [|? ? H1 _]; subst. unfold is_byte in H1. lia.
    + apply assoc_In in Ha. pose proof escapes_bytes as T. rewrite forallb_forall in T. specialize (T _ Ha). cbn [snd] in T. lia.
  - right; right; left. auto.
  - right; right; right. destruct (find_enum_code _ _ _ Hf) as (t & Ht & <- & Hcode).
    pose proof codes_ge_8 as T. rewrite forallb_forall in T. specialize (T t Ht). rewrite Hcode in T.
    split; [lia|]. exists (ec_of t). split; [exact Hf|]. exact (proj2 (proj2 (proj2 (proj2 (proj2 (enum_roundtrip t k v false Ht Hin)))))).
Qed.

(* every element text is a piece of the input *)
Lemma Forall_app_l {A} (P : A -> Prop) a b : Forall P (a ++ b) -> Forall P a.
Proof. intros H. apply Forall_app in H. tauto. Qed.
Lemma Forall_app_r {A} (P : A -> Prop) a b : Forall P (a ++ b) -> Forall P b.
Proof. intros H. apply Forall_app in H. tauto. Qed.

Lemma join_Forall (P : Z -> Prop) sep txts : Forall P (join sep txts) -> Forall (Forall P) txts.
Proof.
  induction txts as [|a r IH]; [constructor|]. destruct r as [|b r'].
  - cbn [join]. intros H. constructor; [exact H | constructor].
  - rewrite join_cons_ne. intros H. constructor; [exact (Forall_app_l _ _ _ H)|].
    apply IH. apply Forall_app_r in H. now inversion H.
Qed.

Lemma Forall2_range ty txts els : Forall (Forall is_byte) txts -> Forall2 (denotes ty) txts els -> Forall (in_range ty) els.
Proof.
  intros Hb F2. induction F2 as [|t v ts vs D _ IH]; [constructor|]. inversion Hb; subst.
  constructor; [eapply denotes_in_range; eassumption | now apply IH].
Qed.

Theorem list_elems_in_range ty e x els k f : Forall is_byte x -> parse_list ty e x = (els, k, f) -> Forall (in_range ty) els.
Proof.
  intros Hb Hp. destruct (list_sound ty e x els k f Hp) as (_ & txts & tsep & F2 & _ & Sh).
  apply (Forall2_range ty txts els); [|exact F2]. apply (join_Forall is_byte def_sep).
  destruct Sh as [(rest & Ex & _)|[(rest & Ex & _)|(rest & Ex & _)]]; rewrite Ex in Hb.
  - exact (Forall_app_l _ _ _ Hb).
  - apply Forall_app_r in Hb. exact (Forall_app_l _ _ _ Hb).
  - apply Forall_app_r in Hb. exact (Forall_app_l _ _ _ Hb).
Qed.

Theorem pair_elems_in_range ta tb ia ib e x sum a b k : Forall is_byte x -> parse_pair ta tb ia ib e x = (sum, a, b, k) ->
  (1 <= sum -> in_range ta a) /\ (2 <= sum -> in_range tb b) /\ (sum = 0 \/ sum = 1 \/ sum = 2).
Proof.
  intros Hb Hp. destruct (pair_sound _ _ _ _ _ _ _ _ _ _ Hp) as (_ & [(-> & _)|(op & cl & ta_txt & _ & Da & Sh)]); [lia|].
  destruct Sh as [(-> & tb_txt & rest & Db & Ex & _) | (-> & _ & _ & Ex)].
  - rewrite Ex in Hb. apply Forall_app_r in Hb. pose proof (Forall_app_l _ _ _ Hb) as Ha. apply Forall_app_r in Hb.
    apply Forall_app_r in Hb. apply Forall_app_l in Hb.
    split; [intros _; exact (denotes_in_range _ _ _ Ha Da)|]. split; [intros _; exact (denotes_in_range _ _ _ Hb Db) | lia].
  - assert (Ha : Forall is_byte ta_txt).
    { destruct Ex as [Ex|(_ & Ex)]; rewrite Ex in Hb; apply Forall_app_r in Hb; exact (Forall_app_l _ _ _ Hb). }
    split; [intros _; exact (denotes_in_range _ _ _ Ha Da)|]. split; [intros; lia | lia].
Qed.

(* ---------- a NUL char never comes back from a list (the exclusion of char-nul-no-roundtrip is necessary) ---------- *)
Lemma cut0_bytes l : Forall (fun c => 0 <= c <= 255) l -> Forall is_byte (cut0 l).
Proof.
  induction 1 as [|c r Hc Hr IH]; cbn [cut0]; [constructor|].
  destruct (Z.eqb_spec c 0); [constructor|]. constructor; [unfold is_byte; lia | exact IH].
Qed.

Theorem list_char_nul_never l : Forall (fun c => 0 <= c <= 255) l -> In 0 l ->
  snd (cast_list 1 false (cut0 (print_list 1 l))) <> l.
Proof.
  intros Hb H0. unfold cast_list.
  destruct (parse_list 1 false (cut0 (print_list 1 l))) as [[els k] f] eqn:Ep. cbn [snd]. intros ->.
  assert (Hx : Forall is_byte (cut0 (print_list 1 l))).
  { apply cut0_bytes. unfold print_list. clear -Hb. induction Hb as [|a r Ha Hr IH]; [constructor|].
    destruct r as [|b r']; cbn [map join] in *; change (print_scalar 1 a) with [a].
    - constructor; [exact Ha | constructor].
    - cbn [app]. constructor; [exact Ha|]. constructor; [unfold def_sep; lia | exact IH]. }
  pose proof (list_elems_in_range 1 false _ _ _ _ Hx Ep) as R.
  (* every delivered char is a byte of the NUL-free text or an escape value, hence not NUL *)
  destruct (list_sound 1 false _ _ _ _ Ep) as (_ & txts & tsep & F2 & _ & Sh).
  assert (Ht : Forall (Forall is_byte) txts).
  { apply (join_Forall is_byte def_sep).
    destruct Sh as [(rest & Ex & _)|[(rest & Ex & _)|(rest & Ex & _)]]; rewrite Ex in Hx.
    - exact (Forall_app_l _ _ _ Hx).
    - apply Forall_app_r in Hx. exact (Forall_app_l _ _ _ Hx).
    - apply Forall_app_r in Hx. exact (Forall_app_l _ _ _ Hx). }
  assert (Hnz : Forall (fun v => v <> 0) l).
  { clear -F2 Ht. induction F2 as [|t v ts vs D _ IH]; [constructor|]. inversion Ht as [|? ? Hbt Hts]; subst.
    constructor; [|now apply IH].
    destruct D as (_ & [(C & _)|[(_ & Hc)|[(C & _)|(C & _)]]]); try lia.
    destruct Hc as [->|(c & -> & Ha)].
    - inversion Hbt as [|? ? H1 _]; subst. unfold is_byte in H1. lia.
    - apply assoc_In in Ha. pose proof escapes_bytes as T. rewrite forallb_forall in T. specialize (T _ Ha). cbn [snd] in T. lia. }
  rewrite Forall_forall in Hnz. exact (Hnz 0 H0 eq_refl).
Qed.
