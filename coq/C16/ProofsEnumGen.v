(* C16 - enumerations, for EVERY descriptor (rep, min, max) - not only the generated classes:
   isValid = within the bounds and in the table; a text the int conversion accepts is accepted for the enumeration iff its number is
   such a constant; every constant of a well-formed descriptor comes back from its key and from its decimal numeral. *)
Require Import V.Lib.Base V.Lib.Dec V.Gen.Consts_C16 V.C16.Model V.C16.Spec V.C16.ProofsBasic V.C16.ProofsRT V.C16.ProofsAcc.
Require Import V.C16.ProofsEnum V.C16.ProofsComp.
Require Import ZifyBool.
Local Open Scope Z_scope.

(* v is a constant of the enumeration: some enumerator of the table has this value *)
Definition is_const (ec : eclass) (v : Z) : Prop := exists k, In (k, v) (ec_entries ec).

Lemma find_by_val_none v l : find_by_val v l = None -> forall k, ~ In (k, v) l.
Proof.
  intros H k Hin. destruct (find_by_val_complete _ _ _ Hin) as (k1 & E). congruence.
Qed.

(* EnumClass::isValid *)
Theorem ec_valid_iff ec v : ec_valid ec v = true <-> (ec_min ec <= v <= ec_max ec /\ is_const ec v).
Proof.
  unfold ec_valid, is_const. split.
  - intros H. apply andb_true_iff in H. destruct H as [H F]. apply andb_true_iff in H. destruct H as [H1 H2].
    split; [lia|]. destruct (find_by_val v (ec_entries ec)) as [k|] eqn:E; [|discriminate].
    exists k. eapply find_by_val_In; exact E.
  - intros (Hb & k & Hin). destruct (find_by_val_complete _ _ _ Hin) as (k1 & ->).
    apply andb_true_iff. split; [apply andb_true_iff; split; lia | reflexivity].
Qed.

Lemma pres_eta p : mkp (p_ok p) (p_val p) (p_len p) (p_err p) = p.
Proof. now destruct p. Qed.

(* numbers: on a text that xconvert(const char*, int&) accepts (a numeral or imax/imin, c16_accepts_only says which number n it
   denotes), EnumClass::convert accepts iff n lies within [min, max] and is a constant; then it delivers exactly n and the same
   end position; otherwise nothing is consumed. *)
Theorem enum_number_iff ec e x : p_ok (parse_signed e x int_min int_max) = true ->
  let n := parse_signed e x int_min int_max in
  (p_ok (parse_enum ec e x) = true <-> (ec_min ec <= p_val n <= ec_max ec /\ is_const ec (p_val n))) /\
  (p_ok (parse_enum ec e x) = true -> parse_enum ec e x = n) /\
  (p_ok (parse_enum ec e x) = false -> parse_enum ec e x = pfail (p_err n)).
Proof.
  intros Hok. cbn zeta. unfold parse_enum. rewrite Hok.
  destruct (ec_valid ec (p_val (parse_signed e x int_min int_max))) eqn:Ev.
  - split; [split; [intros _; now apply ec_valid_iff | reflexivity]|].
    split; [intros _; rewrite <- Hok; apply pres_eta | cbn; discriminate].
  - split; [split; [cbn; discriminate | intros H; apply ec_valid_iff in H; congruence]|].
    split; [cbn; discriminate | reflexivity].
Qed.

(* ---------- well-formed descriptors ---------- *)
Definition starts_with (p k : list Z) : Prop := firstn (length p) k = p.
(* what an enumerator NAME is for the conversions: non-empty, it does not begin like a number (white space, sign, digit) nor with
   the keywords imax / imin of the int conversion.  (That it holds none of the delimiters ' ' ',' '=' is automatic:
   find_kv takes keys with strcspn - enum_entries_keys.) *)
Definition key_ok (k : list Z) : Prop :=
  (exists c r, k = c :: r /\ is_space c = false /\ c <> 45 /\ c <> 43 /\ is_digit c = false) /\
  ~ starts_with kw_imax k /\ ~ starts_with kw_imin k.
Lemma enum_entries_keys fuel : forall args cval k v, In (k, v) (enum_entries fuel args cval) ->
  Forall (fun c => negb (is_kv_stop c) = true) k.
Proof.
  induction fuel as [|f IH]; intros args cval k v; cbn [enum_entries]; [intros []|].
  set (key := take_while (fun c => negb (is_kv_stop c)) args).
  destruct (match drop_while is_blank (drop_while (fun c : Z => negb (is_kv_stop c)) args) with
            | [] => (cval, drop_while is_blank (drop_while (fun c : Z => negb (is_kv_stop c)) args))
            | c :: r => _ end) as [cv v2].
  intros [H|H].
  - injection H as <- _. apply take_while_all.
  - destruct v2 as [|c r]; [destruct H|]. destruct (c =? 44); [|destruct H]. eapply IH; exact H.
Qed.
(* names are pairwise different (C++ guarantees it), every constant lies within [min, max] (min <= every enumerator, max = the
   last = the largest), the bounds are ints *)
Definition ec_wf (ec : eclass) : Prop :=
  (forall k v, In (k, v) (ec_entries ec) -> key_ok k) /\
  NoDup (map fst (ec_entries ec)) /\
  (forall k v, In (k, v) (ec_entries ec) -> ec_min ec <= v <= ec_max ec) /\
  int_min <= ec_min ec /\ ec_max ec <= int_max.

(* what may follow a key: the end of the string or one of find_kv's delimiters *)
Definition key_end (rest : list Z) : Prop := match rest with [] => True | c :: _ => is_kv_stop c = true end.
Lemma key_end_stops rest : key_end rest -> stops_at (fun c => negb (is_kv_stop c)) rest.
Proof. destruct rest as [|c r]; cbn; [trivial|]. intros ->. reflexivity. Qed.
Lemma sep_or_end_key_end rest : sep_or_end rest -> key_end rest.
Proof. intros [->|(r & ->)]; cbn; [trivial | reflexivity]. Qed.

Lemma list_eqb_refl a : list_eqb a a = true.
Proof. now apply list_eqb_eq. Qed.

Lemma find_by_key_nodup l k v : NoDup (map fst l) -> In (k, v) l -> find_by_key k l = Some v.
Proof.
  induction l as [|[k' w] r IH]; cbn [map fst In find_by_key]; [tauto|]. intros ND [H|H].
  - injection H as -> ->. now rewrite list_eqb_refl.
  - inversion ND as [|? ? Hn ND']; subst. destruct (list_eqb k' k) eqn:E.
    + apply list_eqb_eq in E. subst k'. exfalso. apply Hn. change k with (fst (k, v)). now apply in_map.
    + now apply IH.
Qed.

(* a keyword literal that holds no delimiter and matches key ++ rest already matches the key *)
Lemma firstn_key_lit lit : Forall (fun c => is_kv_stop c = false) lit -> forall k rest, key_end rest ->
  firstn (length lit) (k ++ rest) = lit -> firstn (length lit) k = lit.
Proof.
  induction lit as [|d l IH]; intros Hl k rest Hr H; [reflexivity|]. inversion Hl as [|? ? Hd Hl']; subst.
  destruct k as [|c k'].
  - cbn [app] in H. destruct rest as [|c r]; [cbn in H; discriminate|]. cbn [length firstn] in H. injection H as -> _.
    cbn in Hr. congruence.
  - cbn [app length firstn] in *. injection H as -> H. f_equal. eapply IH; eassumption.
Qed.

Lemma signed_kw_key k rest smin smax : ~ starts_with kw_imax k -> ~ starts_with kw_imin k -> key_end rest ->
  signed_kw signed_keywords (k ++ rest) smin smax = None.
Proof.
  intros H1 H2 Hr. unfold signed_keywords. cbn [signed_kw].
  destruct (strncmp_eq (k ++ rest) [105; 109; 97; 120] 4) eqn:E1.
  { exfalso. apply H1. apply (strncmp_eq_prefix _ [105; 109; 97; 120]) in E1.
    apply (firstn_key_lit kw_imax) with (rest := rest); [repeat constructor | assumption | exact E1]. }
  destruct (strncmp_eq (k ++ rest) [105; 109; 105; 110] 4) eqn:E2.
  { exfalso. apply H2. apply (strncmp_eq_prefix _ [105; 109; 105; 110]) in E2.
    apply (firstn_key_lit kw_imin) with (rest := rest); [repeat constructor | assumption | exact E2]. }
  reflexivity.
Qed.

(* a text that neither is a keyword nor starts like a number is rejected by parseSigned, errno untouched *)
Lemma parse_signed_nonnum_kw e c r smin smax :
  signed_kw signed_keywords (c :: r) smin smax = None -> is_space c = false -> c <> 45 -> c <> 43 -> is_digit c = false ->
  parse_signed e (c :: r) smin smax = pfail e.
Proof.
  intros Hkw Hs Hm Hp Hd. unfold parse_signed. rewrite Hkw.
  assert (Hb : detect_base (c :: r) = 10).
  { unfold detect_base, base_lead, base_default. destruct r as [|c1 r']; [reflexivity|].
    destruct (Z.eqb_spec c 48) as [->|]; [cbn in Hd; discriminate | reflexivity]. }
  rewrite Hb.
  assert (Hst : strtoll 10 (c :: r) = (0, O, false)).
  { unfold strtoll, scan_num. cbn [sc_ds].
    rewrite (drop_while_head_false is_space c r Hs).
    assert (Hss : sign_split (c :: r) = ([], c :: r)).
    { unfold sign_split. destruct (Z.eqb_spec c 45); [contradiction|]. destruct (Z.eqb_spec c 43); [contradiction|]. reflexivity. }
    rewrite Hss. cbn [fst snd]. rewrite (prefix_split_not16 10 (c :: r)) by lia. cbn [fst snd].
    rewrite take_while_head_false; [reflexivity|]. rewrite is_bdigit10. exact Hd. }
  rewrite Hst.
  change (0 =? c_LLONG_MAX) with false. change (0 =? c_LLONG_MIN) with false. cbn [orb andb Nat.eqb].
  now rewrite orb_false_r.
Qed.

(* a key of a well-formed descriptor, alone or in front of a delimiter, reads back as its value; errno untouched *)
Lemma parse_enum_key ec k v e rest : ec_wf ec -> In (k, v) (ec_entries ec) -> key_end rest ->
  parse_enum ec e (k ++ rest) = mkp true v (length k) e.
Proof.
  intros (Hk & Hnd & _ & _) Hin Hr. destruct (Hk k v Hin) as ((c & r & Ek & Hs & Hm & Hp & Hd) & Hx & Hn).
  pose proof (enum_entries_keys _ _ _ _ _ Hin) as Hstop.
  unfold parse_enum.
  assert (Hps : parse_signed e (k ++ rest) int_min int_max = pfail e).
  { pose proof (signed_kw_key k rest int_min int_max Hx Hn Hr) as Hkw. rewrite Ek in *. cbn [app] in *.
    now apply parse_signed_nonnum_kw. }
  rewrite Hps. cbn [pfail p_ok p_err].
  rewrite (take_while_app _ k rest Hstop (key_end_stops rest Hr)).
  rewrite (find_by_key_nodup _ k v Hnd Hin). rewrite Ek. reflexivity.
Qed.

(* round trip for every constant of every well-formed descriptor: v is written as a key of v; that key - alone (whole-string
   conversion), or followed by ' ' ',' '=' (prefix conversion, inside pairs and lists) - and the decimal numeral of v read back as v
   with the end position right behind; isValid(v) holds *)
Theorem enum_roundtrip_gen ec v e : ec_wf ec -> is_const ec v ->
  In (print_enum ec v, v) (ec_entries ec) /\
  (forall rest, key_end rest -> parse_enum ec e (print_enum ec v ++ rest) = mkp true v (length (print_enum ec v)) e) /\
  (forall rest, nonalnum rest -> exists e', parse_enum ec e (print_signed v ++ rest) = mkp true v (length (print_signed v)) e') /\
  ec_valid ec v = true.
Proof.
  intros Hwf (k & Hin). pose proof (print_enum_is_key ec v k Hin) as Hp.
  pose proof Hwf as (_ & _ & Hb & Hlo & Hhi). specialize (Hb k v Hin).
  assert (Hv : ec_valid ec v = true) by (apply ec_valid_iff; split; [lia | now exists k]).
  split; [exact Hp|]. split; [intros rest Hr; now apply parse_enum_key|]. split; [|exact Hv].
  intros rest Hr.
  destruct (parse_signed_print e v rest int_min int_max) as (e' & E); try assumption; try (consts; lia); try lia.
  exists e'. unfold parse_enum. rewrite E. cbn [p_ok p_val p_len p_err]. now rewrite Hv.
Qed.

(* a number is accepted for a well-formed descriptor iff it is one of its constants (the bounds add nothing) *)
Theorem enum_number_iff_wf ec e x : ec_wf ec -> p_ok (parse_signed e x int_min int_max) = true ->
  (p_ok (parse_enum ec e x) = true <-> is_const ec (p_val (parse_signed e x int_min int_max))).
Proof.
  intros (_ & _ & Hb & _) Hok. destruct (enum_number_iff ec e x Hok) as (H & _). cbn zeta in H. rewrite H.
  split; [tauto|]. intros (k & Hin). split; [eapply Hb; exact Hin | now exists k].
Qed.

(* ---------- the generated classes are well-formed (decided by computation) ---------- *)
Definition key_okb (k : list Z) : bool :=
  match k with
  | c :: _ => negb (is_space c) && negb (c =? 45) && negb (c =? 43) && negb (is_digit c)
  | [] => false
  end &&
  negb (list_eqb (firstn (length kw_imax) k) kw_imax) && negb (list_eqb (firstn (length kw_imin) k) kw_imin).
Fixpoint nodupb (l : list (list Z)) : bool :=
  match l with
  | [] => true
  | a :: r => negb (existsb (list_eqb a) r) && nodupb r
  end.
Definition ec_wfb (ec : eclass) : bool :=
  forallb (fun kv => key_okb (fst kv) && (ec_min ec <=? snd kv) && (snd kv <=? ec_max ec)) (ec_entries ec) &&
  nodupb (map fst (ec_entries ec)) && (int_min <=? ec_min ec) && (ec_max ec <=? int_max).

Lemma key_okb_ok k : key_okb k = true -> key_ok k.
Proof.
  unfold key_okb, key_ok. intros H. repeat (apply andb_true_iff in H; destruct H as [H ?]).
  destruct k as [|c r]; [discriminate|]. repeat (apply andb_true_iff in H; destruct H as [H ?]).
  split; [exists c, r; split; [reflexivity|]; split; [now destruct (is_space c)|]; split; [lia|]; split; [lia | now destruct (is_digit c)]|].
  unfold starts_with. split; intros E; rewrite E, list_eqb_refl in *; discriminate.
Qed.
Lemma nodupb_ok l : nodupb l = true -> NoDup l.
Proof.
  induction l as [|a r IH]; cbn [nodupb]; [constructor|]. intros H. apply andb_true_iff in H. destruct H as [H1 H2].
  constructor; [|now apply IH]. intros Hin. apply negb_true_iff in H1.
  assert (existsb (list_eqb a) r = true) by (apply existsb_exists; exists a; split; [assumption | apply list_eqb_refl]). congruence.
Qed.
Lemma ec_wfb_ok ec : ec_wfb ec = true -> ec_wf ec.
Proof.
  unfold ec_wfb, ec_wf. intros H. repeat (apply andb_true_iff in H; destruct H as [H ?]). rewrite forallb_forall in H.
  assert (A : forall k v, In (k, v) (ec_entries ec) -> key_ok k /\ ec_min ec <= v <= ec_max ec).
  { intros k v Hin. specialize (H _ Hin). cbn [fst snd] in H.
    apply andb_true_iff in H. destruct H as [H Hmx]. apply andb_true_iff in H. destruct H as [H Hmn].
    split; [now apply key_okb_ok | lia]. }
  split; [intros k v Hin; now apply (A k v)|]. split; [now apply nodupb_ok|].
  split; [intros k v Hin; now apply (A k v)|]. lia.
Qed.

Lemma all_classes_wfb : forallb (fun t => ec_wfb (ec_of t)) enum_classes = true.
Proof. vm_compute. reflexivity. Qed.
Theorem classes_wf t : In t enum_classes -> ec_wf (ec_of t).
Proof. intros Ht. apply ec_wfb_ok. pose proof all_classes_wfb as A. rewrite forallb_forall in A. now apply A. Qed.
