(* C16 - what an accepted text has to denote (definitions only).
   A numeral is read in the base announced by its first two characters:
     0x / 0X followed by hexadecimal digits;  0 followed by octal digits;  otherwise optional white space,
     optional sign and decimal digits.  Digit runs have ANY length: value_base works in Z, nothing wraps.  *)
Require Import V.Lib.Base V.Gen.Consts_C16 V.C16.Model.
Local Open Scope Z_scope.

Definition sign_of (sg : list Z) (sgn : Z) : Prop :=
  (sg = [] /\ sgn = 1) \/ (sg = [43] /\ sgn = 1) \/ (sg = [45] /\ sgn = -1).

(* not of the form 0x.. / 0X.. / 0<octal digit>.. *)
Definition plain (p : list Z) : Prop :=
  match p with
  | c0 :: c :: _ => c0 = 48 -> c <> 120 /\ c <> 88 /\ is_bdigit 8 c = false
  | _ => True
  end.

Inductive numeral : list Z -> Z -> Prop :=
| num_hex x ds : x = 120 \/ x = 88 -> ds <> [] -> Forall (fun c => is_bdigit 16 c = true) ds ->
    numeral (48 :: x :: ds) (value_base 16 ds)
| num_oct d ds : is_bdigit 8 d = true -> Forall (fun c => is_bdigit 8 c = true) ds ->
    numeral (48 :: d :: ds) (value_base 8 (48 :: d :: ds))
| num_dec ws sg ds sgn : Forall (fun c => is_space c = true) ws -> sign_of sg sgn -> ds <> [] ->
    Forall (fun c => is_bdigit 10 c = true) ds -> plain (ws ++ sg ++ ds) ->
    numeral (ws ++ sg ++ ds) (sgn * value_base 10 ds).

(* the documented keywords *)
Definition kw_imax : list Z := [105; 109; 97; 120].
Definition kw_imin : list Z := [105; 109; 105; 110].
Definition kw_umax : list Z := [117; 109; 97; 120].
Definition kw_m1 : list Z := [45; 49].
Definition keyword_signed (smin smax : Z) (p : list Z) (v : Z) : Prop :=
  (p = kw_imax /\ v = smax) \/ (p = kw_imin /\ v = smin).
Definition keyword_unsigned (umax : Z) (p : list Z) (v : Z) : Prop :=
  (p = kw_imax /\ v = umax / 2) \/ (p = kw_umax /\ v = umax) \/ (p = kw_m1 /\ v = umax).
