(* C02 - which inputs make SmodelsConvert + SmodelsOutput fail: exactly the calls smodels cannot carry. *)
Require Import V.Lib.Base V.Lib.Calls V.Gen.Consts V.Gen.Consts_C02 V.C02.Model V.C02.Spec V.C02.ProofsMap.
Require Import ZifyBool.
Local Open Scope Z_scope.

(* ---- the writer accepts a list of calls ---- *)
Definition accepts (ext : bool) (w : sw) (cs : list call) (w' : sw) : Prop := sw_calls ext w cs = (w', cs, true).

Lemma accepts_nil ext w : accepts ext w [] w.
Proof. reflexivity. Qed.

Lemma accepts_cons ext w c r w1 w' : sw_call ext 0 w c = Some w1 -> accepts ext w1 r w' -> accepts ext w (c :: r) w'.
Proof. unfold accepts; simpl. intros -> ->. reflexivity. Qed.

Lemma accepts_app ext a : forall w b w1 w2, accepts ext w a w1 -> accepts ext w1 b w2 -> accepts ext w (a ++ b) w2.
Proof.
  induction a as [|c a IH]; intros w b w1 w2 H1 H2.
  - unfold accepts in H1; simpl in H1. inversion H1; subst. exact H2.
  - unfold accepts in *. simpl in *. destruct (sw_call ext 0 w c) as [wc|]; [|discriminate].
    destruct (sw_calls ext wc a) as [[wx acc] ok] eqn:E. inversion H1; subst.
    rewrite (IH wc b w1 w2 E H2). reflexivity.
Qed.

Definition nonempty {A} (l : list A) : bool := negb (match l with [] => true | _ => false end).

(* calls that the writer accepts in the rule section (sec_ = 0) without changing its state *)
Definition neutralb (ext : bool) (c : call) : bool :=
  match c with
  | CRule _ h _ => nonempty h
  | CWRule ht h bd _ => nonempty h && sm_rule_ok ht h bd
  | CMin _ _ => true
  | CExternal _ _ => ext
  | _ => false
  end.

Lemma neutral_call ext c w : neutralb ext c = true -> sec w = 0 -> sw_call ext 0 w c = Some w.
Proof.
  destruct c; simpl; try discriminate; intros H Hs.
  - rewrite Hs; simpl. destruct head; [discriminate | reflexivity].
  - rewrite Hs; simpl. destruct head; [discriminate|]. simpl in H. rewrite H. reflexivity.
  - reflexivity.
  - rewrite H. reflexivity.
Qed.

Lemma neutral_accepts ext cs : forall w, forallb (neutralb ext) cs = true -> sec w = 0 -> accepts ext w cs w.
Proof.
  induction cs as [|c r IH]; intros w H Hs; [apply accepts_nil|].
  simpl in H. apply andb_true_iff in H as [Hc Hr].
  eapply accepts_cons; [apply neutral_call; assumption | apply IH; assumption].
Qed.

Definition outb (c : call) : bool := match c with COutput _ [x] => 0 <? x | _ => false end.

Lemma out_accepts ext cs : forall w, forallb outb cs = true -> 0 <= sec w <= 1 ->
  exists w', accepts ext w cs w' /\ 0 <= sec w' <= 1.
Proof.
  induction cs as [|c r IH]; intros w H Hs.
  - exists w. split; [apply accepts_nil | exact Hs].
  - simpl in H. apply andb_true_iff in H as [Hc Hr].
    destruct c; try discriminate. destruct cond as [|x [|y t]]; try discriminate. simpl in Hc.
    destruct (IH (mkSw 1 (fhead w)) Hr) as [w' [A S]]; [simpl; lia|].
    exists w'. split; [|exact S]. eapply accepts_cons; [|exact A].
    simpl. replace (sec w <=? 1) with true by lia. rewrite Hc. reflexivity.
Qed.

(* ---- frame: operations that leave heuristic_ and output_ alone ---- *)
Definition same_ho (s s' : cv) : Prop := heus s' = heus s /\ outs s' = outs s.
Lemma same_ho_refl s : same_ho s s. Proof. split; reflexivity. Qed.
Lemma same_ho_trans a b c : same_ho a b -> same_ho b c -> same_ho a c.
Proof. intros [H1 H2] [H3 H4]. split; congruence. Qed.

Lemma ho_mapAtom s a : same_ho s (fst (mapAtom s a)).
Proof. unfold mapAtom. destruct (negb _); split; reflexivity. Qed.
Lemma ho_mapLit s l : same_ho s (fst (mapLit s l)).
Proof. unfold mapLit. pose proof (ho_mapAtom s (Z.abs l)). destruct (mapAtom s (Z.abs l)). exact H. Qed.
Lemma ho_mapLits ls : forall s, same_ho s (fst (mapLits s ls)).
Proof.
  induction ls as [|l r IH]; intros s; simpl; [apply same_ho_refl|].
  pose proof (ho_mapLit s l) as H1. destruct (mapLit s l) as [s1 x]. pose proof (IH s1) as H2.
  destruct (mapLits s1 r). simpl in *. eapply same_ho_trans; eassumption.
Qed.
Lemma ho_mapWLits ls : forall s, same_ho s (fst (mapWLits s ls)).
Proof.
  induction ls as [|[l w] r IH]; intros s; simpl; [apply same_ho_refl|].
  pose proof (ho_mapLit s l) as H1. destruct (mapLit s l) as [s1 x]. pose proof (IH s1) as H2.
  destruct (mapWLits s1 r). simpl in *. eapply same_ho_trans; eassumption.
Qed.
Lemma ho_mapHeadAtom s a : same_ho s (fst (mapHeadAtom s a)).
Proof.
  unfold mapHeadAtom. pose proof (ho_mapAtom s a) as H. destruct (mapAtom s a) as [s1 r]. simpl in *.
  destruct H. split; simpl; assumption.
Qed.
Lemma ho_mapHeadAtoms h : forall s, same_ho s (fst (mapHeadAtoms s h)).
Proof.
  induction h as [|a r IH]; intros s; simpl; [apply same_ho_refl|].
  pose proof (ho_mapHeadAtom s a) as H1. destruct (mapHeadAtom s a) as [s1 x]. pose proof (IH s1) as H2.
  destruct (mapHeadAtoms s1 r). simpl in *. eapply same_ho_trans; eassumption.
Qed.
Lemma ho_mapHead s h : same_ho s (fst (mapHead s h)).
Proof. unfold mapHead. pose proof (ho_mapHeadAtoms h s). destruct (mapHeadAtoms s h). exact H. Qed.
Lemma ho_makeAux s cond : same_ho s (fst (fst (makeAux s cond))).
Proof.
  unfold makeAux. unfold newAtom. simpl.
  match goal with |- context [mapLits ?s0 cond] => pose proof (ho_mapLits cond s0) as H; destruct (mapLits s0 cond) end.
  simpl in *. exact H.
Qed.
Lemma ho_makeAtom s cond named : same_ho s (fst (fst (makeAtom s cond named))).
Proof.
  unfold makeAtom. destruct cond as [|c [|c2 r]]; try apply ho_makeAux.
  destruct (c <? 0); [apply ho_makeAux|].
  pose proof (ho_mapAtom s (Z.abs c)) as H. destruct (mapAtom s (Z.abs c)) as [s1 r]. simpl in H.
  destruct (ashow r && named).
  - eapply same_ho_trans; [exact H | apply ho_makeAux].
  - simpl. destruct H. split; simpl; assumption.
Qed.
Lemma ho_flushMinimize m : forall s, same_ho s (fst (flushMinimize s m)).
Proof.
  induction m as [|[p ls] r IH]; intros s; simpl; [apply same_ho_refl|].
  pose proof (ho_mapWLits ls s) as H1. destruct (mapWLits s ls) as [s1 ml]. pose proof (IH s1) as H2.
  destruct (flushMinimize s1 r). simpl in *. eapply same_ho_trans; eassumption.
Qed.
Lemma ho_flushExternal_f ext es : forall s hd, same_ho s (fst (fst (flushExternal_f ext s es hd))).
Proof.
  induction es as [|a r IH]; intros s hd; simpl; [apply same_ho_refl|].
  pose proof (ho_mapAtom s a) as H1. destruct (mapAtom s a) as [s1 ar]. simpl in H1.
  destruct ext.
  - pose proof (IH s1 hd) as H2. destruct (flushExternal_f true s1 r hd) as [[s2 cs] hd2]. simpl in *.
    eapply same_ho_trans; eassumption.
  - destruct (ahead ar); [eapply same_ho_trans; [exact H1 | apply IH]|].
    destruct (aextn ar =? Value_t_Free); [eapply same_ho_trans; [exact H1 | apply IH]|].
    destruct (aextn ar =? Value_t_True); [|eapply same_ho_trans; [exact H1 | apply IH]].
    pose proof (IH s1 hd) as H2. destruct (flushExternal_f false s1 r hd) as [[s2 cs] hd2]. simpl in *.
    eapply same_ho_trans; eassumption.
Qed.
Lemma ho_flushExternal ext s : same_ho s (fst (flushExternal ext s)).
Proof.
  unfold flushExternal. pose proof (ho_flushExternal_f ext (exts s) s []) as H.
  destruct (flushExternal_f ext s (exts s) []) as [[s1 cs] hd]. exact H.
Qed.

(* ---- what the converter emits ---- *)
Lemma mapHead_nonempty s h : nonempty (snd (mapHead s h)) = true.
Proof. unfold mapHead. destruct (mapHeadAtoms s h) as [s1 [|x r]]; reflexivity. Qed.

Lemma mapHeadAtoms_length h : forall s, length (snd (mapHeadAtoms s h)) = length h.
Proof.
  induction h as [|a r IH]; intros s; simpl; [reflexivity|].
  destruct (mapHeadAtom s a) as [s1 x]. pose proof (IH s1). destruct (mapHeadAtoms s1 r). simpl in *. lia.
Qed.

Lemma heads_differ : Head_t_Disjunctive <> Head_t_Choice /\ (Head_t_Disjunctive =? Head_t_Choice) = false.
Proof. vm_compute. split; [discriminate | reflexivity]. Qed.

Lemma makeAux_neutral ext s cond : forallb (neutralb ext) (snd (makeAux s cond)) = true.
Proof. unfold makeAux. destruct (newAtom s) as [s1 aux]. destruct (mapLits s1 cond). reflexivity. Qed.

Lemma makeAtom_neutral ext s cond named : forallb (neutralb ext) (snd (makeAtom s cond named)) = true.
Proof.
  unfold makeAtom. destruct cond as [|c [|c2 r]]; try apply makeAux_neutral.
  destruct (c <? 0); [apply makeAux_neutral|].
  destruct (mapAtom s (Z.abs c)) as [s1 r]. destruct (ashow r && named); [apply makeAux_neutral | reflexivity].
Qed.

Lemma flushMinimize_neutral ext m : forall s, forallb (neutralb ext) (snd (flushMinimize s m)) = true.
Proof.
  induction m as [|[p ls] r IH]; intros s; simpl; [reflexivity|].
  destruct (mapWLits s ls) as [s1 ml]. pose proof (IH s1). destruct (flushMinimize s1 r). simpl in *. assumption.
Qed.

Lemma flushExternal_f_neutral ext es : forall s hd,
  forallb (neutralb ext) (snd (fst (flushExternal_f ext s es hd))) = true /\
  (hd <> [] -> snd (flushExternal_f ext s es hd) <> []).
Proof.
  induction es as [|a r IH]; intros s hd; simpl; [split; [reflexivity | auto]|].
  destruct (mapAtom s a) as [s1 ar].
  destruct ext.
  - pose proof (IH s1 hd) as H2. destruct (flushExternal_f true s1 r hd) as [[s2 cs] hd2]. simpl in *. exact H2.
  - destruct (ahead ar); [apply IH|].
    destruct (aextn ar =? Value_t_Free).
    + destruct (IH s1 (hd ++ [smId ar])) as [H1 H2]. split; [exact H1|]. intros _. apply H2. destruct hd; discriminate.
    + destruct (aextn ar =? Value_t_True); [|apply IH].
      pose proof (IH s1 hd) as H2. destruct (flushExternal_f false s1 r hd) as [[s2 cs] hd2]. simpl in *. exact H2.
Qed.

Lemma flushExternal_neutral ext s : forallb (neutralb ext) (snd (flushExternal ext s)) = true.
Proof.
  unfold flushExternal. pose proof (flushExternal_f_neutral ext (exts s) s []) as [H _].
  destruct (flushExternal_f ext s (exts s) []) as [[s1 cs] hd]. simpl in *.
  rewrite forallb_app, H. destruct hd; reflexivity.
Qed.

(* ---- positivity of the atoms kept for the symbol table ---- *)
Definition Pos (s : cv) : Prop :=
  Forall (fun h => 0 < h_cond h) (heus s) /\ Forall (fun x => 0 < s_atom x) (outs s).

Lemma bits_ok : SMID_MOD <= 2 ^ sym_atom_bits /\ 0 < next_start.
Proof. vm_compute. split; [discriminate | reflexivity]. Qed.

Lemma good_next s s' : good s s' -> next s <= next s'.
Proof. intros [H _]. exact H. Qed.

Lemma makeAux_id s cond : Inv s -> next_start <= snd (fst (makeAux s cond)) < next (fst (fst (makeAux s cond))).
Proof.
  intros [I1 _ _ _ _]. unfold makeAux, newAtom.
  set (s1 := set_core s (amap s) (next s + 1) (next s :: auxs s)).
  pose proof (good_mapLits cond s1) as G2. destruct (mapLits s1 cond) as [s2 ls]. simpl in *.
  apply good_next in G2. subst s1; simpl in G2. lia.
Qed.

Lemma makeAtom_id s cond named : Inv s -> next (fst (fst (makeAtom s cond named))) <= SMID_MOD ->
  next_start <= snd (fst (makeAtom s cond named)) < next (fst (fst (makeAtom s cond named))).
Proof.
  intros HI. unfold makeAtom. destruct cond as [|c [|c2 r]]; try (intros _; apply makeAux_id; exact HI).
  destruct (c <? 0); [intros _; apply makeAux_id; exact HI|].
  pose proof (mapAtom_spec s (Z.abs c)) as H. destruct (mapAtom s (Z.abs c)) as [s1 r].
  destruct H as [G [E [F N]]].
  destruct (ashow r && named).
  - intros HB. apply makeAux_id. destruct G as [L G]. apply G; [exact HI|].
    pose proof (good_next _ _ (good_makeAux s1 [c])). lia.
  - simpl. intros HB. destruct G as [L G]. destruct (G HI HB) as [I1 _]. rewrite E.
    apply (inv_rng _ I1). apply N; assumption.
Qed.

Lemma small_mod x : next_start <= x < SMID_MOD -> 0 < x mod 2 ^ sym_atom_bits.
Proof. pose proof bits_ok as [B1 B2]. intros H. rewrite Z.mod_small; lia. Qed.

Lemma Pos_same s s' : same_ho s s' -> Pos s -> Pos s'.
Proof. intros [H1 H2] [P1 P2]. split; [rewrite H1 | rewrite H2]; assumption. Qed.

Lemma Pos_addOutput s a str h : Pos s -> 0 < a mod 2 ^ sym_atom_bits -> Pos (fst (addOutput s a str h)).
Proof.
  intros [P1 P2] Ha. unfold addOutput; simpl. split; simpl; [exact P1|].
  apply Forall_app. split; [exact P2|]. constructor; [exact Ha | constructor].
Qed.

Lemma cv_call_never_err ext s c : unsupported ext c = false -> exists s' cs, cv_call ext s c = Ok (s', cs).
Proof.
  destruct c; cbn [cv_call unsupported]; intros U; try discriminate; try (eexists; eexists; reflexivity).
  - destruct (flush ext s). eexists; eexists; reflexivity.
  - destruct (negb _ || _); [|eexists; eexists; reflexivity].
    destruct (mapHead s head). destruct (mapLits c body). eexists; eexists; reflexivity.
  - destruct (negb _ || _); [|eexists; eexists; reflexivity].
    destruct (mapHead s head) as [s1 mh]. destruct (mapWLits s1 body) as [s2 mb].
    destruct (negb (ht =? Head_t_Choice) && _ && _); [eexists; eexists; reflexivity|].
    destruct (newAtom s2). eexists; eexists; reflexivity.
  - assert (H : forall l, existsb (fun lw : Z * Z => snd lw =? INT_MIN) l = false -> exists l', norm_min l = Some l').
    { induction l as [|[x w] l IH]; simpl; [eexists; reflexivity|]. intros H. apply orb_false_iff in H as [H1 H2].
      rewrite H1. destruct (IH H2) as [l' ->]. eexists; reflexivity. }
    destruct (H _ U) as [l' ->]. eexists; eexists; reflexivity.
  - destruct (makeAtom s cond true) as [[s1 a] cs]. destruct (addOutput s1 a name true). eexists; eexists; reflexivity.
  - destruct (mapAtom s a) as [s1 r]. destruct (ahead r); eexists; eexists; reflexivity.
  - destruct (makeAtom s cond true) as [[s1 hp] cs]. eexists; eexists; reflexivity.
  - destruct (makeAtom s cond true) as [[s1 a] cs]. destruct (addOutput s1 a _ false). eexists; eexists; reflexivity.
Qed.

(* a directive inside a step: everything it emits is accepted in the rule section *)
Lemma step_dir ext s w c s' cs :
  phase_step 2 c = Some 2 -> unsupported ext c = false -> cv_call ext s c = Ok (s', cs) ->
  Inv s -> Pos s -> next s' <= SMID_MOD -> sec w = 0 -> accepts ext w cs w /\ Pos s'.
Proof.
  intros Hph U H HI HP HB Hs.
  destruct c; cbn [cv_call unsupported] in *; try discriminate.
  - (* rule *)
    destruct (negb match head with [] => true | _ => false end || (ht =? Head_t_Disjunctive)).
    + pose proof (ho_mapHead s head) as F1. pose proof (mapHead_nonempty s head) as NE.
      destruct (mapHead s head) as [s1 mh]. simpl in F1, NE.
      pose proof (ho_mapLits body s1) as F2. destruct (mapLits s1 body) as [s2 mb]. simpl in F2.
      inversion H; subst. split.
      * apply neutral_accepts; [simpl; rewrite NE; reflexivity | exact Hs].
      * eapply Pos_same; [exact (same_ho_trans _ _ _ F1 F2) | exact HP].
    + inversion H; subst. split; [apply accepts_nil | exact HP].
  - (* weight rule *)
    destruct (negb match head with [] => true | _ => false end || (ht =? Head_t_Disjunctive)) eqn:EC.
    + rewrite andb_true_r in U.
      pose proof (ho_mapHead s head) as F1. pose proof (mapHead_nonempty s head) as NE.
      destruct (mapHead s head) as [s1 mh]. simpl in F1, NE.
      pose proof (ho_mapWLits body s1) as F2. destruct (mapWLits s1 body) as [s2 mb]. simpl in F2.
      destruct (negb (ht =? Head_t_Choice) && (length mh =? 1)%nat && (0 <=? bound)) eqn:ER.
      * inversion H; subst. split.
        -- apply neutral_accepts; [simpl; rewrite NE; unfold sm_rule_ok; rewrite ER; reflexivity | exact Hs].
        -- eapply Pos_same; [exact (same_ho_trans _ _ _ F1 F2) | exact HP].
      * unfold newAtom in H. inversion H; subst. split.
        -- apply neutral_accepts; [|exact Hs]. simpl. rewrite NE. unfold sm_rule_ok.
           destruct heads_differ as [_ ->]. simpl. replace (0 <=? bound) with true by lia. reflexivity.
        -- eapply Pos_same; [|exact HP]. eapply same_ho_trans; [exact F1|]. eapply same_ho_trans; [exact F2|].
           split; reflexivity.
    + inversion H; subst. split; [apply accepts_nil | exact HP].
  - (* minimize *)
    destruct (norm_min lits); [|discriminate]. inversion H; subst. split; [apply accepts_nil|].
    eapply Pos_same; [|exact HP]. split; reflexivity.
  - (* output *)
    pose proof (ho_makeAtom s cond true) as F1. pose proof (makeAtom_neutral ext s cond true) as N1.
    pose proof (makeAtom_id s cond true HI) as ID. pose proof (good_makeAtom s cond true) as G1.
    destruct (makeAtom s cond true) as [[s1 a] cs1]. simpl in F1, N1, ID, G1.
    pose proof (Pos_addOutput s1 a name true) as PA. pose proof (good_addOutput s1 a name true) as G2.
    destruct (addOutput s1 a name true) as [s2 n]. simpl in PA, G2. inversion H; subst.
    apply good_next in G2. split; [apply neutral_accepts; assumption|].
    apply PA; [eapply Pos_same; eassumption|]. apply small_mod. specialize (ID ltac:(lia)). lia.
  - (* external *)
    pose proof (ho_mapAtom s a) as F1. destruct (mapAtom s a) as [s1 r]. simpl in F1.
    destruct (ahead r); inversion H; subst; (split; [apply accepts_nil|]).
    + eapply Pos_same; eassumption.
    + eapply Pos_same; [|exact HP]. destruct F1. split; simpl; assumption.
  - (* heuristic: only with the extensions *)
    destruct ext; [|discriminate]. simpl in H.
    pose proof (ho_makeAtom s cond true) as F1. pose proof (makeAtom_neutral true s cond true) as N1.
    pose proof (makeAtom_id s cond true HI) as ID.
    destruct (makeAtom s cond true) as [[s1 hp] cs1]. simpl in F1, N1, ID. inversion H; subst. simpl in HB.
    split; [apply neutral_accepts; assumption|].
    destruct F1 as [F1 F2]. destruct HP as [P1 P2]. split; simpl.
    + apply Forall_app. split; [rewrite F1; exact P1|]. constructor; [|constructor]. simpl.
      pose proof bits_ok. specialize (ID HB). lia.
    + rewrite F2. exact P2.
  - (* edge *)
    destruct ext; [|discriminate]. cbn [app] in H.
    pose proof (ho_makeAtom s cond true) as F1. pose proof (makeAtom_neutral true s cond true) as N1.
    pose proof (makeAtom_id s cond true HI) as ID. pose proof (good_makeAtom s cond true) as G1.
    destruct (makeAtom s cond true) as [[s1 a] cs1]. simpl in F1, N1, ID, G1.
    match type of H with context [addOutput ?s0 ?x ?str ?b] =>
      pose proof (Pos_addOutput s0 x str b) as PA; pose proof (good_addOutput s0 x str b) as G2;
      destruct (addOutput s0 x str b) as [s2 n] end.
    simpl in PA, G2. inversion H; subst.
    apply good_next in G2. split; [apply neutral_accepts; assumption|].
    apply PA; [eapply Pos_same; eassumption|]. apply small_mod. specialize (ID ltac:(lia)). lia.
Qed.

Lemma Inv_of_good a b : good a b -> Inv a -> next b <= SMID_MOD -> Inv b.
Proof. intros [_ G] HI HB. apply G; assumption. Qed.

Lemma Forall_sym_ins (P : sym -> Prop) x : forall l, P x -> Forall P l -> Forall P (sym_ins x l).
Proof.
  induction l as [|y l IH]; intros Hx Hl; simpl; [constructor; [exact Hx | constructor]|].
  inversion Hl; subst. destruct (s_atom x <? s_atom y); constructor; auto.
Qed.
Lemma Forall_sym_sort (P : sym -> Prop) l : Forall P l -> Forall P (sym_sort l).
Proof.
  unfold sym_sort. assert (H : forall acc, Forall P acc -> Forall P l -> Forall P (fold_left (fun acc x => sym_ins x acc) l acc)).
  { induction l as [|x l IH]; intros acc Ha Hl; simpl; [exact Ha|]. inversion Hl; subst.
    apply IH; [apply Forall_sym_ins; assumption | assumption]. }
  intros Hl. apply H; [constructor | exact Hl].
Qed.

Definition pos_sym (x : sym) : Prop := 0 < s_atom x.
Definition pos_heu (h : heu) : Prop := 0 < h_cond h.

Lemma flushHeuristic_pos hs : forall s, Inv s -> next (fst (flushHeuristic_f s hs)) <= SMID_MOD ->
  Forall pos_heu hs -> Forall pos_sym (outs s) ->
  forallb outb (snd (flushHeuristic_f s hs)) = true /\ Forall pos_sym (outs (fst (flushHeuristic_f s hs))).
Proof.
  induction hs as [|h r IH]; intros s HI; cbn [flushHeuristic_f]; [simpl; auto|].
  destruct (negb (mapped s (h_atom h))).
  - intros HB HF HO. inversion HF; subst. apply IH; assumption.
  - pose proof (mapAtom_spec s (h_atom h)) as H. pose proof (ho_mapAtom s (h_atom h)) as [_ HO1].
    destruct (mapAtom s (h_atom h)) as [s1 ma]. cbn [fst] in HO1.
    destruct H as [G [E [F N]]].
    set (nm := if ashow ma then sym_find (smId ma) (symtab s1) else None). destruct nm as [n|].
    + pose proof (good_flushHeuristic_f r s1) as G2. pose proof (IH s1) as IH1.
      destruct (flushHeuristic_f s1 r) as [s3 cs]. cbn [fst snd] in *.
      intros HB HF HO. inversion HF as [|? ? Hh Hr]; subst.
      assert (I1 : Inv s1) by (apply (Inv_of_good _ _ G HI); apply good_next in G2; lia).
      destruct (IH1 I1 HB Hr) as [A1 A2]; [rewrite HO1; exact HO|].
      split; [|exact A2]. simpl. unfold pos_heu in Hh. replace (0 <? h_cond h) with true by lia. exact A1.
    + set (s1' := set_amap s1 (upd (h_atom h) (mkA (smId ma) (ahead ma) true (aextn ma)) (amap s1))).
      assert (GS : good s1 s1') by (apply (good_setflags s1 (h_atom h) (mkA (smId ma) (ahead ma) true (aextn ma))); exact E).
      pose proof (good_addOutput s1' (smId ma) (format fmt_atom [FU (smId ma)]) true) as GA.
      destruct (addOutput s1' (smId ma) (format fmt_atom [FU (smId ma)]) true) as [s2 name] eqn:EA. cbn [fst] in GA.
      assert (HO2 : outs s2 = outs s1 ++ [mkS (smId ma mod 2 ^ sym_atom_bits)
                 (true && match sym_find (smId ma) (symtab s1') with None => true | Some _ => false end)
                 (cut0 (format fmt_atom [FU (smId ma)]))]).
      { unfold addOutput in EA. inversion EA; subst. reflexivity. }
      pose proof (good_flushHeuristic_f r s2) as G2. pose proof (IH s2) as IH2.
      destruct (flushHeuristic_f s2 r) as [s3 cs]. cbn [fst snd] in *.
      intros HB HF HO. inversion HF as [|? ? Hh Hr]; subst.
      assert (B2 : next s2 <= SMID_MOD) by (apply good_next in G2; lia).
      assert (B1' : next s1' <= SMID_MOD) by (apply good_next in GA; lia).
      assert (B1 : next s1 <= SMID_MOD) by (apply good_next in GS; lia).
      assert (I1 : Inv s1) by (apply (Inv_of_good _ _ G HI B1)).
      assert (I1' : Inv s1') by (apply (Inv_of_good _ _ GS I1 B1')).
      assert (I2 : Inv s2) by (apply (Inv_of_good _ _ GA I1' B2)).
      destruct (IH2 I2 HB Hr) as [A1 A2].
      { rewrite HO2. apply Forall_app. split; [rewrite HO1; exact HO|]. constructor; [|constructor].
        unfold pos_sym; simpl. apply small_mod. rewrite E. pose proof (inv_rng _ I1 (h_atom h) (N HI B1)). lia. }
      split; [|exact A2]. simpl. unfold pos_heu in Hh. replace (0 <? h_cond h) with true by lia. exact A1.
Qed.

Lemma flushSymbols_out s : Forall pos_sym (outs s) -> forallb outb (flushSymbols s) = true.
Proof.
  intros H. unfold flushSymbols. apply Forall_sym_sort in H. induction H as [|x l Hx Hl IH]; simpl; [reflexivity|].
  unfold pos_sym in Hx. replace (0 <? s_atom x) with true by lia. exact IH.
Qed.

Lemma step_end ext s w s' cs :
  cv_call ext s CEnd = Ok (s', cs) -> Inv s -> Pos s -> next s' <= SMID_MOD -> sec w = 0 ->
  exists w', accepts ext w cs w' /\ Pos s'.
Proof.
  cbn [cv_call]. unfold flush. intros H HI [P1 P2] HB Hs.
  pose proof (good_flushMinimize (mins s) s) as G1. pose proof (ho_flushMinimize (mins s) s) as F1.
  pose proof (flushMinimize_neutral ext (mins s) s) as N1.
  destruct (flushMinimize s (mins s)) as [s1 c1]. cbn [fst snd] in *.
  pose proof (good_flushExternal ext s1) as G2. pose proof (ho_flushExternal ext s1) as F2.
  pose proof (flushExternal_neutral ext s1) as N2.
  destruct (flushExternal ext s1) as [s2 c2]. cbn [fst snd] in *.
  pose proof (good_flushHeuristic_f (heus s2) s2) as G3. pose proof (flushHeuristic_pos (heus s2) s2) as N3.
  destruct (flushHeuristic_f s2 (heus s2)) as [s3 c3]. cbn [fst snd] in *.
  inversion H; subst. simpl in HB.
  assert (B2 : next s2 <= SMID_MOD) by (apply good_next in G3; lia).
  assert (B1 : next s1 <= SMID_MOD) by (apply good_next in G2; lia).
  assert (I2 : Inv s2) by (apply (Inv_of_good _ _ G2 (Inv_of_good _ _ G1 HI B1) B2)).
  destruct F1 as [F1a F1b]. destruct F2 as [F2a F2b].
  destruct (N3 I2 HB) as [O3 O4]; [unfold pos_heu; rewrite F2a, F1a; exact P1 | unfold pos_sym; rewrite F2b, F1b; exact P2|].
  pose proof (flushSymbols_out s3 O4) as O5.
  assert (A12 : accepts ext w (c1 ++ c2) w).
  { apply neutral_accepts; [rewrite forallb_app, N1, N2; reflexivity | exact Hs]. }
  destruct (out_accepts ext (c3 ++ flushSymbols s3) w) as [w3 [A3 S3]]; [rewrite forallb_app, O3, O5; reflexivity | lia|].
  exists (mkSw 2 (fhead w3)). split.
  - rewrite <- !app_assoc. rewrite (app_assoc c1 c2).
    eapply accepts_app; [exact A12|]. rewrite (app_assoc c3 (flushSymbols s3)). eapply accepts_app; [exact A3|].
    cbn [app].
    eapply accepts_cons; [simpl; replace (sec w3 <? 2) with true by lia; reflexivity|].
    eapply accepts_cons; [reflexivity | apply accepts_nil].
  - split; constructor.
Qed.

(* ---- the two directions ---- *)
Definition J (ph : Z) (s : cv) (w : sw) : Prop := Inv s /\ Pos s /\ (ph = 2 -> sec w = 0).

Lemma errors_complete ext p : forall ph s w sf out,
  wf_from ph p = true -> existsb (unsupported ext) p = false ->
  cv_run ext s p = Ok (sf, out) -> next sf <= SMID_MOD -> J ph s w ->
  exists w', conv_write ext s w p = Ok (sf, w', out).
Proof.
  induction p as [|c r IH]; intros ph s w sf out Hwf Hun Hrun HB [HI [HP HS]]; simpl in *.
  - inversion Hrun; subst. eexists; reflexivity.
  - apply orb_false_iff in Hun as [Uc Ur].
    destruct (phase_step ph c) as [ph'|] eqn:Eph; [|discriminate].
    destruct (cv_call ext s c) as [[s1 cs]|] eqn:Ec; [|discriminate].
    destruct (cv_run ext s1 r) as [[s2 o2]|] eqn:Er; [|discriminate].
    inversion Hrun; subst.
    assert (B1 : next s1 <= SMID_MOD) by (pose proof (good_next _ _ (good_cv_run _ _ _ _ _ Er)); lia).
    assert (I1 : Inv s1) by (apply (Inv_of_good _ _ (good_cv_call _ _ _ _ _ Ec) HI B1)).
    assert (Hstep : exists w1, accepts ext w cs w1 /\ J ph' s1 w1).
    { destruct c; simpl in Eph;
        try (destruct (ph =? 2) eqn:E2; [|discriminate]; inversion Eph; subst ph';
             match type of Ec with cv_call _ _ ?c0 = _ =>
               destruct (step_dir ext s w c0 s1 cs eq_refl Uc Ec HI HP B1 (HS ltac:(lia))) as [A P'] end;
             exists w; split; [exact A | split; [exact I1 | split; [exact P' | intros _; apply HS; lia]]]).
      - (* init *) destruct (ph =? 0); [|discriminate]. inversion Eph; subst ph'.
        cbn [cv_call] in Ec. inversion Ec; subst. simpl in Uc.
        exists w. split.
        + eapply accepts_cons; [simpl; rewrite Uc; reflexivity | apply accepts_nil].
        + split; [exact I1 | split; [exact HP | intros; lia]].
      - (* begin *) destruct (ph =? 1); [|discriminate]. inversion Eph; subst ph'.
        cbn [cv_call] in Ec. inversion Ec; subst.
        exists (mkSw 0 false). split.
        + eapply accepts_cons; [reflexivity | apply accepts_nil].
        + split; [exact I1 | split; [exact HP | reflexivity]].
      - (* end *) destruct (ph =? 2) eqn:E2; [|discriminate]. inversion Eph; subst ph'.
        destruct (step_end ext s w s1 cs Ec HI HP B1 (HS ltac:(lia))) as [w1 [A P']].
        exists w1. split; [exact A | split; [exact I1 | split; [exact P' | intros; lia]]]. }
    destruct Hstep as [w1 [A J1]]. unfold accepts in A. rewrite A.
    destruct (IH ph' s1 w1 sf o2 Hwf Ur Er HB J1) as [w' ->]. eexists; reflexivity.
Qed.

Lemma errors_sound ext p : forall ph s w, wf_from ph p = true -> existsb (unsupported ext) p = true ->
  exists e, conv_write ext s w p = Err e.
Proof.
  induction p as [|c r IH]; intros ph s w Hwf Hun; simpl in *; [discriminate|].
  destruct (phase_step ph c) as [ph'|] eqn:Eph; [|discriminate].
  destruct (cv_call ext s c) as [[s1 cs]|e] eqn:Ec; [|eexists; reflexivity].
  destruct (sw_calls ext w cs) as [[w1 acc] ok] eqn:Es.
  destruct ok; [|eexists; reflexivity].
  destruct (unsupported ext c) eqn:Uc.
  - exfalso. destruct c; cbn [cv_call unsupported] in *; try discriminate.
    + (* init *) inversion Ec; subst. simpl in Es. rewrite Uc in Es. discriminate.
    + (* weight rule *)
      apply andb_true_iff in Uc as [Ub Uh]. rewrite Uh in Ec.
      destruct (mapHead s head) as [sa mh]. destruct (mapWLits sa body) as [sb mb].
      replace (0 <=? bound) with false in Ec by lia. rewrite andb_false_r in Ec.
      destruct (newAtom sb) as [sc aux]. inversion Ec; subst. simpl in Es.
      destruct (negb (sec w =? 0)); [discriminate|]. unfold sm_rule_ok in Es.
      replace (0 <=? bound) with false in Es by lia. rewrite andb_false_r in Es. discriminate.
    + (* minimize *)
      assert (H : forall l, existsb (fun lw : Z * Z => snd lw =? INT_MIN) l = true -> norm_min l = None).
      { induction l as [|[x wt] l IHl]; simpl; [discriminate|]. intros H. destruct (wt =? INT_MIN); [reflexivity|].
        simpl in H. rewrite (IHl H). reflexivity. }
      rewrite (H _ Uc) in Ec. discriminate.
    + (* heuristic *) destruct ext; [discriminate|]. destruct (makeAtom s cond true) as [[sa hp] ca].
      inversion Ec; subst. simpl in Es. discriminate.
    + (* edge *) destruct ext; [discriminate|]. destruct (makeAtom s cond true) as [[sa hp] ca].
      destruct (addOutput sa hp _ false). inversion Ec; subst. simpl in Es. discriminate.
  - simpl in Hun. destruct (IH ph' s1 w1 Hwf Hun) as [e ->]. eexists; reflexivity.
Qed.

Lemma supported_runs ext p : forall s, existsb (unsupported ext) p = false -> exists sf out, cv_run ext s p = Ok (sf, out).
Proof.
  induction p as [|c r IH]; intros s H; simpl in *; [eexists; eexists; reflexivity|].
  apply orb_false_iff in H as [Hc Hr]. destruct (cv_call_never_err ext s c Hc) as (s1 & cs & ->).
  destruct (IH s1 Hr) as (sf & out & ->). eexists; eexists; reflexivity.
Qed.

Lemma errors_characterised ext p : wf_from 0 p = true ->
  (existsb (unsupported ext) p = true -> exists e, conv_write ext cv0 sw0 p = Err e) /\
  (existsb (unsupported ext) p = false ->
     exists s out, cv_run ext cv0 p = Ok (s, out) /\
       (next s <= 2 ^ smid_bits -> exists w, conv_write ext cv0 sw0 p = Ok (s, w, out))).
Proof.
  intros Hwf. split.
  - intros H. eapply errors_sound; eassumption.
  - intros H. destruct (supported_runs ext p cv0 H) as (s & out & Hr). exists s, out. split; [exact Hr|].
    intros HB. eapply errors_complete; try eassumption.
    split; [apply Inv_cv0 | split; [split; constructor | intros; lia]].
Qed.
