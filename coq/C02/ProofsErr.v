(* C02 - which inputs make SmodelsConvert + SmodelsOutput fail: exactly the calls smodels cannot carry. *)
Require Import V.Lib.Base V.Lib.Calls V.Gen.Consts V.Gen.Consts_C02 V.C02.Model V.C02.Spec V.C02.ProofsMap.
Require Import ZifyBool.
Local Open Scope Z_scope.

(* ---- the writer accepts a list of calls ---- *)
Definition accepts (ext : bool) (w : sw) (cs : list call) (w' : sw) : Prop := sw_calls ext w cs = (w', cs, true).

Lemma accepts_nil ext w : accepts ext w [] w.
Proof. reflexivity. Qed.

Lemma accepts_cons ext w c r w1 w' : sw_call ext 0 w c = Some w1 -> accepts ext w1 r w' -> accepts ext w (c :: r) w'.
Proof. unfold accepts; simpl. intros -> ->. reflexivity. Qed.

Lemma accepts_app ext a : forall w b w1 w2, accepts ext w a w1 -> accepts ext w1 b w2 -> accepts ext w (a ++ b) w2.
Proof.
  induction a as [|c a IH]; intros w b w1 w2 H1 H2.
  - unfold accepts in H1; simpl in H1. inversion H1; subst. exact H2.
  - unfold accepts in *. simpl in *. destruct (sw_call ext 0 w c) as [wc|]; [|discriminate].
    destruct (sw_calls ext wc a) as [[wx acc] ok] eqn:E. inversion H1; subst.
    rewrite (IH wc b w1 w2 E H2). reflexivity.
Qed.

Definition nonempty {A} (l : list A) : bool := negb (match l with [] => true | _ => false end).

(* calls that the writer accepts in the rule section (sec_ = 0) without changing its state *)
Definition neutralb (ext : bool) (c : call) : bool :=
  match c with
  | CRule _ h _ => nonempty h
  | CWRule ht h bd _ => nonempty h && sm_rule_ok ht h bd
  | CMin _ _ => true
  | CExternal _ _ => ext
  | _ => false
  end.

Lemma neutral_call ext c w : neutralb ext c = true -> sec w = 0 -> sw_call ext 0 w c = Some w.
Proof.
  destruct c; simpl; try discriminate; intros H Hs.
  - rewrite Hs; simpl. destruct head; [discriminate | reflexivity].
  - rewrite Hs; simpl. destruct head; [discriminate|]. simpl in H. rewrite H. reflexivity.
  - reflexivity.
  - rewrite H. reflexivity.
Qed.

Lemma neutral_accepts ext cs : forall w, forallb (neutralb ext) cs = true -> sec w = 0 -> accepts ext w cs w.
Proof.
  induction cs as [|c r IH]; intros w H Hs; [apply accepts_nil|].
  simpl in H. apply andb_true_iff in H as [Hc Hr].
  eapply accepts_cons; [apply neutral_call; assumption | apply IH; assumption].
Qed.

Definition outb (c : call) : bool := match c with COutput _ [x] => 0 <? x | _ => false end.

Lemma out_accepts ext cs : forall w, forallb outb cs = true -> 0 <= sec w <= 1 ->
  exists w', accepts ext w cs w' /\ 0 <= sec w' <= 1.
Proof.
  induction cs as [|c r IH]; intros w H Hs.
  - exists w. split; [apply accepts_nil | exact Hs].
  - simpl in H. apply andb_true_iff in H as [Hc Hr].
    destruct c; try discriminate. destruct cond as [|x [|y t]]; try discriminate. simpl in Hc.
    destruct (IH (mkSw 1 (fhead w)) Hr) as [w' [A S]]; [simpl; lia|].
    exists w'. split; [|exact S]. eapply accepts_cons; [|exact A].
    simpl. replace (sec w <=? 1) with true by lia. rewrite Hc. reflexivity.
Qed.

(* ---- frame: operations that leave heuristic_ and output_ alone ---- *)
Definition same_ho (s s' : cv) : Prop := heus s' = heus s /\ outs s' = outs s.
Lemma same_ho_refl s : same_ho s s. Proof. split; reflexivity. Qed.
Lemma same_ho_trans a b c : same_ho a b -> same_ho b c -> same_ho a c.
Proof. intros [H1 H2] [H3 H4]. split; congruence. Qed.

Lemma ho_mapAtom s a : same_ho s (fst (mapAtom s a)).
Proof. unfold mapAtom. destruct (negb _); split; reflexivity. Qed.
Lemma ho_mapLit s l : same_ho s (fst (mapLit s l)).
Proof. unfold mapLit. pose proof (ho_mapAtom s (Z.abs l)). destruct (mapAtom s (Z.abs l)). exact H. Qed.
Lemma ho_mapLits ls : forall s, same_ho s (fst (mapLits s ls)).
Proof.
  induction ls as [|l r IH]; intros s; simpl; [apply same_ho_refl|].
  pose proof (ho_mapLit s l) as H1. destruct (mapLit s l) as [s1 x]. pose proof (IH s1) as H2.
  destruct (mapLits s1 r). simpl in *. eapply same_ho_trans; eassumption.
Qed.
Lemma ho_mapWLits ls : forall s, same_ho s (fst (mapWLits s ls)).
Proof.
  induction ls as [|[l w] r IH]; intros s; simpl; [apply same_ho_refl|].
  pose proof (ho_mapLit s l) as H1. destruct (mapLit s l) as [s1 x]. pose proof (IH s1) as H2.
  destruct (mapWLits s1 r). simpl in *. eapply same_ho_trans; eassumption.
Qed.
Lemma ho_mapHeadAtom s a : same_ho s (fst (mapHeadAtom s a)).
Proof.
  unfold mapHeadAtom. pose proof (ho_mapAtom s a) as H. destruct (mapAtom s a) as [s1 r]. simpl in *.
  destruct H. split; simpl; assumption.
Qed.
Lemma ho_mapHeadAtoms h : forall s, same_ho s (fst (mapHeadAtoms s h)).
Proof.
  induction h as [|a r IH]; intros s; simpl; [apply same_ho_refl|].
  pose proof (ho_mapHeadAtom s a) as H1. destruct (mapHeadAtom s a) as [s1 x]. pose proof (IH s1) as H2.
  destruct (mapHeadAtoms s1 r). simpl in *. eapply same_ho_trans; eassumption.
Qed.
Lemma ho_mapHead s h : same_ho s (fst (mapHead s h)).
Proof. unfold mapHead. pose proof (ho_mapHeadAtoms h s). destruct (mapHeadAtoms s h). exact H. Qed.
Lemma ho_makeAux s cond : same_ho s (fst (fst (makeAux s cond))).
Proof.
  unfold makeAux. unfold newAtom. simpl.
  match goal with |- context [mapLits ?s0 cond] => pose proof (ho_mapLits cond s0) as H; destruct (mapLits s0 cond) end.
  simpl in *. exact H.
Qed.
Lemma ho_makeAtom s cond named : same_ho s (fst (fst (makeAtom s cond named))).
Proof.
  unfold makeAtom. destruct cond as [|c [|c2 r]]; try apply ho_makeAux.
  destruct (c <? 0); [apply ho_makeAux|].
  pose proof (ho_mapAtom s (Z.abs c)) as H. destruct (mapAtom s (Z.abs c)) as [s1 r]. simpl in H.
  destruct (ashow r && named).
  - eapply same_ho_trans; [exact H | apply ho_makeAux].
  - simpl. destruct H. split; simpl; assumption.
Qed.
Lemma ho_flushMinimize m : forall s, same_ho s (fst (flushMinimize s m)).
Proof.
  induction m as [|[p ls] r IH]; intros s; simpl; [apply same_ho_refl|].
  pose proof (ho_mapWLits ls s) as H1. destruct (mapWLits s ls) as [s1 ml]. pose proof (IH s1) as H2.
  destruct (flushMinimize s1 r). simpl in *. eapply same_ho_trans; eassumption.
Qed.
Lemma ho_flushExternal_f ext es : forall s hd, same_ho s (fst (fst (flushExternal_f ext s es hd))).
Proof.
  induction es as [|a r IH]; intros s hd; simpl; [apply same_ho_refl|].
  pose proof (ho_mapAtom s a) as H1. destruct (mapAtom s a) as [s1 ar]. simpl in H1.
  destruct ext.
  - pose proof (IH s1 hd) as H2. destruct (flushExternal_f true s1 r hd) as [[s2 cs] hd2]. simpl in *.
    eapply same_ho_trans; eassumption.
  - destruct (ahead ar); [eapply same_ho_trans; [exact H1 | apply IH]|].
    destruct (aextn ar =? Value_t_Free); [eapply same_ho_trans; [exact H1 | apply IH]|].
    destruct (aextn ar =? Value_t_True); [|eapply same_ho_trans; [exact H1 | apply IH]].
    pose proof (IH s1 hd) as H2. destruct (flushExternal_f false s1 r hd) as [[s2 cs] hd2]. simpl in *.
    eapply same_ho_trans; eassumption.
Qed.
Lemma ho_flushExternal ext s : same_ho s (fst (flushExternal ext s)).
Proof.
  unfold flushExternal. pose proof (ho_flushExternal_f ext (exts s) s []) as H.
  destruct (flushExternal_f ext s (exts s) []) as [[s1 cs] hd]. exact H.
Qed.

(* ---- what the converter emits ---- *)
Lemma mapHead_nonempty s h : nonempty (snd (mapHead s h)) = true.
Proof. unfold mapHead. destruct (mapHeadAtoms s h) as [s1 [|x r]]; reflexivity. Qed.

Lemma mapHeadAtoms_length h : forall s, length (snd (mapHeadAtoms s h)) = length h.
Proof.
  induction h as [|a r IH]; intros s; simpl; [reflexivity|].
  destruct (mapHeadAtom s a) as [s1 x]. pose proof (IH s1). destruct (mapHeadAtoms s1 r). simpl in *. lia.
Qed.

Lemma heads_differ : Head_t_Disjunctive <> Head_t_Choice /\ (Head_t_Disjunctive =? Head_t_Choice) = false.
Proof. vm_compute. split; [discriminate | reflexivity]. Qed.

Lemma makeAux_neutral ext s cond : forallb (neutralb ext) (snd (makeAux s cond)) = true.
Proof. unfold makeAux. destruct (newAtom s) as [s1 aux]. destruct (mapLits s1 cond). reflexivity. Qed.

Lemma makeAtom_neutral ext s cond named : forallb (neutralb ext) (snd (makeAtom s cond named)) = true.
Proof.
  unfold makeAtom. destruct cond as [|c [|c2 r]]; try apply makeAux_neutral.
  destruct (c <? 0); [apply makeAux_neutral|].
  destruct (mapAtom s (Z.abs c)) as [s1 r]. destruct (ashow r && named); [apply makeAux_neutral | reflexivity].
Qed.

Lemma flushMinimize_neutral ext m : forall s, forallb (neutralb ext) (snd (flushMinimize s m)) = true.
Proof.
  induction m as [|[p ls] r IH]; intros s; simpl; [reflexivity|].
  destruct (mapWLits s ls) as [s1 ml]. pose proof (IH s1). destruct (flushMinimize s1 r). simpl in *. assumption.
Qed.

Lemma flushExternal_f_neutral ext es : forall s hd,
  forallb (neutralb ext) (snd (fst (flushExternal_f ext s es hd))) = true /\
  (hd <> [] -> snd (flushExternal_f ext s es hd) <> []).
Proof.
  induction es as [|a r IH]; intros s hd; simpl; [split; [reflexivity | auto]|].
  destruct (mapAtom s a) as [s1 ar].
  destruct ext.
  - pose proof (IH s1 hd) as H2. destruct (flushExternal_f true s1 r hd) as [[s2 cs] hd2]. simpl in *. exact H2.
  - destruct (ahead ar); [apply IH|].
    destruct (aextn ar =? Value_t_Free).
    + destruct (IH s1 (hd ++ [smId ar])) as [H1 H2]. split; [exact H1|]. intros _. apply H2. destruct hd; discriminate.
    + destruct (aextn ar =? Value_t_True); [|apply IH].
      pose proof (IH s1 hd) as H2. destruct (flushExternal_f false s1 r hd) as [[s2 cs] hd2]. simpl in *. exact H2.
Qed.

Lemma flushExternal_neutral ext s : forallb (neutralb ext) (snd (flushExternal ext s)) = true.
Proof.
  unfold flushExternal. pose proof (flushExternal_f_neutral ext (exts s) s []) as [H _].
  destruct (flushExternal_f ext s (exts s) []) as [[s1 cs] hd]. simpl in *.
  rewrite forallb_app, H. destruct hd; reflexivity.
Qed.

(* ---- positivity of the atoms kept for the symbol table ---- *)
Definition Pos (s : cv) : Prop :=
  Forall (fun h => 0 < h_cond h) (heus s) /\ Forall (fun x => 0 < s_atom x) (outs s).

Lemma bits_ok : SMID_MOD <= 2 ^ sym_atom_bits /\ 0 < next_start.
Proof. vm_compute. split; [discriminate | reflexivity]. Qed.

Lemma good_next s s' : good s s' -> next s <= next s'.
Proof. intros [H _]. exact H. Qed.

Lemma makeAux_id s cond : Inv s -> next_start <= snd (fst (makeAux s cond)) < next (fst (fst (makeAux s cond))).
Proof.
  intros [I1 _ _ _ _]. unfold makeAux, newAtom.
  set (s1 := set_core s (amap s) (next s + 1) (next s :: auxs s)).
  pose proof (good_mapLits cond s1) as G2. destruct (mapLits s1 cond) as [s2 ls]. simpl in *.
  apply good_next in G2. subst s1; simpl in G2. lia.
Qed.
