(* C02 - definitional extension over the reference semantics (independent of the converter model).
   A list D of definitions  x_i :- B_i  (x_i pairwise different, positive, occurring in no B_j and in no head of the
   remaining rules P', and in the bodies of P' only as the WHOLE body `[x_i]`) can be unfolded:
   the stable models of  defs(D) ++ P'  are exactly the stable models X of  map (unfoldD D) P'  extended by
   x_i := (X |= B_i).  Needs weights >= 0 in the B_i (monotonicity of the reduct in its second argument).
   These are the two uses the converter makes of newAtom():  `aux :- sum` + `H :- aux`  and  `aux :- cond`. *)
Require Import V.Lib.Base V.C02.Sem V.C02.ProofsIso.
Require Import ZifyBool.
Local Open Scope Z_scope.

(* ---- generic tools ---- *)
Definition hsat (ch : bool) (hd : list Z) (X Y : interp) : Prop :=
  if ch then forall h, In h hd -> X h = true -> Y h = true else exists h, In h hd /\ Y h = true.

Lemma rsat_hsat X Y r : rsat X Y r <-> (bsat X Y (r_body r) = true -> hsat (r_choice r) (r_head r) X Y).
Proof. unfold rsat, hsat. tauto. Qed.

Lemma stable_red_equiv P Q X :
  (forall Y, sub Y X -> (red_model P X Y <-> red_model Q X Y)) -> (stable P X <-> stable Q X).
Proof.
  intros E. assert (SX : sub X X) by (intros a Ha; exact Ha).
  unfold stable. split; intros [M Min]; (split; [apply (E X SX); exact M|]);
    intros Y HY HM; apply Min; try exact HY; apply (E Y HY); exact HM.
Qed.

Lemma stable_same_rules P Q X : (forall r, In r P <-> In r Q) -> (stable P X <-> stable Q X).
Proof.
  intros E. apply stable_red_equiv. intros Y _. unfold red_model. split; intros H r Hr; apply H; apply E; exact Hr.
Qed.

Lemma red_model_app P Q X Y : red_model (P ++ Q) X Y <-> red_model P X Y /\ red_model Q X Y.
Proof.
  unfold red_model. split.
  - intros H. split; intros r Hr; apply H; apply in_app_iff; auto.
  - intros [H1 H2] r Hr. apply in_app_iff in Hr as [Hr|Hr]; auto.
Qed.

Lemma rholds_agree X Y X1 Y1 l :
  X (Z.abs l) = X1 (Z.abs l) -> Y (Z.abs l) = Y1 (Z.abs l) -> rholds X Y l = rholds X1 Y1 l.
Proof.
  unfold rholds. intros H1 H2. destruct (Z.ltb_spec l 0).
  - replace (Z.abs l) with (- l) in * by lia. congruence.
  - replace (Z.abs l) with l in * by lia. congruence.
Qed.

Lemma bsat_agree X Y X1 Y1 b :
  (forall a, In a (body_atoms b) -> X a = X1 a /\ Y a = Y1 a) -> bsat X Y b = bsat X1 Y1 b.
Proof.
  destruct b as [ls|bd wls]; simpl; intros H.
  - induction ls as [|l r IH]; simpl; [reflexivity|].
    rewrite IH by (intros a Ha; apply H; simpl; auto).
    rewrite (rholds_agree X Y X1 Y1 l); [reflexivity | apply H; simpl; auto | apply H; simpl; auto].
  - f_equal. induction wls as [|[l w] r IH]; simpl; [reflexivity|].
    rewrite IH by (intros a Ha; apply H; simpl; auto).
    rewrite (rholds_agree X Y X1 Y1 l); [reflexivity | apply H; simpl; auto | apply H; simpl; auto].
Qed.

Definition body_nonneg (b : body) : Prop :=
  match b with BNormal _ => True | BSum _ wls => Forall (fun lw => 0 <= snd lw) wls end.

Lemma rholds_mono X Y Y1 l : sub Y Y1 -> rholds X Y l = true -> rholds X Y1 l = true.
Proof. unfold rholds. intros S. destruct (l <? 0); [auto | apply S]. Qed.

Lemma bsat_mono X Y Y1 b : body_nonneg b -> sub Y Y1 -> bsat X Y b = true -> bsat X Y1 b = true.
Proof.
  destruct b as [ls|bd wls]; simpl; intros NN S.
  - rewrite !forallb_forall. intros H l Hl. apply (rholds_mono X Y Y1 l S). apply H. exact Hl.
  - assert (L : wsum (rholds X Y) wls <= wsum (rholds X Y1) wls).
    { induction NN as [|[l w] r Hw Hr IH]; simpl; [lia|]. simpl in Hw.
      pose proof (rholds_mono X Y Y1 l S) as M.
      destruct (rholds X Y l); [rewrite M by reflexivity; lia|]. destruct (rholds X Y1 l); lia. }
    intros H. apply Z.leb_le. apply Z.leb_le in H. lia.
Qed.

Lemma hsat_agree ch hd X Y X1 Y1 :
  (forall h, In h hd -> X h = X1 h /\ Y h = Y1 h) -> (hsat ch hd X Y <-> hsat ch hd X1 Y1).
Proof.
  intros H. unfold hsat. destruct ch.
  - split; intros K h Hh Xh; destruct (H h Hh) as [E1 E2].
    + rewrite <- E2. apply K; [exact Hh | congruence].
    + rewrite E2. apply K; [exact Hh | congruence].
  - split; intros [h [Hh Yh]]; destruct (H h Hh) as [E1 E2]; exists h; split; auto; congruence.
Qed.

Lemma stable_ext R X X1 : (forall a, X a = X1 a) -> stable R X -> stable R X1.
Proof.
  intros E HS.
    assert (EB : forall Y r, rsat X Y r <-> rsat X1 Y r).
    { intros Y r. rewrite !rsat_hsat. rewrite (bsat_agree X Y X1 Y (r_body r)) by (intros; split; [apply E | reflexivity]).
      rewrite (hsat_agree (r_choice r) (r_head r) X Y X1 Y) by (intros; split; [apply E | reflexivity]). tauto. }
    destruct HS as [M Min]. split.
    - intros r Hr. rewrite rsat_hsat.
      rewrite <- (bsat_agree X X X1 X1 (r_body r)) by (intros; split; apply E).
      rewrite <- (hsat_agree (r_choice r) (r_head r) X X X1 X1) by (intros; split; apply E).
      apply rsat_hsat. apply M. exact Hr.
    - intros Y S RM a Xa. rewrite <- E in Xa. apply (Min Y); [intros b Hb; rewrite E; apply S; exact Hb | | exact Xa].
      intros r Hr. apply EB. apply RM. exact Hr.
Qed.

(* an atom of a stable model is in the head of some rule (weights >= 0) *)
Lemma stable_supported P X a :
  (forall r, In r P -> body_nonneg (r_body r)) -> stable P X -> X a = true -> exists r, In r P /\ In a (r_head r).
Proof.
  intros NN [M Min] Xa.
  destruct (existsb (fun r => existsb (Z.eqb a) (r_head r)) P) eqn:E.
  - apply existsb_exists in E as [r [Hr E]]. apply existsb_exists in E as [h [Hh E]]. apply Z.eqb_eq in E. subst h.
    exists r. auto.
  - exfalso. set (Y := fun b => if b =? a then false else X b).
    assert (S : sub Y X) by (intros b; unfold Y; destruct (b =? a); [discriminate | auto]).
    assert (RM : red_model P X Y).
    { intros r Hr. apply rsat_hsat. intros B.
      assert (Hd : forall h, In h (r_head r) -> h <> a).
      { intros h Hh ->. assert (existsb (fun r => existsb (Z.eqb a) (r_head r)) P = true); [|congruence].
        apply existsb_exists. exists r. split; [exact Hr|]. apply existsb_exists. exists a. split; [exact Hh | apply Z.eqb_refl]. }
      apply (hsat_agree (r_choice r) (r_head r) X X X Y).
      - intros h Hh. split; [reflexivity|]. unfold Y. destruct (Z.eqb_spec h a); [exfalso; apply (Hd h Hh); assumption | reflexivity].
      - apply (proj1 (rsat_hsat X X r) (M r Hr)). apply (bsat_mono X Y X _ (NN r Hr) S B). }
    pose proof (Min Y S RM a Xa) as K. unfold Y in K. rewrite Z.eqb_refl in K. discriminate.
Qed.

(* ---- the definitions ---- *)
Fixpoint dlook (D : list (Z * body)) (a : Z) : option body :=
  match D with [] => None | (x, B) :: r => if x =? a then Some B else dlook r a end.
Definition isdef (D : list (Z * body)) (a : Z) : bool := match dlook D a with Some _ => true | None => false end.
Definition extD2 (D : list (Z * body)) (X Y : interp) : interp :=
  fun a => match dlook D a with Some B => bsat X Y B | None => Y a end.
Definition extD (D : list (Z * body)) (X : interp) : interp := extD2 D X X.
Definition dropD (D : list (Z * body)) (X' : interp) : interp := fun a => if isdef D a then false else X' a.
Definition def_rules (D : list (Z * body)) : list rule := map (fun d => mkRule false [fst d] (snd d)) D.
Definition unfoldD (D : list (Z * body)) (r : rule) : rule :=
  match r_body r with
  | BNormal [l] => match dlook D l with Some B => mkRule (r_choice r) (r_head r) B | None => r end
  | _ => r
  end.
Definition clean (D : list (Z * body)) (b : body) : Prop := forall a, In a (body_atoms b) -> isdef D a = false.
Definition user_ok (D : list (Z * body)) (r : rule) : Prop :=
  (forall h, In h (r_head r) -> isdef D h = false) /\
  ((exists x B, r_body r = BNormal [x] /\ dlook D x = Some B) \/ clean D (r_body r)).
Definition defs_ok (D : list (Z * body)) : Prop :=
  NoDup (map fst D) /\ forall x B, In (x, B) D -> 0 < x /\ clean D B /\ body_nonneg B.

Lemma dlook_In D x B : dlook D x = Some B -> In (x, B) D.
Proof.
  induction D as [|[y C] r IH]; simpl; [discriminate|].
  destruct (Z.eqb_spec y x) as [->|_]; [intros H; inversion H; subst; auto | auto].
Qed.
Lemma In_dlook D x B : NoDup (map fst D) -> In (x, B) D -> dlook D x = Some B.
Proof.
  induction D as [|[y C] r IH]; simpl; intros ND H; [destruct H|].
  inversion ND as [|? ? N1 N2]; subst. destruct H as [H|H].
  - inversion H; subst. rewrite Z.eqb_refl. reflexivity.
  - destruct (Z.eqb_spec y x) as [->|_]; [|auto]. exfalso. apply N1. apply (in_map fst) in H. exact H.
Qed.

Section DefExt.
Variable D : list (Z * body).
Hypothesis D_ok : defs_ok D.

Definition offD (X X1 : interp) : Prop := forall a, isdef D a = false -> X a = X1 a.

Lemma dlook_nonpos l : l <= 0 -> dlook D l = None.
Proof.
  intros Hl. destruct (dlook D l) as [B|] eqn:E; [|reflexivity].
  apply dlook_In in E. destruct D_ok as [_ K]. destruct (K l B E) as [P _]. lia.
Qed.

Lemma bsat_off X Y X1 Y1 b : clean D b -> offD X X1 -> offD Y Y1 -> bsat X Y b = bsat X1 Y1 b.
Proof. intros C O1 O2. apply bsat_agree. intros a Ha. split; [apply O1 | apply O2]; apply C; exact Ha. Qed.

Lemma hsat_off ch hd X Y X1 Y1 :
  (forall h, In h hd -> isdef D h = false) -> offD X X1 -> offD Y Y1 -> (hsat ch hd X Y <-> hsat ch hd X1 Y1).
Proof. intros C O1 O2. apply hsat_agree. intros h Hh. split; [apply O1 | apply O2]; apply C; exact Hh. Qed.

Lemma unfold_clean r : clean D (r_body r) -> unfoldD D r = r.
Proof.
  intros C. unfold unfoldD. destruct (r_body r) as [[|l [|l2 ls]]|] eqn:E; try reflexivity.
  destruct (Z.leb_spec l 0) as [Hl|Hl]; [rewrite dlook_nonpos by exact Hl; reflexivity|].
  specialize (C (Z.abs l)). simpl in C. unfold isdef in C. replace (Z.abs l) with l in C by lia.
  destruct (dlook D l); [|reflexivity]. discriminate C. auto.
Qed.

Lemma bsat_single X Y x : 0 < x -> bsat X Y (BNormal [x]) = Y x.
Proof. intros Hx. simpl. unfold rholds. replace (x <? 0) with false by lia. apply andb_true_r. Qed.

(* a user rule over (X1, Y1) [with the defined atoms] against its unfolding over (X, Y) [without] *)
Lemma transfer_down X Y X1 Y1 r : user_ok D r -> offD X X1 -> offD Y Y1 ->
  (forall x B, dlook D x = Some B -> bsat X Y B = true -> Y1 x = true) ->
  rsat X1 Y1 r -> rsat X Y (unfoldD D r).
Proof.
  intros [Hh [[x [B [Eb El]]]|C]] O1 O2 L H.
  - unfold unfoldD. rewrite Eb, El. apply rsat_hsat. simpl. intros HB.
    apply (hsat_off _ _ X Y X1 Y1 Hh O1 O2). apply (proj1 (rsat_hsat X1 Y1 r) H).
    rewrite Eb. destruct D_ok as [_ K]. destruct (K x B (dlook_In _ _ _ El)) as [Px _].
    rewrite (bsat_single X1 Y1 x Px). apply (L x B El HB).
  - rewrite (unfold_clean r C). apply rsat_hsat. intros HB.
    apply (hsat_off _ _ X Y X1 Y1 Hh O1 O2). apply (proj1 (rsat_hsat X1 Y1 r) H).
    rewrite <- (bsat_off X Y X1 Y1 _ C O1 O2). exact HB.
Qed.

Lemma transfer_up X Y X1 Y1 r : user_ok D r -> offD X X1 -> offD Y Y1 ->
  (forall x B, dlook D x = Some B -> Y1 x = true -> bsat X Y B = true) ->
  rsat X Y (unfoldD D r) -> rsat X1 Y1 r.
Proof.
  intros [Hh [[x [B [Eb El]]]|C]] O1 O2 L H.
  - unfold unfoldD in H. rewrite Eb, El in H. apply rsat_hsat. rewrite Eb. intros HB.
    destruct D_ok as [_ K]. destruct (K x B (dlook_In _ _ _ El)) as [Px _].
    rewrite (bsat_single X1 Y1 x Px) in HB.
    apply (hsat_off _ _ X Y X1 Y1 Hh O1 O2). apply (proj1 (rsat_hsat X Y _) H). simpl. apply (L x B El HB).
  - rewrite (unfold_clean r C) in H. apply rsat_hsat. intros HB.
    apply (hsat_off _ _ X Y X1 Y1 Hh O1 O2). apply (proj1 (rsat_hsat X Y r) H).
    rewrite (bsat_off X Y X1 Y1 _ C O1 O2). exact HB.
Qed.

Lemma off_extD2 X Y : offD Y (extD2 D X Y).
Proof. intros a Ha. unfold extD2. unfold isdef in Ha. destruct (dlook D a); [discriminate | reflexivity]. Qed.
Lemma off_dropD X' : offD (dropD D X') X'.
Proof. intros a Ha. unfold dropD. rewrite Ha. reflexivity. Qed.
Lemma offD_sym X Y : offD X Y -> offD Y X.
Proof. intros H a Ha. symmetry. apply H. exact Ha. Qed.

Lemma def_clean x B : dlook D x = Some B -> clean D B /\ body_nonneg B /\ 0 < x.
Proof. intros E. destruct D_ok as [_ K]. destruct (K x B (dlook_In _ _ _ E)) as [A [B1 C]]. auto. Qed.

Lemma In_def_rules r : In r (def_rules D) -> exists x B, r = mkRule false [x] B /\ dlook D x = Some B.
Proof.
  intros H. apply in_map_iff in H as [[x B] [<- H]]. exists x, B. split; [reflexivity|].
  apply In_dlook; [apply D_ok | exact H].
Qed.
Lemma def_rules_In x B : dlook D x = Some B -> In (mkRule false [x] B) (def_rules D).
Proof. intros E. apply dlook_In in E. apply (in_map (fun d => mkRule false [fst d] (snd d))) in E. exact E. Qed.

Section Users.
Variable P' : list rule.
Hypothesis users_ok : forall r, In r P' -> user_ok D r.

(* X stable for the unfolded program  ==>  X + (x_i := X |= B_i) stable for defs ++ P' *)
Lemma defext_sound X : stable (map (unfoldD D) P') X -> stable (def_rules D ++ P') (extD D X).
Proof.
  intros [M Min]. set (X' := extD D X).
  assert (OX : offD X X') by apply off_extD2.
  split.
  - apply red_model_app. split.
    + intros r Hr. apply In_def_rules in Hr as [x [B [-> E]]]. apply rsat_hsat. simpl. intros HB.
      exists x. split; [auto|]. destruct (def_clean x B E) as [C _].
      unfold X', extD, extD2. rewrite E. rewrite (bsat_off X X X' X' B C OX OX). exact HB.
    + intros r Hr. apply (transfer_up X X X' X' r (users_ok r Hr) OX OX).
      * intros x B E H. unfold X', extD, extD2 in H. rewrite E in H. exact H.
      * apply M. apply in_map. exact Hr.
  - intros Y' S RM. apply red_model_app in RM as [RD RU].
    set (Y := dropD D Y').
    assert (OY : offD Y Y') by apply off_dropD.
    assert (SY : sub Y X).
    { intros a Ha. unfold Y, dropD in Ha. destruct (isdef D a) eqn:Ia; [discriminate|].
      rewrite (OX a Ia). apply S. exact Ha. }
    assert (RMY : red_model (map (unfoldD D) P') X Y).
    { intros r0 Hr0. apply in_map_iff in Hr0 as [r [<- Hr]].
      apply (transfer_down X Y X' Y' r (users_ok r Hr) OX OY); [|apply RU; exact Hr].
      intros x B E HB. destruct (def_clean x B E) as [C _].
      pose proof (proj1 (rsat_hsat _ _ _) (RD _ (def_rules_In x B E))) as R. simpl in R.
      rewrite <- (bsat_off X Y X' Y' B C OX OY) in R. destruct (R HB) as [h [[<-|[]] Yh]]. exact Yh. }
    pose proof (Min Y SY RMY) as SXY.
    assert (OXY : offD X' Y').
    { intros a Ia. destruct (X' a) eqn:Xa.
      - symmetry. rewrite <- (OY a Ia). apply SXY. rewrite (OX a Ia). exact Xa.
      - destruct (Y' a) eqn:Ya; [|reflexivity]. apply S in Ya. congruence. }
    intros a Xa. destruct (dlook D a) as [B|] eqn:E.
    + destruct (def_clean a B E) as [C _].
      pose proof (proj1 (rsat_hsat _ _ _) (RD _ (def_rules_In a B E))) as R. simpl in R.
      assert (HB : bsat X' Y' B = true).
      { rewrite <- (bsat_off X' X' X' Y' B C (fun _ _ => eq_refl) OXY).
        rewrite <- (bsat_off X X X' X' B C OX OX). unfold X', extD, extD2 in Xa. rewrite E in Xa. exact Xa. }
      destruct (R HB) as [h [[<-|[]] Yh]]. exact Yh.
    + assert (Ia : isdef D a = false) by (unfold isdef; rewrite E; reflexivity).
      rewrite <- (OXY a Ia). exact Xa.
Qed.

(* X' stable for defs ++ P'  ==>  every defined atom has the value of its body, and X' minus the defined atoms is stable
   for the unfolded program *)
Lemma defext_values X' x B : stable (def_rules D ++ P') X' -> dlook D x = Some B -> X' x = bsat X' X' B.
Proof.
  intros [M Min] E. apply red_model_app in M as [MD MU].
  destruct (bsat X' X' B) eqn:HB.
  - pose proof (proj1 (rsat_hsat _ _ _) (MD _ (def_rules_In x B E))) as R. simpl in R.
    destruct (R HB) as [h [[<-|[]] Yh]]. exact Yh.
  - destruct (X' x) eqn:Xx; [|reflexivity]. exfalso.
    set (Y' := extD2 D X' X').
    assert (O : offD X' Y') by apply off_extD2.
    assert (S : sub Y' X').
    { intros a Ha. unfold Y', extD2 in Ha. destruct (dlook D a) as [Ba|] eqn:Ea; [|exact Ha].
      pose proof (proj1 (rsat_hsat _ _ _) (MD _ (def_rules_In a Ba Ea))) as R. simpl in R.
      destruct (R Ha) as [h [[<-|[]] Yh]]. exact Yh. }
    assert (RM : red_model (def_rules D ++ P') X' Y').
    { apply red_model_app. split.
      - intros r Hr. apply In_def_rules in Hr as [a [Ba [-> Ea]]]. apply rsat_hsat. simpl. intros HBa.
        exists a. split; [auto|]. destruct (def_clean a Ba Ea) as [C _].
        unfold Y', extD2. rewrite Ea. rewrite (bsat_off X' X' X' Y' Ba C (fun _ _ => eq_refl) O). exact HBa.
      - intros r Hr. destruct (users_ok r Hr) as [Hh [[a [Ba [Eb Ea]]]|C]].
        + apply rsat_hsat. rewrite Eb. destruct (def_clean a Ba Ea) as [_ [_ Pa]]. rewrite (bsat_single X' Y' a Pa).
          intros Ya. apply (hsat_off _ _ X' X' X' Y' Hh (fun _ _ => eq_refl) O).
          apply (proj1 (rsat_hsat X' X' r) (MU r Hr)). rewrite Eb, (bsat_single X' X' a Pa). apply S. exact Ya.
        + apply rsat_hsat. intros Hb. apply (hsat_off _ _ X' X' X' Y' Hh (fun _ _ => eq_refl) O).
          apply (proj1 (rsat_hsat X' X' r) (MU r Hr)). rewrite (bsat_off X' X' X' Y' _ C (fun _ _ => eq_refl) O). exact Hb. }
    pose proof (Min Y' S RM x Xx) as K. unfold Y', extD2 in K. rewrite E in K. congruence.
Qed.

Lemma defext_complete X' : stable (def_rules D ++ P') X' -> stable (map (unfoldD D) P') (dropD D X').
Proof.
  intros HS. pose proof (fun x B => defext_values X' x B HS) as V. destruct HS as [M Min].
  apply red_model_app in M as [MD MU].
  set (X := dropD D X'). assert (OX : offD X X') by apply off_dropD.
  split.
  - intros r0 Hr0. apply in_map_iff in Hr0 as [r [<- Hr]].
    apply (transfer_down X X X' X' r (users_ok r Hr) OX OX); [|apply MU; exact Hr].
    intros x B E HB. destruct (def_clean x B E) as [C _]. rewrite (V x B E).
    rewrite <- (bsat_off X X X' X' B C OX OX). exact HB.
  - intros Y SY RMY. set (Y' := extD2 D X Y).
    assert (OY : offD Y Y') by apply off_extD2.
    assert (S : sub Y' X').
    { intros a Ha. unfold Y', extD2 in Ha. destruct (dlook D a) as [B|] eqn:E.
      - destruct (def_clean a B E) as [C [NN _]]. rewrite (V a B E).
        rewrite <- (bsat_off X X X' X' B C OX OX). apply (bsat_mono X Y X B NN SY Ha).
      - assert (Ia : isdef D a = false) by (unfold isdef; rewrite E; reflexivity).
        rewrite <- (OX a Ia). apply SY. exact Ha. }
    assert (RM : red_model (def_rules D ++ P') X' Y').
    { apply red_model_app. split.
      - intros r Hr. apply In_def_rules in Hr as [a [B [-> E]]]. apply rsat_hsat. simpl. intros HB.
        exists a. split; [auto|]. destruct (def_clean a B E) as [C _].
        unfold Y', extD2. rewrite E. rewrite (bsat_off X Y X' Y' B C OX OY). exact HB.
      - intros r Hr. apply (transfer_up X Y X' Y' r (users_ok r Hr) OX OY).
        + intros x B E H. unfold Y', extD2 in H. rewrite E in H. exact H.
        + apply RMY. apply in_map. exact Hr. }
    pose proof (Min Y' S RM) as SXY.
    intros a Xa. unfold X, dropD in Xa. destruct (isdef D a) eqn:Ia; [discriminate|].
    rewrite (OY a Ia). apply SXY. exact Xa.
Qed.

(* the two maps are mutually inverse on stable models *)
Lemma drop_ext X a : (forall x, isdef D x = true -> X x = false) -> dropD D (extD D X) a = X a.
Proof.
  intros H. unfold dropD. destruct (isdef D a) eqn:Ia; [symmetry; apply H; exact Ia|].
  unfold extD, extD2. unfold isdef in Ia. destruct (dlook D a); [discriminate | reflexivity].
Qed.
Lemma ext_drop X' a : stable (def_rules D ++ P') X' -> extD D (dropD D X') a = X' a.
Proof.
  intros HS. unfold extD, extD2. destruct (dlook D a) as [B|] eqn:E.
  - destruct (def_clean a B E) as [C _]. rewrite (defext_values X' a B HS E).
    apply (bsat_off _ _ X' X' B C); apply off_dropD.
  - unfold dropD, isdef. rewrite E. reflexivity.
Qed.
End Users.
End DefExt.

(* ---- the statement for ONE definition (the form asked for in the design): adding  x :- B  ---- *)
Definition ext1 (x : Z) (B : body) (X : interp) : interp := fun a => if a =? x then bsat X X B else X a.
Definition drop1 (x : Z) (X' : interp) : interp := fun a => if a =? x then false else X' a.
Definition unfold1 (x : Z) (B : body) (r : rule) : rule :=
  match r_body r with
  | BNormal [l] => if l =? x then mkRule (r_choice r) (r_head r) B else r
  | _ => r
  end.

Lemma defext_single x B P' :
  0 < x -> ~ In x (body_atoms B) -> body_nonneg B ->
  (forall r, In r P' -> ~ In x (r_head r) /\ (r_body r = BNormal [x] \/ ~ In x (body_atoms (r_body r)))) ->
  let Q := mkRule false [x] B :: P' in
  let P := map (unfold1 x B) P' in
  (forall X, stable P X -> stable Q (ext1 x B X)) /\
  (forall X', stable Q X' -> stable P (drop1 x X') /\ X' x = bsat X' X' B) /\
  (forall X a, X x = false -> drop1 x (ext1 x B X) a = X a) /\
  (forall X' a, stable Q X' -> ext1 x B (drop1 x X') a = X' a).
Proof.
  intros Px Hx NN HU Q P.
  set (D := [(x, B)]).
  assert (Idef : forall a, isdef D a = (x =? a)).
  { intros a. unfold isdef, D. simpl. destruct (x =? a); reflexivity. }
  assert (Dok : defs_ok D).
  { split; [simpl; constructor; [intros []| constructor]|].
    intros y C [H|[]]. inversion H; subst. split; [exact Px|]. split; [|exact NN].
    intros a Ha. rewrite Idef. destruct (Z.eqb_spec y a); [subst; contradiction | reflexivity]. }
  assert (UO : forall r, In r P' -> user_ok D r).
  { intros r Hr. destruct (HU r Hr) as [H1 H2]. split.
    - intros h Hh. rewrite Idef. destruct (Z.eqb_spec x h); [subst; contradiction | reflexivity].
    - destruct H2 as [E|N]; [left; exists x, B; split; [exact E | simpl; rewrite Z.eqb_refl; reflexivity]|].
      right. intros a Ha. rewrite Idef. destruct (Z.eqb_spec x a); [subst; contradiction | reflexivity]. }
  assert (EU : forall r, unfoldD D r = unfold1 x B r).
  { intros r. unfold unfoldD, unfold1. destruct (r_body r) as [[|l [|l2 ls]]|]; try reflexivity.
    simpl. rewrite (Z.eqb_sym l x). destruct (x =? l); reflexivity. }
  assert (EP : map (unfoldD D) P' = P) by (apply map_ext; exact EU).
  assert (EE : forall X a, extD D X a = ext1 x B X a).
  { intros X a. unfold extD, extD2, ext1, D. simpl. rewrite (Z.eqb_sym a x). destruct (x =? a); reflexivity. }
  assert (ED : forall X a, dropD D X a = drop1 x X a).
  { intros X a. unfold dropD, drop1. rewrite Idef, (Z.eqb_sym a x). reflexivity. }
  pose proof stable_ext as SE.
  change Q with (def_rules D ++ P').
  split; [|split; [|split]].
  - intros X HS. rewrite <- EP in HS. apply (SE _ (extD D X)); [apply EE|]. apply (defext_sound D Dok P' UO X HS).
  - intros X' HS. split.
    + rewrite <- EP. apply (SE _ (dropD D X')); [apply ED|]. apply (defext_complete D Dok P' UO X' HS).
    + apply (defext_values D Dok P' UO X' x B HS). simpl. rewrite Z.eqb_refl. reflexivity.
  - intros X a Xx. unfold drop1, ext1. destruct (a =? x) eqn:E; [apply Z.eqb_eq in E; subst; auto | reflexivity].
  - intros X' a HS. rewrite <- EE. rewrite <- (ext_drop D Dok P' UO X' a HS).
    unfold extD, extD2. destruct (dlook D a); [|symmetry; apply ED].
    apply bsat_agree. intros c _. split; symmetry; apply ED.
Qed.
