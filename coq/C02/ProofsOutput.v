(* C02 - output directives.  SmodelsConvert::output names the mapped atom itself when the condition is one positive
   literal whose atom has no name yet, otherwise it emits `aux :- cond` (aux = newAtom()) and names aux; the names go to
   output_ and are written at endStep by flushSymbols (sorted by output atom).  Shape of the call, value of the named
   atom in corresponding interpretations, and what flushSymbols emits. *)
Require Import V.Lib.Base V.Lib.Calls V.Gen.Consts V.Gen.Consts_C02 V.C02.Model V.C02.Sem V.C02.ProofsMap V.C02.ProofsErr
  V.C02.ProofsIso V.C02.ProofsShape V.C02.ProofsDefExt V.C02.ProofsWeight.
Require Import ZifyBool.
Local Open Scope Z_scope.

Lemma makeAux_shape s cond sf :
  Inv s -> good (fst (fst (makeAux s cond))) sf -> next sf <= SMID_MOD ->
  snd (fst (makeAux s cond)) = next s /\
  snd (makeAux s cond) = [CRule Head_t_Disjunctive [next s] (map (rn_lit (img sf)) cond)] /\
  Forall (fun l => img sf (Z.abs l) <> 0) cond /\ In (next s) (auxs sf) /\
  next s < next (fst (fst (makeAux s cond))) /\ outs (fst (fst (makeAux s cond))) = outs s.
Proof.
  intros HI. unfold makeAux. pose proof (good_newAtom s) as [G1 [_ IA]]. unfold newAtom in *. cbn [fst snd] in *.
  set (s1 := set_core s (amap s) (next s + 1) (next s :: auxs s)) in *.
  pose proof (mapLits_shape cond s1 sf) as ML. pose proof (good_mapLits cond s1) as G2. pose proof (ho_mapLits cond s1) as [_ HO].
  destruct (mapLits s1 cond) as [s2 ls]. cbn [fst snd] in *. intros G HB.
  assert (B1 : next s1 <= SMID_MOD) by (pose proof (good_next _ _ G2); pose proof (good_next _ _ G); lia).
  assert (I1 : Inv s1) by (apply (Inv_of_good _ _ G1 HI B1)).
  destruct (ML I1 G HB) as [E F].
  split; [reflexivity|]. split; [rewrite E; reflexivity|]. split; [exact F|]. split; [|split].
  - assert (G1f : good s1 sf) by (eapply good_trans; eassumption). destruct G1f as [_ K]. destruct (K I1 HB) as [_ [_ KA]].
    apply KA. exact IA.
  - pose proof (good_next _ _ G2) as L. subst s1. simpl in L. lia.
  - rewrite HO. reflexivity.
Qed.

Lemma makeAtom_shape s cond sf :
  Inv s -> good (fst (fst (makeAtom s cond true))) sf -> next sf <= SMID_MOD ->
  outs (fst (fst (makeAtom s cond true))) = outs s /\ Forall (fun l => img sf (Z.abs l) <> 0) cond /\
  ((exists c0, cond = [c0] /\ 0 <= c0 /\ snd (makeAtom s cond true) = [] /\ snd (fst (makeAtom s cond true)) = img sf c0) \/
   (snd (makeAtom s cond true) = [CRule Head_t_Disjunctive [snd (fst (makeAtom s cond true))] (map (rn_lit (img sf)) cond)] /\
    next s <= snd (fst (makeAtom s cond true)) < next (fst (fst (makeAtom s cond true))) /\
    In (snd (fst (makeAtom s cond true))) (auxs sf))).
Proof.
  intros HI.
  assert (AUX : forall s0, Inv s0 -> next s <= next s0 -> outs s0 = outs s ->
     good (fst (fst (makeAux s0 cond))) sf -> next sf <= SMID_MOD ->
     outs (fst (fst (makeAux s0 cond))) = outs s /\ Forall (fun l => img sf (Z.abs l) <> 0) cond /\
     ((exists c0, cond = [c0] /\ 0 <= c0 /\ snd (makeAux s0 cond) = [] /\ snd (fst (makeAux s0 cond)) = img sf c0) \/
      (snd (makeAux s0 cond) = [CRule Head_t_Disjunctive [snd (fst (makeAux s0 cond))] (map (rn_lit (img sf)) cond)] /\
       next s <= snd (fst (makeAux s0 cond)) < next (fst (fst (makeAux s0 cond))) /\
       In (snd (fst (makeAux s0 cond))) (auxs sf)))).
  { intros s0 I0 L0 O0 G HB. destruct (makeAux_shape s0 cond sf I0 G HB) as [E1 [E2 [F [IA [L HO]]]]].
    split; [congruence|]. split; [exact F|]. right. rewrite E1. split; [exact E2|]. split; [lia | exact IA]. }
  unfold makeAtom. destruct cond as [|c [|c2 r]]; try (apply AUX; [exact HI | lia | reflexivity]).
  destruct (Z.ltb_spec c 0) as [Hc|Hc]; [apply AUX; [exact HI | lia | reflexivity]|].
  pose proof (mapAtom_spec s (Z.abs c)) as H. pose proof (ho_mapAtom s (Z.abs c)) as [_ HO].
  destruct (mapAtom s (Z.abs c)) as [s1 r]. destruct H as [G1 [E [Fd N]]]. cbn [fst snd] in HO.
  destruct (ashow r && true) eqn:Sh.
  - intros G HB.
    assert (B1 : next s1 <= SMID_MOD) by (pose proof (good_next _ _ (good_makeAux s1 [c])); pose proof (good_next _ _ G); lia).
    apply AUX; [apply (Inv_of_good _ _ G1 HI B1) | apply (good_next _ _ G1) | exact HO | exact G | exact HB].
  - cbn [fst snd]. intros G HB.
    set (s1' := set_amap s1 (upd (Z.abs c) (mkA (smId r) (ahead r) true (aextn r)) (amap s1))) in *.
    assert (B1 : next s1 <= SMID_MOD) by (pose proof (good_next _ _ G) as L; subst s1'; simpl in L; lia).
    assert (I1 : Inv s1) by (apply (Inv_of_good _ _ G1 HI B1)).
    assert (GS : good s1 s1') by (apply (good_setflags s1 (Z.abs c) (mkA (smId r) (ahead r) true (aextn r))); exact E).
    assert (G1f : good s1 sf) by (eapply good_trans; eassumption).
    pose proof (N HI B1) as NZ. destruct G1f as [_ K]. destruct (K I1 HB) as [_ [KI _]].
    replace (Z.abs c) with c in * by lia.
    split; [subst s1'; simpl; exact HO|]. split; [constructor; [replace (Z.abs c) with c by lia; rewrite KI; assumption | constructor]|].
    left. exists c. split; [reflexivity|]. split; [exact Hc|]. split; [reflexivity|]. rewrite E. symmetry. apply KI. exact NZ.
Qed.

Definition is_output (c : call) : bool := match c with COutput _ _ => true | _ => false end.

Lemma addOutput_outs s a n h :
  map sym_na (outs (fst (addOutput s a n h))) = map sym_na (outs s) ++ [(cut0 n, a mod 2 ^ sym_atom_bits)].
Proof. unfold addOutput. cbn [fst outs]. rewrite map_app. reflexivity. Qed.

Lemma output_call_shape ext s c s1 out sf :
  is_output c = true -> cv_call ext s c = Ok (s1, out) -> Inv s -> good s1 sf -> next sf <= SMID_MOD ->
  call_shape (img sf) s s1 sf c out.
Proof.
  destruct c; try discriminate. intros _. cbn [cv_call].
  pose proof (makeAtom_shape s cond sf) as MS. pose proof (good_makeAtom s cond true) as GM.
  destruct (makeAtom s cond true) as [[sa a] cs]. cbn [fst snd] in *.
  pose proof (addOutput_outs sa a name true) as AO. pose proof (good_addOutput sa a name true) as GA.
  destruct (addOutput sa a name true) as [s2 nm]. cbn [fst snd] in *.
  intros H HI G HB. inversion H; subst. clear H.
  assert (Ga : good sa sf) by (eapply good_trans; eassumption).
  destruct (MS HI Ga HB) as [HO [F C]].
  assert (Isf : Inv sf).
  { apply (Inv_of_good s sf); [eapply good_trans; eassumption | exact HI | exact HB]. }
  pose proof bits_ok as [BO _]. pose proof consts_ok as [_ [C2 _]].
  assert (OUT : forall y, next_start <= y < SMID_MOD -> y = a ->
            map sym_na (outs s1) = map sym_na (outs s) ++ [(cut0 name, y)]).
  { intros y Ry ->. rewrite AO, HO. rewrite Z.mod_small by lia. reflexivity. }
  destruct C as [[c0 [-> [P0 [-> Ea]]]]|[-> [Ra IA]]].
  - exists None. split; [reflexivity|]. split; [intros _; exists c0; auto|]. split; [exact F|]. split; [exact I|].
    simpl. apply OUT; [|symmetry; exact Ea].
    inversion F as [|? ? F0 _]; subst. replace (Z.abs c0) with c0 in F0 by lia.
    pose proof (inv_rng _ Isf c0 F0). lia.
  - exists (Some a). split; [reflexivity|]. split; [intros; discriminate|]. split; [exact F|].
    pose proof (good_next _ _ GA) as LA.
    split; [split; [lia | exact IA]|].
    simpl. apply OUT; [|reflexivity]. pose proof (inv_lo _ HI). pose proof (good_next _ _ Ga). lia.
Qed.

(* ---- the value of the named atom ---- *)
Lemma rholds_rn_lit m X X' l :
  l <> 0 -> 0 < m (Z.abs l) -> X' (m (Z.abs l)) = X (Z.abs l) -> rholds X' X' (rn_lit m l) = holds X l.
Proof.
  intros Hl Pm E. unfold rholds, holds, rn_lit. destruct (Z.ltb_spec l 0).
  - replace (Z.abs l) with (- l) in * by lia. replace (- m (- l) <? 0) with true by lia.
    rewrite Z.opp_involutive, E. reflexivity.
  - replace (Z.abs l) with l in * by lia. replace (m l <? 0) with false by lia. exact E.
Qed.

Lemma output_value m n cond ann X X' :
  call_wf (COutput n cond) -> mappedA m (COutput n cond) -> ann_ok (COutput n cond) ann ->
  (forall a, m a <> 0 -> 0 < m a) ->
  (forall l, In l cond -> X' (m (Z.abs l)) = X (Z.abs l)) ->
  (forall x, ann = Some x -> X' x = bsat X' X' (BNormal (map (rn_lit m) cond))) ->
  forall nm y, In (nm, y) (symsA m (COutput n cond) ann) -> nm = n /\ X' y = forallb (holds X) cond.
Proof.
  intros [W1 W2] M A Pm AG AX nm y [H|[]]. inversion H; subst. clear H. split; [apply cut0_nul_free; exact W2|].
  simpl in M, A. destruct ann as [x|].
  - rewrite (AX x eq_refl). simpl. clear A AX.
    induction cond as [|l r IH]; [reflexivity|]. simpl.
    inversion W1 as [|? ? Wl Wr]; subst. inversion M as [|? ? Ml Mr]; subst.
    rewrite (rholds_rn_lit m X X' l Wl (Pm _ Ml)) by (apply AG; left; reflexivity).
    rewrite IH; [reflexivity | exact Wr | exact Mr | intros l0 Hl0; apply AG; right; exact Hl0].
  - destruct (A eq_refl) as [c0 [-> P0]]. simpl. inversion W1 as [|? ? Wl _]; subst.
    rewrite andb_true_r. unfold holds. replace (c0 <? 0) with false by lia.
    replace c0 with (Z.abs c0) at 1 2 by lia. apply AG. left; reflexivity.
Qed.

(* ---- flushSymbols: every symbol of output_, each as `output(name, [atom])` ---- *)
Lemma In_sym_ins y x l : In y (sym_ins x l) <-> y = x \/ In y l.
Proof.
  induction l as [|z r IH]; simpl; [intuition|].
  destruct (s_atom x <? s_atom z); simpl; [intuition|]. rewrite IH. intuition.
Qed.
Lemma In_sym_sort y l : In y (sym_sort l) <-> In y l.
Proof.
  unfold sym_sort.
  assert (G : forall acc, In y (fold_left (fun acc x => sym_ins x acc) l acc) <-> In y l \/ In y acc).
  { induction l as [|x r IH]; intros acc; simpl; [intuition|]. rewrite IH, In_sym_ins. intuition. }
  rewrite G. simpl. intuition.
Qed.
Lemma In_flushSymbols s c : In c (flushSymbols s) <-> exists nm y, c = COutput nm [y] /\ In (nm, y) (map sym_na (outs s)).
Proof.
  unfold flushSymbols. rewrite in_map_iff. split.
  - intros [x [<- Hx]]. exists (s_name x), (s_atom x). split; [reflexivity|]. apply (proj1 (In_sym_sort _ _)) in Hx.
    apply (in_map sym_na) in Hx. exact Hx.
  - intros [nm [y [-> H]]]. apply in_map_iff in H as [x [E Hx]]. exists x. inversion E; subst.
    split; [reflexivity | apply In_sym_sort; exact Hx].
Qed.
